(* reads lines "<mode> <hex>", mode in 32|64|128|tag_f|dbl_float|tg ; prints hex of the result *)
open C15_model
let ascii_of_int n =
  let b i = (n lsr i) land 1 = 1 in
  Ascii (b 0, b 1, b 2, b 3, b 4, b 5, b 6, b 7)
let int_of_ascii (Ascii (b0,b1,b2,b3,b4,b5,b6,b7)) =
  let v b i = if b then 1 lsl i else 0 in
  v b0 0 + v b1 1 + v b2 2 + v b3 3 + v b4 4 + v b5 5 + v b6 6 + v b7 7
let decode hex =
  let n = String.length hex / 2 in
  let rec go i acc = if i < 0 then acc else go (i-1) (ascii_of_int (int_of_string ("0x" ^ String.sub hex (2*i) 2)) :: acc) in
  go (n-1) []
let encode l =
  let b = Buffer.create 1024 in
  List.iter (fun c -> Buffer.add_string b (Printf.sprintf "%02x" (int_of_ascii c))) l;
  Buffer.contents b
let str s = decode (String.concat "" (List.map (fun c -> Printf.sprintf "%02x" (Char.code c)) (List.init (String.length s) (String.get s))))
let () =
  try
    while true do
      let line = input_line stdin in
      match String.index_opt line ' ' with
      | None -> print_endline "?"
      | Some i ->
        let mode = String.sub line 0 i and hex = String.sub line (i+1) (String.length line - i - 1) in
        let s = decode hex in
        let out = match mode with
          | "32" -> body P32 s | "64" -> body P64 s | "128" -> body P128 s
          | "tag_f" -> tag_float (str "f") s
          | "dbl_float" -> conv_double (str "float") s
          | "tg" -> fix_tgmath s
          | _ -> s in
        print_endline (encode out)
    done
  with End_of_file -> ()
