(* Extraction of the C15 scanners: ExtrOcamlBasic only (bool, option, list,
   prod, unit, sumbool mapped to OCaml's own types); ascii and nat stay
   inductive.  No Extract Constant / Extract Inductive of our own. *)
Require Extraction.
Require Import ExtrOcamlBasic.
From SM Require Import C15.Model.
Extraction "c15_model.ml" body tag_float conv_double fix_tgmath.
