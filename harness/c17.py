"""C17 — the compiled-model cache always reflects the current sources.

Real edit/load histories on a scratch plug-in (model file + included C file),
same-process and fresh-process loads against one cache directory; every history
is also run in the Coq state machine (C17.Model) and the observations compared.
"""
from __future__ import annotations

import json
import os
import random
import subprocess
import zlib

from . import common
from .common import Finding, coq_list

T0 = 1_500_000_000

WORKER = r"""
import json, re, sys
import numpy as np
from sasmodels.core import load_model
from sasmodels.direct_model import call_kernel
path = sys.argv[1]
for line in sys.stdin:
    cmd = json.loads(line)
    if cmd["op"] == "load":
        m = load_model(path, dtype=cmd["dtype"], platform="dll")
        k = m.make_kernel([np.array([1.0, 2.0, 3.0])])
        r = call_kernel(k, dict(scale=1.0, background=0.0, s=1.0))
        r0 = call_kernel(k, dict(scale=1.0, background=0.0))      # at the DEFAULT of s, which lives in the definition only
        k.release()
        k2 = m.make_kernel([np.array([0.3]), np.array([0.4])])
        r2d = float(call_kernel(k2, dict(scale=1.0, background=0.0, s=1.0))[0])     # 1000.3 iff the definition has its own Iqxy
        k2.release()
        import os
        from sasmodels import generate
        src = generate.make_source(m.info)["dll"]
        tag = generate.tag_source(src)
        mk = re.search(r"VERIF_K (\d+)", src)
        print(json.dumps([float(x) for x in r] + [m.info.id, tag, os.path.basename(m.dllpath), int(mk.group(1)) if mk else -1, float(r0[0] / r[0]), r2d])); sys.stdout.flush()
    elif cmd["op"] == "load_sasview":
        # the same plug-in through the SasView-style entry point (it keeps its own notion of what is loaded)
        import os
        from sasmodels.sasview_model import load_custom_model
        from sasmodels import generate
        Mcls = load_custom_model(sys.argv[2])        # always by file path (this entry point takes no bare names)
        def ev(q, **kw):
            mm = Mcls()
            mm.setParam("scale", 1.0); mm.setParam("background", 0.0)
            for k_, v_ in kw.items():
                mm.setParam(k_, v_)
            return mm.evalDistribution(q)
        r = ev(np.array([1.0, 2.0, 3.0]), s=1.0)
        r0 = ev(np.array([1.0, 2.0, 3.0]))
        r2d = float(ev([np.array([0.3]), np.array([0.4])], s=1.0)[0])
        info = Mcls._model_info
        src = generate.make_source(info)["dll"]
        mk = re.search(r"VERIF_K (\d+)", src)
        print(json.dumps([float(x) for x in r] + [info.id, generate.tag_source(src), None, int(mk.group(1)) if mk else -1, float(r0[0] / r[0]), r2d])); sys.stdout.flush()
    elif cmd["op"] == "quit":
        break
"""


NAMES = ["verif_c17", "verif_c17_" + "long_plugin_name_" * 4 + "x"]      # 9 and 79 characters


def model_text(mid, name="verif_c17"):
    """text `mid` of the model file: the formula constant is mid % 20 and the DEFAULT of the parameter s is
    1 + mid // 20 - two texts 20 apart generate the same C source and differ only in the definition."""
    extra = '    ["extra", "", 0.0, [-10, 10], "", ""],\n' if mid % 2 else ""
    return ('name = "%s"\ntitle = "C17 probe"\ndescription = "text %d"\ncategory = "shape:sphere"\n'
            'parameters = [\n    ["s", "", %d.0, [-10, 10], "", ""],\n%s]\n'
            'source = ["%s_helper.c"]\n'
            'Iq = "return (%d.0*q + helper_value() + VERIF_H*q*q)*s;"\n%s' % (name, mid, 1 + mid // 20, extra, name, mid % 20,
                                                                               'Iqxy = "return 1000.0 + qx;"\n' if has_iqxy(mid) else ""))


def has_iqxy(mid):
    """every fifth formula text defines a 2-D function of its own: a NAME that the texts before and after it do not have"""
    return (mid % 20) % 5 == 0


def c_text(cid):
    return "double helper_value(void);\ndouble helper_value(void) { return %d.0; }\n" % cid


class World:
    """A scratch plug-in plus a private view of the sasmodels package: every file of the package is a symbolic
    link to the tree under test except the two kernel templates, which are copies this history may edit."""
    def __init__(self, root, idx, name="verif_c17", bare=False):
        self.name = name
        self.bare = bare            # load the plug-in by its bare name through SAS_MODELPATH instead of by path
        self.dir = os.path.join(root, "h%d" % idx)
        self.cache = os.path.join(self.dir, "cache")
        os.makedirs(self.cache)
        self.mpath = os.path.join(self.dir, name + ".py")
        self.cpath = os.path.join(self.dir, name + "_helper.c")
        self.wpath = os.path.join(self.dir, "worker.py")
        open(self.wpath, "w").write(WORKER)
        src = os.path.join(common.REPO, "sasmodels")
        self.pkg = os.path.join(self.dir, "pkg")
        dst = os.path.join(self.pkg, "sasmodels")
        os.makedirs(dst)
        for fn in os.listdir(src):
            if fn in ("kernel_header.c", "kernel_iq.c", "__pycache__"):
                continue
            os.symlink(os.path.join(src, fn), os.path.join(dst, fn))
        self.hpath = os.path.join(dst, "kernel_header.c")
        self.kpath = os.path.join(dst, "kernel_iq.c")
        self.hbase = open(os.path.join(src, "kernel_header.c")).read()
        self.kbase = open(os.path.join(src, "kernel_iq.c")).read()
        self.proc = None

    def write(self, path, text, t):
        with open(path, "w") as f:
            f.write(text)
        os.utime(path, (T0 + t, T0 + t))

    def write_file(self, which, tid, t):
        if which == "M":
            self.write(self.mpath, model_text(tid, self.name), t)
        elif which == "C":
            self.write(self.cpath, c_text(tid), t)
        elif which == "H":
            self.write(self.hpath, self.hbase + "\n#define VERIF_H %d.0\n" % tid, t)
        else:
            self.write(self.kpath, "// VERIF_K %d\n" % tid + self.kbase, t)

    def start(self):
        env = dict(os.environ)
        env.update(PYTHONPATH=self.pkg, SAS_DLL_PATH=self.cache, PYTHONHASHSEED="0", SAS_OPENCL="none",
                   PYTHONDONTWRITEBYTECODE="1")
        if self.bare:
            env["SAS_MODELPATH"] = self.dir
        self.proc = subprocess.Popen([common.PY, self.wpath, self.name if self.bare else self.mpath, self.mpath], env=env, stdin=subprocess.PIPE,
                                     stdout=subprocess.PIPE, stderr=subprocess.PIPE, text=True, cwd=self.dir)

    def stop(self):
        if self.proc is not None:
            try:
                self.proc.stdin.write(json.dumps({"op": "quit"}) + "\n"); self.proc.stdin.flush()
                self.proc.wait(timeout=20)
            except Exception:  # noqa
                self.proc.kill()
            self.proc = None

    def load(self, dtype):
        if self.proc is None or self.proc.poll() is not None:
            self.start()
        self.proc.stdin.write(json.dumps({"op": "load_sasview"} if dtype == "sasview" else {"op": "load", "dtype": dtype}) + "\n"); self.proc.stdin.flush()
        line = self.proc.stdout.readline()
        if not line:
            err = self.proc.stderr.read()
            self.proc = None
            return None, err[-800:]
        return json.loads(line), None


FILES = "MCHK"


WRAP_WORKER = r"""
import json, sys
import numpy as np
from sasmodels.core import load_model
from sasmodels.direct_model import call_kernel
base, wrap = sys.argv[1], sys.argv[2]
import os
from sasmodels import custom

def stale(path):
    keys = [k for k in custom._MODULE_CACHE if os.path.basename(k) == os.path.basename(path)]
    return bool(custom.need_reload(keys[0] if keys else path))

for line in sys.stdin:
    cmd = json.loads(line)
    if cmd["op"] == "quit":
        break
    before = [stale(wrap), stale(base)]
    m = load_model(base if cmd["op"] == "load_base" else wrap, dtype="double", platform="dll")
    k = m.make_kernel([np.array([1.0])])
    pars = dict(scale=1.0, background=0.0)
    pars.update(rg=1.0) if cmd["op"] == "load_base" else pars.update(size=1.0)
    print(json.dumps([float(call_kernel(k, pars)[0])] + before)); sys.stdout.flush()
    k.release()
"""
WRAP_BASE = ('from numpy import inf\nname = "verif_c17_base"\ntitle = "C17 base"\ndescription = "a"\ncategory = "shape:sphere"\n'
             'parameters = [["rg", "", 1.0, [-10, 10], "", ""]]\nsource = ["verif_c17_bsrc.c"]\nIq = "return %d.0 + c17_off() + 0.0*q + rg;"\n')
WRAP_SRC = "static double c17_off(void) { return %d.0; }\n"
WRAP_WRAP = ('import os\nfrom numpy import inf\nfrom sasmodels.core import reparameterize\n'
             '_base = os.path.join(os.path.dirname(os.path.abspath(__file__)), "verif_c17_base.py")\n'
             'parameters = [["size", "", 1.0, [-10, 10], "", ""]]\ntranslation = "rg = %d.0*size"\n'
             'model_info = reparameterize(_base, parameters, translation, __file__)\n')


def run_wrapper(root, idx, ops):
    """A plug-in built ON another plug-in (core.reparameterize(base_path, ..., __file__)): histories of
    ("base", A) / ("wrap", F) edits (each advancing its file's time) and loads of the base alone or of the wrapper.
    The base lists a C source of its own (("src", K) edits).  The wrapper evaluates A + K + F at q = 1, size = 1; the base
    alone A + K + 1.  Returns the observations and expectations."""
    d = os.path.join(root, "wr%d" % idx)
    os.makedirs(os.path.join(d, "cache"))
    bpath, wpath, kpath = os.path.join(d, "verif_c17_base.py"), os.path.join(d, "verif_c17_wrap.py"), os.path.join(d, "worker.py")
    open(kpath, "w").write(WRAP_WORKER)
    cur, clock = {"base": 3, "wrap": 2, "src": 0}, {"base": 0, "wrap": 0, "src": 0}
    spath = os.path.join(d, "verif_c17_bsrc.c")

    def put(which, val):
        cur[which] = val
        clock[which] += 3
        path = {"base": bpath, "wrap": wpath, "src": spath}[which]
        open(path, "w").write({"base": WRAP_BASE, "wrap": WRAP_WRAP, "src": WRAP_SRC}[which] % val)
        os.utime(path, (T0 + clock[which], T0 + clock[which]))
    put("src", 0); put("base", 3); put("wrap", 2)
    env = dict(os.environ)
    env.update(PYTHONPATH=common.REPO, SAS_DLL_PATH=os.path.join(d, "cache"), PYTHONHASHSEED="0", SAS_OPENCL="none", PYTHONDONTWRITEBYTECODE="1")
    proc = None
    obs = []
    try:
        for op in ops:
            if op[0] == "edit":
                put(op[1], op[2])
            elif op[0] == "fresh":
                if proc is not None:
                    proc.stdin.write(json.dumps({"op": "quit"}) + "\n"); proc.stdin.flush(); proc.wait(timeout=20); proc = None
            else:
                if proc is None:
                    proc = subprocess.Popen([common.PY, kpath, bpath, wpath], env=env, stdin=subprocess.PIPE, stdout=subprocess.PIPE, stderr=subprocess.PIPE, text=True, cwd=d)
                proc.stdin.write(json.dumps({"op": op[0]}) + "\n"); proc.stdin.flush()
                line = proc.stdout.readline()
                want = float(cur["base"] + cur["src"] + (1 if op[0] == "load_base" else cur["wrap"]))
                got3 = json.loads(line) if line else None
                got = got3[0] if got3 else None
                obs.append(dict(op=op[0], got=got, want=want, files=dict(cur), error=None if line else proc.stderr.read()[-400:],
                                need_reload=got3[1:] if got3 else None))
                if not line:
                    proc = None
        return dict(ops=[list(o) for o in ops], observed=obs)
    finally:
        if proc is not None:
            proc.kill()


def gen_history(rng, n):
    """init = {file: (text id, time)}; ops = ("Edit", file, text id, new time) | ("Load", bits) | ("Fresh",).
    Each file keeps its own clock: an edit advances the time of the file it touches by 1..5 s and says nothing
    about the other files (a newer C file next to an older model file, a template restored with `cp -p`...)."""
    cur = {f: (rng.randint(1, 9), rng.randint(0, 30)) for f in FILES}
    init = dict(cur)
    seen = {f: [cur[f][0]] for f in FILES}
    ops = []
    for _ in range(n):
        r = rng.random()
        if r < 0.45:
            f = rng.choice("MMMCCHK")
            tid = rng.choice(seen[f]) if rng.random() < 0.4 else rng.randint(1, 40)      # revert or new text
            if f == "M" and rng.random() < 0.3:
                # an edit of the definition that leaves the generated C untouched: only the default of s changes
                tid = cur[f][0] % 20 + 20 * rng.choice([k for k in (0, 1, 2) if k != cur[f][0] // 20])
            t = cur[f][1] + rng.choice([1, 1, 2, 5])
            cur[f] = (tid, t); seen[f].append(tid)
            ops.append(("Edit", f, tid, t))
        elif r < 0.53:
            ops.append(("Fresh",))
        else:
            ops.append(("Load", rng.choice([64, 64, 32, 65])))      # 65: double precision through sasview_model.load_custom_model
    ops.append(("Load", 64))
    return init, ops


def run_history(root, idx, init, ops):
    name = NAMES[idx % len(NAMES)] if idx else NAMES[0]     # every other history uses a long plug-in name
    bare = idx % 3 == 2                                     # every third history loads the plug-in by bare name (SAS_MODELPATH)
    w = World(root, idx, name, bare=bare)
    for f in FILES:
        w.write_file(f, init[f][0], init[f][1])
    obs, errors, names = [], [], []
    try:
        for op in ops:
            if op[0] == "Edit":
                w.write_file(op[1], op[2], op[3])
            elif op[0] == "Fresh":
                w.stop()
            elif op[0] == "Load":
                vals, err = w.load("double" if op[1] == 64 else ("sasview" if op[1] == 65 else "single"))
                if vals is None:
                    errors.append(err); obs.append((-1, -1, -1, -1)); continue
                r1, r2, r3 = vals[0], vals[1], vals[2]        # r(q) = M q + C + H q^2 at q = 1, 2, 3
                h = (r3 - 2 * r2 + r1) / 2.0
                m = r2 - r1 - 3 * h
                c = r1 - m - h
                if vals[5] is not None:
                    names.append((str(op[1]), vals[3], vals[4], vals[5]))
                mid_obs = int(round(m)) + 20 * (int(round(vals[7])) - 1)
                used_iqxy = vals[8] > 900.0
                if used_iqxy != has_iqxy(mid_obs):
                    # the 2-D evaluation used a function the loaded text does not define (or ignored one it defines): not
                    # the definition in any file - reported as an impossible text id
                    mid_obs += 100 if used_iqxy else 200
                obs.append((mid_obs, int(round(c)), int(round(h)), int(vals[6])))
        libs = sorted(f for f in os.listdir(w.cache) if f.endswith(".so"))
        return dict(init={f: list(v) for f, v in init.items()}, ops=[list(o) for o in ops], observed=obs, libs=libs, errors=errors, plugin_name=name, names=names,
                    loaded_by="bare name via SAS_MODELPATH" if bare else "path")
    finally:
        w.stop()


class Untranslatable(Exception):
    pass


def _translate_caches():
    """The staleness decisions of the two in-process caches, read from the current text (fail-closed Python-ast walk):
    custom.need_reload / load_custom_kernel_module (one stamp per dependency? which comparison?) and
    generate.load_template (which comparison?).  Returns (per_file, module_cmp, template_cmp) with the comparisons as
    Coq terms in [stamp] and [mtime]."""
    import ast

    def fns(rel):
        tree = ast.parse(open(os.path.join(common.REPO, "sasmodels", *rel)).read())
        return {n.name: n for n in tree.body if isinstance(n, ast.FunctionDef)}

    def cmp_term(node, stamp_txt, mtime_txt):
        if not (isinstance(node, ast.Compare) and len(node.ops) == 1):
            raise Untranslatable("not a single comparison: %s" % ast.unparse(node))
        l, r, op = ast.unparse(node.left), ast.unparse(node.comparators[0]), type(node.ops[0])
        table = {(stamp_txt, mtime_txt, ast.Lt): "Nat.ltb stamp mtime", (mtime_txt, stamp_txt, ast.Gt): "Nat.ltb stamp mtime",
                 (stamp_txt, mtime_txt, ast.LtE): "Nat.leb stamp mtime", (mtime_txt, stamp_txt, ast.GtE): "Nat.leb stamp mtime",
                 (stamp_txt, mtime_txt, ast.NotEq): "negb (Nat.eqb stamp mtime)", (mtime_txt, stamp_txt, ast.NotEq): "negb (Nat.eqb stamp mtime)"}
        if (l, r, op) not in table:
            raise Untranslatable("comparison %s" % ast.unparse(node))
        return table[(l, r, op)]
    cu = fns(("custom", "__init__.py"))
    if "need_reload" not in cu or "load_custom_kernel_module" not in cu:
        raise Untranslatable("need_reload / load_custom_kernel_module not found")
    body = [b for b in cu["need_reload"].body if not (isinstance(b, ast.Expr) and isinstance(b.value, ast.Constant))]
    txt = [ast.unparse(b) for b in body]
    if txt[:2] != ["_, cache_times = _MODULE_CACHE.get(path, (None, {}))", "depends = _MODULE_DEPENDS.get(path, [path])"] or len(body) != 3:
        raise Untranslatable("need_reload: %s" % txt)
    ret = body[2]
    ok = isinstance(ret, ast.Return) and isinstance(ret.value, ast.Call) and ast.unparse(ret.value.func) == "any" and len(ret.value.args) == 1 \
        and isinstance(ret.value.args[0], ast.GeneratorExp) and ast.unparse(ret.value.args[0].generators[0]).strip() == "for p in depends"
    if not ok:
        raise Untranslatable("need_reload does not return any(... for p in depends)")
    module_cmp = cmp_term(ret.value.args[0].elt, "cache_times.get(p, -1)", "os.path.getmtime(p)")
    ltxt = ast.unparse(cu["load_custom_kernel_module"])
    if "_MODULE_CACHE[path] = (module, timestamps)" not in ltxt or "if need_reload(path):" not in ltxt or "return _MODULE_CACHE[path][0]" not in ltxt:
        raise Untranslatable("load_custom_kernel_module does not cache (module, timestamps) under need_reload")
    if "timestamps = dict(((f, os.path.getmtime(f)) for f in _MODULE_DEPENDS[path]))" in ltxt:
        per_file = True
    elif "timestamps" in ltxt and "max(" in ltxt:
        per_file = False
    else:
        raise Untranslatable("how the cache stamps are taken")
    ge = fns(("generate.py",))
    if "load_template" not in ge:
        raise Untranslatable("load_template not found")
    body = [b for b in ge["load_template"].body if not (isinstance(b, ast.Expr) and isinstance(b.value, ast.Constant))]
    txt = [ast.unparse(b) for b in body]
    if len(body) != 4 or txt[0] != "path = joinpath(DATA_PATH, filename)" or txt[1] != "mtime = getmtime(path)" or txt[3] != "return (_template_cache[filename][1], path)" \
            or not isinstance(body[2], ast.If) or body[2].orelse \
            or [ast.unparse(b) for b in body[2].body] != ["with open(path) as fid:\n    _template_cache[filename] = (mtime, fid.read(), path)"]:
        raise Untranslatable("load_template: %s" % txt)
    test = body[2].test
    if not (isinstance(test, ast.BoolOp) and isinstance(test.op, ast.Or) and len(test.values) == 2 and ast.unparse(test.values[0]) == "filename not in _template_cache"):
        raise Untranslatable("load_template test: %s" % ast.unparse(test))
    template_cmp = cmp_term(test.values[1], "_template_cache[filename][0]", "mtime")
    return per_file, module_cmp, template_cmp


def _translate_nested():
    """Where load_custom_kernel_module hands the dependencies of a module to the module that is being loaded on top of
    it: after the reload branch (True: whether or not the child had to be reloaded) or inside it (False).  The order
    of the reload branch itself (dependencies reset to the module's own file, push, execute, pop, ..., stamps) is
    required as is (Untranslatable otherwise)."""
    import ast
    tree = ast.parse(open(os.path.join(common.REPO, "sasmodels", "custom", "__init__.py")).read())
    fn = [n for n in tree.body if isinstance(n, ast.FunctionDef) and n.name == "load_custom_kernel_module"]
    if len(fn) != 1:
        raise Untranslatable("load_custom_kernel_module not found")
    body = [b for b in fn[0].body if not (isinstance(b, ast.Expr) and isinstance(b.value, ast.Constant))]
    ifs = [b for b in body if isinstance(b, ast.If)]
    if not ifs or ast.unparse(ifs[0].test) != "need_reload(path)" or ifs[0].orelse:
        raise Untranslatable("no 'if need_reload(path):' statement")
    hand = ["working_on = _MODULE_DEPENDS_STACK[-1]", "_MODULE_DEPENDS[working_on].update(_MODULE_DEPENDS[path])"]

    def is_handoff(b):
        return isinstance(b, ast.If) and ast.unparse(b.test) == "_MODULE_DEPENDS_STACK" and not b.orelse and [ast.unparse(x) for x in b.body] == hand
    rb = [ast.unparse(b) for b in ifs[0].body if not is_handoff(b)]
    want = ["_MODULE_DEPENDS[path] = set([path])", "_MODULE_DEPENDS_STACK.append(path)", "module = load_module_from_path('sasmodels.custom.' + name, path)",
            "_MODULE_DEPENDS_STACK.pop()"]
    if rb[:4] != want or rb[-1] != "_MODULE_CACHE[path] = (module, timestamps)" \
            or not any(t == "timestamps = dict(((f, os.path.getmtime(f)) for f in _MODULE_DEPENDS[path]))" for t in rb[4:-1]):
        raise Untranslatable("reload branch: %s" % rb)
    if any("_MODULE_DEPENDS_STACK" in t or "need_reload" in t for t in rb[4:]):
        raise Untranslatable("reload branch touches the stack again")
    if ast.unparse(body[-1]) != "return _MODULE_CACHE[path][0]":
        raise Untranslatable("return statement")
    top = [b for b in body if is_handoff(b)]
    inside = [b for b in ifs[0].body if is_handoff(b)]
    others = [b for b in ast.walk(fn[0]) if isinstance(b, ast.If) and "_MODULE_DEPENDS_STACK" in ast.unparse(b.test) and not is_handoff(b)]
    if others or len(top) + len(inside) != 1:
        raise Untranslatable("hand-off of the dependencies to the parent module not recognised")
    if top and not (body.index(top[0]) == body.index(ifs[0]) + 1 and body.index(top[0]) == len(body) - 2):
        raise Untranslatable("hand-off is not the statement between the reload branch and the return")
    if inside and ifs[0].body[-1] is not inside[0]:
        raise Untranslatable("hand-off inside the reload branch is not its last statement")
    return bool(top)


def gen():
    """Regenerate Gen/C17_code.v from the text of custom/__init__.py and generate.py."""
    lines = ["(* GENERATED by harness/c17.py from sasmodels/custom/__init__.py (need_reload, load_custom_kernel_module) and sasmodels/generate.py (load_template) *)",
             "From Coq Require Import Arith Bool.", ""]
    note = None
    try:
        per_file, mcmp, tcmp = _translate_caches()
        always = _translate_nested()
    except (Untranslatable, OSError, SyntaxError) as exc:
        note = "%s: %s" % (type(exc).__name__, exc)
        per_file, mcmp, tcmp, always = True, "Nat.ltb stamp mtime", "Nat.ltb stamp mtime", True
    lines.append("Definition translated : bool := %s." % ("true" if note is None else "false"))
    if note:
        lines.append("(* not translated: %s *)" % note.replace("*)", "* )"))
    lines += ["(* one cache stamp per dependency (true) or a single newest-of-all stamp (false) *)",
              "Definition code_per_file : bool := %s." % ("true" if per_file else "false"),
              "(* a cached module is stale for a dependency when ... *)",
              "Definition code_module_stale (stamp mtime : nat) : bool := %s." % mcmp,
              "(* a cached template is stale when ... *)",
              "Definition code_template_stale (stamp mtime : nat) : bool := %s." % tcmp,
              "(* a module hands its dependencies to the module being loaded on top of it after the reload branch - whether or not it",
              "   had to be reloaded itself (true) - or only inside the reload branch (false) *)",
              "Definition code_handoff_always : bool := %s." % ("true" if always else "false"), ""]
    common.write_if_changed(os.path.join(common.THEORIES, "Gen", "C17_code.v"), "\n".join(lines))
    return note


def main(run):
    rng = random.Random(run.seed * 271 + 17)
    thorough = run.tier == "thorough"
    note = []
    run.prove(["C17/Property.v", "C17/Nested.v"], gen=lambda: note.append(gen()))
    if note and note[0]:
        run.notes.append("cache decisions not translated (%s): the source-text obligations C17_code_* are vacuous in this run, the behavioural tie decides" % note[0])
    else:
        run.notes.append("the staleness decisions of need_reload / load_custom_kernel_module / load_template translated from the current text (Gen/C17_code.v) and proved to be the model's (C17_code_decisions), so C17_load_current speaks about the code's decisions")
    root = run.scratch.sub("c17")
    hist = []
    # corpus: constant change, included-file change, precision switch, revert, fresh process, template edits; then the
    # histories that need per-file times: a model file older than its C file is edited (its own time advances, still
    # older than the C file's); one template is edited while the other one stays newer
    hist.append((dict(M=(3, 0), C=(5, 0), H=(1, 0), K=(1, 0)),
                 [("Load", 64), ("Edit", "M", 4, 1), ("Load", 64), ("Edit", "C", 7, 2), ("Load", 64), ("Load", 32),
                  ("Edit", "M", 3, 3), ("Edit", "C", 5, 4), ("Load", 64), ("Fresh",), ("Edit", "C", 9, 5), ("Load", 32), ("Load", 64),
                  ("Edit", "H", 2, 6), ("Load", 64), ("Edit", "K", 6, 7), ("Load", 64), ("Edit", "H", 1, 8), ("Load", 32)]))
    hist.append((dict(M=(3, 1), C=(5, 9), H=(1, 0), K=(1, 0)),
                 [("Load", 64), ("Edit", "M", 4, 2), ("Load", 64), ("Edit", "M", 6, 3), ("Load", 32), ("Edit", "C", 8, 10), ("Load", 64)]))
    hist.append((dict(M=(2, 0), C=(2, 0), H=(1, 3), K=(1, 20)),
                 [("Load", 64), ("Edit", "H", 3, 4), ("Load", 64), ("Edit", "H", 7, 5), ("Load", 64), ("Edit", "K", 5, 21), ("Load", 64),
                  ("Edit", "H", 5, 6), ("Load", 32), ("Load", 64)]))
    hist.append((dict(M=(2, 0), C=(2, 0), H=(1, 30), K=(1, 2)),
                 [("Load", 64), ("Edit", "K", 3, 3), ("Load", 64), ("Edit", "K", 4, 4), ("Load", 64)]))
    # ... an edit that REMOVES a definition from the model file (a text with a 2-D function of its own, then one without,
    # then the first again) and one that only changes a default back and forth, all in one process
    hist.append((dict(M=(4, 0), C=(3, 0), H=(1, 0), K=(1, 0)),
                 [("Load", 64), ("Edit", "M", 5, 1), ("Load", 64), ("Edit", "M", 4, 2), ("Load", 64), ("Edit", "M", 45, 3), ("Load", 64),
                  ("Edit", "M", 6, 4), ("Load", 64), ("Edit", "M", 26, 5), ("Load", 64), ("Edit", "M", 6, 6), ("Load", 32)]))
    # ... the two entry points in one process: the SasView-style loader, an edit, the core loader, the SasView-style
    # loader again (and the other way round)
    hist.append((dict(M=(2, 0), C=(4, 0), H=(1, 0), K=(1, 0)),
                 [("Load", 65), ("Edit", "M", 7, 1), ("Load", 64), ("Load", 65), ("Edit", "C", 9, 2), ("Load", 64), ("Load", 65),
                  ("Edit", "M", 27, 3), ("Load", 65), ("Load", 64), ("Edit", "M", 2, 4), ("Load", 64), ("Load", 65)]))
    # ... and the recorded finding K17-sasview-template, every run: the SasView-style loader, a template edit, the same loader
    hist.append((dict(M=(3, 0), C=(2, 0), H=(1, 0), K=(1, 0)), [("Load", 65), ("Edit", "H", 4, 1), ("Load", 65)]))
    n = 8 if not thorough else 110
    for _ in range(n):
        hist.append(gen_history(rng, rng.randint(4, 12)))
    # plug-ins built on plug-ins: the base loaded alone first, the wrapper edited and reloaded, then the base edited ...
    whist = [[("load_base",), ("load_wrap",), ("edit", "base", 5), ("load_wrap",), ("edit", "base", 3), ("load_wrap",), ("load_base",)],
             [("load_wrap",), ("edit", "base", 6), ("load_wrap",), ("edit", "wrap", 4), ("load_wrap",), ("edit", "base", 7), ("load_wrap",), ("edit", "base", 6), ("load_wrap",),
              ("fresh",), ("load_wrap",)],
             # the C source the base lists: edited after the base was loaded alone and the wrapper on top of it
             [("load_base",), ("load_wrap",), ("edit", "src", 4), ("load_wrap",), ("load_base",), ("edit", "src", 1), ("load_base",), ("load_wrap",), ("fresh",), ("edit", "src", 2), ("load_wrap",)]]
    for _ in range(2 if not thorough else 12):
        h_ = []
        for _k in range(rng.randint(4, 9)):
            r_ = rng.random()
            h_.append(("edit", rng.choice(["base", "base", "wrap", "src"]), rng.randint(1, 9)) if r_ < 0.45 else (("fresh",) if r_ < 0.52 else (rng.choice(["load_wrap", "load_wrap", "load_base"]),)))
        whist.append(h_ + [("load_wrap",)])
    wres = [run_wrapper(root, i_, h_) for i_, h_ in enumerate(whist)]
    from concurrent.futures import ThreadPoolExecutor
    with ThreadPoolExecutor(max_workers=8) as ex:
        res = list(ex.map(lambda a: run_history(root, a[0], a[1][0], a[1][1]), enumerate(hist)))
    stats = dict(histories=len(res), ops={}, loads=0, fresh=0, reverts=0, libs=0, edits_by_file={}, edits_not_newest=0)
    distinct = set()
    stats["wrapper_histories"] = len(wres); stats["wrapper_loads"] = 0
    for wr in wres:
        for k_, o_ in enumerate(wr["observed"]):
            stats["wrapper_loads"] += 1
            if o_["got"] is None or abs(o_["got"] - o_["want"]) > 1e-9:
                nload = [i for i, op in enumerate(wr["ops"]) if op[0].startswith("load")][k_]
                run.add(Finding("C17:wrapper", "a plug-in built on another plug-in, history %s: %s returned %r, the files (base constant %d, its C source %d, wrapper factor %d) give %r%s" % (
                    wr["ops"][:nload + 1], o_["op"], o_["got"], o_["files"]["base"], o_["files"]["src"], o_["files"]["wrap"], o_["want"], (" (" + o_["error"][-200:] + ")") if o_["error"] else ""), dict(wr)))
                break
        else:
            distinct.add(("wrapper", json.dumps(wr["ops"])))
    pool = set()
    for r in res:
        desc = dict(r)
        cur = {f: r["init"][f][0] for f in FILES}
        tim = {f: r["init"][f][1] for f in FILES}
        pool.add(tuple(cur[f] for f in FILES))
        seen = [tuple(cur[f] for f in FILES)]
        k = 0
        for oi, op in enumerate(r["ops"]):
            stats["ops"][op[0]] = stats["ops"].get(op[0], 0) + 1
            if op[0] == "Edit":
                cur[op[1]] = op[2]; tim[op[1]] = op[3]
                stats["edits_by_file"][op[1]] = stats["edits_by_file"].get(op[1], 0) + 1
                if op[3] <= max(v for f, v in tim.items() if f != op[1]):
                    stats["edits_not_newest"] += 1         # the edited file is not the newest file afterwards
                pool.add(tuple(cur[f] for f in FILES))
            elif op[0] == "Load":
                got = r["observed"][k]; k += 1
                stats["loads"] += 1
                now = tuple(cur[f] for f in FILES)
                if now in seen[:-1] and now != seen[-1]:
                    stats["reverts"] += 1
                seen.append(now)
                if tuple(got) == (-1, -1, -1, -1):
                    run.add(Finding("C17:load-error", "history %s: load raised: %s" % (r["ops"], r["errors"][:1]), desc))
                    break
                if tuple(got) != now:
                    if op[1] == 65 and tuple(got)[:2] == now[:2]:
                        # recorded finding K17-sasview-template: the SasView-style loader keeps the compiled kernel of its
                        # cached class when only a kernel TEMPLATE changed (the plug-in module itself was not reloaded)
                        run.add(Finding("C17:stale:sasview-template", "after history %s: sasview_model.load_custom_model evaluated kernel templates %s, the files hold %s (definition and included C file are current)" % (
                            r["ops"][:oi + 1], list(got)[2:], list(now)[2:]), desc))
                        r["known_template_staleness"] = True
                        break
                    run.add(Finding("C17:stale", "after history %s (initial files %s) the load evaluated (model, C, kernel_header, kernel_iq) texts %s but the files hold %s" % (
                        r["ops"][:oi + 1], r["init"], list(got), list(now)), desc))
                    break
        distinct.add(json.dumps(r["ops"]))
        stats["loaded_by_bare_name"] = stats.get("loaded_by_bare_name", 0) + int(r["loaded_by"] != "path")
        stats["libs"] += len(r["libs"])
        run.sample(dict(init=r["init"], ops=r["ops"], observed=r["observed"], libraries=r["libs"]))
    # tag-injectivity check on the explored sources
    tagmap = {}
    for quad in sorted(pool):
        t = "%08X" % (0xffffffff & zlib.crc32((model_text(quad[0]) + c_text(quad[1]) + "H%d K%d" % (quad[2], quad[3])).encode()))
        if t in tagmap and tagmap[t] != quad:
            run.notes.append("CRC32 collision among probe texts %s and %s (hypothesis of C17_load_current not met for this pool)" % (tagmap[t], quad))
        tagmap[t] = quad
    traces = 0
    if not run.proof_broken():
        def opc(o):
            if o[0] == "Edit":
                return "Edit%s %d %d" % (o[1], o[2], o[3])
            return "Fresh" if o[0] == "Fresh" else "Load %d" % (64 if o[1] == 65 else o[1])
        res_all = res
        res = [r for r in res_all if not r.get("known_template_staleness")]     # (reported above as the recorded finding)
        body = ";\n".join("(%s, %s, %s, %s)" % (
            ", ".join("MkFile %d %d" % tuple(r["init"][f]) for f in FILES), coq_list(["(%s)" % opc(o) for o in r["ops"]], "op"),
            coq_list(["(%d, %d, %d, %d)" % tuple(x) for x in r["observed"]], "(nat * nat * nat * nat)"), len(r["libs"])) for r in res)
        text = ("From Coq Require Import List Arith.\nImport ListNotations.\nFrom SM Require Import C17.Model C17.Exec.\n"
                "Definition cases : list Case := [\n%s\n].\nEval vm_compute in (check_cases cases).\n" % body)
        rc, vals, err = common.run_coq_shards([text], run.scratch.sub("coq"), prefix="c17")[0]
        if rc != 0 or not vals:
            run.add(Finding("corr:C17:coq", "correspondence failed to evaluate: %s" % err[-300:], {"correspondence": "C17.Exec.check_cases", "stderr": err[-1500:]}, no_input=True))
        else:
            traces = len(res)
            for i in vals[0]:
                r = res[i]
                run.add(Finding("C17:corr", "history %s from %s: observations %s / %d libraries differ from the cache model" % (r["ops"], r["init"], r["observed"], len(r["libs"])), dict(r)))
    # the dependency bookkeeping model (C17.Nested) against custom.need_reload as observed just before every load of the
    # wrapper histories: module 0 = the wrapper, module 1 = the base it is built on, file 2 = the C source the base lists
    wok = [wr for wr in wres if all(o_.get("need_reload") is not None for o_ in wr["observed"])]
    if wok and not run.proof_broken():
        def nop(o):
            return "Restart" if o[0] == "fresh" else ("Edit %d 2" % {"wrap": 0, "base": 1, "src": 2}[o[1]] if o[0] == "edit" else "Load %d" % (1 if o[0] == "load_base" else 0))
        body = ";\n".join("(%s, %s)" % (coq_list(["(%s)" % nop(o) for o in wr["ops"]], "op"),
                                        coq_list(["(%s, %s)" % tuple(str(bool(b)).lower() for b in o_["need_reload"]) for o_ in wr["observed"]], "(bool * bool)")) for wr in wok)
        text = ("From Coq Require Import List Bool.\nImport ListNotations.\nFrom SM Require Import C17.Nested Gen.C17_code.\n"
                "Eval vm_compute in (check_from (fun m => if Nat.eqb m 1 then [2] else []) code_handoff_always 0 [\n%s\n]).\n" % body)
        rc, vals, err = common.run_coq_shards([text], run.scratch.sub("coqw"), prefix="c17w")[0]
        if rc != 0 or not vals:
            run.add(Finding("corr:C17:nested", "nested-dependency correspondence failed to evaluate: %s" % err[-300:], {"correspondence": "C17.Nested.check_from", "stderr": err[-1500:]}, no_input=True))
        else:
            stats["nested_model_traces"] = len(wok)
            stats["nested_model_decisions"] = sum(len(wr["observed"]) for wr in wok)
            for i in vals[0]:
                wr = wok[i]
                run.add(Finding("C17:corr:nested", "wrapper history %s: custom.need_reload (wrapper, base) before each load was %s - not what the dependency model (C17.Nested) computes" % (
                    wr["ops"], [o_["need_reload"] for o_ in wr["observed"]]), dict(wr)))
    # library file names: "sas<bits>_<id>_<tag>.so" as C17.Names.lib_basename builds it
    allnames = sorted({tuple(x) for r in res for x in r.get("names", [])})
    stats["library_names"] = len(allnames)
    if allnames and not run.proof_broken():
        import ctypes
        arch = "" if ctypes.sizeof(ctypes.c_void_p) > 4 else "x86"
        body = "; ".join('("%s", "%s", "%s", "%s", "%s")' % (b, i, t, arch + ".so", o) for b, i, t, o in allnames)
        text = ("From Coq Require Import List String.\nImport ListNotations.\nOpen Scope string_scope.\nFrom SM Require Import C17.Names C17.Exec.\n"
                "Eval vm_compute in (check_names [%s]).\n" % body)
        rc, vals, err = common.run_coq_shards([text], run.scratch.sub("coqn"), prefix="c17n")[0]
        if rc != 0 or not vals:
            run.add(Finding("corr:C17:names", "name correspondence failed to evaluate: %s" % err[-300:], {"correspondence": "C17.Exec.check_names", "stderr": err[-1500:]}, no_input=True))
        else:
            for i in vals[0]:
                b, mid, t, o = allnames[i]
                run.add(Finding("C17:libname", "the %s-bit library of model %r with source tag %s is cached as %r, not under the name that carries its key (sas%s_%s_%s.so): different sources can share a library" % (
                    b, mid, t, o, b, mid, t), dict(bits=b, model_id=mid, tag=t, observed=o)))
    run.coverage.update(evaluations=stats["loads"], distinct_nontrivial=len(distinct), traces_validated_against_impl=traces,
                        input_distribution=stats)
    run.assumptions += ["every edit advances the modification time of the file it touches by 1..5 s (os.utime); the times of different files are unrelated",
                        "the worker imports sasmodels through a directory of symbolic links to the tree under test in which only kernel_header.c and kernel_iq.c are private copies that the history edits",
                        "hypothesis tag_injective of C17_load_current: checked on the probe texts of this run (CRC32 over model+C text)"]
    run.finish_args = dict(level="proof",
                           rule="edit/load/evaluate histories (4-19 ops) over four files with independent clocks: new or reverted model text (constant + parameter table variant), included C text, kernel_header.c text, kernel_iq.c text; loads in double/single precision, process restarts; distinct = distinct op sequences",
                           trusted=["harness/c17.py (probe plug-in whose result encodes which texts were compiled)"])
