"""C17 — the compiled-model cache always reflects the current sources.

Real edit/load histories on a scratch plug-in (model file + included C file),
same-process and fresh-process loads against one cache directory; every history
is also run in the Coq state machine (C17.Model) and the observations compared.
"""
from __future__ import annotations

import json
import os
import random
import subprocess
import zlib

from . import common
from .common import Finding, coq_list

T0 = 1_500_000_000

WORKER = r'''
import json, sys
import numpy as np
from sasmodels.core import load_model
from sasmodels.direct_model import call_kernel
path = sys.argv[1]
for line in sys.stdin:
    cmd = json.loads(line)
    if cmd["op"] == "load":
        m = load_model(path, dtype=cmd["dtype"], platform="dll")
        k = m.make_kernel([np.array([1.0, 2.0])])
        r = call_kernel(k, dict(scale=1.0, background=0.0))
        k.release()
        import os
        from sasmodels import generate
        tag = generate.tag_source(generate.make_source(m.info)["dll"])
        print(json.dumps([float(x) for x in r] + [m.info.id, tag, os.path.basename(m.dllpath)])); sys.stdout.flush()
    elif cmd["op"] == "quit":
        break
'''


NAMES = ["verif_c17", "verif_c17_" + "long_plugin_name_" * 4 + "x"]      # 9 and 79 characters


def model_text(mid, name="verif_c17"):
    extra = '    ["extra", "", 0.0, [-10, 10], "", ""],\n' if mid % 2 else ""
    return ('name = "%s"\ntitle = "C17 probe"\ndescription = "text %d"\ncategory = "shape:sphere"\n'
            'parameters = [\n    ["s", "", 1.0, [-10, 10], "", ""],\n%s]\n'
            'source = ["%s_helper.c"]\n'
            'Iq = "return %d.0*q + helper_value();"\n' % (name, mid, extra, name, mid))


def c_text(cid):
    return "double helper_value(void);\ndouble helper_value(void) { return %d.0; }\n" % cid


class World:
    def __init__(self, root, idx, name="verif_c17"):
        self.name = name
        self.dir = os.path.join(root, "h%d" % idx)
        self.cache = os.path.join(self.dir, "cache")
        os.makedirs(self.cache)
        self.mpath = os.path.join(self.dir, name + ".py")
        self.cpath = os.path.join(self.dir, name + "_helper.c")
        self.wpath = os.path.join(self.dir, "worker.py")
        open(self.wpath, "w").write(WORKER)
        self.clock = 0
        self.proc = None

    def write(self, path, text):
        with open(path, "w") as f:
            f.write(text)
        t = T0 + self.clock
        os.utime(path, (t, t))

    def start(self):
        env = dict(os.environ)
        env.update(PYTHONPATH=common.REPO, SAS_DLL_PATH=self.cache, PYTHONHASHSEED="0", SAS_OPENCL="none",
                   PYTHONDONTWRITEBYTECODE="1")
        self.proc = subprocess.Popen([common.PY, self.wpath, self.mpath], env=env, stdin=subprocess.PIPE,
                                     stdout=subprocess.PIPE, stderr=subprocess.PIPE, text=True, cwd=self.dir)

    def stop(self):
        if self.proc is not None:
            try:
                self.proc.stdin.write(json.dumps({"op": "quit"}) + "\n"); self.proc.stdin.flush()
                self.proc.wait(timeout=20)
            except Exception:  # noqa
                self.proc.kill()
            self.proc = None

    def load(self, dtype):
        if self.proc is None or self.proc.poll() is not None:
            self.start()
        self.proc.stdin.write(json.dumps({"op": "load", "dtype": dtype}) + "\n"); self.proc.stdin.flush()
        line = self.proc.stdout.readline()
        if not line:
            err = self.proc.stderr.read()
            self.proc = None
            return None, err[-800:]
        return json.loads(line), None


def gen_history(rng, n):
    ops = []
    m, c = rng.randint(1, 9), rng.randint(1, 9)
    seen_m, seen_c = [m], [c]
    init = (m, c)
    for _ in range(n):
        r = rng.random()
        if r < 0.22:
            m = rng.choice(seen_m) if rng.random() < 0.4 else rng.randint(1, 40)   # revert or new text
            seen_m.append(m); ops.append(("EditM", m))
        elif r < 0.40:
            c = rng.choice(seen_c) if rng.random() < 0.4 else rng.randint(1, 40)
            seen_c.append(c); ops.append(("EditC", c))
        elif r < 0.50:
            ops.append(("Fresh",))
        else:
            ops.append(("Load", rng.choice([64, 64, 32])))
    ops.append(("Load", 64))
    return init, ops


def run_history(root, idx, init, ops):
    name = NAMES[idx % len(NAMES)] if idx else NAMES[0]     # every other history uses a long plug-in name
    w = World(root, idx, name)
    w.write(w.mpath, model_text(init[0], name))
    w.write(w.cpath, c_text(init[1]))
    obs, errors, sources, names = [], [], set(), []
    cur_m, cur_c = init
    try:
        for op in ops:
            if op[0] == "EditM":
                w.clock += 1; cur_m = op[1]; w.write(w.mpath, model_text(op[1], name))
            elif op[0] == "EditC":
                w.clock += 1; cur_c = op[1]; w.write(w.cpath, c_text(op[1]))
            elif op[0] == "Fresh":
                w.stop()
            elif op[0] == "Load":
                vals, err = w.load("double" if op[1] == 64 else "single")
                if vals is None:
                    errors.append(err); obs.append((-1, -1)); continue
                names.append((str(op[1]), vals[2], vals[3], vals[4]))
                a = vals[1] - vals[0]
                b = 2 * vals[0] - vals[1]
                obs.append((int(round(a)), int(round(b))))
                sources.add((cur_m, cur_c))
        libs = sorted(f for f in os.listdir(w.cache) if f.endswith(".so"))
        return dict(init=list(init), ops=[list(o) for o in ops], observed=obs, libs=libs, errors=errors, plugin_name=name, names=names)
    finally:
        w.stop()


def main(run):
    rng = random.Random(run.seed * 271 + 17)
    thorough = run.tier == "thorough"
    run.prove(["C17/Property.v"])
    root = run.scratch.sub("c17")
    hist = []
    # corpus: constant change, included-file change, precision switch, revert, fresh process
    hist.append(((3, 5), [("Load", 64), ("EditM", 4), ("Load", 64), ("EditC", 7), ("Load", 64), ("Load", 32),
                          ("EditM", 3), ("EditC", 5), ("Load", 64), ("Fresh",), ("EditC", 9), ("Load", 32), ("Load", 64)]))
    n = 9 if not thorough else 110
    for _ in range(n):
        hist.append(gen_history(rng, rng.randint(4, 12)))
    from concurrent.futures import ThreadPoolExecutor
    with ThreadPoolExecutor(max_workers=8) as ex:
        res = list(ex.map(lambda a: run_history(root, a[0], a[1][0], a[1][1]), enumerate(hist)))
    # the named hypothesis of C17_load_current, checked on the sources of the explored histories:
    # distinct generated sources must have distinct tags
    from sasmodels import generate
    tags = {}
    stats = dict(histories=len(res), ops={}, loads=0, fresh=0, reverts=0, libs=0)
    distinct = set()
    for r in res:
        desc = dict(r)
        cur = list(r["init"])
        seen = [tuple(cur)]
        k = 0
        for oi, op in enumerate(r["ops"]):
            stats["ops"][op[0]] = stats["ops"].get(op[0], 0) + 1
            if op[0] == "EditM":
                cur[0] = op[1]
            elif op[0] == "EditC":
                cur[1] = op[1]
            elif op[0] == "Load":
                got = r["observed"][k]; k += 1
                stats["loads"] += 1
                if tuple(cur) in seen[:-1] and tuple(cur) != seen[-1]:
                    stats["reverts"] += 1
                seen.append(tuple(cur))
                if got == (-1, -1):
                    run.add(Finding("C17:load-error", "history %s: load raised: %s" % (r["ops"], r["errors"][:1]), desc))
                    break
                if tuple(got) != tuple(cur):
                    run.add(Finding("C17:stale", "after history %s the load evaluated model text %d / C text %d but the files hold %d / %d" % (
                        r["ops"][:oi + 1], got[0], got[1], cur[0], cur[1]), desc))
                    break
        distinct.add(json.dumps(r["ops"]))
        stats["libs"] += len(r["libs"])
        run.sample(dict(init=r["init"], ops=r["ops"], observed=r["observed"], libraries=r["libs"]))
    # tag-injectivity check on the explored sources
    pool = set()
    for r in res:
        cur = list(r["init"])
        pool.add(tuple(cur))
        for op in r["ops"]:
            if op[0] == "EditM":
                cur[0] = op[1]
            if op[0] == "EditC":
                cur[1] = op[1]
            pool.add(tuple(cur))
    tagmap = {}
    for (m, c) in sorted(pool):
        t = "%08X" % (0xffffffff & zlib.crc32((model_text(m) + c_text(c)).encode()))
        if t in tagmap and tagmap[t] != (m, c):
            run.notes.append("CRC32 collision among probe texts %s and %s (hypothesis of C17_load_current not met for this pool)" % (tagmap[t], (m, c)))
        tagmap[t] = (m, c)
    traces = 0
    if not run.proof_broken():
        def opc(o):
            return {"EditM": "EditM %d", "EditC": "EditC %d", "Load": "Load %d"}.get(o[0], "Fresh") % tuple(o[1:]) if o[0] != "Fresh" else "Fresh"
        body = ";\n".join("(%d, %d, 1, %s, %s, %d)" % (
            r["init"][0], r["init"][1], coq_list(["(%s)" % opc(o) for o in r["ops"]], "op"),
            coq_list(["(%d, %d)" % tuple(x) for x in r["observed"]], "(nat * nat)"), len(r["libs"])) for r in res)
        text = ("From Coq Require Import List Arith.\nImport ListNotations.\nFrom SM Require Import C17.Model C17.Exec.\n"
                "Definition cases : list Case := [\n%s\n].\nEval vm_compute in (check_cases cases).\n" % body)
        rc, vals, err = common.run_coq_shards([text], run.scratch.sub("coq"), prefix="c17")[0]
        if rc != 0 or not vals:
            run.add(Finding("corr:C17:coq", "correspondence failed to evaluate: %s" % err[-300:], {"correspondence": "C17.Exec.check_cases", "stderr": err[-1500:]}, no_input=True))
        else:
            traces = len(res)
            for i in vals[0]:
                r = res[i]
                run.add(Finding("C17:corr", "history %s: observations %s / %d libraries differ from the cache model" % (r["ops"], r["observed"], len(r["libs"])), dict(r)))
    # library file names: "sas<bits>_<id>_<tag>.so" as C17.Names.lib_basename builds it
    allnames = sorted({tuple(x) for r in res for x in r.get("names", [])})
    stats["library_names"] = len(allnames)
    if allnames and not run.proof_broken():
        import ctypes
        arch = "" if ctypes.sizeof(ctypes.c_void_p) > 4 else "x86"
        body = "; ".join('("%s", "%s", "%s", "%s", "%s")' % (b, i, t, arch + ".so", o) for b, i, t, o in allnames)
        text = ("From Coq Require Import List String.\nImport ListNotations.\nOpen Scope string_scope.\nFrom SM Require Import C17.Names C17.Exec.\n"
                "Eval vm_compute in (check_names [%s]).\n" % body)
        rc, vals, err = common.run_coq_shards([text], run.scratch.sub("coqn"), prefix="c17n")[0]
        if rc != 0 or not vals:
            run.add(Finding("corr:C17:names", "name correspondence failed to evaluate: %s" % err[-300:], {"correspondence": "C17.Exec.check_names", "stderr": err[-1500:]}, no_input=True))
        else:
            for i in vals[0]:
                b, mid, t, o = allnames[i]
                run.add(Finding("C17:libname", "the %s-bit library of model %r with source tag %s is cached as %r, not under the name that carries its key (sas%s_%s_%s.so): different sources can share a library" % (
                    b, mid, t, o, b, mid, t), dict(bits=b, model_id=mid, tag=t, observed=o)))
    run.coverage.update(evaluations=stats["loads"], distinct_nontrivial=len(distinct), traces_validated_against_impl=traces,
                        input_distribution=stats)
    run.assumptions += ["file modification times advance by one second per edit (set with os.utime), as the property assumes",
                        "the kernel templates are not edited in the real runs (they live in /repo); template edits are covered by the model only",
                        "hypothesis tag_injective of C17_load_current: checked on the probe texts of this run (CRC32 over model+C text)"]
    run.finish_args = dict(level="proof",
                           rule="edit/load/evaluate histories (4-13 ops): new or reverted model text (constant + parameter table variant), new or reverted included C text, loads in double/single precision, process restarts; distinct = distinct op sequences",
                           trusted=["harness/c17.py (probe plug-in whose result encodes which texts were compiled)"])
