"""C02 — distribution weights match their documented densities, limits and widths."""
from __future__ import annotations

import math
import random

import numpy as np

from . import common, sas
from .common import Finding, fhex, flist, cbool, coq_list

DISTS = ["gaussian", "uniform", "rectangle", "lognormal", "schulz", "boltzmann"]



# ---- fail-closed Python-ast translator for the _weights methods of sasmodels/weights.py ----------------------
# (grids, masks and density formulas as written in the source -> Coq terms over R, Gen/C02_bodies.v)
import ast
import os

class Untranslatable(Exception):
    pass

CLASSES = {"GaussianDispersion": "gaussian", "UniformDispersion": "uniform", "RectangleDispersion": "rectangle",
           "LogNormalDispersion": "lognormal", "SchulzDispersion": "schulz", "BoltzmannDispersion": "boltzmann"}
PARAMS = ["center", "sigma", "lb", "ub"]

def num(v):
    if isinstance(v, bool) or not isinstance(v, (int, float)):
        raise Untranslatable("constant %r" % (v,))
    if isinstance(v, int) or float(v).is_integer():
        n = int(v)
        return "%d" % n if n >= 0 else "(- %d)" % -n
    from fractions import Fraction
    fr = Fraction(repr(v))            # decimal literal as written, exactly
    s = "(%d / %d)" % (abs(fr.numerator), fr.denominator)
    return s if fr >= 0 else "(- %s)" % s

class Tr:
    def __init__(self):
        self.env = {}       # local name -> coq term (string)
        self.grid = None    # ("lin", lb_term, ub_term) | ("uniform",)
        self.filter = None  # coq boolean-condition term on x, or None

    def name(self, n):
        if n in self.env:
            return self.env[n]
        if n in PARAMS:
            return n
        raise Untranslatable("name %s" % n)

    def func(self, f):
        if isinstance(f, ast.Attribute) and isinstance(f.value, ast.Name) and f.value.id == "np":
            return f.attr
        if isinstance(f, ast.Name):
            return f.id
        raise Untranslatable("function %s" % ast.dump(f))

    def expr(self, e):
        if isinstance(e, ast.Constant):
            return num(e.value)
        if isinstance(e, ast.Name):
            return self.name(e.id)
        if isinstance(e, ast.Attribute) and isinstance(e.value, ast.Name) and e.value.id == "self" and e.attr in ("npts", "nsigmas"):
            raise Untranslatable("self.%s in a density" % e.attr)
        if isinstance(e, ast.UnaryOp) and isinstance(e.op, ast.USub):
            return "(- %s)" % self.expr(e.operand)
        if isinstance(e, ast.UnaryOp) and isinstance(e.op, ast.UAdd):
            return self.expr(e.operand)
        if isinstance(e, ast.BinOp):
            a = self.expr(e.left)
            if isinstance(e.op, ast.Pow):
                if isinstance(e.right, ast.Constant) and isinstance(e.right.value, int) and 0 <= e.right.value <= 8:
                    return "(%s ^ %d)" % (a, e.right.value)
                raise Untranslatable("power with a non-literal exponent")
            b = self.expr(e.right)
            op = {ast.Add: "+", ast.Sub: "-", ast.Mult: "*", ast.Div: "/"}.get(type(e.op))
            if op is None:
                raise Untranslatable("operator %s" % type(e.op).__name__)
            return "(%s %s %s)" % (a, op, b)
        if isinstance(e, ast.Call) and not e.keywords:
            f = self.func(e.func)
            args = [self.expr(a) for a in e.args]
            if f in ("exp",) and len(args) == 1:
                return "(exp %s)" % args[0]
            if f in ("log",) and len(args) == 1:
                return "(ln %s)" % args[0]
            if f in ("abs", "fabs") and len(args) == 1:
                return "(Rabs %s)" % args[0]
            if f == "sqrt" and len(args) == 1:
                return "(sqrt %s)" % args[0]
            if f == "gammaln" and len(args) == 1:
                return "(lgam %s)" % args[0]
            if f == "max" and len(args) == 2:
                return "(Rmax %s %s)" % tuple(args)
            if f == "ones_like" and len(args) == 1:
                return "1"
            raise Untranslatable("call %s/%d" % (f, len(args)))
        raise Untranslatable(ast.dump(e)[:80])

    def cond(self, e):
        # boolean mask over x
        if isinstance(e, ast.BinOp) and isinstance(e.op, ast.BitAnd):
            return "(%s && %s)" % (self.cond(e.left), self.cond(e.right))
        if isinstance(e, ast.Compare) and len(e.ops) == 1:
            a, b = self.expr(e.left), self.expr(e.comparators[0])
            if isinstance(e.ops[0], ast.LtE):
                return "(Rleb %s %s)" % (a, b)
            if isinstance(e.ops[0], ast.GtE):
                return "(Rleb %s %s)" % (b, a)
        raise Untranslatable("mask %s" % ast.dump(e)[:80])

    def grid_call(self, e):
        """x = self._linspace(center, sigma, lo, hi) | np.linspace(center-sigma, center+sigma, self.npts)"""
        if isinstance(e, ast.Call) and isinstance(e.func, ast.Attribute) and isinstance(e.func.value, ast.Name):
            if e.func.value.id == "self" and e.func.attr == "_linspace" and len(e.args) == 4:
                c, s, lo, hi = [self.expr(a) for a in e.args]
                if (c, s) != ("center", "sigma"):
                    raise Untranslatable("_linspace centre/width arguments")
                return ("lin", lo, hi)
            if e.func.value.id == "np" and e.func.attr == "linspace" and len(e.args) == 3:
                a, b = self.expr(e.args[0]), self.expr(e.args[1])
                n = e.args[2]
                if not (isinstance(n, ast.Attribute) and isinstance(n.value, ast.Name) and n.value.id == "self" and n.attr == "npts"):
                    raise Untranslatable("linspace count")
                return ("linspace", a, b)
        raise Untranslatable("grid %s" % ast.dump(e)[:80])

def translate_method(fn):
    t = Tr()
    args = [a.arg for a in fn.args.args]
    if args != ["self"] + PARAMS:
        raise Untranslatable("signature %s" % args)
    px = None
    for st in fn.body:
        if isinstance(st, ast.Expr) and isinstance(st.value, ast.Constant) and isinstance(st.value.value, str):
            continue
        if isinstance(st, ast.Assign) and len(st.targets) == 1 and isinstance(st.targets[0], ast.Name):
            tgt = st.targets[0].id
            v = st.value
            if tgt == "x":
                # grid, limit mask, or support mask
                if isinstance(v, ast.Subscript) and isinstance(v.value, ast.Name) and v.value.id == "x":
                    c = t.cond(v.slice)
                    if t.filter is not None or t.grid is None:
                        raise Untranslatable("second mask")
                    t.filter = c
                else:
                    if t.grid is not None:
                        raise Untranslatable("grid assigned twice")
                    t.grid = t.grid_call(v)
                    t.env["x"] = "x"
            else:
                t.env[tgt] = t.expr(v)
            continue
        if isinstance(st, ast.Return) and isinstance(st.value, ast.Tuple) and len(st.value.elts) == 2:
            if not (isinstance(st.value.elts[0], ast.Name) and st.value.elts[0].id == "x"):
                raise Untranslatable("first returned value is not x")
            px = t.expr(st.value.elts[1])
            continue
        raise Untranslatable("statement %s" % ast.dump(st)[:80])
    if px is None or t.grid is None:
        raise Untranslatable("no grid / density")
    return t.grid, t.filter, px


def translate_dispersion(tree):
    """Dispersion.get_weights (width convention, degenerate case) and Dispersion._linspace (grid + hard limits) of the
    current weights.py, statement by statement.  Returns Coq definitions (text)."""
    fns = {}
    for node in tree.body:
        if isinstance(node, ast.ClassDef) and node.name == "Dispersion":
            for it in node.body:
                if isinstance(it, ast.FunctionDef):
                    fns[it.name] = it
    if "get_weights" not in fns or "_linspace" not in fns:
        raise Untranslatable("Dispersion.get_weights / _linspace not found")

    def rexpr(e, env):
        if isinstance(e, ast.Constant) and isinstance(e.value, (int, float)) and not isinstance(e.value, bool):
            return num(e.value)
        if isinstance(e, ast.Name) and e.id in env:
            return env[e.id]
        if isinstance(e, ast.Attribute) and isinstance(e.value, ast.Name) and e.value.id == "self" and ("self." + e.attr) in env:
            return env["self." + e.attr]
        if isinstance(e, ast.UnaryOp) and isinstance(e.op, ast.USub):
            return "(- %s)" % rexpr(e.operand, env)
        if isinstance(e, ast.UnaryOp) and isinstance(e.op, ast.UAdd):
            return rexpr(e.operand, env)
        if isinstance(e, ast.BinOp) and type(e.op) in (ast.Add, ast.Sub, ast.Mult, ast.Div):
            op = {ast.Add: "+", ast.Sub: "-", ast.Mult: "*", ast.Div: "/"}[type(e.op)]
            return "(%s %s %s)" % (rexpr(e.left, env), op, rexpr(e.right, env))
        raise Untranslatable("expression %s" % ast.unparse(e)[:60])

    def bexpr(e, env):
        if isinstance(e, ast.BoolOp):
            op = "||" if isinstance(e.op, ast.Or) else "&&"
            return "(" + (" %s " % op).join(bexpr(v, env) for v in e.values) + ")"
        if isinstance(e, ast.BinOp) and isinstance(e.op, ast.BitAnd):
            return "(%s && %s)" % (bexpr(e.left, env), bexpr(e.right, env))
        if isinstance(e, ast.Compare):
            parts, left = [], e.left
            for op, right in zip(e.ops, e.comparators):
                is_npts = ast.unparse(left) == "self.npts" or ast.unparse(left) == "npts"
                if is_npts:
                    if not (isinstance(op, ast.Lt) and isinstance(right, ast.Constant) and isinstance(right.value, int)):
                        raise Untranslatable("comparison on npts")
                    parts.append("(npts <? %d)%%nat" % right.value)
                else:
                    a, b = rexpr(left, env), rexpr(right, env)
                    if isinstance(op, ast.Eq):
                        parts.append("(Reqb %s %s)" % (a, b))
                    elif isinstance(op, ast.LtE):
                        parts.append("(Rleb %s %s)" % (a, b))
                    elif isinstance(op, ast.GtE):
                        parts.append("(Rleb %s %s)" % (b, a))
                    else:
                        raise Untranslatable("comparison %s" % type(op).__name__)
                left = right
            return parts[0] if len(parts) == 1 else "(" + " && ".join(parts) + ")"
        raise Untranslatable("condition %s" % ast.unparse(e)[:60])

    # ---- get_weights
    fn = fns["get_weights"]
    if [a.arg for a in fn.args.args] != ["self", "center", "lb", "ub", "relative"]:
        raise Untranslatable("get_weights signature")
    env = {"center": "center", "lb": "lb", "ub": "ub", "self.width": "width"}
    body = [st for st in fn.body if not (isinstance(st, ast.Expr) and isinstance(st.value, ast.Constant))]
    if len(body) != 5:
        raise Untranslatable("get_weights has %d statements" % len(body))
    st = body[0]      # sigma = self.width * center if relative else self.width
    if not (isinstance(st, ast.Assign) and ast.unparse(st.targets[0]) == "sigma" and isinstance(st.value, ast.IfExp) and ast.unparse(st.value.test) == "relative"):
        raise Untranslatable("sigma assignment: %s" % ast.unparse(st))
    sigma = "(if relative then %s else %s)" % (rexpr(st.value.body, env), rexpr(st.value.orelse, env))
    st = body[1]      # if not relative: center = 0
    if not (isinstance(st, ast.If) and ast.unparse(st.test) == "not relative" and not st.orelse and len(st.body) == 1
            and isinstance(st.body[0], ast.Assign) and ast.unparse(st.body[0].targets[0]) == "center"):
        raise Untranslatable("centre assignment: %s" % ast.unparse(st)[:80])
    centre = "(if relative then center else %s)" % rexpr(st.body[0].value, env)
    st = body[2]      # if sigma == 0 or self.npts < 2: if lb <= center <= ub: return [center],[1.] else: return [],[]
    if not (isinstance(st, ast.If) and not st.orelse and len(st.body) == 1 and isinstance(st.body[0], ast.If)):
        raise Untranslatable("degenerate branch: %s" % ast.unparse(st)[:80])
    env2 = dict(env, sigma="sigma")
    degen = bexpr(st.test, env2)
    inner = st.body[0]
    inside = bexpr(inner.test, env2)
    def arr(e):
        if not (isinstance(e, ast.Call) and ast.unparse(e.func) == "np.array" and isinstance(e.args[0], ast.List)):
            raise Untranslatable("returned array %s" % ast.unparse(e)[:40])
        return "[" + "; ".join(rexpr(x, env2) for x in e.args[0].elts) + "]"
    def ret(stmts):
        if not (len(stmts) == 1 and isinstance(stmts[0], ast.Return) and isinstance(stmts[0].value, ast.Tuple) and len(stmts[0].value.elts) == 2):
            raise Untranslatable("degenerate return")
        return "(%s, %s)" % (arr(stmts[0].value.elts[0]), arr(stmts[0].value.elts[1]))
    deg_in, deg_out = ret(inner.body), ret(inner.orelse)
    if ast.unparse(body[3]) != "(x, px) = self._weights(center, sigma, lb, ub)" and ast.unparse(body[3]) != "x, px = self._weights(center, sigma, lb, ub)":
        raise Untranslatable("call of _weights: %s" % ast.unparse(body[3]))
    if ast.unparse(body[4]) not in ("return (x, px)", "return x, px"):
        raise Untranslatable("final return: %s" % ast.unparse(body[4]))
    # ---- _linspace
    fn = fns["_linspace"]
    if [a.arg for a in fn.args.args] != ["self", "center", "sigma", "lb", "ub"]:
        raise Untranslatable("_linspace signature")
    body = [st for st in fn.body if not (isinstance(st, ast.Expr) and isinstance(st.value, ast.Constant))]
    texts = [ast.unparse(st) for st in body]
    if len(body) != 4 or texts[0] not in ("(npts, nsigmas) = (self.npts, self.nsigmas)", "npts, nsigmas = (self.npts, self.nsigmas)", "npts, nsigmas = self.npts, self.nsigmas") or texts[3] != "return x":
        raise Untranslatable("_linspace body: %s" % texts)
    envl = {"center": "center", "sigma": "sigma", "lb": "lb", "ub": "ub", "nsigmas": "nsig"}
    st = body[1]      # x = center + np.linspace(-nsigmas*sigma, +nsigmas*sigma, npts)
    v = st.value
    if not (ast.unparse(st.targets[0]) == "x" and isinstance(v, ast.BinOp) and isinstance(v.op, ast.Add) and isinstance(v.right, ast.Call)
            and ast.unparse(v.right.func) == "np.linspace" and len(v.right.args) == 3 and ast.unparse(v.right.args[2]) == "npts"):
        raise Untranslatable("_linspace grid: %s" % texts[1])
    shift = rexpr(v.left, envl)
    a, b = rexpr(v.right.args[0], envl), rexpr(v.right.args[1], envl)
    st = body[2]      # x = x[(x >= lb) & (x <= ub)]
    if not (ast.unparse(st.targets[0]) == "x" and isinstance(st.value, ast.Subscript) and ast.unparse(st.value.value) == "x"):
        raise Untranslatable("_linspace mask: %s" % texts[2])
    mask = bexpr(st.value.slice, dict(envl, x="x"))
    return ["  Definition gen_resolve (relative : bool) (width center : R) : R * R := (%s, %s)." % (centre, sigma),
            "  Definition gen_degenerate (sigma : R) (npts : nat) : bool := %s." % degen,
            "  Definition gen_degenerate_result (center lb ub : R) : list R * list R := if %s then %s else %s." % (inside, deg_in, deg_out),
            "  Definition gen_lin (center sigma nsig : R) (npts : nat) (lb ub : R) : list R :=\n"
            "    filter (fun x => %s) (map (fun d__ => %s + d__) (linspace ROps %s %s npts))." % (mask, shift, a, b)]


def translate(path):
    tree = ast.parse(open(path).read())
    out = {}
    for node in tree.body:
        if isinstance(node, ast.ClassDef) and node.name in CLASSES:
            for it in node.body:
                if isinstance(it, ast.FunctionDef) and it.name == "_weights":
                    out[CLASSES[node.name]] = translate_method(it)
    missing = set(CLASSES.values()) - set(out)
    if missing:
        raise Untranslatable("classes without _weights: %s" % sorted(missing))
    out["__dispersion__"] = translate_dispersion(tree)
    return out



def _translate_public_get_weights():
    """the module-level weights.get_weights (the function every calculator calls): class lookup, construction, the
    method call - matched textually - and the RETURN expression, evaluated symbolically: what is done to the weights."""
    import ast
    from . import nptrans
    tree = ast.parse(open(os.path.join(common.REPO, "sasmodels", "weights.py")).read())
    fn = next((n for n in tree.body if isinstance(n, ast.FunctionDef) and n.name == "get_weights"), None)
    if fn is None:
        raise Untranslatable("module-level get_weights not found")
    if [a.arg for a in fn.args.args] != ["disperser", "n", "width", "nsigmas", "value", "limits", "relative"]:
        raise Untranslatable("get_weights signature")
    body = [b for b in fn.body if not (isinstance(b, ast.Expr) and isinstance(b.value, ast.Constant))]
    txt = [ast.unparse(b) for b in body]
    want = ["cls = DISTRIBUTIONS[disperser]", "obj = cls(n, width, nsigmas)", "v, w = obj.get_weights(value, limits[0], limits[1], relative)"]
    if len(body) != 5 or not (isinstance(body[0], ast.If) and ast.unparse(body[0].test) == "disperser == 'array'" and isinstance(body[0].body[0], ast.Raise)) \
            or txt[1:4] != want or not isinstance(body[4], ast.Return) or not isinstance(body[4].value, ast.Tuple) or len(body[4].value.elts) != 2:
        raise Untranslatable("get_weights body: %s" % txt)
    if ast.unparse(body[4].value.elts[0]) != "v":
        raise Untranslatable("get_weights does not return the values as computed")
    try:
        ev = nptrans.Evaluator({"w": ("i",), "v": ("i",)})
        r = ev.ev(body[4].value.elts[1])
    except nptrans.Untranslatable as exc:
        raise Untranslatable(str(exc))
    if r.axes != ("i",):
        raise Untranslatable("the returned weights are not one per value")
    return r.e


def gen_public():
    from . import nptrans
    lines = ["(* GENERATED by harness/c02.py from sasmodels/weights.py (module-level get_weights: what is returned as weights) *)",
             "From Coq Require Import Reals List.", "From SM Require Import Base.Num C03.Model.", "Open Scope R_scope.", ""]
    note = None
    try:
        e = _translate_public_get_weights()
        body = nptrans.coq(e, {("w", ()): "x"}, {}, sums={"i": ("w", "y")})
        # inside the sum the element is the bound variable y
        body = body.replace("(fun y => x)", "(fun y => y)")
    except (Untranslatable, nptrans.Untranslatable, OSError, SyntaxError) as exc:
        note = "%s: %s" % (type(exc).__name__, exc)
        body = "(div O x (sumL O (map (fun y => y) w)))"
    lines.append("Definition public_translated : bool := %s." % ("true" if note is None else "false"))
    if note:
        lines.append("(* not translated: %s *)" % note.replace("*)", "* )"))
    lines += ["Definition code_returned_weights (w : list R) : list R := let O := ROps in map (fun x => %s) w." % body, ""]
    common.write_if_changed(os.path.join(common.THEORIES, "Gen", "C02_public.v"), "\n".join(lines))
    return note


PUBLIC_NOTE = [None]


def gen():
    PUBLIC_NOTE[0] = gen_public()
    return _gen_bodies()


def _gen_bodies():
    """Regenerate Gen/C02_bodies.v from the current weights.py.  When a body uses syntax outside the whitelist
    the file says so (translated := false) and the obligations over it are vacuous: the behavioural tie decides."""
    path = os.path.join(common.REPO, "sasmodels", "weights.py")
    lines = ["(* GENERATED by harness/c02.py from sasmodels/weights.py: the _weights methods of the six parametric",
             "   distributions (grid construction, masks, density formula), translated term by term. *)",
             "From Coq Require Import Reals List Bool.", "Import ListNotations.",
             "From SM Require Import Base.Num C02.Model C02.Density.", "Open Scope R_scope.", ""]
    try:
        tr = translate(path)
        note = None
    except (Untranslatable, SyntaxError, OSError) as exc:
        tr, note = None, str(exc)
    if tr is None:
        lines += ["Definition translated : bool := false.", "(* not translated: %s *)" % note.replace("*)", "* )"), ""]
        # placeholders equal to the model, so that the dependent file still compiles
        tr = {}
    else:
        lines += ["Definition translated : bool := true.", ""]
    lines += ["Section Bodies.", "  Variable lgam : R -> R.     (* scipy.special.gammaln *)", ""]
    for dist in ["gaussian", "uniform", "rectangle", "lognormal", "schulz", "boltzmann"]:
        cap = dist.capitalize()
        if dist not in tr:
            lines += ["  Definition gen_px_%s (x center sigma lb ub : R) : R := model_px lgam %s center sigma x." % (dist, cap),
                      "  Definition gen_grid_%s (center sigma nsig : R) (npts : nat) (lb ub : R) : list R := grid ROps (sqrt 3) 1e-8 %s center sigma nsig npts lb ub." % (dist, cap), ""]
            continue
        grid, mask, px = tr[dist]
        if grid[0] == "lin":
            g = "lin ROps center sigma nsig npts %s %s" % (grid[1], grid[2])
        else:
            g = "linspace ROps %s %s npts" % (grid[1], grid[2])
        if mask is not None:
            g = "filter (fun x => %s) (%s)" % (mask, g)
        lines += ["  Definition gen_px_%s (x center sigma lb ub : R) : R := %s." % (dist, px),
                  "  Definition gen_grid_%s (center sigma nsig : R) (npts : nat) (lb ub : R) : list R := %s." % (dist, g), ""]
    if tr and "__dispersion__" in tr:
        lines += tr["__dispersion__"] + [""]
    else:
        lines += ["  Definition gen_resolve (relative : bool) (width center : R) : R * R := resolve ROps relative width center.",
                  "  Definition gen_degenerate (sigma : R) (npts : nat) : bool := Reqb sigma 0 || (npts <? 2)%nat.",
                  "  Definition gen_degenerate_result (center lb ub : R) : list R * list R := if Rleb lb center && Rleb center ub then ([center], [1]) else ([], []).",
                  "  Definition gen_lin (center sigma nsig : R) (npts : nat) (lb ub : R) : list R := lin ROps center sigma nsig npts lb ub.", ""]
    lines += ["End Bodies.", ""]
    common.write_if_changed(os.path.join(common.THEORIES, "Gen", "C02_bodies.v"), "\n".join(lines))
    return note


def documented_density(name, x, c, sigma):
    """The densities named in the property, from scipy.stats (up to a constant)."""
    from scipy import stats
    if name == "gaussian":
        return stats.norm.pdf(x, loc=c, scale=sigma)
    if name == "lognormal":       # median = centre; sigma of ln x = sigma/centre
        return stats.lognorm.pdf(x, s=abs(sigma / c), scale=c)
    if name == "schulz":          # mean = centre, standard deviation = sigma  (gamma with shape z = (c/sigma)^2)
        z = (c / sigma) ** 2
        return stats.gamma.pdf(x, a=z, scale=c / z)
    if name == "boltzmann":       # Laplace
        return stats.laplace.pdf(x, loc=c, scale=abs(sigma))
    if name == "uniform":
        return ((x >= c - sigma) & (x <= c + sigma)).astype(float)
    if name == "rectangle":
        return (np.abs(x - c) <= math.sqrt(3.0) * abs(sigma) * (1 + 1e-15)).astype(float)
    raise ValueError(name)


def gen_case(rng):
    name = rng.choice(DISTS)
    relative = rng.random() < 0.75 or name in ("lognormal", "schulz")
    c = 10 ** rng.uniform(-1, 4)
    pd = 10 ** rng.uniform(-3, math.log10(2.0))
    npts = rng.choice([1, 2, 3, 5, 10, 35, 80, 200, rng.randint(1, 200)])
    nsig = rng.choice([3.0, 8.0, 1.73205, rng.uniform(0.5, 10)])
    if not relative:
        width = rng.uniform(0.5, 40)        # degrees
        c = rng.uniform(-180, 180)
        lb, ub = -360.0, 360.0
        cut = rng.choice(["none", "none", "one", "both"])
        if cut != "none":
            lb = -rng.uniform(0.2, 2) * width
        if cut == "both":
            ub = rng.uniform(0.2, 2) * width
    else:
        width = pd
        sigma = pd * c
        lb, ub = 0.0, float("inf")
        cut = rng.choice(["none", "none", "lower", "upper", "both"])
        if cut in ("lower", "both"):
            lb = c - rng.uniform(0.2, 2.5) * sigma
        if cut in ("upper", "both"):
            ub = c + rng.uniform(0.2, 2.5) * sigma
    if rng.random() < 0.05:
        width = 0.0
    return dict(dist=name, relative=relative, center=c, width=width, npts=npts, nsigmas=nsig, lb=lb, ub=ub, cut=cut)


def main(run):
    from sasmodels import weights
    from scipy.special import gammaln
    rng = random.Random(run.seed * 13 + 2)
    thorough = run.tier == "thorough"
    note = [None]
    run.prove(["C02/Property.v"], gen=lambda: note.__setitem__(0, gen()))
    run.notes.append(("module-level get_weights not translated (%s): C02_code_returned_weights / C02_code_normalised are vacuous in this run" % PUBLIC_NOTE[0]) if PUBLIC_NOTE[0] else
                     "the return expression of the module-level get_weights translated from the current weights.py (Gen/C02_public.v): the weights handed to every calculator are w / sum(w) (C02_code_returned_weights, C02_code_normalised)")
    if note[0]:
        run.notes.append("weights.py bodies not translated (%s): the regenerated-formula obligations are vacuous in this run, the behavioural tie decides" % note[0])
    ncase = 400 if not thorough else 6000
    cases = [gen_case(rng) for _ in range(ncase)]
    # a few fixed edge cases first
    cases[:0] = [dict(dist="gaussian", relative=True, center=10.0, width=1.0, npts=2, nsigmas=3.0, lb=0.0, ub=float("inf"), cut="lower"),
                 dict(dist="gaussian", relative=True, center=50.0, width=0.1, npts=1, nsigmas=3.0, lb=0.0, ub=float("inf"), cut="none"),
                 dict(dist="schulz", relative=True, center=100.0, width=0.002, npts=40, nsigmas=8.0, lb=0.0, ub=float("inf"), cut="none")]
    # directed: nsigmas * PD = 1 puts the first grid point exactly on zero (the edge of the support of the lognormal and
    # Schulz distributions, and the lower hard limit of every size parameter); nsigmas * PD > 1 with an interior point on it
    directed = []
    for dist in DISTS:
        for pd_, ns_ in ((0.125, 8.0), (0.25, 4.0), (0.5, 2.0), (0.5, 3.0), (1.0, 1.0)):
            for npts_ in (2, 5, 31):
                directed.append(dict(dist=dist, relative=True, center=rng.choice([64.0, 10.0, 3.7, 250.0]), width=pd_, npts=npts_, nsigmas=ns_,
                                     lb=0.0, ub=float("inf"), cut="edge-of-support"))
    cases[3:3] = directed if thorough else rng.sample(directed, 40)
    stats = dict(by_dist={}, by_cut={}, relative=0, absolute=0, degenerate=0, empty=0, sizes=dict(min=10 ** 9, max=0))
    impl = []
    evals, distinct = 0, set()
    for c in cases:
        evals += 1
        stats["by_dist"][c["dist"]] = stats["by_dist"].get(c["dist"], 0) + 1
        stats["by_cut"][c["cut"]] = stats["by_cut"].get(c["cut"], 0) + 1
        stats["relative" if c["relative"] else "absolute"] += 1
        try:
            with np.errstate(all="ignore"):
                x, w = weights.get_weights(c["dist"], c["npts"], c["width"], c["nsigmas"], c["center"], (c["lb"], c["ub"]), c["relative"])
            x, w = np.asarray(x, "d"), np.asarray(w, "d")
            err = None
        except Exception as exc:  # noqa
            x = w = None; err = "%s: %s" % (type(exc).__name__, exc)
        impl.append((x, w, err))
        desc = dict(c)
        if err is not None:
            run.add(Finding("C02:error:%s" % c["dist"], "get_weights(%s) raised %s" % (c, err), desc))
            continue
        centre = c["center"] if c["relative"] else 0.0
        sigma = c["width"] * c["center"] if c["relative"] else c["width"]
        desc.update(values=list(map(float, x[:6])), weights=list(map(float, w[:6])))
        stats["sizes"]["min"] = min(stats["sizes"]["min"], len(x)); stats["sizes"]["max"] = max(stats["sizes"]["max"], len(x))
        if len(x) == 0:
            stats["empty"] += 1
            continue
        bad = None
        if sigma == 0 or c["npts"] < 2:
            stats["degenerate"] += 1
            if not (len(x) == 1 and x[0] == centre and w[0] == 1.0):
                bad = "degenerate case does not give the single central value with weight one: %s %s" % (x, w)
        else:
            if len(x) > 1 and not np.all(np.diff(x) > 0):
                bad = "values are not strictly increasing"
            elif not (np.all(x >= c["lb"]) and np.all(x <= c["ub"])):
                bad = "values outside the hard limits [%r, %r]: %r .. %r" % (c["lb"], c["ub"], x.min(), x.max())
            elif c["dist"] in ("lognormal", "schulz") and not np.all(x > 0):
                bad = "values outside the support (x > 0)"
            elif not (np.all(np.isfinite(w)) and np.all(w >= 0)):
                bad = "weights not finite and non-negative"
            elif abs(w.sum() - 1.0) > 1e-12:
                bad = "weights sum to %.15g" % w.sum()
            else:
                with np.errstate(all="ignore"):
                    ref = documented_density(c["dist"], x, centre, sigma)
                if np.all(np.isfinite(ref)) and ref.sum() > 0:
                    ref = ref / ref.sum()
                    tol = 1e-9 + (1e-7 if c["dist"] == "schulz" else 0.0)
                    if np.any(np.abs(w - ref) > tol * (ref + w.max())):
                        j = int(np.argmax(np.abs(w - ref)))
                        bad = "weights are not proportional to the documented density: w[%d]=%.12g, density gives %.12g at x=%.8g" % (j, w[j], ref[j], x[j])
        if bad:
            run.add(Finding("C02:%s:%s" % (c["dist"], "degenerate" if (sigma == 0 or c["npts"] < 2) else "weights"), "%s (%s, centre %.6g, width %.4g, npts %d, nsigmas %.4g, limits [%r,%r]): %s" % (
                c["dist"], "relative" if c["relative"] else "absolute", c["center"], c["width"], c["npts"], c["nsigmas"], c["lb"], c["ub"], bad), desc))
        else:
            distinct.add((c["dist"], c["relative"], c["cut"], c["npts"] > 1, len(x)))
    # ---- through the model layer: the mesh a calculator builds for a dispersed parameter (direct_model.get_mesh) is
    # the distribution cut at the limits DECLARED in the model's parameter table - for the numbered entries of a vector
    # parameter (thickness1..n) those of the vector's row
    from sasmodels.core import load_model_info
    from sasmodels.direct_model import get_mesh
    stats["model_layer"] = 0; stats["model_layer_vector_entries"] = 0
    mnames = ["sphere", "cylinder", "core_shell_cylinder", "core_multi_shell", "onion", "spherical_sld"] + (["multilayer_vesicle", "hollow_cylinder", "lamellar_stack_caille", "parallelepiped"] if thorough else [])
    for mname in mnames:
        minfo = load_model_info(mname)
        declared = {}
        for kp_ in minfo.parameters.kernel_parameters:
            declared[kp_.id] = kp_
        cps = [cp for cp in minfo.parameters.call_parameters if cp.polydisperse and cp.type == "volume"]
        for cp in (cps if thorough else rng.sample(cps, min(len(cps), 4))):
            base = declared.get(cp.id) or declared.get(cp.id.rstrip("0123456789"))
            if base is None:
                continue
            lo_, hi_ = base.limits
            centre = cp.default if cp.default > 0 else rng.uniform(5.0, 50.0)
            dist = rng.choice(["gaussian", "rectangle", "uniform", "boltzmann", "gaussian"])
            pd_, ns_, n_ = rng.choice([0.5, 0.8, 1.2]), rng.choice([3.0, 4.0]), rng.choice([7, 12, 31])
            pars_ = {cp.name: centre, cp.name + "_pd": pd_, cp.name + "_pd_n": n_, cp.name + "_pd_nsigma": ns_, cp.name + "_pd_type": dist}
            mesh_ = get_mesh(minfo, pars_, dim="1d")
            k_ = [c_.name for c_ in minfo.parameters.call_parameters].index(cp.name)
            _, xv, wv = mesh_[k_]
            xv, wv = np.asarray(xv, "d"), np.asarray(wv, "d")
            xw, ww = weights.get_weights(dist, n_, pd_, ns_, centre, (lo_, hi_), cp.relative_pd)
            evals += 1; stats["model_layer"] += 1; stats["model_layer_vector_entries"] += int(cp.id != base.id)
            dsc = dict(model=mname, parameter=cp.name, declared_limits=[lo_, hi_], dist=dist, centre=centre, width=pd_, npts=n_, nsigmas=ns_, values=list(map(float, xv)))
            if len(xv) and (xv.min() < lo_ or xv.max() > hi_):
                run.add(Finding("C02:model-layer:limits", "%s: the mesh for %s (%s, centre %.4g, PD %.3g, %d points, %g sigma) reaches %.6g .. %.6g, outside the declared limits [%r, %r]" % (
                    mname, cp.name, dist, centre, pd_, n_, ns_, xv.min(), xv.max(), lo_, hi_), dsc))
            elif len(xv) != len(xw) or not np.allclose(xv, xw, rtol=1e-14, atol=0) or not np.allclose(wv, ww, rtol=1e-12, atol=0):
                run.add(Finding("C02:model-layer:weights", "%s: the mesh for %s (%s) differs from the distribution cut at the declared limits [%r, %r]" % (mname, cp.name, dist, lo_, hi_),
                                dict(dsc, expected_values=list(map(float, xw)))))
            else:
                distinct.add(("model-layer", mname, cp.name))
    # ... the same request (name, centre, width, points, sigmas, type) made for two models whose parameter of that name
    # has DIFFERENT limits, the looser one first: each gets its own cut
    stats["model_layer_same_request"] = 0
    for pname, first, second in (("length", "cylinder", "elliptical_cylinder"), ("radius", "sphere", "flexible_cylinder_elliptical")):
        centre, pd_, n_, ns_ = rng.choice([2.0, 3.0]), 0.5, rng.choice([9, 13]), 3.0
        for mname in (first, second):
            minfo = load_model_info(mname)
            cp = [c_ for c_ in minfo.parameters.call_parameters if c_.name == pname][0]
            lo_, hi_ = cp.limits
            mesh_ = get_mesh(minfo, {pname: centre, pname + "_pd": pd_, pname + "_pd_n": n_, pname + "_pd_nsigma": ns_, pname + "_pd_type": "gaussian"}, dim="1d")
            k_ = [c_.name for c_ in minfo.parameters.call_parameters].index(pname)
            xv = np.asarray(mesh_[k_][1], "d")
            xw, _ = weights.get_weights("gaussian", n_, pd_, ns_, centre, (lo_, hi_), cp.relative_pd)
            evals += 1; stats["model_layer_same_request"] += 1
            if len(xv) != len(xw) or (len(xv) and (xv.min() < lo_ or xv.max() > hi_)) or not np.allclose(xv, xw, rtol=1e-14, atol=0):
                run.add(Finding("C02:model-layer:same-request", "%s.%s (limits [%r, %r]) asked for the distribution that %s.%s was asked for just before (centre %.3g, PD %.3g, %d points): values %s, the distribution cut at its own limits is %s" % (
                    mname, pname, lo_, hi_, first, pname, centre, pd_, n_, np.round(xv, 4).tolist(), np.round(xw, 4).tolist()), dict(model=mname, parameter=pname, after=first, centre=centre, width=pd_, npts=n_)))
            else:
                distinct.add(("same-request", mname, pname))
    # ... and for the angles of oriented models in 2-D: the jitter is a deviation around zero with an absolute width, cut at
    # the angle's declared limits [-360, 360] whatever the view angle is
    stats["model_layer_angles"] = 0
    for mname in ["cylinder", "parallelepiped"] + (["ellipsoid", "core_shell_cylinder", "triaxial_ellipsoid"] if thorough else []):
        minfo = load_model_info(mname)
        for cp in [c_ for c_ in minfo.parameters.call_parameters if c_.type == "orientation"]:
            lo_, hi_ = cp.limits
            view_ = rng.choice([-150.0, -90.0, 35.0, 150.0, 300.0, rng.uniform(-350, 350)])
            dist = rng.choice(["gaussian", "uniform", "rectangle"])
            wd_, ns_, n_ = rng.choice([40.0, 130.0, 400.0]), rng.choice([3.0, 2.0]), rng.choice([9, 31])
            pars_ = {cp.name: view_, cp.name + "_pd": wd_, cp.name + "_pd_n": n_, cp.name + "_pd_nsigma": ns_, cp.name + "_pd_type": dist}
            mesh_ = get_mesh(minfo, pars_, dim="2d")
            k_ = [c_.name for c_ in minfo.parameters.call_parameters].index(cp.name)
            _, xv, wv = mesh_[k_]
            xv, wv = np.asarray(xv, "d"), np.asarray(wv, "d")
            xw, ww = weights.get_weights(dist, n_, wd_, ns_, view_, (lo_, hi_), False)
            evals += 1; stats["model_layer_angles"] += 1
            dsc = dict(model=mname, parameter=cp.name, declared_limits=[lo_, hi_], dist=dist, view_angle=view_, width=wd_, npts=n_, nsigmas=ns_, values=list(map(float, xv)))
            if len(xv) and (xv.min() < lo_ or xv.max() > hi_):
                run.add(Finding("C02:model-layer:angle-limits", "%s: the jitter mesh for %s (%s, view angle %.4g, width %.4g, %d points) reaches %.6g .. %.6g, outside the declared limits [%r, %r]" % (
                    mname, cp.name, dist, view_, wd_, n_, xv.min(), xv.max(), lo_, hi_), dsc))
            elif len(xv) != len(xw) or not np.allclose(xv, xw, rtol=1e-14, atol=1e-12) or not np.allclose(wv, ww, rtol=1e-12, atol=0):
                run.add(Finding("C02:model-layer:angle-weights", "%s: the jitter mesh for %s (%s, view angle %.4g, width %.4g) has %d points, the distribution around zero cut at [%r, %r] has %d" % (
                    mname, cp.name, dist, view_, wd_, len(xv), lo_, hi_, len(xw)), dict(dsc, expected_values=list(map(float, xw)))))
            else:
                distinct.add(("model-layer-angle", mname, cp.name))
    # ---- correspondence, pass A: value grids from the Coq model
    traces = 0
    if not run.proof_broken():
        k_of = {"gaussian": 0, "uniform": 1, "rectangle": 2, "lognormal": 3, "schulz": 4, "boltzmann": 5}
        sel = [i for i, (c, (x, w, err)) in enumerate(zip(cases, impl)) if err is None and c["npts"] <= 200]
        if not thorough:
            sel = sel[:260]

        def inf(v):
            return fhex(v)
        hdr = ("From Coq Require Import List PrimFloat.\nImport ListNotations.\nFrom SM Require Import Base.Num C02.Model C02.Exec.\n")
        shards = []
        N = 65
        for a in range(0, len(sel), N):
            body = ";\n".join("values_f %d%%nat %s %s %s %s %d%%nat %s %s" % (k_of[cases[i]["dist"]], cbool(cases[i]["relative"]), fhex(cases[i]["center"]),
                              fhex(cases[i]["width"]), fhex(cases[i]["nsigmas"]), cases[i]["npts"], inf(cases[i]["lb"]), inf(cases[i]["ub"])) for i in sel[a:a + N])
            shards.append(hdr + "Eval vm_compute in [\n%s\n].\n" % body)
        resA = common.run_coq_shards(shards, run.scratch.sub("coqA"), prefix="c02a", jobs=8)
        grids = {}
        for si, (rc, vals, err) in enumerate(resA):
            if rc != 0 or not vals:
                run.add(Finding("corr:C02:coq", "correspondence shard A failed: %s" % err[-300:], {"correspondence": "C02.Exec.values_f", "stderr": err[-1500:]}, no_input=True))
                continue
            for i, g in zip(sel[si * N:(si + 1) * N], vals[0]):
                grids[i] = np.array(g, "d")
        # compare grids, then pass B for the densities
        shardsB, idxB = [], []
        cur = []
        for i in sel:
            if i not in grids:
                continue
            x, w, _ = impl[i]
            g = grids[i]
            traces += 1
            c = cases[i]
            if len(g) != len(x) or (len(x) and np.any(np.abs(g - x) > 1e-13 * (np.abs(x) + 1e-300))):
                run.add(Finding("C02:corr:values:%s" % c["dist"], "%s: values %s... differ from the Coq model %s..." % (c["dist"], list(x[:4]), list(g[:4])),
                                dict(c, impl=list(map(float, x)), model=list(map(float, g)))))
                continue
            sigma = c["width"] * c["center"] if c["relative"] else c["width"]
            if len(x) < 2 or sigma == 0 or c["npts"] < 2 or c["dist"] in ("uniform", "rectangle"):
                continue
            centre = c["center"] if c["relative"] else 0.0
            with np.errstate(all="ignore"):
                lnx = np.log(x) if c["dist"] in ("lognormal", "schulz") else np.zeros_like(x)
                R = x / centre if c["dist"] == "schulz" else np.ones_like(x)
                lnR = np.log(R)
                z = (centre / sigma) ** 2 if c["dist"] == "schulz" else 1.0
                lnc = math.log(centre) if c["dist"] in ("lognormal", "schulz") and centre > 0 else 0.0
            cur.append((i, "args_f %d%%nat %s %s %s %s %s %s %s %s %s" % (k_of[c["dist"]], cbool(c["relative"]), fhex(c["center"]), fhex(c["width"]),
                        flist(x), flist(lnx), flist(lnR), fhex(lnc), fhex(math.log(z)), fhex(float(gammaln(z))))))
            if len(cur) >= 50:
                shardsB.append(hdr + "Eval vm_compute in [\n%s\n].\n" % ";\n".join(t for _, t in cur)); idxB.append([j for j, _ in cur]); cur = []
        if cur:
            shardsB.append(hdr + "Eval vm_compute in [\n%s\n].\n" % ";\n".join(t for _, t in cur)); idxB.append([j for j, _ in cur])
        for ids, (rc, vals, err) in zip(idxB, common.run_coq_shards(shardsB, run.scratch.sub("coqB"), prefix="c02b", jobs=8)):
            if rc != 0 or not vals:
                run.add(Finding("corr:C02:coq", "correspondence shard B failed: %s" % err[-300:], {"correspondence": "C02.Exec.args_f", "stderr": err[-1500:]}, no_input=True))
                continue
            for i, (args, den) in zip(ids, vals[0]):
                x, w, _ = impl[i]
                c = cases[i]
                with np.errstate(all="ignore"):
                    px = np.exp(np.array(args, "d")) / np.array(den, "d")
                    mw = px / px.sum()
                if not np.all(np.isfinite(mw)):
                    continue
                tol = 1e-12 if c["dist"] != "schulz" else 1e-7
                if np.any(np.abs(mw - w) > tol * (w.max() + mw)):
                    j = int(np.argmax(np.abs(mw - w)))
                    run.add(Finding("C02:corr:weights:%s" % c["dist"], "%s: weight[%d]=%.15g differs from the Coq formula %.15g" % (c["dist"], j, w[j], mw[j]), dict(c)))
    for c in cases[3:7]:
        run.sample(c)
    run.coverage.update(evaluations=evals, distinct_nontrivial=len(distinct), traces_validated_against_impl=traces, input_distribution=stats)
    run.assumptions += ["exp, log and lgamma are leaves applied by the harness (numpy/scipy, as in the implementation)",
                        "documented densities from scipy.stats: norm, lognorm(s=sigma/centre, scale=centre), gamma(a=(c/sigma)^2, scale=c/a), laplace; flat for uniform/rectangle",
                        "lognormal and Schulz are generated with relative widths only (with an absolute width they are centred on 0, outside their support)"]
    run.finish_args = dict(level="proof",
                           rule="6 distribution types x centre in [0.1,1e4] x PD in [1e-3,2] x npts 1..200 x nsigmas 0.5..10 x limits cutting none/one/both tails, relative and absolute widths; distinct = distinct (type, convention, cut, size)",
                           trusted=["scipy.stats / scipy.special as references", "harness/c02.py"])
