"""C02 — distribution weights match their documented densities, limits and widths."""
from __future__ import annotations

import math
import random

import numpy as np

from . import common, sas
from .common import Finding, fhex, flist, cbool, coq_list

DISTS = ["gaussian", "uniform", "rectangle", "lognormal", "schulz", "boltzmann"]


def documented_density(name, x, c, sigma):
    """The densities named in the property, from scipy.stats (up to a constant)."""
    from scipy import stats
    if name == "gaussian":
        return stats.norm.pdf(x, loc=c, scale=sigma)
    if name == "lognormal":       # median = centre; sigma of ln x = sigma/centre
        return stats.lognorm.pdf(x, s=abs(sigma / c), scale=c)
    if name == "schulz":          # mean = centre, standard deviation = sigma  (gamma with shape z = (c/sigma)^2)
        z = (c / sigma) ** 2
        return stats.gamma.pdf(x, a=z, scale=c / z)
    if name == "boltzmann":       # Laplace
        return stats.laplace.pdf(x, loc=c, scale=abs(sigma))
    if name == "uniform":
        return ((x >= c - sigma) & (x <= c + sigma)).astype(float)
    if name == "rectangle":
        return (np.abs(x - c) <= math.sqrt(3.0) * abs(sigma) * (1 + 1e-15)).astype(float)
    raise ValueError(name)


def gen_case(rng):
    name = rng.choice(DISTS)
    relative = rng.random() < 0.75 or name in ("lognormal", "schulz")
    c = 10 ** rng.uniform(-1, 4)
    pd = 10 ** rng.uniform(-3, math.log10(2.0))
    npts = rng.choice([1, 2, 3, 5, 10, 35, 80, 200, rng.randint(1, 200)])
    nsig = rng.choice([3.0, 8.0, 1.73205, rng.uniform(0.5, 10)])
    if not relative:
        width = rng.uniform(0.5, 40)        # degrees
        c = rng.uniform(-180, 180)
        lb, ub = -360.0, 360.0
        cut = rng.choice(["none", "none", "one", "both"])
        if cut != "none":
            lb = -rng.uniform(0.2, 2) * width
        if cut == "both":
            ub = rng.uniform(0.2, 2) * width
    else:
        width = pd
        sigma = pd * c
        lb, ub = 0.0, float("inf")
        cut = rng.choice(["none", "none", "lower", "upper", "both"])
        if cut in ("lower", "both"):
            lb = c - rng.uniform(0.2, 2.5) * sigma
        if cut in ("upper", "both"):
            ub = c + rng.uniform(0.2, 2.5) * sigma
    if rng.random() < 0.05:
        width = 0.0
    return dict(dist=name, relative=relative, center=c, width=width, npts=npts, nsigmas=nsig, lb=lb, ub=ub, cut=cut)


def main(run):
    from sasmodels import weights
    from scipy.special import gammaln
    rng = random.Random(run.seed * 13 + 2)
    thorough = run.tier == "thorough"
    run.prove(["C02/Property.v"])
    ncase = 400 if not thorough else 6000
    cases = [gen_case(rng) for _ in range(ncase)]
    # a few fixed edge cases first
    cases[:0] = [dict(dist="gaussian", relative=True, center=10.0, width=1.0, npts=2, nsigmas=3.0, lb=0.0, ub=float("inf"), cut="lower"),
                 dict(dist="gaussian", relative=True, center=50.0, width=0.1, npts=1, nsigmas=3.0, lb=0.0, ub=float("inf"), cut="none"),
                 dict(dist="schulz", relative=True, center=100.0, width=0.002, npts=40, nsigmas=8.0, lb=0.0, ub=float("inf"), cut="none")]
    stats = dict(by_dist={}, by_cut={}, relative=0, absolute=0, degenerate=0, empty=0, sizes=dict(min=10 ** 9, max=0))
    impl = []
    evals, distinct = 0, set()
    for c in cases:
        evals += 1
        stats["by_dist"][c["dist"]] = stats["by_dist"].get(c["dist"], 0) + 1
        stats["by_cut"][c["cut"]] = stats["by_cut"].get(c["cut"], 0) + 1
        stats["relative" if c["relative"] else "absolute"] += 1
        try:
            with np.errstate(all="ignore"):
                x, w = weights.get_weights(c["dist"], c["npts"], c["width"], c["nsigmas"], c["center"], (c["lb"], c["ub"]), c["relative"])
            x, w = np.asarray(x, "d"), np.asarray(w, "d")
            err = None
        except Exception as exc:  # noqa
            x = w = None; err = "%s: %s" % (type(exc).__name__, exc)
        impl.append((x, w, err))
        desc = dict(c)
        if err is not None:
            run.add(Finding("C02:error:%s" % c["dist"], "get_weights(%s) raised %s" % (c, err), desc))
            continue
        centre = c["center"] if c["relative"] else 0.0
        sigma = c["width"] * c["center"] if c["relative"] else c["width"]
        desc.update(values=list(map(float, x[:6])), weights=list(map(float, w[:6])))
        stats["sizes"]["min"] = min(stats["sizes"]["min"], len(x)); stats["sizes"]["max"] = max(stats["sizes"]["max"], len(x))
        if len(x) == 0:
            stats["empty"] += 1
            continue
        bad = None
        if sigma == 0 or c["npts"] < 2:
            stats["degenerate"] += 1
            if not (len(x) == 1 and x[0] == centre and w[0] == 1.0):
                bad = "degenerate case does not give the single central value with weight one: %s %s" % (x, w)
        else:
            if len(x) > 1 and not np.all(np.diff(x) > 0):
                bad = "values are not strictly increasing"
            elif not (np.all(x >= c["lb"]) and np.all(x <= c["ub"])):
                bad = "values outside the hard limits [%r, %r]: %r .. %r" % (c["lb"], c["ub"], x.min(), x.max())
            elif c["dist"] in ("lognormal", "schulz") and not np.all(x > 0):
                bad = "values outside the support (x > 0)"
            elif not (np.all(np.isfinite(w)) and np.all(w >= 0)):
                bad = "weights not finite and non-negative"
            elif abs(w.sum() - 1.0) > 1e-12:
                bad = "weights sum to %.15g" % w.sum()
            else:
                with np.errstate(all="ignore"):
                    ref = documented_density(c["dist"], x, centre, sigma)
                if np.all(np.isfinite(ref)) and ref.sum() > 0:
                    ref = ref / ref.sum()
                    tol = 1e-9 + (1e-7 if c["dist"] == "schulz" else 0.0)
                    if np.any(np.abs(w - ref) > tol * (ref + w.max())):
                        j = int(np.argmax(np.abs(w - ref)))
                        bad = "weights are not proportional to the documented density: w[%d]=%.12g, density gives %.12g at x=%.8g" % (j, w[j], ref[j], x[j])
        if bad:
            run.add(Finding("C02:%s:%s" % (c["dist"], "degenerate" if (sigma == 0 or c["npts"] < 2) else "weights"), "%s (%s, centre %.6g, width %.4g, npts %d, nsigmas %.4g, limits [%r,%r]): %s" % (
                c["dist"], "relative" if c["relative"] else "absolute", c["center"], c["width"], c["npts"], c["nsigmas"], c["lb"], c["ub"], bad), desc))
        else:
            distinct.add((c["dist"], c["relative"], c["cut"], c["npts"] > 1, len(x)))
    # ---- correspondence, pass A: value grids from the Coq model
    traces = 0
    if not run.proof_broken():
        k_of = {"gaussian": 0, "uniform": 1, "rectangle": 2, "lognormal": 3, "schulz": 4, "boltzmann": 5}
        sel = [i for i, (c, (x, w, err)) in enumerate(zip(cases, impl)) if err is None and c["npts"] <= 200]
        if not thorough:
            sel = sel[:260]

        def inf(v):
            return fhex(v)
        hdr = ("From Coq Require Import List PrimFloat.\nImport ListNotations.\nFrom SM Require Import Base.Num C02.Model C02.Exec.\n")
        shards = []
        N = 65
        for a in range(0, len(sel), N):
            body = ";\n".join("values_f %d%%nat %s %s %s %s %d%%nat %s %s" % (k_of[cases[i]["dist"]], cbool(cases[i]["relative"]), fhex(cases[i]["center"]),
                              fhex(cases[i]["width"]), fhex(cases[i]["nsigmas"]), cases[i]["npts"], inf(cases[i]["lb"]), inf(cases[i]["ub"])) for i in sel[a:a + N])
            shards.append(hdr + "Eval vm_compute in [\n%s\n].\n" % body)
        resA = common.run_coq_shards(shards, run.scratch.sub("coqA"), prefix="c02a", jobs=8)
        grids = {}
        for si, (rc, vals, err) in enumerate(resA):
            if rc != 0 or not vals:
                run.add(Finding("corr:C02:coq", "correspondence shard A failed: %s" % err[-300:], {"correspondence": "C02.Exec.values_f", "stderr": err[-1500:]}, no_input=True))
                continue
            for i, g in zip(sel[si * N:(si + 1) * N], vals[0]):
                grids[i] = np.array(g, "d")
        # compare grids, then pass B for the densities
        shardsB, idxB = [], []
        cur = []
        for i in sel:
            if i not in grids:
                continue
            x, w, _ = impl[i]
            g = grids[i]
            traces += 1
            c = cases[i]
            if len(g) != len(x) or (len(x) and np.any(np.abs(g - x) > 1e-13 * (np.abs(x) + 1e-300))):
                run.add(Finding("C02:corr:values:%s" % c["dist"], "%s: values %s... differ from the Coq model %s..." % (c["dist"], list(x[:4]), list(g[:4])),
                                dict(c, impl=list(map(float, x)), model=list(map(float, g)))))
                continue
            sigma = c["width"] * c["center"] if c["relative"] else c["width"]
            if len(x) < 2 or sigma == 0 or c["npts"] < 2 or c["dist"] in ("uniform", "rectangle"):
                continue
            centre = c["center"] if c["relative"] else 0.0
            with np.errstate(all="ignore"):
                lnx = np.log(x) if c["dist"] in ("lognormal", "schulz") else np.zeros_like(x)
                R = x / centre if c["dist"] == "schulz" else np.ones_like(x)
                lnR = np.log(R)
                z = (centre / sigma) ** 2 if c["dist"] == "schulz" else 1.0
                lnc = math.log(centre) if c["dist"] in ("lognormal", "schulz") and centre > 0 else 0.0
            cur.append((i, "args_f %d%%nat %s %s %s %s %s %s %s %s %s" % (k_of[c["dist"]], cbool(c["relative"]), fhex(c["center"]), fhex(c["width"]),
                        flist(x), flist(lnx), flist(lnR), fhex(lnc), fhex(math.log(z)), fhex(float(gammaln(z))))))
            if len(cur) >= 50:
                shardsB.append(hdr + "Eval vm_compute in [\n%s\n].\n" % ";\n".join(t for _, t in cur)); idxB.append([j for j, _ in cur]); cur = []
        if cur:
            shardsB.append(hdr + "Eval vm_compute in [\n%s\n].\n" % ";\n".join(t for _, t in cur)); idxB.append([j for j, _ in cur])
        for ids, (rc, vals, err) in zip(idxB, common.run_coq_shards(shardsB, run.scratch.sub("coqB"), prefix="c02b", jobs=8)):
            if rc != 0 or not vals:
                run.add(Finding("corr:C02:coq", "correspondence shard B failed: %s" % err[-300:], {"correspondence": "C02.Exec.args_f", "stderr": err[-1500:]}, no_input=True))
                continue
            for i, (args, den) in zip(ids, vals[0]):
                x, w, _ = impl[i]
                c = cases[i]
                with np.errstate(all="ignore"):
                    px = np.exp(np.array(args, "d")) / np.array(den, "d")
                    mw = px / px.sum()
                if not np.all(np.isfinite(mw)):
                    continue
                tol = 1e-12 if c["dist"] != "schulz" else 1e-7
                if np.any(np.abs(mw - w) > tol * (w.max() + mw)):
                    j = int(np.argmax(np.abs(mw - w)))
                    run.add(Finding("C02:corr:weights:%s" % c["dist"], "%s: weight[%d]=%.15g differs from the Coq formula %.15g" % (c["dist"], j, w[j], mw[j]), dict(c)))
    for c in cases[3:7]:
        run.sample(c)
    run.coverage.update(evaluations=evals, distinct_nontrivial=len(distinct), traces_validated_against_impl=traces, input_distribution=stats)
    run.assumptions += ["exp, log and lgamma are leaves applied by the harness (numpy/scipy, as in the implementation)",
                        "documented densities from scipy.stats: norm, lognorm(s=sigma/centre, scale=centre), gamma(a=(c/sigma)^2, scale=c/a), laplace; flat for uniform/rectangle",
                        "lognormal and Schulz are generated with relative widths only (with an absolute width they are centred on 0, outside their support)"]
    run.finish_args = dict(level="proof",
                           rule="6 distribution types x centre in [0.1,1e4] x PD in [1e-3,2] x npts 1..200 x nsigmas 0.5..10 x limits cutting none/one/both tails, relative and absolute widths; distinct = distinct (type, convention, cut, size)",
                           trusted=["scipy.stats / scipy.special as references", "harness/c02.py"])
