"""C19 — the SESANS transform is the Hankel transform G(xi) - G(0) of I(q) (partial)."""
from __future__ import annotations

import math
import random

import numpy as np

from . import common, sas
from .common import Finding, fhex, flist, coq_list


def main(run):
    from scipy.special import j0
    from sasmodels.sesans import SesansTransform
    rng = random.Random(run.seed * 43 + 19)
    thorough = run.tier == "thorough"
    run.prove(["C19/Property.v"])
    cases, metas = [], []
    stats = dict(transforms=0, gaussian_checks=0, mask_cases=0, single_point=0, grid_sizes=[])
    evals, distinct = 0, set()
    ntrans = 6 if not thorough else 40
    for t in range(ntrans):
        n = rng.choice([1, 2, 5, 20, 60]) if not thorough else rng.choice([1, 2, 3, 10, 50, 200])
        lo = rng.choice([10.0, 100.0, 500.0]); hi = lo * rng.choice([5.0, 20.0, 200.0])
        xi = np.array([lo]) if n == 1 else (np.linspace(lo, hi, n) if rng.random() < 0.5 else np.logspace(math.log10(lo), math.log10(hi), n))
        # spin-echo lengths are not always stored in increasing order (concatenated scans): every data point still
        # gets the transform at ITS length.  (The q range is taken from xi[0], xi[1] and xi[-1], so those stay put.)
        if t % 2 == 1 and n < 5:
            n = rng.choice([7, 20]); xi = np.linspace(lo, hi, n)
        if t % 2 == 1:
            mid = list(range(2, n - 1)); rng.shuffle(mid)
            xi = xi[[0, 1] + mid + [n - 1]]
            stats["unsorted_sets"] = stats.get("unsorted_sets", 0) + 1
        # spin-echo lengths read from a file of whole numbers arrive as an INTEGER array: same values, same transform
        if t % 3 == 2 and n >= 2:
            xi = np.unique(np.round(xi).astype(np.int64))
            if len(xi) >= 2:
                stats["integer_length_sets"] = stats.get("integer_length_sets", 0) + 1
            else:
                xi = np.array([int(lo), int(lo) * 3], dtype=np.int64)
            n = len(xi)
        lam = rng.choice([2.0, 5.0, 8.0])
        theta_max = rng.choice([math.pi / 2, 0.05, 0.01, 0.002])
        if t % 3 == 2:
            theta_max = rng.choice([0.05, 0.01])        # an acceptance well below 1 1/A
        zacc = 2 * math.pi / lam * math.sin(theta_max)
        # the grid ratio is a (rarely passed) keyword: the weights are the steps of whatever grid was built
        spacing = rng.choice([1.001, 1.0001, 1.002]) if t % 4 == 1 else None
        if spacing is None:
            tr = SesansTransform(xi, xi, np.full(len(xi), lam), zacc, 1e7)
        else:
            tr = SesansTransform(xi, xi, np.full(len(xi), lam), zacc, 1e7, log_spacing=spacing)
            stats["other_log_spacing"] = stats.get("other_log_spacing", 0) + 1
        q = np.asarray(tr.q_calc)
        evals += 1; stats["transforms"] += 1; stats["grid_sizes"].append(len(q))
        desc = dict(n_xi=int(n), xi_range=[float(xi[0]), float(xi[-1])], wavelength=lam, theta_max=theta_max, zaccept=zacc, n_q=len(q), log_spacing=spacing)
        if spacing is not None and len(q) > 2 and not np.allclose(q[1:] / q[:-1], spacing, rtol=1e-9):
            run.add(Finding("C19:grid", "log_spacing=%r: successive q_calc values have ratio %r" % (spacing, float(q[1] / q[0])), desc))
            continue
        # q_calc positive and increasing
        if not (np.all(q > 0) and np.all(np.diff(q) > 0)):
            run.add(Finding("C19:qcalc", "q_calc is not positive and increasing for %s" % desc, desc))
            continue
        # linearity
        I1 = np.exp(-0.5 * (q * 300.0) ** 2); I2 = 1.0 / (1.0 + (q * 80.0) ** 2) ** 2
        a, b = rng.uniform(0.1, 3), rng.uniform(-2, 2)
        lhs = tr.apply(a * I1 + b * I2); rhs = a * tr.apply(I1) + b * tr.apply(I2)
        if not np.allclose(lhs, rhs, rtol=1e-9, atol=1e-12 * np.abs(rhs).max()):
            run.add(Finding("C19:linear", "apply is not linear for %s" % desc, desc)); continue
        # acceptance mask: an intensity concentrated above / below the acceptance in q
        if zacc < q[-1]:
            stats["mask_cases"] += 1
            k_out = int(np.searchsorted(q, zacc * 1.02))       # just outside the acceptance
            k_in = int(np.searchsorted(q, zacc * 0.98)) - 1     # just inside
            for k, inside in ((k_out, False), (k_in, True)):
                if 1 <= k < len(q):
                    Iq = np.zeros(len(q)); Iq[k] = 1.0
                    dq = q[k] - q[k - 1]
                    want = (np.where(q[k] <= zacc and q[k] * lam / (2 * math.pi) <= 1, j0(q[k] * xi), 0.0) - 1.0) * q[k] * dq / (2 * math.pi)
                    got = tr.apply(Iq)
                    if not np.allclose(got, want, rtol=1e-10, atol=1e-18):
                        run.add(Finding("C19:mask", "acceptance %.6g 1/A (wavelength %.3g, theta_max %.4g): a unit intensity at q=%.6g (%s the acceptance) gives %r, expected %r" % (
                            zacc, lam, theta_max, q[k], "inside" if inside else "outside", got[:3], np.atleast_1d(want)[:3]), dict(desc, q=float(q[k]))))
        # sparse correspondence case: I supported on a random subset of the grid
        S = sorted(rng.sample(range(1, len(q)), min(len(q) - 1, 150)))
        Iq = np.zeros(len(q))
        for k in S:
            Iq[k] = rng.uniform(0.0, 2.0)
        got = tr.apply(Iq)
        nx = min(len(xi), 6)
        cols = sorted(rng.sample(range(len(xi)), nx))          # data points anywhere in the set
        J = j0(np.outer(q[S], xi[cols]))
        scale = np.array([np.sum((np.abs(J[:, j]) + 1) * Iq[S] * q[S] * (q[S] - q[np.array(S) - 1])) / (2 * math.pi) for j in range(nx)])
        pts = coq_list(["(%s, %s, %s, %s)" % (fhex(q[k] - q[k - 1]), fhex(q[k]), fhex(Iq[k]), flist(J[i])) for i, k in enumerate(S)], "(float * float * float * list float)")
        cases.append("(MkCase %s %s %s %s %s)" % (pts, fhex(lam), fhex(zacc), flist(scale), flist(got[cols])))
        desc["xi_order"] = "unsorted" if t % 2 == 1 else "increasing"
        metas.append(desc)
        distinct.add((n, lo, hi, lam, theta_max))
        run.sample(desc)
    # ---- construction from a data object: per-point wavelengths (time of flight), acceptance angle theta_max
    from sasmodels.data import empty_sesans
    from sasmodels import direct_model as dm
    casesD, metasD = [], []
    stats["data_objects"] = 0; stats["direct_model"] = 0
    for t in range(6 if not thorough else 30):
        n = rng.choice([1, 3, 8, 25])
        lo = rng.choice([50.0, 200.0, 1000.0]); hi = lo * rng.choice([4.0, 30.0])
        xi = np.array([lo]) if n == 1 else np.linspace(lo, hi, n)
        lam = np.array([rng.uniform(2.0, 9.0) for _ in range(n)]) if t % 3 else np.full(n, rng.choice([2.0, 6.0]))
        # an acceptance angle whose q cut 2 pi/max(lam) sin(theta_max) falls inside the calculated q range
        # (for every wavelength of the set), except for one wide-open case
        q_hi = 2 * math.pi / (xi[1] - xi[0]) if n > 1 else 20 * math.pi / xi[0]
        theta_max = math.pi / 2 if t == 5 else math.asin(min(1.0, q_hi * rng.uniform(0.02, 0.3) * lam.min() / (2 * math.pi)))
        data = empty_sesans(xi, wavelength=lam.copy(), zacceptance=(theta_max, "radians"))
        tr = dm._make_sesans_transform(data)
        q = np.asarray(tr.q_calc)
        evals += 1; stats["data_objects"] += 1
        desc = dict(kind="data-object", n_xi=int(n), xi_range=[float(xi[0]), float(xi[-1])], wavelength=list(map(float, lam)), theta_max=theta_max, n_q=len(q))
        # the cut the property names: the acceptance 2 pi/lam sin(theta_max), one for the set = that of the longest wavelength
        zacc = 2 * math.pi / lam.max() * math.sin(theta_max)
        for factor in (0.97, 1.03, (lam.max() / lam.min()) * 0.97):
            k = int(np.searchsorted(q, zacc * factor))
            if 1 <= k < len(q):
                Iq = np.zeros(len(q)); Iq[k] = 1.0
                keep = (q[k] <= zacc) & (q[k] * lam / (2 * math.pi) <= 1)
                want = (np.where(keep, j0(q[k] * xi), 0.0) - 1.0) * q[k] * (q[k] - q[k - 1]) / (2 * math.pi)
                got = tr.apply(Iq)
                stats["mask_cases"] += 1
                if not np.allclose(got, want, rtol=1e-10, atol=1e-18):
                    run.add(Finding("C19:data-mask", "SESANS data with wavelengths %.3g..%.3g A and acceptance %.4g rad: a unit intensity at q=%.6g (the acceptance of the set is q <= %.6g) gives %r, expected %r" % (
                        lam.min(), lam.max(), theta_max, q[k], zacc, got[:3], want[:3]), dict(desc, q=float(q[k]), zaccept_expected=zacc)))
        S = sorted(rng.sample(range(1, len(q)), min(len(q) - 1, 120)))
        Iq = np.zeros(len(q))
        for k in S:
            Iq[k] = rng.uniform(0.0, 2.0)
        got = tr.apply(Iq)
        nx = min(len(xi), 5)
        J = j0(np.outer(q[S], xi[:nx]))
        scale = np.array([np.sum((np.abs(J[:, j]) + 1) * Iq[S] * q[S] * (q[S] - q[np.array(S) - 1])) / (2 * math.pi) for j in range(nx)])
        pts = coq_list(["(%s, %s, %s, %s)" % (fhex(q[k] - q[k - 1]), fhex(q[k]), fhex(Iq[k]), flist(J[i])) for i, k in enumerate(S)], "(float * float * float * list float)")
        casesD.append("(MkCaseD %s %s %s %s %s)" % (pts, flist(lam), fhex(math.sin(theta_max)), flist(scale), flist(got[:nx])))
        metasD.append(desc)
        distinct.add(("data", n, lo, hi, theta_max, t % 3 != 0))
        # DirectModel on the data object: G(xi) of the model's I(q_calc), background forced to zero
        if t < (2 if not thorough else 8):
            model = sas.load("sphere")
            calc = dm.DirectModel(data, model)
            pars = dict(radius=rng.uniform(100, 2000), sld=3.0, sld_solvent=1.0, scale=rng.uniform(0.1, 2), background=rng.uniform(0.1, 5))
            got = calc(**pars)
            kern = model.make_kernel([q])
            ref = tr.apply(dm.call_kernel(kern, dict(pars, background=0.0)))
            evals += 1; stats["direct_model"] += 1
            if not np.allclose(got, ref, rtol=1e-12, atol=0):
                run.add(Finding("C19:direct-model", "DirectModel on SESANS data differs from the transform of the background-free I(q_calc) (max rel %.3g)" % (
                    np.abs(got / ref - 1).max()), dict(desc, pars=pars)))
    # ---- Gaussian Hankel pairs: I = exp(-q^2 s^2/2)  ->  (exp(-xi^2/2s^2) - 1)/(2 pi s^2)
    for t in range(4 if not thorough else 20):
        xi = np.logspace(2, 4, 40) if t % 2 else np.linspace(100, 5000, 50)
        tr = SesansTransform(xi, xi, np.full(len(xi), 5.0), 2 * math.pi / 5.0, 1e7) if t % 4 != 3 else \
            SesansTransform(xi, xi, np.full(len(xi), 5.0), 2 * math.pi / 5.0, 1e7, log_spacing=1.001)
        q = tr.q_calc
        lo_s, hi_s = 30.0 / q[-1], 0.03 / q[0]      # 1/s well inside the calculated range
        s = math.exp(rng.uniform(math.log(lo_s), math.log(hi_s)))
        comps = [(1.0, s)] if t % 3 else [(1.0, s), (0.5, s * 0.4)]
        Iq = sum(a * np.exp(-0.5 * (q * si) ** 2) for a, si in comps)
        got = tr.apply(Iq)
        want = sum(a * (np.exp(-xi ** 2 / (2 * si ** 2)) - 1) / (2 * math.pi * si ** 2) for a, si in comps)
        evals += 1; stats["gaussian_checks"] += 1
        relerr = np.abs(got - want).max() / np.abs(want).max()
        if relerr > 1e-3:
            run.add(Finding("C19:gaussian", "Gaussian pair s=%.4g: max relative error %.3g (quadrature accuracy is about half the log spacing, 1.5e-4)" % (s, relerr),
                            dict(s=s, components=comps, got=list(map(float, got[:5])), want=list(map(float, want[:5])))))
        else:
            distinct.add(("gauss", round(s, 3), len(comps)))
    # ---- a single-point data set agrees with that point inside a larger set
    xi = np.logspace(1, 3, 100)
    trv = SesansTransform(xi, xi, np.full(len(xi), 5.0), 2 * math.pi / 5.0, 1e7)
    for k in (0, 20, 50, 99):
        sv = xi[k] / 3.0          # 1/s well inside the q range of the single-point transform [0.063/xi, 63/xi]
        yv = trv.apply(np.exp(-0.5 * (trv.q_calc * sv) ** 2))
        t1 = SesansTransform(xi[k:k + 1], xi[k:k + 1], np.array([5.0]), 2 * math.pi / 5.0, 1e7)
        y1 = t1.apply(np.exp(-0.5 * (t1.q_calc * sv) ** 2))[0]
        evals += 1; stats["single_point"] += 1
        if abs((y1 - yv[k]) / yv[k]) > 0.1:
            run.add(Finding("C19:single", "single-point value %.6g at xi=%.4g differs from the vector value %.6g by more than 10%%" % (y1, xi[k], yv[k]), dict(xi=float(xi[k]))))
    traces = 0
    if cases and not run.proof_broken():
        shards = ["From Coq Require Import List PrimFloat.\nImport ListNotations.\nFrom SM Require Import Base.Num C19.Model C19.Exec.\n"
                  "Definition cases : list Case := [\n%s\n].\nEval vm_compute in (check_cases %s cases).\n" % (";\n".join(cases[i:i + 4]), fhex(1e-11)) for i in range(0, len(cases), 4)]
        for si, (rc, vals, err) in enumerate(common.run_coq_shards(shards, run.scratch.sub("coq"), prefix="c19", jobs=8)):
            if rc != 0 or not vals:
                run.add(Finding("corr:C19:coq", "correspondence shard failed: %s" % err[-300:], {"correspondence": "C19.Exec.check_cases", "stderr": err[-1500:]}, no_input=True))
                continue
            traces += min(4, len(cases) - si * 4)
            for idx in vals[0]:
                run.add(Finding("C19:corr", "apply differs from the Coq model on a sparse intensity for %s" % metas[si * 4 + idx], metas[si * 4 + idx]))
    if casesD and not run.proof_broken():
        shards = ["From Coq Require Import List PrimFloat.\nImport ListNotations.\nFrom SM Require Import Base.Num C19.Model C19.Exec.\n"
                  "Definition cases : list CaseD := [\n%s\n].\nEval vm_compute in (check_casesD %s cases).\n" % (";\n".join(casesD[i:i + 4]), fhex(1e-11)) for i in range(0, len(casesD), 4)]
        for si, (rc, vals, err) in enumerate(common.run_coq_shards(shards, run.scratch.sub("coqd"), prefix="c19d", jobs=8)):
            if rc != 0 or not vals:
                run.add(Finding("corr:C19:coq", "correspondence shard failed: %s" % err[-300:], {"correspondence": "C19.Exec.check_casesD", "stderr": err[-1500:]}, no_input=True))
                continue
            traces += min(4, len(casesD) - si * 4)
            for idx in vals[0]:
                run.add(Finding("C19:corr-data", "the transform built from a data object differs from the Coq model (per-point wavelengths, zaccept = 2 pi/max(lam) sin(theta_max)) for %s" % metasD[si * 4 + idx], metasD[si * 4 + idx]))
    stats["grid_sizes"] = dict(min=min(stats["grid_sizes"]), max=max(stats["grid_sizes"]))
    run.coverage.update(evaluations=evals, distinct_nontrivial=len(distinct), traces_validated_against_impl=traces, input_distribution=stats)
    run.assumptions += ["J0 is a leaf (scipy.special.j0); the q grid is taken from the implementation (its positivity/monotonicity is checked, and proved for exp of an arithmetic progression)",
                        "quadrature accuracy for Gaussian pairs and the single-point vs vector tolerance are numerical checks, not theorems",
                        "the model is compared on intensities supported on 150 random grid points (the transform is linear; the full 20-30k point grid is too large for a Coq literal)"]
    run.finish_args = dict(level="proof",
                           rule="spin-echo length grids (1..60 points quick / 1..200 thorough, linear and log, 10 A .. 10 um) x wavelength x acceptance incl. narrow ones; sparse random intensities for the correspondence; Gaussian and sum-of-Gaussian Hankel pairs; single-point data sets",
                           trusted=["scipy.special.j0", "harness/c19.py"])
