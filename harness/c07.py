"""C07 — P@S interaction models combine form and structure factor as documented."""
from __future__ import annotations

import os
import random

import numpy as np

from . import common, sas, c01, c11
from .common import Finding, fhex, flist, cbool

REL_TOL = 1e-11
S_MODELS = ["hardsphere", "stickyhardsphere", "squarewell", "hayter_msa"]
QUICK_P = ["sphere", "core_shell_sphere", "cylinder", "ellipsoid", "vesicle", "hollow_cylinder", "fuzzy_sphere",
           "core_shell_cylinder", "parallelepiped", "lamellar",
           # form factors that name effective-radius modes but have no amplitude output (no beta mode parameter)
           "pearl_necklace", "mono_gauss_coil", "raspberry"]


def p_candidates():
    from sasmodels.core import list_models, load_model_info
    out = []
    for n in list_models():
        info = load_model_info(n)
        if info.structure_factor or callable(info.Iq):
            continue
        if "radius_effective" in info.parameters:
            continue
        out.append(n)
    return out



class Untranslatable(Exception):
    pass


def _translate_init():
    """ProductKernel.__init__ of the current product.py: the integer arithmetic that derives the slices and
    indices, as a Coq term over Z.  Fail-closed Python-ast walk: statements that bind the inputs must read exactly
    as expected, every other statement must be `name = <int expr>` or `self._name = <int expr | slice(...)>`."""
    import ast, os
    import sasmodels.product as prod
    tree = ast.parse(open(os.path.join(common.REPO, "sasmodels", "product.py")).read())
    fn = None
    for node in tree.body:
        if isinstance(node, ast.ClassDef) and node.name == "ProductKernel":
            for it in node.body:
                if isinstance(it, ast.FunctionDef) and it.name == "__init__":
                    fn = it
    if fn is None:
        raise Untranslatable("ProductKernel.__init__ not found")
    consts = {}
    for cname in ("NUM_COMMON_PARS", "NUM_MAGNETIC_PARS", "NUM_MAGFIELD_PARS"):
        v = getattr(prod, cname, None)
        if not isinstance(v, int):
            raise Untranslatable("constant %s" % cname)
        consts[cname] = v
    bools = {"volfrac_in_p", "have_beta_mode", "have_er_mode"}
    inputs = {   # statements that bind the inputs of the arithmetic: must read exactly like this
        "p_npars": "p_info.parameters.npars", "s_npars": "s_info.parameters.npars",
        "have_beta_mode": "p_info.have_Fq", "have_er_mode": "p_info.radius_effective_modes is not None",
        "volfrac_in_p": "self._volfrac_index < p_npars + NUM_COMMON_PARS",
    }
    skip_exact = {"self.info = model_info", "self.q = q", "self.p_kernel = p_kernel", "self.s_kernel = s_kernel",
                  "self.dtype = p_kernel.dtype", "self.results = None", "(p_info, s_info) = self.info.composition[1]",
                  "p_info, s_info = self.info.composition[1]", "self._volfrac_in_p = volfrac_in_p"}
    ints = {"p_npars", "s_npars"}
    lets, outs = [], {}

    def ex(e):
        if isinstance(e, ast.Constant) and isinstance(e.value, int) and not isinstance(e.value, bool):
            return "%d" % e.value
        if isinstance(e, ast.Constant) and e.value is None:
            return "NONE"
        if isinstance(e, ast.Name):
            if e.id in consts:
                return "%d" % consts[e.id]
            if e.id in bools:
                return "(b2z %s)" % e.id
            if e.id in ints:
                return e.id
            raise Untranslatable("name %s" % e.id)
        if isinstance(e, ast.Attribute) and ast.unparse(e) == "p_info.parameters.nmagnetic":
            return "nmagnetic"
        if isinstance(e, ast.BinOp) and isinstance(e.op, (ast.Add, ast.Sub, ast.Mult)):
            op = {ast.Add: "+", ast.Sub: "-", ast.Mult: "*"}[type(e.op)]
            return "(%s %s %s)" % (ex(e.left), op, ex(e.right))
        if isinstance(e, ast.IfExp):
            t = e.test
            if isinstance(t, ast.Name) and t.id in bools:
                c = t.id
            elif isinstance(t, ast.Name) and t.id in ints:
                c = "(negb (%s =? 0))" % t.id
            else:
                raise Untranslatable("condition %s" % ast.unparse(t))
            return "(if %s then %s else %s)" % (c, ex(e.body), ex(e.orelse))
        raise Untranslatable("expression %s" % ast.unparse(e))

    for st in fn.body:
        if isinstance(st, ast.Expr) and isinstance(st.value, ast.Constant):
            continue
        if isinstance(st, ast.AnnAssign):
            st = ast.Assign(targets=[st.target], value=st.value)
        if isinstance(st, ast.For):
            if "VOLFRAC_ID" in ast.unparse(st) and "_volfrac_index" in ast.unparse(st):
                continue      # the search for the volfraction parameter in the combined table (observed, not translated)
            raise Untranslatable("loop")
        if not (isinstance(st, ast.Assign) and len(st.targets) == 1):
            raise Untranslatable("statement %s" % ast.unparse(st)[:60])
        txt = ast.unparse(st)
        if txt in skip_exact:
            continue
        tgt = st.targets[0]
        if isinstance(tgt, ast.Name):
            if tgt.id in inputs:
                if ast.unparse(st.value) != inputs[tgt.id]:
                    raise Untranslatable("input %s is now bound as %s" % (tgt.id, ast.unparse(st.value)))
                continue
            lets.append((tgt.id, ex(st.value)))
            ints.add(tgt.id)
            continue
        if isinstance(tgt, ast.Attribute) and isinstance(tgt.value, ast.Name) and tgt.value.id == "self":
            v = st.value
            if isinstance(v, ast.Call) and isinstance(v.func, ast.Name) and v.func.id == "slice" and len(v.args) == 2 and not v.keywords:
                outs[tgt.attr + ".start"] = ex(v.args[0]); outs[tgt.attr + ".stop"] = ex(v.args[1])
            else:
                outs[tgt.attr] = ex(v)
            continue
        raise Untranslatable("statement %s" % txt[:60])
    need = ["_p_value_slice.start", "_p_value_slice.stop", "_er_index", "_s_value_slice.start", "_s_value_slice.stop",
            "_beta_mode_index", "_er_mode_index", "_magentic_slice.start", "_magentic_slice.stop",
            "_p_detail_slice.start", "_p_detail_slice.stop", "_s_detail_slice.start", "_s_detail_slice.stop", "_s_dist_slice.start"]
    for n in need:
        if n not in outs or outs[n] == "NONE":
            raise Untranslatable("attribute %s not assigned an integer" % n)
    body = "".join("    let %s := %s in\n" % (n, e) for n, e in lets)
    return body + "    [ " + ";\n      ".join(outs[n] for n in need) + " ]"


def _translate_combination():
    """the tail of ProductKernel.Iq of the current tree - PS, combined_scale, final_result - evaluated symbolically
    (harness/nptrans.py) once for each value of the two flags it branches on.  Returns {(volfrac_in_p, beta): expr}."""
    import ast
    from . import nptrans
    path = os.path.join(common.REPO, "sasmodels", "product.py")
    try:
        _, body = nptrans.function_body(path, "ProductKernel.Iq")
        txt = [ast.unparse(b) for b in body]
        for need in ("scale, background = (values[0], values[1])", "volfrac = values[self._volfrac_index]",
                     "F, Fsq, radius_effective, shell_volume, volume_ratio = self.p_kernel.Fq(p_details, p_values, cutoff, magnetic, er_mode)",
                     "S = self.s_kernel.Iq(s_details, s_values, cutoff, False)", "return final_result"):
            if need not in txt and need.replace("(values[0], values[1])", "values[0], values[1]") not in txt:
                raise Untranslatable("ProductKernel.Iq: statement not found: %s" % need)
        i0 = next((i for i, t in enumerate(txt) if t.startswith("PS = ")), None)
        i1 = next((i for i, t in enumerate(txt) if t.startswith("final_result = ")), None)
        iS = txt.index("S = self.s_kernel.Iq(s_details, s_values, cutoff, False)")
        if i0 is None or i1 is None or not (iS < i0 < i1):
            raise Untranslatable("ProductKernel.Iq: PS / final_result not after the S evaluation")
        for b in body[i1 + 1:]:
            if any(isinstance(n, ast.Name) and isinstance(n.ctx, ast.Store) and n.id == "final_result" for n in ast.walk(b)):
                raise Untranslatable("final_result is changed after it was computed")
        out = {}
        for vp in (False, True):
            for beta in (False, True):
                ev = nptrans.Evaluator({"Fsq": ("q",), "F": ("q",), "S": ("q",), "scale": (), "background": (), "shell_volume": (), "volfrac": ()})
                ev.assume = {"beta_mode": beta, "self._volfrac_in_p": vp}
                ev.run(body[iS + 1:i1 + 1])        # everything between the S evaluation and final_result (helper variables included)
                r = ev.env.get("final_result")
                if r is None or r.axes != ("q",):
                    raise Untranslatable("final_result is not one value per q")
                out[(vp, beta)] = r.e
        return out
    except nptrans.Untranslatable as exc:
        raise Untranslatable(str(exc))


def gen_combination():
    """Regenerate Gen/C07_combine.v from the text of ProductKernel.Iq."""
    from . import nptrans
    lines = ["(* GENERATED by harness/c07.py from sasmodels/product.py (ProductKernel.Iq: PS, combined_scale, final_result) *)",
             "From Coq Require Import List Bool.", "From SM Require Import Base.Num C07.Model.", ""]
    note = None
    try:
        t = _translate_combination()
        names = {("Fsq", ()): "Fsq", ("F", ()): "F", ("S", ()): "S", ("scale", ()): "scale", ("background", ()): "bg", ("shell_volume", ()): "shell", ("volfrac", ()): "volfrac"}
        c = {k: nptrans.coq(e, names, {}) for k, e in t.items()}
        body = "if volfrac_in_p then (if beta then %s else %s) else (if beta then %s else %s)" % (c[(True, True)], c[(True, False)], c[(False, True)], c[(False, False)])
    except (Untranslatable, nptrans.Untranslatable, OSError, SyntaxError) as exc:
        note = "%s: %s" % (type(exc).__name__, exc)
        body = "combine O scale bg volfrac volfrac_in_p beta F Fsq S shell"
    lines.append("Definition combine_translated : bool := %s." % ("true" if note is None else "false"))
    if note:
        lines.append("(* not translated: %s *)" % note.replace("*)", "* )"))
    lines += ["Definition code_combine {T : Type} (O : Ops T) (scale bg volfrac : T) (volfrac_in_p beta : bool) (F Fsq S shell : T) : T :=", "  %s." % body, ""]
    common.write_if_changed(os.path.join(common.THEORIES, "Gen", "C07_combine.v"), "\n".join(lines))
    return note


COMBINE_NOTE = [None]


def gen():
    COMBINE_NOTE[0] = gen_combination()
    return _gen_layout()


def _gen_layout():
    """Regenerate Gen/C07_code.v from the text of product.py (ProductKernel.__init__)."""
    import os
    lines = ["(* GENERATED by harness/c07.py from sasmodels/product.py: the index arithmetic of ProductKernel.__init__ over Z.",
             "   Order: p_value.start, p_value.stop, er_index, s_value.start, s_value.stop, beta_mode_index, er_mode_index,",
             "   magnetic.start, magnetic.stop, p_detail.start, p_detail.stop, s_detail.start, s_detail.stop, s_dist.start *)",
             "From Coq Require Import ZArith List Bool.", "Import ListNotations.", "Local Open Scope Z_scope.", "",
             "Definition b2z (b : bool) : Z := if b then 1 else 0.", ""]
    note = None
    try:
        body = _translate_init()
    except (Untranslatable, OSError, SyntaxError, AttributeError) as exc:
        note = "%s: %s" % (type(exc).__name__, exc)
        body = None
    lines.append("Definition translated : bool := %s." % ("true" if note is None else "false"))
    if note:
        lines.append("(* not translated: %s *)" % note.replace("*)", "* )"))
    lines.append("")
    lines.append("Definition code_layout (p_npars s_npars : Z) (volfrac_in_p have_beta_mode have_er_mode : bool) (nmagnetic : Z) : list Z :=")
    if body is None:
        lines.append("  @nil Z.")
    else:
        lines.append(body + ".")
    lines.append("")
    common.write_if_changed(os.path.join(common.THEORIES, "Gen", "C07_code.v"), "\n".join(lines))
    return note


def main(run):
    from sasmodels.core import load_model_info, build_model, load_model
    from sasmodels.direct_model import call_kernel, call_Fq
    from sasmodels.product import make_product_info
    rng = random.Random(run.seed * 379 + 7)
    thorough = run.tier == "thorough"
    note = []
    run.prove(["C07/Property.v"], gen=lambda: note.append(gen()))
    if note and note[0]:
        run.notes.append("ProductKernel.__init__ not translated (%s): the source-text obligation C07_code_layout is vacuous in this run, the behavioural tie decides" % note[0])
    else:
        run.notes.append("the index arithmetic of ProductKernel.__init__ translated from the current product.py (Gen/C07_code.v) and proved equal to the model layout (C07_code_layout)")
    if COMBINE_NOTE[0]:
        run.notes.append("ProductKernel.Iq combination not translated (%s): C07_code_combine / C07_code_formula are vacuous in this run" % COMBINE_NOTE[0])
    else:
        run.notes.append("the final combination of ProductKernel.Iq (PS, combined_scale, final_result) translated from the current product.py (Gen/C07_combine.v, symbolic numpy evaluation per flag combination) and proved equal to the model's combine (C07_code_combine, C07_code_formula)")
    pnames = p_candidates() if thorough else [p for p in QUICK_P]
    # plug-in form factors whose volumes and amplitude are known in closed form (C01's hollow definitions: the shell
    # volume given as an inline string, and a definition with an amplitude function): what P reports is compared with
    # the definition itself, not only recombined
    hp_ = c01.hollow_defs(run.scratch.sub("plugins"))
    synth = {hp_[nm_]: c01.hollow_leaf(nm_.endswith("_fq")) for nm_ in ("verif_hollow_str", "verif_hollow_fq")}
    # ... and the same definition written in Python (evaluated by kernelpy's own dispersity loop)
    pypath_ = os.path.join(os.path.dirname(hp_["verif_hollow_str"]), "verif_hollow_py.py")
    with open(pypath_, "w") as f_:
        f_.write(c01._HOLLOW_HEAD.format(name="verif_hollow_py", flavour="python functions") + (
            "def form_volume(radius, thickness):\n    return 4.18879020478639*(radius+thickness)**3\n"
            "def shell_volume(radius, thickness):\n    return 4.18879020478639*((radius+thickness)**3 - radius**3)\n"
            "def radius_effective(mode, radius, thickness):\n    return radius + thickness if mode == 1 else radius\n"
            "def Iq(q, sld, sld_solvent, radius, thickness, fuzz):\n"
            "    vs = 4.18879020478639*((radius+thickness)**3 - radius**3)\n"
            "    a = (sld - sld_solvent)*vs/(1.0 + q*q*(radius+thickness)*(radius+thickness)*(1.0+fuzz))\n"
            "    return 1e-4*a*a\nIq.vectorized = True\n"))
    synth[pypath_] = c01.hollow_leaf(False)
    pnames = list(pnames) + sorted(synth)
    stats_synth = [0]
    cases, metas = [], []
    stats = dict(pairs=0, modes={}, beta=0, volfrac_in_p=0, hollow=0, dims={"1d": 0, "2d": 0}, with_dispersity=0,
                 layout_checked=0, beta_2d_refused=0, skipped=0)
    evals, distinct = 0, set()
    for pn in pnames:
        pinfo = load_model_info(pn)
        for sn in (S_MODELS if thorough else rng.sample(S_MODELS, 2)):
            sinfo = load_model_info(sn)
            try:
                info = make_product_info(pinfo, sinfo)
            except Exception as exc:  # noqa
                stats["skipped"] += 1
                continue
            stats["pairs"] += 1
            model = build_model(info, dtype="double", platform="dll")
            pm, sm = model.P, model.S
            modes = pinfo.radius_effective_modes or []
            has_beta = bool(pinfo.have_Fq)
            in_p = "volfraction" in pinfo.parameters
            stats["volfrac_in_p"] += int(in_p)
            oriented = any(p.type == "orientation" for p in pinfo.parameters.call_parameters)
            # the combined table has the documented order (P, S without its volfraction when P owns one, modes)
            names = [p.name for p in info.parameters.kernel_parameters]
            expect = [p.name for p in pinfo.parameters.kernel_parameters]
            pset = set(p.id for p in pinfo.parameters.kernel_parameters)
            for p in sinfo.parameters.kernel_parameters:
                if p.id == "volfraction" and in_p:
                    continue
                expect.append(p.name + "_S" if p.id in pset else p.name)
            if has_beta:
                expect.append("structure_factor_mode")
            if pinfo.radius_effective_modes is not None:
                expect.append("radius_effective_mode")
            stats["layout_checked"] += 1
            if names != expect:
                run.add(Finding("C07:table:%s@%s" % (pn, sn), "%s@%s: combined parameter table %s differs from the documented order %s" % (pn, sn, names, expect), dict(P=pn, S=sn)))
                continue
            # contrast matched (every SLD equal to the solvent's): <F> and <F^2> are exactly zero and the intensity is
            # the background - with and without the beta approximation
            slds_ = [p.name for p in pinfo.parameters.call_parameters if p.type == "sld"]
            if slds_:
                for bmode in ([0.0, 1.0] if has_beta else [0.0]):
                    cm = c01.base_pars(pinfo, rng)
                    for n_ in slds_:
                        cm[n_] = 2.5
                    bgc = rng.uniform(0.05, 0.5)
                    cm.update(scale=rng.uniform(0.3, 2), background=bgc, radius_effective=50.0, volfraction=0.2)
                    if has_beta:
                        cm["structure_factor_mode"] = bmode
                    if pinfo.radius_effective_modes is not None:
                        cm["radius_effective_mode"] = float(rng.randint(0, len(modes)))
                    kcm = model.make_kernel([np.array([0.01, 0.05, 0.2])])
                    try:
                        gcm = np.asarray(call_kernel(kcm, dict(cm), cutoff=1e-5), "d")
                    finally:
                        kcm.release()
                    evals += 1; stats["contrast_matched"] = stats.get("contrast_matched", 0) + 1
                    if not np.allclose(gcm, bgc, rtol=1e-12, atol=0):
                        # 0 * S is the background only where S itself is a number: the structure factor evaluated alone at
                        # the effective radius and volume fraction the formula hands it (hayter_msa has none for some radii)
                        pk_ = pm.make_kernel([np.array([0.01, 0.05, 0.2])]); sk_ = sm.make_kernel([np.array([0.01, 0.05, 0.2])])
                        try:
                            mode_ = int(cm.get("radius_effective_mode", 0))
                            fqp_ = {k_: v_ for k_, v_ in cm.items() if k_ in set(p_.name for p_ in pinfo.parameters.call_parameters)}
                            fq_ = call_Fq(pk_, dict(fqp_, scale=1.0, background=0.0, radius_effective_mode=mode_), cutoff=1e-5)
                            sp_ = {p_.name: p_.default for p_ in sinfo.parameters.kernel_parameters[2:]}
                            sp_.update(scale=1.0, background=0.0, radius_effective=float(fq_[2]) if mode_ > 0 else 50.0, volfraction=0.2 * float(fq_[4]))
                            s_alone = np.asarray(call_kernel(sk_, sp_, cutoff=1e-5), "d")
                        finally:
                            pk_.release(); sk_.release()
                        if not np.isfinite(s_alone).all():
                            stats["contrast_matched_S_undefined"] = stats.get("contrast_matched_S_undefined", 0) + 1
                            continue
                        run.add(Finding("C07:contrast-matched:%s@%s" % (pn, sn), "%s@%s with every SLD equal to the solvent's (structure_factor_mode %g): I(q) = %s, the background is %.6g" % (
                            os.path.basename(pn), sn, bmode, gcm.tolist(), bgc), dict(P=pn, S=sn, pars=cm)))
            for rep in range(4 if not thorough else 8):
                dim = "2d" if (oriented and rep % 4 == 3) else "1d"
                q = [np.array([0.004, 0.02, 0.09, rng.uniform(0.001, 0.3)])] if dim == "1d" else \
                    [np.array([0.03, -0.05, rng.uniform(-0.2, 0.2)]), np.array([0.04, 0.05, rng.uniform(-0.2, 0.2)])]
                ppars = c01.base_pars(pinfo, rng)
                if in_p:
                    ppars["volfraction"] = rng.uniform(0.02, 0.3)
                mode = rng.randint(0, len(modes)) if modes else 0
                beta = bool(has_beta and rng.random() < 0.5)
                scale, bg = rng.choice([1.0, rng.uniform(0.1, 2)]), rng.choice([0.0, rng.uniform(0.001, 0.1)])
                volfrac = ppars["volfraction"] if in_p else rng.uniform(0.02, 0.35)
                er_user = rng.uniform(20, 80)
                # dispersity on P parameters, and on radius_effective when the user supplies it
                pdn = c01.dispersible(pinfo.parameters, dim)
                disp = {}
                for nm in rng.sample(pdn, min(len(pdn), rng.choice([0, 1, 2]))):
                    pr = [x for x in pinfo.parameters.call_parameters if x.name == nm][0]
                    disp[nm + "_pd"] = rng.uniform(2, 10) if pr.type == "orientation" else rng.uniform(0.05, 0.25)
                    disp[nm + "_pd_n"] = rng.choice([3, 5, 9, 12, 14])       # two parameters at 12-14 points: more than one kernel invocation (slices of 100)
                # one case per form factor runs P's mesh beyond a single kernel invocation (slices of 100 points) with an
                # effective-radius mode selected: the running R_eff total is then carried from slice to slice - in 2-D
                # for oriented form factors (rep 3), in 1-D otherwise (rep 2; this reaches the kernels without an
                # amplitude function)
                if modes and pdn and ((oriented and rep == 3) or (not oriented and rep == 2)):
                    lens_ = [nm for nm in pdn if [x for x in pinfo.parameters.call_parameters if x.name == nm][0].type == "volume"][:2]
                    if lens_:
                        disp = {}
                        for nm in lens_:
                            disp[nm + "_pd"] = rng.uniform(0.05, 0.15); disp[nm + "_pd_n"] = 12 if len(lens_) > 1 else 130
                        mode = rng.randint(1, len(modes))
                        stats["meshes_beyond_one_invocation"] = stats.get("meshes_beyond_one_invocation", 0) + 1
                        # ... with angular jitter on top in 2-D: the jitter weight (with its |cos| factor) multiplies every
                        # accumulated quantity alike, so the mean effective radius is still the mean over the sizes
                        if dim == "2d" and "theta" in pdn:
                            disp["theta_pd"] = rng.uniform(5, 25); disp["theta_pd_n"] = rng.choice([3, 4])
                            stats["reff_with_jitter"] = stats.get("reff_with_jitter", 0) + 1
                if pn in synth and rep == 0:
                    disp = {}          # the first case of a synthetic form factor is monodisperse: compared with its definition
                er_disp = {}
                er_par = [x for x in info.parameters.call_parameters if x.name == "radius_effective"][0]
                if rng.random() < 0.3 and er_par.polydisperse and "radius_effective" in c01.dispersible(info.parameters, dim):
                    er_disp = {"radius_effective_pd": rng.uniform(0.05, 0.2), "radius_effective_pd_n": 5}
                if disp or er_disp:
                    stats["with_dispersity"] += 1
                spars = {}
                for p in sinfo.parameters.kernel_parameters[2:]:
                    v = p.default * rng.uniform(0.8, 1.2) if isinstance(p.default, (int, float)) and p.default else p.default
                    spars[p.name] = float(min(max(v, p.limits[0]), p.limits[1]))
                full = dict(ppars); full.update(disp); full.update(scale=scale, background=bg, radius_effective=er_user)
                full.update(er_disp)
                if not in_p:
                    full["volfraction"] = volfrac
                pset_names = set(p.name for p in pinfo.parameters.kernel_parameters)
                for k, v in spars.items():
                    full[k + "_S" if k in pset_names else k] = v
                if has_beta:
                    full["structure_factor_mode"] = 1.0 if beta else 0.0
                if pinfo.radius_effective_modes is not None:
                    full["radius_effective_mode"] = float(mode)
                else:
                    mode = 0
                kern = model.make_kernel(q)
                evals += 1
                desc = dict(P=pn, S=sn, dim=dim, mode=mode, beta=beta, pars=full, q=[list(map(float, v)) for v in q])
                try:
                    got = np.asarray(call_kernel(kern, dict(full), cutoff=1e-5), "d")
                    lazy = kern.results() if callable(getattr(kern, "results", None)) else {}
                    err = None
                except NotImplementedError as exc:
                    got, err = None, exc
                finally:
                    kern.release()
                if err is not None:
                    if beta and dim == "2d":
                        stats["beta_2d_refused"] += 1
                        continue
                    run.add(Finding("C07:error:%s@%s" % (pn, sn), "%s@%s raised %r" % (pn, sn, err), desc))
                    continue
                # the same kernel object evaluated again after one-field edits (a fit does this thousands of times):
                # each evaluation must equal the one a kernel of its own gives, which the recombination below ties
                # to the documented formula
                if not (beta and dim == "2d"):
                    seq, badseq = c11.reuse_sequence(model, q, full, 1e-5, rng, info)
                    evals += len(seq); stats["reuse_evaluations"] = stats.get("reuse_evaluations", 0) + len(seq)
                    for i, r, g_, f_ in badseq[:1]:
                        run.add(Finding("C07:reuse:%s@%s" % (pn, sn), "%s@%s: evaluation %d on a reused kernel (after edits %s) returns %s, a fresh kernel %s" % (
                            pn, sn, i, [x.get("edit") for x in seq[1:i + 1]], np.asarray(g_).tolist() if not isinstance(g_, str) else g_,
                            np.asarray(f_).tolist() if not isinstance(f_, str) else f_), dict(desc, sequence=seq[:i + 1])))
                # the parts, evaluated alone through the public API
                pk = pm.make_kernel(q); sk = sm.make_kernel(q)
                fq = dict(ppars); fq.update(disp); fq.update(scale=1.0, background=0.0, radius_effective_mode=mode)
                F, Fsq, reff, shell, ratio = call_Fq(pk, fq, cutoff=1e-5)
                if pn in synth and not disp:
                    ok_, _, comps_ = synth[pn](dict(ppars), mode, q)
                    stats_synth[0] += 1
                    if ok_ and (abs(shell - comps_[2]) > 1e-10 * abs(comps_[2]) or abs(ratio - comps_[1] / comps_[2]) > 1e-10 * abs(comps_[1] / comps_[2])
                                or not np.allclose(np.asarray(Fsq, "d"), np.asarray(comps_[4:4 + len(q[0])], "d"), rtol=1e-9, atol=0)):
                        run.add(Finding("C07:P-definition:%s" % os.path.basename(pn), "%s@%s: the form factor reports V_shell = %.10g, V_form/V_shell = %.10g; its definition gives %.10g and %.10g (these scale the intensity and the volume fraction handed to S)" % (
                            os.path.basename(pn), sn, shell, ratio, comps_[2], comps_[1] / comps_[2]), dict(desc, reported=dict(shell=float(shell), ratio=float(ratio)), definition=dict(form=comps_[1], shell=comps_[2]))))
                        pk.release(); sk.release()
                        continue
                # P's averages are the leaves of the recombination; for the dispersed cases whose mesh is small enough
                # they are themselves checked against the property's words: the weighted mean over the mesh of the
                # effective radius / volumes of monodisperse evaluations (mesh points in table order, weights from
                # get_mesh, cutoff 1e-5)
                if disp and mode > 0:
                    from sasmodels.direct_model import get_mesh
                    import itertools as _it
                    mesh_ = get_mesh(pinfo, dict(fq, radius_effective_mode=mode) if False else {k_: v_ for k_, v_ in fq.items() if k_ != "radius_effective_mode"}, dim=dim)
                    cp_ = pinfo.parameters.call_parameters
                    act = [(p_.name, np.asarray(m_[1], "d"), np.asarray(m_[2], "d")) for p_, m_ in zip(cp_, mesh_) if len(m_[2]) > 1 and not (p_.type == "orientation")]
                    npts_ = int(np.prod([len(w_) for _, _, w_ in act])) if act else 0
                    jit_ = any(len(m_[2]) > 1 for p_, m_ in zip(cp_, mesh_) if p_.type == "orientation")
                    if act and npts_ <= 320:
                        # with angular jitter the product measure factorises only without a cutoff: compare at cutoff 0
                        reff_c, shell_c = (reff, shell) if not jit_ else [float(x) for x in call_Fq(pk, fq, cutoff=0.0)[2:4]]
                        wcut_ = 1e-5 if not jit_ else 0.0
                        wn = wr = wsh = wfo = 0.0
                        for idx in _it.product(*[range(len(w_)) for _, _, w_ in act]):
                            w = 1.0
                            pt = {k_: v_ for k_, v_ in ppars.items()}
                            for (nm_, vals_, wts_), i_ in zip(act, idx):
                                w *= float(wts_[i_]); pt[nm_] = float(vals_[i_])
                            if not w > wcut_:
                                continue
                            r1 = call_Fq(pk, dict(pt, scale=1.0, background=0.0, radius_effective_mode=mode), cutoff=0.0)
                            if not (sas.raw_sums(pk, len(q[0]))["norm"] > 0):
                                continue
                            wn += w; wr += w * float(r1[2]); wsh += w * float(r1[3]); wfo += w * float(r1[3]) * float(r1[4])
                        evals += npts_
                        stats["brute_force_reff"] = stats.get("brute_force_reff", 0) + 1
                        ratio_c = float(ratio) if not jit_ else float(call_Fq(pk, fq, cutoff=0.0)[4])
                        if wn > 0 and wsh > 0 and abs(wfo / wsh - ratio_c) > 1e-9 * abs(ratio_c):
                            run.add(Finding("C07:ratio:%s" % pn, "%s (%s, mode %d, mesh of %d size points): call_Fq reports <V_form>/<V_shell> = %.12g; the weighted means over the mesh give %.12g" % (
                                pn, dim, mode, npts_, ratio_c, wfo / wsh), dict(desc, ratio=ratio_c, brute_force_ratio=wfo / wsh)))
                        if wn > 0 and (abs(wr / wn - reff_c) > 1e-9 * abs(reff_c) + 1e-300 or abs(wsh / wn - shell_c) > 1e-9 * abs(shell_c)):
                            run.add(Finding("C07:reff:%s" % pn, "%s (%s, mode %d, mesh of %d size points%s): call_Fq reports R_eff = %.12g, V_shell = %.12g; the weighted means over the mesh are %.12g, %.12g" % (
                                pn, dim, mode, npts_, " x angular jitter" if jit_ else "", reff_c, shell_c, wr / wn, wsh / wn), dict(desc, reff=float(reff_c), brute_force_reff=wr / wn)))
                sp = dict(spars)
                sp.update(scale=1.0, background=0.0, volfraction=volfrac * ratio)
                if mode > 0:
                    sp["radius_effective"] = float(reff)
                else:
                    sp["radius_effective"] = er_user
                    sp.update(er_disp)
                S = np.asarray(call_kernel(sk, sp, cutoff=1e-5), "d")
                pk.release(); sk.release()
                if beta and F is None:
                    continue
                Fa = np.zeros_like(Fsq) if F is None else np.asarray(F, "d")
                PS = (Fsq + Fa ** 2 * (S - 1)) if beta else Fsq * S
                cscale = scale / shell * (1.0 if in_p else volfrac)
                oracle = cscale * PS + bg
                stats["modes"][mode] = stats["modes"].get(mode, 0) + 1
                stats["beta"] += int(beta); stats["dims"][dim] += 1
                stats["hollow"] += int(abs(ratio - 1.0) > 1e-12)
                if np.isnan(oracle).any() or np.isnan(got).any():
                    stats["skipped"] += 1
                    continue
                sc = abs(cscale) * (np.abs(Fsq) * (np.abs(S) + 2) + Fa ** 2 * (np.abs(S) + 2)) + abs(bg)
                desc.update(product=list(map(float, got)), recombined=list(map(float, oracle)), reff=float(reff), shell=float(shell), ratio=float(ratio))
                if np.any(np.abs(got - oracle) > 1e-9 * sc + 1e-300):
                    j = int(np.argmax(np.abs(got - oracle) / (sc + 1e-300)))
                    run.add(Finding("C07:value:%s@%s" % (pn, sn), "%s@%s %s mode=%d beta=%s: P@S %.15g, recombination %.15g at q index %d" % (
                        pn, sn, dim, mode, beta, got[j], oracle[j], j), desc))
                    continue
                # reported intermediates are the ones used
                if lazy:
                    bad = None
                    if abs(lazy.get("radius_effective", reff) - reff) > 1e-12 * abs(reff) + 1e-300:
                        bad = "radius_effective %r vs %r" % (lazy.get("radius_effective"), reff)
                    if abs(lazy.get("volume", shell) - shell) > 1e-12 * abs(shell):
                        bad = "volume %r vs %r" % (lazy.get("volume"), shell)
                    if abs(lazy.get("volume_ratio", ratio) - ratio) > 1e-12 * abs(ratio):
                        bad = "volume_ratio %r vs %r" % (lazy.get("volume_ratio"), ratio)
                    if "S(Q)" in lazy and np.any(np.abs(np.asarray(lazy["S(Q)"][1]) - S) > 1e-10 * (np.abs(S) + 1)):
                        bad = "S(Q) differs from the structure factor evaluated alone"
                    if "P(Q)" in lazy and np.any(np.abs(np.asarray(lazy["P(Q)"][1]) - cscale * Fsq) > 1e-10 * np.abs(cscale * Fsq) + 1e-300):
                        bad = "P(Q) differs from scale*<F^2>/V"
                    if bad:
                        run.add(Finding("C07:intermediates:%s@%s" % (pn, sn), "%s@%s: reported intermediate %s" % (pn, sn, bad), desc))
                        continue
                distinct.add((pn, sn, dim, mode, beta, tuple(sorted(disp)), bool(er_disp)))
                cases.append("(MkCase %s %s %s %s %s %s %s %s %s %s)" % (fhex(scale), fhex(bg), fhex(volfrac), cbool(in_p), cbool(beta),
                             flist(Fa), flist(Fsq), flist(S), fhex(shell), flist(got)))
                metas.append(desc)
                run.sample(dict(P=pn, S=sn, dim=dim, mode=mode, beta=beta, volfraction_in_P=in_p, dispersed=sorted(disp) + sorted(er_disp)))
    traces = 0
    if cases and not run.proof_broken():
        shards = []
        N = 300
        for i in range(0, len(cases), N):
            shards.append("From Coq Require Import List PrimFloat.\nImport ListNotations.\nFrom SM Require Import Base.Num C07.Model C07.Exec.\n"
                          "Definition cases : list Case := [\n%s\n].\nEval vm_compute in (check_cases %s cases).\n" % (";\n".join(cases[i:i + N]), fhex(REL_TOL)))
        for si, (rc, vals, err) in enumerate(common.run_coq_shards(shards, run.scratch.sub("coq"), prefix="c07", jobs=8)):
            if rc != 0 or not vals:
                run.add(Finding("corr:C07:coq", "correspondence shard failed: %s" % err[-300:], {"correspondence": "C07.Exec.check_cases", "stderr": err[-1500:]}, no_input=True))
                continue
            for k, codes in enumerate(vals[0]):
                traces += 1
                if codes:
                    m = metas[si * N + k]
                    run.add(Finding("C07:corr:%s@%s" % (m["P"], m["S"]), "%s@%s: P@S differs from the Coq combination at q indices %s" % (m["P"], m["S"], codes), m))
    stats["synthetic_P_checked_against_definition"] = stats_synth[0]
    run.coverage.update(evaluations=evals, distinct_nontrivial=len(distinct), traces_validated_against_impl=traces, input_distribution=stats)
    run.assumptions += ["P and S are evaluated alone through call_Fq / call_kernel with the values the documentation says S receives (R_eff of the selected mode or the user's value, volfraction * V_form/V_shell)"]
    run.finish_args = dict(level="proof",
                           rule="(P,S) pairs x effective-radius modes 0..n x beta on/off x dispersity on 0-2 P parameters and on radius_effective (mode 0) x 1-D/2-D; distinct = distinct (P, S, dim, mode, beta, dispersed set)",
                           trusted=["harness/c07.py (recombination oracle)"])
