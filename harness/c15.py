"""C15 — precision conversion changes only floating types and literals."""
from __future__ import annotations

import itertools
import os
import random
import re
import subprocess

import numpy as np

from . import common, sas
from .common import Finding

EXTRACT = os.path.join(common.VERIF, "extract")


def build_extracted(workdir):
    """Extract the Coq scanners to OCaml and build the driver.  Returns path or raises."""
    subprocess.run(["coqc", "-Q", common.THEORIES, "SM", os.path.join(EXTRACT, "c15_extract.v")],
                   cwd=workdir, check=True, capture_output=True)
    for f in ("c15_driver.ml",):
        with open(os.path.join(EXTRACT, f)) as src, open(os.path.join(workdir, f), "w") as dst:
            dst.write(src.read())
    subprocess.run(["ocamlfind", "ocamlopt", "-package", "str", "c15_model.mli", "c15_model.ml", "c15_driver.ml", "-o", "c15_run"],
                   cwd=workdir, check=True, capture_output=True)
    return os.path.join(workdir, "c15_run")


def _run_chunk(args):
    exe, items = args
    inp = "\n".join("%s %s" % (m, s.encode("latin-1").hex()) for m, s in items) + "\n"
    p = subprocess.run("ulimit -s unlimited; exec %s" % exe, shell=True, input=inp, capture_output=True, text=True)
    if p.returncode != 0:
        raise RuntimeError("extracted model failed: " + p.stderr[-300:])
    return [bytes.fromhex(l).decode("latin-1") for l in p.stdout.split("\n")[:len(items)]]


def run_model(exe, items, jobs=12):
    """items: list of (mode, str) -> list of str results from the extracted Coq model."""
    from concurrent.futures import ThreadPoolExecutor
    # balance by size: large sources first, round-robin
    order = sorted(range(len(items)), key=lambda i: -len(items[i][1]))
    chunks = [[] for _ in range(jobs)]
    for n, i in enumerate(order):
        chunks[n % jobs].append(i)
    chunks = [c for c in chunks if c]
    out = [None] * len(items)
    with ThreadPoolExecutor(max_workers=jobs) as ex:
        for idxs, res in zip(chunks, ex.map(_run_chunk, [(exe, [items[i] for i in c]) for c in chunks])):
            for i, r in zip(idxs, res):
                out[i] = r
    return out


# ---------------------------------------------------------------------------
# independent C tokenizer (oracle): the property's own notion of "token"
TOKEN_RE = re.compile(r"""
   (?P<comment>/\*.*?\*/|//[^\n]*)
 | (?P<directive>^[ \t]*\#[ \t]*(?:line|include|pragma)[^\n]*)
 | (?P<string>"(?:\\.|[^"\\\n])*")
 | (?P<char>'(?:\\.|[^'\\\n])*')
 | (?P<hexfloat>0[xX](?:[0-9a-fA-F]*\.[0-9a-fA-F]+|[0-9a-fA-F]+\.?)[pP][+-]?\d+[fFlL]?)
 | (?P<float>(?:\d+\.\d*(?:[eE][+-]?\d+)?|\.\d+(?:[eE][+-]?\d+)?|\d+[eE][+-]?\d+)[fFlL]?)
 | (?P<int>0[xX][0-9a-fA-F]+[uUlL]*|\d+[uUlL]*)
 | (?P<ident>[A-Za-z_][A-Za-z0-9_]*)
 | (?P<ws>\s+)
 | (?P<punct>\.\.\.|<<=|>>=|->|\+\+|--|<<|>>|<=|>=|==|!=|&&|\|\||[-+*/%&|^]=|.)
""", re.VERBOSE | re.DOTALL | re.MULTILINE)

TG = {"sin", "cos", "tan", "asin", "acos", "atan", "sinh", "cosh", "tanh", "asinh", "acosh", "atanh", "atan2", "erf", "erfc",
      "tgamma", "exp", "exp2", "exp10", "expm1", "log", "log2", "log10", "log1p", "pow", "pown", "powr", "sqrt", "rsqrt", "rootn",
      "fabs", "fmax", "fmin"}


def tokens(src):
    out = []
    for m in TOKEN_RE.finditer(src):
        out.append((m.lastgroup, m.group(0)))
    return out


def expected_tokens(toks, type_name, flag):
    """What the property says the converted token stream is (None type_name = double precision)."""
    sig = [i for i, (k, _) in enumerate(toks) if k not in ("ws", "comment")]
    pos = {i: n for n, i in enumerate(sig)}
    out = list(toks)
    for i, (k, t) in enumerate(toks):
        if k == "ident" and type_name is not None:
            m = re.fullmatch(r"(c?)double(2|4|8|16)?", t)
            if m:
                out[i] = (k, (m.group(1) or "") + type_name + (m.group(2) or ""))
        elif k == "float" and flag and t[-1] not in "fFlL":
            out[i] = (k, t + flag)
        elif k == "int" and re.fullmatch(r"0|[1-9]\d*", t):
            # documented promotion: an integer literal that is the whole first argument of a math function
            n = pos[i]
            j = n - 1
            if j >= 0 and toks[sig[j]][1] in "+-" and toks[sig[j]][0] == "punct":
                j -= 1
            if j >= 1 and toks[sig[j]][1] == "(" and toks[sig[j - 1]][0] == "ident" and toks[sig[j - 1]][1] in TG \
                    and n + 1 < len(sig) and toks[sig[n + 1]][1] in (",", ")"):
                # no comment between the pieces (the regex only skips white space)
                span_ok = all(toks[x][0] != "comment" for x in range(sig[j - 1], sig[n + 1]))
                if span_ok:
                    out[i] = ("float", t + "." + (flag or ""))
    return out


def well_formed(toks):
    """Side conditions under which the token-level statement is claimed (see DESIGN C15)."""
    for k, t in toks:
        if k in ("string", "char", "comment", "directive"):
            if re.search(r"(?<![A-Za-z0-9_])c?double(2|4|8|16)?(?![A-Za-z0-9_])", t):
                return False
            if sas_float_in(t) or re.search(r"\b(%s)\s*\(\s*[+-]?\d" % "|".join(sorted(TG)), t):
                return False
        if k == "hexfloat":
            return False
    return True


_FLOAT_IN = re.compile(r"(?<!\w)((0|[1-9]\d*)([.]\d*|([.]\d*)?[eE][+-]?\d+)|[.]\d+([eE][+-]?\d+)?)(?!\w)")


def sas_float_in(t):
    return bool(_FLOAT_IN.search(t))


FRAG_PIECES = ["double", "cdouble", "double4", "double16", "xdouble", "doubled", "double_t", "1e3", "x1e3", "3.f", ".5", "0.",
               "0x1.8p3", "a.b", "1.0", "1.5e-3", "struct3.e3", "(double)", "float", "int", "sin(2)", "pow(x, 2)", "sqrt( 10 )",
               "exp(-3)", "log10(1)", "fabs(0)", "x", "y1", "_z", "12", "0", "7u", " ", "  ", "\n", ",", ";", "(", ")", "+", "-", "*",
               "/", "=", "[", "]", "1.", "e", "E5", "2.5L", "1.0f", "atan2(1, 2)", "foo(3)", "\"s\"", "'c'", "/* c */", "// n\n",
               "1..2", "1.e5", "01.5", ".e3", "1e", "1e+", "5.e", "M_PI", "double2x", "sin (4 )", "cos(+1)", "tan(x)"]


def gen_number(rng):
    """A numeric shape from the literal grammar and its near misses."""
    ip = rng.choice(["", "", "0", "1", "7", "12", "100", "00", "05"])
    fr = rng.choice(["", "", ".", ".0", ".5", ".05", ".001", ".123", ".00"])
    ex = rng.choice(["", "", "", "e3", "E5", "e0", "e+3", "e-07", "E+10", "e", "e+", "e-"])
    tail = rng.choice(["", "", "", "f", "L", "x", "_", ".", "u"])
    head = rng.choice(["", "", "", "x", "_", ".", "-", "+"])
    return head + ip + fr + ex + tail


def gen_fragment(rng):
    n = rng.randint(1, 14)
    return "".join((gen_number(rng) + rng.choice([" ", ";", ",", ")", ""])) if rng.random() < 0.35 else rng.choice(FRAG_PIECES) for _ in range(n))


ALPHABET = ["double", "c", "x", "_", "0", "1", "2", "6", ".", "e", "+", "f", " ", "(", ",", "\""]


class Untranslatable(Exception):
    pass


def _translate_abi():
    """The two sides of the by-value interface of a compiled kernel: the parameter list of KERNEL_NAME in
    kernel_iq.c (every `double` there becomes the real type of the precision: conv_double of C15.Model) and the
    ctypes argtypes DllModel._load_dll declares for that precision.  Returns (c_params, {prec: argtypes}) as lists of
    Coq constructor texts."""
    import ast
    import re
    from . import ctrans
    src = ctrans.strip_comments(open(os.path.join(common.REPO, "sasmodels", "kernel_iq.c")).read())
    m = re.search(r"\bvoid\s+KERNEL_NAME\s*\((.*?)\)\s*\{", src, re.S)
    if not m:
        raise Untranslatable("KERNEL_NAME not found")
    cpar = []
    for prm in m.group(1).split(","):
        words = prm.replace("*", " * ").split()
        words = [w for w in words if w not in ("const", "pglobal")]
        if "*" in words:
            cpar.append("KPtr")
        elif words[:1] == ["int32_t"] and len(words) == 2:
            cpar.append("KInt32")
        elif words[:1] == ["double"] and len(words) == 2:
            cpar.append("KReal p")
        else:
            raise Untranslatable("kernel parameter %r" % prm.strip())
    tree = ast.parse(open(os.path.join(common.REPO, "sasmodels", "kerneldll.py")).read())
    fn = [f for c in tree.body if isinstance(c, ast.ClassDef) and c.name == "DllModel" for f in c.body if isinstance(f, ast.FunctionDef) and f.name == "_load_dll"]
    if len(fn) != 1:
        raise Untranslatable("DllModel._load_dll not found")
    CT = {"ct.c_int32": "KInt32", "ct.c_void_p": "KPtr", "ct.c_float": "KReal P32", "ct.c_double": "KReal P64", "ct.c_longdouble": "KReal P128"}
    out = {}
    for prec, dname, size in (("P32", "generate.F32", 4), ("P64", "generate.F64", 8), ("P128", "generate.F128", 16)):
        env = {}

        def ev(e):
            t = ast.unparse(e)
            if t in CT:
                return CT[t]
            if isinstance(e, ast.Name) and e.id in env:
                return env[e.id]
            if t == "self.dtype.itemsize":
                return size
            if isinstance(e, ast.Constant) and isinstance(e.value, int):
                return e.value
            if isinstance(e, ast.IfExp):
                return ev(e.body) if truth(e.test) else ev(e.orelse)
            if isinstance(e, ast.List):
                return [ev(x) for x in e.elts]
            if isinstance(e, ast.BinOp) and isinstance(e.op, ast.Add):
                a, b = ev(e.left), ev(e.right)
                if isinstance(a, list) and isinstance(b, list):
                    return a + b
            if isinstance(e, ast.BinOp) and isinstance(e.op, ast.Mult):
                a, b = ev(e.left), ev(e.right)
                if isinstance(a, list) and isinstance(b, int):
                    return a * b
            raise Untranslatable("expression %s" % t)

        def truth(e):
            if isinstance(e, ast.Compare) and len(e.ops) == 1:
                l, r = ast.unparse(e.left), ast.unparse(e.comparators[0])
                if isinstance(e.ops[0], (ast.Eq, ast.NotEq)) and "self.dtype" in (l, r):
                    other = r if l == "self.dtype" else l
                    if other not in ("generate.F16", "generate.F32", "generate.F64", "generate.F128"):
                        raise Untranslatable("comparison %s" % ast.unparse(e))
                    return (other == dname) == isinstance(e.ops[0], ast.Eq)
                a, b = ev(e.left), ev(e.comparators[0])
                if isinstance(a, int) and isinstance(b, int):
                    ops = {ast.Lt: a < b, ast.LtE: a <= b, ast.Gt: a > b, ast.GtE: a >= b, ast.Eq: a == b, ast.NotEq: a != b}
                    return ops[type(e.ops[0])]
            raise Untranslatable("condition %s" % ast.unparse(e))
        got = None
        for st in fn[0].body:
            if isinstance(st, ast.Assign) and len(st.targets) == 1 and isinstance(st.targets[0], ast.Name):
                try:
                    env[st.targets[0].id] = ev(st.value)
                except Untranslatable:
                    env.pop(st.targets[0].id, None)
            elif isinstance(st, ast.For) and ast.unparse(st.iter) == "self._kernels" and [ast.unparse(b) for b in st.body] == ["%s.argtypes = argtypes" % ast.unparse(st.target)]:
                got = env.get("argtypes")
        if not isinstance(got, list) or not all(isinstance(x, str) for x in got):
            raise Untranslatable("argtypes of the kernels for %s" % prec)
        out[prec] = got
    return cpar, out


def gen():
    """Regenerate Gen/C15_abi.v from kernel_iq.c (KERNEL_NAME parameter list) and kerneldll.py (DllModel._load_dll)."""
    lines = ["(* GENERATED by harness/c15.py from sasmodels/kernel_iq.c (parameter list of KERNEL_NAME) and sasmodels/kerneldll.py (DllModel._load_dll) *)",
             "From Coq Require Import List.", "Import ListNotations.", "From SM Require Import C15.Model C15.Abi.", ""]
    note = None
    try:
        cpar, at = _translate_abi()
    except (Untranslatable, OSError, SyntaxError) as exc:
        note = "%s: %s" % (type(exc).__name__, exc)
        cpar = ["KReal p"]
        at = {k: ["KReal " + k] for k in ("P32", "P64", "P128")}
    lines.append("Definition abi_translated : bool := %s." % ("true" if note is None else "false"))
    if note:
        lines.append("(* not translated: %s *)" % note.replace("*)", "* )"))
    lines += ["(* the parameters of the kernel entry point, every `double` being the real type of the precision the source is converted to *)",
              "Definition code_kernel_params (p : prec) : list ckind := [%s]." % "; ".join(cpar),
              "(* what ctypes is told about them *)",
              "Definition code_argtypes (p : prec) : list ckind :=",
              "  match p with"] + ["  | %s => [%s]" % (k, "; ".join(at[k])) for k in ("P32", "P64", "P128")] + ["  end.", ""]
    common.write_if_changed(os.path.join(common.THEORIES, "Gen", "C15_abi.v"), "\n".join(lines))
    return note


def main(run):
    from sasmodels import generate
    from sasmodels.core import load_model_info, parse_dtype
    rng = random.Random(run.seed * 4099 + 15)
    thorough = run.tier == "thorough"
    note = []
    run.prove(["C15/Property.v"], gen=lambda: note.append(gen()))
    run.notes.append(("the by-value interface of the compiled kernels not translated (%s): C15_code_abi is vacuous in this run" % note[0]) if note and note[0] else
                     "the parameter list of KERNEL_NAME (kernel_iq.c) and the ctypes argtypes of DllModel._load_dll read from the current text (Gen/C15_abi.v): at every precision each argument is declared with the C type the converted source gives it (C15_code_abi)")
    work = run.scratch.sub("c15")
    exe = None
    try:
        exe = build_extracted(work)
        run.checker_cmds.append("coqc extract/c15_extract.v (Extraction, ExtrOcamlBasic) && ocamlfind ocamlopt c15_model.ml c15_driver.ml")
    except Exception as exc:  # noqa
        run.add(Finding("corr:C15:extract", "extraction/build of the Coq scanners failed: %s" % exc, {"correspondence": "extract/c15_extract.v"}, no_input=True))
    F = {"32": np.dtype("f"), "64": np.dtype("d"), "128": np.dtype("longdouble")}
    HEADER = {"32": "#define FLOAT_SIZE 4\n", "64": "#define FLOAT_SIZE 8\n", "128": "#define FLOAT_SIZE 16\n"}
    TYPE = {"32": ("float", "f"), "64": (None, ""), "128": ("long double", "L")}
    stats = dict(sources=0, fragments=0, short_strings=0, wf_fragments=0, dtype_spellings=0)
    evals = 0
    distinct = set()

    def impl(mode, s):
        out = generate.convert_type(s, F[mode])
        assert out.startswith(HEADER[mode]), "header"
        return out[len(HEADER[mode]):]

    # 1. generated sources of the compiled models
    names = sas.compiled_model_names()
    if not thorough:
        names = rng.sample(names, 8)
    items, refs, metas = [], [], []
    for name in names:
        info = load_model_info(name)
        src = generate.make_source(info)["dll"]
        stats["sources"] += 1
        toks = tokens(src)
        wf = well_formed(toks)
        for mode in ("32", "64", "128"):
            evals += 1
            got = impl(mode, src)
            items.append((mode, src)); refs.append(got); metas.append(dict(kind="source", model=name, mode=mode))
            distinct.add(("src", name, mode))
            # token-level oracle, straight from the property text
            exp = [x for k, t in expected_tokens(toks, *TYPE[mode]) if k not in ("ws", "comment") for x in (t.split(" ") if k == "ident" else [t])]
            gott = [t for k, t in tokens(got) if k not in ("ws", "comment")]
            if gott != exp:
                i = next((k for k in range(min(len(gott), len(exp))) if gott[k] != exp[k]), min(len(gott), len(exp)))
                run.add(Finding("C15:source:%s" % name, "%s float%s: converted token stream differs from the specification at token %d: %r vs %r" % (
                    name, mode, i, gott[max(0, i - 4):i + 4], exp[max(0, i - 4):i + 4]), dict(model=name, mode=mode, token=i)))
    # 2. generated fragments with tricky tokens
    nfrag = 1500 if not thorough else 20000
    for _ in range(nfrag):
        s = gen_fragment(rng)
        stats["fragments"] += 1
        mode = rng.choice(["32", "32", "128", "64"])
        evals += 1
        got = impl(mode, s)
        items.append((mode, s)); refs.append(got); metas.append(dict(kind="fragment", text=s, mode=mode))
        distinct.add(("frag", s, mode))
        toks = tokens(s)
        if well_formed(toks) and "double" not in s.replace("double", "", 1):
            pass
        if well_formed(toks):
            stats["wf_fragments"] += 1
            exp = "".join(t for _, t in expected_tokens(toks, *TYPE[mode]))
            if got != exp and lex_stable(s):
                lz = [t for k, t in toks if k == "float" and re.match(r"0\d", t)]
                run.add(Finding("C15:nonwf:leadingzero" if lz else "C15:fragment", "fragment %r float%s: got %r, token-level specification %r" % (s, mode, got, exp),
                                dict(text=s, mode=mode, got=got, expected=exp)))
    # 2b. the conversion is a function of the text alone: two different sources that share the CRC-32 tag the library cache
    # uses to NAME sources, converted one after the other at each precision (each must get its own conversion)
    SAME_TAG = [("double f(double x) { return 2879978.5*x + k3; }", "double f(double x) { return 4006207.5*x + k2; }"),
                ("double f(double x) { return 2879977.5*x + k2; }", "double f(double x) { return 4006208.5*x + k3; }")]
    from sasmodels import generate as _g
    for a_, b_ in SAME_TAG:
        if _g.tag_source(a_) != _g.tag_source(b_):
            run.notes.append("the same-tag corpus pair no longer collides under generate.tag_source (the tag function changed)")
        for mode in ("32", "128", "64"):
            for s_ in (a_, b_):
                evals += 1
                got = impl(mode, s_)
                items.append((mode, s_)); refs.append(got); metas.append(dict(kind="fragment", text=s_, mode=mode, note="one of two sources with the same CRC-32 tag"))
                exp = "".join(t for _, t in expected_tokens(tokens(s_), *TYPE[mode]))
                stats["same_tag_sources"] = stats.get("same_tag_sources", 0) + 1
                if got != exp:
                    run.add(Finding("C15:same-tag", "source %r (float%s), converted right after another source with the same CRC-32 tag: got %r, token-level specification %r" % (s_, mode, got, exp),
                                    dict(text=s_, mode=mode, got=got, expected=exp, converted_before=a_ if s_ == b_ else None)))
    # 3. exhaustive short strings over a 16-symbol alphabet (double is one symbol)
    L = 3 if not thorough else 5
    shorts = []
    for n in range(0, L + 1):
        for tup in itertools.product(ALPHABET, repeat=n):
            shorts.append("".join(tup))
    stats["short_strings"] = len(shorts)
    for s in shorts:
        items.append(("32", s)); refs.append(impl("32", s)); metas.append(dict(kind="short", text=s, mode="32"))
    evals += len(shorts)
    # correspondence: extracted Coq scanners vs generate.convert_type
    traces = 0
    if exe is not None:
        try:
            outs = run_model(exe, items)
            for (mode, s), ref, out, m in zip(items, refs, outs, metas):
                traces += 1
                if out != ref:
                    i = next((k for k in range(min(len(out), len(ref))) if out[k] != ref[k]), min(len(out), len(ref)))
                    m = dict(m); m["offset"] = i; m["impl"] = ref[max(0, i - 40):i + 40]; m["coq_model"] = out[max(0, i - 40):i + 40]
                    if m["kind"] != "source":
                        m["input"] = s
                    run.add(Finding("C15:corr:%s" % m["kind"], "convert_type differs from the Coq scanners on %s near %r vs %r" % (
                        m.get("model") or repr(s)[:60], m["impl"], m["coq_model"]), m))
                    if sum(1 for f in run.findings if f.key.startswith("C15:corr")) > 20:
                        break
        except Exception as exc:  # noqa
            run.add(Finding("corr:C15:run", "running the extracted scanners failed: %s" % exc, {"correspondence": "c15_run"}, no_input=True))
    # 4. the documented findings: inputs on which the unrestricted statement is false
    for text, what in [('x = "1.5 double";', "string"), ("y = 0x1.8p3;", "hexfloat")]:
        got = impl("32", text)
        toks = tokens(text)
        exp = "".join(t for _, t in expected_tokens(toks, "float", "f"))
        if got != exp or what == "hexfloat":
            run.add(Finding("C15:nonwf:%s" % what, "convert_type(%r, float32) = %r" % (text, got), dict(text=text, got=got)))
    # 5. dtype spellings
    table = {"single": 4, "float32": 4, "f": 4, "fast": 4, "double": 8, "float64": 8, "d": 8, "default": 8, None: 8,
             "quad": 16, "longdouble": 16}
    # an explicit request is honoured for every model, also for those not declared safe for single precision
    # (single = False only steers the DEFAULT); a product inherits the flag of its parts
    from sasmodels.core import list_models
    unsafe = [n for n in list_models() if not load_model_info(n).single][:2]
    stats["models_not_single_safe"] = unsafe
    for mname_, spelling, size in [(m_, sp_, sz_) for m_ in ["sphere"] + unsafe + ["sphere@hardsphere"] for sp_, sz_ in table.items()]:
        info = load_model_info(mname_)
        for bang in ("", "!"):
            if spelling is None and bang:
                continue
            sp = None if spelling is None else spelling + bang
            stats["dtype_spellings"] += 1
            evals += 1
            try:
                nd, fast, platform = parse_dtype(info, sp, "dll")
                ok = nd.itemsize == size and platform == "dll" and (fast == (spelling == "fast"))
            except Exception as exc:  # noqa
                ok, nd = False, repr(exc)
            if not ok:
                run.add(Finding("C15:dtype:%s:%s" % (mname_, sp), "parse_dtype(%s, %r) selected %r, expected %d bytes on dll" % (mname_, sp, nd, size), dict(model=mname_, spelling=sp)))
    info = load_model_info("sphere")
    try:
        parse_dtype(info, "half!", "dll")
        nd, _, _ = parse_dtype(info, "half!", "dll")
        generate.convert_type("double x;", nd)
    except Exception:  # noqa
        pass
    # 6. build-and-agree in single precision for models declared single-safe (implementation-only run)
    agree = 0
    from sasmodels.direct_model import call_kernel
    safe = [n for n in sas.compiled_model_names() if load_model_info(n).single]
    for name in (safe[:20] if thorough else [n for n in ("sphere", "cylinder", "core_shell_sphere", "ellipsoid") if n in safe]):
        info = load_model_info(name)
        m64, m32 = sas.load(name, "double"), sas.load(name, "single")
        oriented = any(p.type == "orientation" for p in info.parameters.call_parameters)
        # defaults in 1-D; then with size dispersity; then (oriented models) 2-D with jitter; then 2-D with a magnetic SLD
        settings = [("1d", {}), ("1d", {"radius_pd": 0.15, "radius_pd_n": 12} if "radius" in info.parameters else {})]
        if oriented:
            settings.append(("2d", {"theta": 35.0, "phi": 20.0, "theta_pd": 10.0, "theta_pd_n": 6}))
        slds_ = [p.id for p in info.parameters.call_parameters if p.type == "sld"]
        settings.append(("2d", {slds_[0] + "_M0": 2.0, slds_[0] + "_mtheta": 40.0, slds_[0] + "_mphi": 25.0, "up_frac_i": 0.3, "up_frac_f": 0.8, "up_theta": 60.0, "up_phi": 15.0}
                         if info.parameters.nmagnetic > 0 and slds_ else {}))
        for dim, pars in settings:
            q = [np.array([0.01, 0.05, 0.1])] if dim == "1d" else [np.array([0.03, -0.05, 0.08]), np.array([0.04, 0.05, -0.02])]
            k64 = m64.make_kernel(q); k32 = m32.make_kernel(q)
            # the weight cutoff is an argument of the kernel too: the default, and one that really trims a 12-point mesh
            for cut_ in ((1e-5, 2e-2) if any(k_.endswith("_pd") for k_ in pars) else (1e-5,)):
                a = np.asarray(call_kernel(k64, dict(pars), cutoff=cut_)); b = np.asarray(call_kernel(k32, dict(pars), cutoff=cut_))
                agree += 1
                if not np.allclose(a, b, rtol=5e-3, atol=1e-7 * float(np.abs(a).max())):
                    run.add(Finding("C15:single:%s" % name, "%s (%s, %s, cutoff %g): float32 build %s vs float64 %s" % (name, dim, sorted(pars), cut_, b, a), dict(model=name, dim=dim, pars=pars, cutoff=cut_)))
            k64.release(); k32.release()
    # models that lean on the special-function library (which has separate float and double code paths), with arguments
    # of either sign
    for name, pars in [("pringle", dict(alpha=-0.001, beta=-0.02)), ("pringle", dict(alpha=0.002, beta=0.03))] + \
            ([("flexible_cylinder", {}), ("barbell", {}), ("pearl_necklace", {}), ("stacked_disks", {})] if thorough else []):
        if name not in safe:
            continue
        m64, m32 = sas.load(name, "double"), sas.load(name, "single")
        q = [np.logspace(-3, -0.3, 12)]          # up to 0.5 1/Ang: the higher-order terms only matter at large arguments
        k64 = m64.make_kernel(q); k32 = m32.make_kernel(q)
        try:
            a = np.asarray(call_kernel(k64, dict(pars), cutoff=1e-5)); b = np.asarray(call_kernel(k32, dict(pars), cutoff=1e-5))
        finally:
            k64.release(); k32.release()
        agree += 1
        stats["special_function_models"] = stats.get("special_function_models", 0) + 1
        if not np.allclose(a, b, rtol=5e-3, atol=1e-7 * float(np.abs(a).max())):
            run.add(Finding("C15:single:%s" % name, "%s (1d, %s): float32 build %s vs float64 %s" % (name, pars, b, a), dict(model=name, dim="1d", pars=pars)))
    # mixtures whose parts run at different precisions: a pure-Python part (always float64) next to a compiled part
    # built in single precision, in either order, as sum and as product; and P@S
    for name in ["power_law+sphere", "sphere+power_law", "power_law*sphere", "sphere@hardsphere"] + (["guinier+cylinder", "cylinder+power_law+sphere", "power_law+sphere@hardsphere"] if thorough else []):
        info = load_model_info(name)
        m64, m32 = sas.load(name, "double"), sas.load(name, "single")
        rad_ = [p.name for p in info.parameters.call_parameters if p.name.endswith("radius") and p.polydisperse]
        settings = [("1d", {}), ("1d", {rad_[0] + "_pd": 0.15, rad_[0] + "_pd_n": 12} if rad_ else {})]
        for dim, pars in settings:
            q = [np.array([0.01, 0.05, 0.1])]
            k64 = m64.make_kernel(q); k32 = m32.make_kernel(q)
            try:
                a = np.asarray(call_kernel(k64, dict(pars), cutoff=1e-5)); b = np.asarray(call_kernel(k32, dict(pars), cutoff=1e-5))
            finally:
                k64.release(); k32.release()
            agree += 1
            stats["mixed_precision_mixtures"] = stats.get("mixed_precision_mixtures", 0) + 1
            if not np.allclose(a, b, rtol=5e-3, atol=1e-7 * float(np.abs(a).max())):
                run.add(Finding("C15:single:%s" % name, "%s (%s, %s): float32 build %s vs float64 %s" % (name, dim, sorted(pars), b, a), dict(model=name, dim=dim, pars=pars)))
    stats["single_builds_compared"] = agree
    run.sample(dict(kind="fragment", text=items[stats["sources"] * 3][1] if len(items) > stats["sources"] * 3 else "", note="random concatenation of tricky pieces"))
    run.sample(dict(kind="short", alphabet=ALPHABET, max_length=L))
    run.sample(dict(kind="sources", models=names[:6]))
    run.coverage.update(evaluations=evals, distinct_nontrivial=len(distinct), traces_validated_against_impl=traces,
                        input_distribution=stats, exhaustive=False)
    run.assumptions += ["ASCII input (Python's \\d, \\w, \\s are Unicode-aware; the scanners model their ASCII restriction)",
                        "the token-level statement is claimed for well-formed input only: no keyword/literal/math-call pattern inside strings, character constants, comments or directives, and no hexadecimal floating literal"]
    run.finish_args = dict(level="proof",
                           rule="generated sources of compiled models x {float32,float64,long double}; random concatenations of tricky C pieces; all strings up to length %d over a 16-symbol alphabet; dtype spellings" % L,
                           trusted=["extraction: ExtrOcamlBasic only (no Extract Constant/Inductive of our own), OCaml 4.13.1, extract/c15_driver.ml (hex codec, 40 lines)",
                                    "harness/c15.py token-level oracle (its own C tokenizer)"])


def lex_stable(s):
    """The token oracle is only meaningful when adjacent pieces did not fuse into
    tokens the generator did not intend in ways C itself would reject (e.g. 1.0.8)."""
    return not re.search(r"\d\.\d*\.|\.\.|[0-9.][A-Za-z_]|[A-Za-z_0-9]\.[0-9]|[0-9][eE][+-]?($|[^0-9])|\"|'|/\*|//", s)
