"""C04 — smeared values converge to the documented resolution integrals (partial)."""
from __future__ import annotations

import math
import random

import numpy as np

from . import common, sas
from .common import Finding

FAMILIES = {
    "lorentzian2": (lambda x: 1.0 / (1.0 + (30.0 * x) ** 2) ** 2),
    "polynomial": (lambda x: 1.0 + 3.0 * x - 20.0 * x ** 2 + 50.0 * x ** 3),
    "damped_cosine": (lambda x: np.exp(-8.0 * x) * np.cos(60.0 * x)),
}


def lipschitz(f, lo, hi):
    x = np.linspace(max(lo, 0.0), hi, 4001)
    y = f(x)
    return float(np.max(np.abs(np.diff(y) / np.diff(x)))), float(np.max(np.abs(y)))


def main(run):
    import warnings
    from scipy.integrate import quad, dblquad, IntegrationWarning
    warnings.simplefilter("ignore", IntegrationWarning)
    from sasmodels.resolution import Pinhole1D, Slit1D
    from sasmodels.resolution2d import Pinhole2D
    from sasmodels.data import empty_data2D
    rng = random.Random(run.seed * 29 + 4)
    thorough = run.tier == "thorough"
    run.prove(["C04/Property.v"])
    stats = dict(pinhole=0, slit_length=0, slit_width=0, slit_mixed=0, two_d=0, worst_ratio=0.0)
    evals, distinct = 0, set()
    nq = 3 if not thorough else 8
    # ------------------------------------------------------------------ pinhole
    for fname, f in FAMILIES.items():
        for srel in ([0.05, 0.3] if not thorough else [0.02, 0.05, 0.1, 0.2, 0.3]):   # q - 2.5 sigma > 0 here; wider ones are in the next block
            q = np.sort(np.array([rng.uniform(0.01, 0.25) for _ in range(nq)]))
            s = srel * q
            ex = []
            for qi, si in zip(q, s):
                phi = lambda x: math.exp(-0.5 * ((x - qi) / si) ** 2)
                n = quad(phi, qi - 2.5 * si, qi + 3.0 * si, epsabs=0, epsrel=1e-13)[0]
                ex.append(quad(lambda x: float(f(abs(x))) * phi(x), qi - 2.5 * si, qi + 3.0 * si, epsabs=0, epsrel=1e-12)[0] / n)
            ex = np.array(ex)
            errs, hs = [], []
            for div in (2, 8, 32):
                h = s.min() / div
                qc = np.arange(max(1e-6, (q - 2.6 * s).min()), (q + 3.1 * s).max() + h, h)
                r = Pinhole1D(q, s, q_calc=qc)
                errs.append(float(np.abs(r.apply(f(r.q_calc)) - ex).max())); hs.append(h)
                evals += 1
            stats["pinhole"] += 1
            L, M = lipschitz(f, (q - 2.6 * s).min(), (q + 3.1 * s).max())
            desc = dict(kind="pinhole", family=fname, q=list(map(float, q)), sigma=list(map(float, s)), h=hs, errors=errs, exact=list(map(float, ex)))
            # first-order scheme: the C04_midpoint_O_h bound (L h) plus the two window-edge cells (|f| h phi(edge)/sigma ~ |f| h / sigma)
            bad = None
            for h, e in zip(hs, errs):
                bound = 2.0 * (L * h + M * h / s.min())
                if e > bound + 1e-13:
                    bad = "error %.3g at h=%.3g exceeds the first-order bound %.3g" % (e, h, bound)
            # first order in h, but not monotone at every refinement (the two cells cut by the window edges move
            # with the grid): over the factor 16 in h the error must fall at least by 4, and no refinement may
            # increase it by more than half
            # (the reference is the LARGER of the two coarser errors and the demand a halving: the coarsest error can be small by
            # cancellation - seed 8 gave 6.0e-4, 8.3e-4, 1.6e-4 for a correct scheme, see DESIGN 8.4 - while an error that
            # stays where it was, a floor, is still reported)
            # A 70-seed sweep showed that NO ordering of the three errors is implied by first-order convergence with moving
            # edge cells (2.6e-5, 7.2e-5, 8.8e-6 under seed 44): what is demanded beyond the bound is that the finest error
            # is at most half of the largest - an error that stays where it was (a floor) fails that.
            if errs[-1] > 0.5 * max(errs) + 1e-12:
                bad = "error does not decrease in proportion to the grid spacing: %s at h=%s" % (errs, hs)
            stats["worst_ratio"] = max(stats["worst_ratio"], errs[-1] / errs[0] if errs[0] > 0 else 0.0)
            if bad:
                run.add(Finding("C04:pinhole:%s" % fname, "pinhole smearing of %s (sigma=%.2g q): %s" % (fname, srel, bad), desc))
            else:
                distinct.add(("pinhole", fname, srel))
                run.sample(dict(kind="pinhole", family=fname, sigma_rel=srel, h=hs, errors=errs))
    # ------------------------------------------------------------------ pinhole next to the beam stop
    # data points with q < 2.5 sigma: the window [q-2.5 sigma, q+3 sigma] reaches negative q, the
    # documented integral is over I(|q'|) on the signed window; q_calc (default and user) holds negative points
    stats["pinhole_lowq"] = 0
    for fname, f in FAMILIES.items():
        for srel in ([0.5, 1.2] if not thorough else [0.41, 0.5, 0.8, 1.2, 2.0]):
            q = np.sort(np.array([rng.uniform(0.004, 0.03) for _ in range(nq)]))
            s = srel * q
            ex = []
            for qi, si in zip(q, s):
                phi = lambda x: math.exp(-0.5 * ((x - qi) / si) ** 2)
                n = quad(phi, qi - 2.5 * si, qi + 3.0 * si, epsabs=0, epsrel=1e-13)[0]
                ex.append(quad(lambda x: float(f(abs(x))) * phi(x), qi - 2.5 * si, qi + 3.0 * si, points=[0.0], epsabs=0, epsrel=1e-12)[0] / n)
            ex = np.array(ex)
            L, M = lipschitz(f, 0.0, (q + 3.1 * s).max())
            gap = 0.04 * q.min()          # |q_calc| < 0.02 min(q) is dropped: two cells of that size around zero
            errs, hs = [], []
            for div in (2, 8, 32):
                h = s.min() / div
                qc = np.arange((q - 2.6 * s).min(), (q + 3.1 * s).max() + h, h)
                r = Pinhole1D(q, s, q_calc=qc)
                errs.append(float(np.abs(r.apply(f(r.q_calc)) - ex).max())); hs.append(h)
                evals += 1
            rdef = Pinhole1D(q, s)            # default grid: steps of the data spacing
            hdef = float(np.max(np.diff(np.sort(np.concatenate([-rdef.q_calc, rdef.q_calc]))))) if len(rdef.q_calc) > 1 else 0.0
            edef = float(np.abs(rdef.apply(f(rdef.q_calc)) - ex).max())
            evals += 1
            stats["pinhole_lowq"] += 1
            desc = dict(kind="pinhole-lowq", family=fname, q=list(map(float, q)), sigma=list(map(float, s)), h=hs, errors=errs,
                        default_grid_error=edef, exact=list(map(float, ex)))
            bad = None
            for h, e in zip(hs, errs):
                bound = 2.0 * (L * (h + gap) + M * (h + gap) / s.min())
                if e > bound + 1e-13:
                    bad = "error %.3g at h=%.3g exceeds the first-order bound %.3g" % (e, h, bound)
            floor = 0.5 * (L * gap + M * gap / s.min())
            if errs[-1] > 0.5 * max(errs) + 1e-12 and errs[-1] > floor:
                bad = "error does not decrease in proportion to the grid spacing: %s at h=%s" % (errs, hs)
            if errs[-1] > floor + 2.0 * (L * hs[-1] + M * hs[-1] / s.min()):
                bad = "error %.3g on the finest grid (h=%.3g) stays above the first-order bound" % (errs[-1], hs[-1])
            if bad:
                run.add(Finding("C04:pinhole-lowq:%s" % fname, "pinhole smearing of %s at q < 2.5 sigma (sigma=%.2g q): %s" % (fname, srel, bad), desc))
            else:
                distinct.add(("pinhole-lowq", fname, srel))
                run.sample(dict(kind="pinhole-lowq", family=fname, sigma_rel=srel, h=hs, errors=errs))
    # ------------------------------------------------------------------ data not stored in increasing q
    # (descending scans, merged banks): the documented integrals do not care about storage order; the data span
    # more than a factor 50 in q so that any cutoff derived from "the first point" instead of the smallest bites
    stats["unsorted"] = 0
    for fname, f in FAMILIES.items():
        base = np.array([0.24, 0.09, 0.03, 0.011, 0.004]) * np.array([rng.uniform(0.9, 1.1) for _ in range(5)])
        for order in ("descending", "shuffled"):
            q = base.copy()
            if order == "shuffled":
                ix = list(range(5)); rng.shuffle(ix)
                if ix[0] == 4:
                    ix[0], ix[1] = ix[1], ix[0]
                q = q[ix]
            for kind in ("pinhole", "slit-length"):
                s = 0.1 * q
                Ls = 0.05
                ex = []
                for qi, si in zip(q, s):
                    if kind == "pinhole":
                        phi = lambda x: math.exp(-0.5 * ((x - qi) / si) ** 2)
                        n = quad(phi, qi - 2.5 * si, qi + 3.0 * si, epsabs=0, epsrel=1e-13)[0]
                        ex.append(quad(lambda x: float(f(abs(x))) * phi(x), qi - 2.5 * si, qi + 3.0 * si, epsabs=0, epsrel=1e-12)[0] / n)
                    else:
                        ex.append(quad(lambda u: float(f(math.sqrt(qi * qi + u * u))), 0, Ls, epsabs=0, epsrel=1e-12)[0] / Ls)
                ex = np.array(ex)
                errs = []
                for n in (300, 1200, 4800):
                    qc = np.unique(np.concatenate([np.geomspace(0.5 * q.min(), 1.6 * q.max() + Ls, n), q]))
                    r = Pinhole1D(q, s, q_calc=qc) if kind == "pinhole" else Slit1D(q, q_length=Ls, q_calc=qc)
                    with np.errstate(all="ignore"):
                        y = r.apply(f(r.q_calc))
                    e = np.abs(y - ex) / np.maximum(np.abs(ex), 1e-3)
                    errs.append(float(np.nanmax(e)) if np.all(np.isfinite(y)) else float("inf"))
                    evals += 1
                stats["unsorted"] += 1
                desc = dict(kind="unsorted-" + kind, family=fname, order=order, q=list(map(float, q)), errors=errs, exact=list(map(float, ex)))
                # geometric grid with ratio r: h/q = ln(1.6 qmax/0.5 qmin)/n; first order in 1/n
                # (converging means: already small, or still falling at the first-order rate between the two finest grids -
                # where the exact value is close to zero the RELATIVE error is large on every grid: seeds 11 and 17 gave
                # 0.64, 0.063, 0.0058 for a correct scheme, DESIGN 8.4; an error that stays where it was is still reported)
                # (an error of 1e-4 relative is an order of magnitude inside the first-order promise of a 4800-point grid; at
                # that level the three errors are not ordered - seed 11: 8.9e-6, 1.7e-5, 5.1e-6)
                # (seed 67: 0.107, 0.0011, 0.0027.)  The first-order promise of the finest grid is 2 (L h + M h / sigma) with
                # h / q = ln(q_hi / q_lo) / n ~ 1.1e-3 and sigma = 0.1 q: about 2e-2 relative; demanded: inside that promise and
                # at most half of the largest error.
                # (where the exact value is close to zero the relative error is large on every grid and still falls eightfold
                # per refinement - seed 47: 1.36, 0.17, 0.022 -: inside the promise OR still falling at the first-order rate)
                if not (errs[-1] <= 1e-4 or ((errs[-1] <= 2e-2 or errs[-1] <= 0.25 * errs[1]) and errs[-1] <= 0.5 * max(errs) + 1e-9)):
                    run.add(Finding("C04:unsorted:%s:%s" % (kind, fname), "%s smearing of %s with the data stored %s: relative errors %s on grids of 300/1200/4800 points do not converge to the documented integral" % (
                        kind, fname, order, errs), desc))
                else:
                    distinct.add(("unsorted", kind, fname, order))
    # ------------------------------------------------------------------ slit
    for fname, f in FAMILIES.items():
        for L_, W_ in ([(0.02, 0.0), (0.2, 0.0), (0.0, 0.01), (0.05, 0.01)] if not thorough else
                       [(0.01, 0.0), (0.02, 0.0), (0.1, 0.0), (0.2, 0.0), (0.5, 0.0), (0.0, 0.01), (0.0, 0.03), (0.05, 0.01), (0.2, 0.02)]):
            q = np.sort(np.array([rng.uniform(0.02, 0.2) for _ in range(nq)]))
            ex = []
            for qi in q:
                if W_ == 0:
                    ex.append(quad(lambda u: float(f(math.sqrt(qi * qi + u * u))), 0, L_, epsabs=0, epsrel=1e-12)[0] / L_)
                elif L_ == 0:
                    ex.append(quad(lambda v: float(f(abs(qi + v))), -W_, W_, epsabs=0, epsrel=1e-12)[0] / (2 * W_))
                else:
                    ex.append(dblquad(lambda u, v: float(f(math.sqrt((qi + v) ** 2 + u * u))), -W_, W_, 0, L_, epsabs=1e-13, epsrel=1e-10)[0] / (2 * W_ * L_))
            ex = np.array(ex)
            errs, ns = [], []
            for n in (60, 240, 960):
                lo = max(1e-5, (q - W_).min() * 0.6)
                qc = np.unique(np.concatenate([np.linspace(lo, math.sqrt((q.max() + W_) ** 2 + L_ ** 2) * 1.05, n), q]))
                r = Slit1D(q, q_length=L_ if L_ else None, q_width=W_ if W_ else None, q_calc=qc)
                errs.append(float(np.abs(r.apply(f(r.q_calc)) - ex).max())); ns.append(n)
                evals += 1
            kind = "length" if W_ == 0 else ("width" if L_ == 0 else "mixed")
            stats["slit_" + kind] += 1
            desc = dict(kind="slit-" + kind, family=fname, q=list(map(float, q)), q_length=L_, q_width=W_, points=ns, errors=errs, exact=list(map(float, ex)))
            bad = None
            Lf, M = lipschitz(f, 0.0, 1.0)
            if kind == "mixed":
                # the second dimension is a fixed 61-point rule (n_length=30): refinement of q_calc
                # converges to that rule, not to the integral; require its documented accuracy
                # (the limit is the 61-point rule's own error, which a coarse grid can undercut by cancellation: the finest
                # error may not exceed the larger of the coarser ones by more than a quarter - seed 8 gave 6.05e-6, 6.20e-6,
                # 6.40e-6 - and must be within the documented accuracy)
                if errs[-1] > 1.25 * max(errs[0], errs[1]) + 1e-12 or errs[-1] > 2e-3 * M:
                    bad = "error %s does not settle within the accuracy of the 61-point rule in the width direction" % errs
            elif kind == "width":
                # the width-only weights count whole calculation bins, so on grids with h comparable to W the error
                # jumps about by O(h/W) and need not fall at every refinement; it must fall in proportion to h
                # from the coarsest to the finest grid (factor 16 in h; a factor 4 is demanded)
                # for q < W the reflected part [0, W-q] is counted twice and calculation points below
                # 0.02 min(q) are never requested (C03): an interval of that length around zero is missing twice
                floor_w = 1.5 * M * (2 * 0.02 * q.min()) / (2 * W_) if q.min() < W_ else 0.0
                # whole-bin counting: up to one bin at either end of [q-W, q+W] is mis-assigned, so the error is
                # bounded by (and, depending on how the edges fall, anywhere below) 2 M h/(2W) + L h: require that
                # first-order bound on every grid
                for n_, e_ in zip(ns, errs):
                    h_ = (qc[-1] - qc[0]) / ns[-1] * (ns[-1] / n_)
                    if e_ > 2.0 * M * h_ / W_ + 2.0 * Lf * h_ + floor_w + 1e-12:
                        bad = "error %.3g with %d calculation points (h=%.3g) exceeds the first-order bound %.3g" % (e_, n_, h_, 2.0 * M * h_ / W_ + 2.0 * Lf * h_ + floor_w)
            else:
                if errs[-1] > 0.5 * max(errs) + 1e-12:
                    bad = "error does not decrease in proportion to the grid spacing: %s for %s calculation points" % (errs, ns)
            if errs[-1] > 2.0 * Lf * (qc[-1] - qc[0]) / ns[-1] * 4 + 1e-12 + (floor_w if kind == "width" else 0.0):
                bad = "error %.3g on the finest grid exceeds the first-order bound" % errs[-1]
            if bad:
                key = "C04:slit-%s:%s" % (kind, fname) if kind == "length" else "C04:slit-width:%s:%s" % (kind, fname)
                run.add(Finding(key, "slit smearing (%s, L=%.3g, W=%.3g) of %s: %s" % (kind, L_, W_, fname, bad), desc))
            else:
                distinct.add(("slit", kind, fname, L_, W_))
                if kind == "length":
                    run.sample(dict(kind="slit-length", family=fname, q_length=L_, points=ns, errors=errs))
    # ------------------------------------------------------------------ mixed slit next to the beam centre
    # data points with q < q_width: the window [q - W, q + W] straddles zero and the documented integrand is I(|q + v|),
    # i.e. the part below zero is folded back.  For the cubic polynomial the implementation reproduces the double
    # integral to 2e-4 (relative) whatever the grid (61-point rule, 0.02 q_min cut); three times that is demanded.
    stats["slit_mixed_lowq"] = 0
    fpoly = FAMILIES["polynomial"]
    for L_, W_ in ([(0.05, 0.03), (0.02, 0.01)] if not thorough else [(0.05, 0.03), (0.02, 0.01), (0.1, 0.05), (0.03, 0.02)]):
        q = np.array([0.3 * W_, 0.7 * W_, 0.95 * W_, 2.5 * W_]) * rng.uniform(0.97, 1.03)
        ex = np.array([dblquad(lambda u, v: float(fpoly(math.sqrt((qi + v) ** 2 + u * u))), -W_, W_, 0, L_, epsabs=1e-13, epsrel=1e-10)[0] / (2 * W_ * L_) for qi in q])
        rels = []
        for n in (480, 1920):
            qc = np.unique(np.concatenate([np.linspace(1e-5, math.sqrt((q.max() + W_) ** 2 + L_ ** 2) * 1.05, n), q]))
            r = Slit1D(q, q_length=L_, q_width=W_, q_calc=qc)
            rels.append(float(np.max(np.abs(r.apply(fpoly(r.q_calc)) - ex) / np.abs(ex))))
            evals += 1
        stats["slit_mixed_lowq"] += 1
        desc = dict(kind="slit-mixed-lowq", q=list(map(float, q)), q_length=L_, q_width=W_, relative_errors=rels, exact=list(map(float, ex)))
        if max(rels) > 6e-4:
            run.add(Finding("C04:slit-mixed-lowq", "mixed slit (L=%.3g, W=%.3g) with data points at q < W: relative errors %s against (1/2WL) int int I(sqrt((q+v)^2+u^2)) du dv - the window below zero is not folded back" % (L_, W_, rels), desc))
        else:
            distinct.add(("slit-mixed-lowq", L_, W_))
    # ------------------------------------------------------------------ mixed slit of extreme aspect ratio
    # both extents non-zero, one of them thousands of times the other: still the DOUBLE integral (with an intensity that
    # varies on the scale of the small extent, dropping that dimension is a 10-30 % error); a calculation grid fine
    # where the intensity lives; accuracy of the 61-point rule: 3 % demanded
    stats["slit_extreme_aspect"] = 0
    for L_, W_, Rg in ([(3.0, 0.002, 600.0)] if not thorough else [(3.0, 0.002, 600.0), (5.0, 0.001, 900.0), (2.0, 0.0015, 500.0)]):
        fg = lambda x, Rg=Rg: np.exp(-(np.asarray(x) * Rg) ** 2 / 3.0)
        q = np.array([0.25, 0.5, 1.0, 2.0]) * W_ * rng.uniform(0.95, 1.05)
        cut = 12.0 / Rg      # the intensity is below 1e-20 beyond
        ex = np.array([dblquad(lambda u, v: float(fg(math.sqrt((qi + v) ** 2 + u * u))), -W_, W_, 0, min(L_, cut), epsabs=1e-14, epsrel=1e-9)[0] / (2 * W_ * L_) for qi in q])
        only_u = np.array([quad(lambda u: float(fg(math.sqrt(qi * qi + u * u))), 0, min(L_, cut), epsabs=0, epsrel=1e-11)[0] / L_ for qi in q])
        # calculation grid: uniform where the intensity lives, geometric beyond (the data points themselves included)
        qc = np.unique(np.concatenate([np.linspace(cut / 2000, cut, 2000), np.geomspace(cut, 1.05 * math.hypot(q.max() + W_, L_), 300)[1:], q]))
        r = Slit1D(q, q_length=L_, q_width=W_, q_calc=qc)
        got = r.apply(fg(r.q_calc))
        evals += 1; stats["slit_extreme_aspect"] += 1
        rels = np.abs(got - ex) / ex
        desc = dict(kind="slit-extreme-aspect", q=list(map(float, q)), q_length=L_, q_width=W_, guinier_Rg=Rg, smeared=list(map(float, got)), exact=list(map(float, ex)),
                    one_dimensional=list(map(float, only_u)), relative_errors=list(map(float, rels)))
        if float(rels.max()) > 0.03:
            run.add(Finding("C04:slit-extreme-aspect", "mixed slit (L=%.3g, W=%.3g, ratio %.0f) of a Guinier intensity (Rg=%.0f): relative errors %s against (1/2WL) int int I(sqrt((q+v)^2+u^2)) du dv (the one-dimensional integral over u alone is off by %s)" % (
                L_, W_, L_ / W_, Rg, [round(float(x), 4) for x in rels], [round(float(x), 3) for x in np.abs(only_u - ex) / ex]), desc))
        else:
            distinct.add(("slit-extreme-aspect", L_, W_))
    # ------------------------------------------------------------------ 2-D
    quad_forms = [(1.0, 0.0, 1.0, 0.1), (3.0, -1.0, 0.5, 0.0), (0.2, 2.0, 4.0, 1.0)]
    for (a, b, c, d) in quad_forms:
        g = lambda x, y: a * x * x + b * x * y + c * y * y + d
        for rep in range(2 if not thorough else 5):
            qx0, qy0 = rng.uniform(0.02, 0.2) * rng.choice([-1, 1]), rng.uniform(0.02, 0.2) * rng.choice([-1, 1])
            if rep == 1:
                qx0 = 0.0          # a data point on the qy axis (centre column of an odd detector grid); its neighbour is off-axis
            spar, sperp = rng.uniform(0.002, 0.03), rng.uniform(0.002, 0.03)
            data = empty_data2D(np.array([qx0, qx0 + 0.05]), np.array([qy0]), resolution=0.1)
            data.dqx_data = np.full(len(data.qx_data), spar); data.dqy_data = np.full(len(data.qx_data), sperp)
            # exact: elliptical Gaussian aligned with q, radial sd spar, tangential sd sperp, truncated at 3 sigma
            ex = []
            for x0, y0 in zip(data.qx_data, data.qy_data):
                ang = math.atan2(y0, x0)
                ca, sa = math.cos(ang), math.sin(ang)

                def integrand(phi, rho):
                    dx, dy = rho * spar * math.cos(phi), rho * sperp * math.sin(phi)
                    return g(x0 + dx * ca - dy * sa, y0 + dx * sa + dy * ca) * rho * math.exp(-0.5 * rho * rho)
                num = dblquad(integrand, 0, 3.0, 0, 2 * math.pi, epsabs=1e-14, epsrel=1e-11)[0]
                ex.append(num / (2 * math.pi * (1 - math.exp(-4.5))))
            ex = np.array(ex)
            errs = {}
            for acc in ("low", "med", "high", "xhigh"):
                res = Pinhole2D(data=data, accuracy=acc)
                val = res.apply(g(res.q_calc[0], res.q_calc[1]))
                errs[acc] = float(np.abs(val - ex).max())
                evals += 1
            stats["two_d"] += 1
            scale = float(np.abs(ex).max())
            desc = dict(kind="2d", form=[a, b, c, d], qx=list(map(float, data.qx_data)), qy=list(map(float, data.qy_data)), dq_par=spar, dq_perp=sperp,
                        errors=errs, exact=list(map(float, ex)))
            second = (abs(a) + abs(b) + abs(c)) * max(spar, sperp) ** 2
            if errs["xhigh"] > 0.02 * second + 1e-12 or errs["high"] > 0.05 * second + 1e-12 or errs["xhigh"] > errs["low"] + 1e-13:
                run.add(Finding("C04:2d", "2-D smearing of the quadratic form %s at widths (%.3g, %.3g): errors %s against the elliptical-Gaussian average (smearing term ~ %.3g)" % (
                    [a, b, c, d], spar, sperp, errs, second), desc))
            else:
                distinct.add(("2d", a, b, c, rep))
                run.sample(dict(kind="2d", form=[a, b, c, d], dq_par=spar, dq_perp=sperp, errors=errs))
    # ------------------------------------------------------------------ 2-D cloud vs the Coq model (C04.Model.sample)
    # every sample point of Pinhole2D.q_calc for data points in all quadrants and ON the axes (qx = 0, qy = 0)
    from .common import fhex, flist
    cases, metas = [], []
    stats["cloud_points"] = 0
    for acc in ("low", "med", "high", "xhigh")[: (4 if thorough else 3)]:
        pts = [(rng.uniform(0.01, 0.2) * sx, rng.uniform(0.01, 0.2) * sy) for sx in (1, -1) for sy in (1, -1)]
        pts += [(0.0, rng.uniform(0.02, 0.2)), (0.0, -rng.uniform(0.02, 0.2)), (rng.uniform(0.02, 0.2), 0.0), (-rng.uniform(0.02, 0.2), 0.0)]
        qxs = np.array([p[0] for p in pts]); qys = np.array([p[1] for p in pts])
        data = empty_data2D(np.array([0.01, 0.02]), np.array([0.01]), resolution=0.1)
        n0 = len(pts)
        data.qx_data = qxs; data.qy_data = qys; data.q_data = np.sqrt(qxs ** 2 + qys ** 2)
        data.dqx_data = np.array([rng.uniform(0.002, 0.03) for _ in pts]); data.dqy_data = np.array([rng.uniform(0.002, 0.03) for _ in pts])
        data.mask = np.zeros(n0, dtype=bool) if getattr(data, "mask", None) is not None else None
        # one level has NO radial width at all (a column of zeros), the next no tangential width: the cloud is then a
        # line across / along q, still the documented Gaussian in the direction that has a width
        if acc == "med":
            data.dqx_data = np.zeros(n0); stats["cloud_zero_column"] = stats.get("cloud_zero_column", 0) + 1
        elif acc == "high":
            data.dqy_data = np.zeros(n0); stats["cloud_zero_column"] = stats.get("cloud_zero_column", 0) + 1
        with np.errstate(all="ignore"):
            res = Pinhole2D(data=data, accuracy=acc)
            phi_q = np.arctan(qys / qxs)
        if np.asarray(res.q_calc[0]).size != res.nr * res.nphi * n0 if hasattr(res, "nr") and res.q_calc is not None else True:
            run.add(Finding("C04:2d-width-ignored", "Pinhole2D (%s) with %s: the theory is requested at %d points for %d pixels - no sampling cloud, the width that IS given is ignored" % (
                acc, "radial widths all zero, tangential widths positive" if acc == "med" else ("tangential widths all zero, radial widths positive" if acc == "high" else "positive widths"),
                np.asarray(res.q_calc[0]).size, n0), dict(accuracy=acc, dqx=list(map(float, data.dqx_data)), dqy=list(map(float, data.dqy_data)))))
            continue
        nr, nphi = res.nr, res.nphi
        nb = nr * nphi
        QX = np.asarray(res.q_calc[0]).reshape(nb, n0); QY = np.asarray(res.q_calc[1]).reshape(nb, n0)
        bs = res.nsigma / nr
        # bin index b = j*nr + k : direction j, ring k  (dphi = (2 pi j/nphi).repeat(nr); r tiled per direction)
        for i in range(n0):
            smp = []
            for b in range(nb):
                j, k = divmod(b, nr)
                r = bs / 2.0 + k * bs
                a = j * 2.0 * math.pi / nphi
                smp.append("(%s, %s, %s, %s, %s)" % (fhex(r), fhex(math.cos(a)), fhex(math.sin(a)), fhex(QX[b, i]), fhex(QY[b, i])))
            cases.append("(MkCase %s %s %s %s %s %s [%s])" % (fhex(qxs[i]), fhex(qys[i]), fhex(res.dqx_data[i]), fhex(res.dqy_data[i]),
                                                           fhex(math.cos(phi_q[i])), fhex(math.sin(phi_q[i])), "; ".join(smp)))
            metas.append(dict(kind="2d-cloud", accuracy=acc, qx=float(qxs[i]), qy=float(qys[i]), dq_par=float(res.dqx_data[i]), dq_perp=float(res.dqy_data[i])))
            stats["cloud_points"] += 1
        # the ring weights
        w = np.asarray(res.q_calc_weights)
        want = np.tile(np.exp(-0.5 * (bs * np.arange(nr)) ** 2) - np.exp(-0.5 * (bs * (np.arange(nr) + 1)) ** 2), nphi)
        evals += 1
        if w.shape != want.shape or not np.allclose(w, want, rtol=1e-13, atol=0):
            run.add(Finding("C04:2d-weights", "Pinhole2D %s: ring weights differ from exp(-(r-b/2)^2/2) - exp(-(r+b/2)^2/2)" % acc, dict(accuracy=acc)))
    traces = 0
    if cases and not run.proof_broken():
        shards = ["From Coq Require Import List PrimFloat.\nImport ListNotations.\nFrom SM Require Import Base.Num C04.Model C04.Exec.\n"
                  "Definition cases : list Case := [\n%s\n].\nEval vm_compute in (check_cases %s cases).\n" % (";\n".join(cases[i:i + 8]), fhex(1e-13)) for i in range(0, len(cases), 8)]
        for si, (rc, vals, err) in enumerate(common.run_coq_shards(shards, run.scratch.sub("coq"), prefix="c04", jobs=8)):
            if rc != 0 or not vals:
                run.add(Finding("corr:C04:coq", "correspondence shard failed: %s" % err[-300:], {"correspondence": "C04.Exec.check_cases", "stderr": err[-1500:]}, no_input=True))
                continue
            traces += min(8, len(cases) - si * 8)
            for idx in vals[0]:
                m = metas[si * 8 + idx]
                run.add(Finding("C04:2d-cloud", "Pinhole2D (%s) at (qx, qy) = (%.4g, %.4g): the sampling cloud is not the ellipse aligned with the q direction (Coq model C04.Model.sample)" % (
                    m["accuracy"], m["qx"], m["qy"]), m))
    run.coverage.update(evaluations=evals, distinct_nontrivial=len(distinct), traces_validated_against_impl=traces, input_distribution=stats)
    run.assumptions += ["exact smeared values by scipy.integrate.quad / dblquad (epsrel <= 1e-10)",
                        "the theorem gives the first-order bound in discrete form; the mean value theorem step (cell integral = m_j f(y_j)) and the Lipschitz constants of the test functions are not formalised: constants are measured numerically",
                        "the correspondence between the weight matrices and their Coq model is the C03 check"]
    run.finish_args = dict(level="proof",
                           rule="smooth analytic I(q) (Lorentzian squared, cubic polynomial, damped cosine) x q x widths x grid refinements h, h/4, h/16 (pinhole) and 60/240/960 points (slit); 2-D: quadratic forms x anisotropic widths x all accuracy levels; distinct = distinct (kind, family, width set)",
                           trusted=["scipy.integrate", "harness/c04.py"])
