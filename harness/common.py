"""Shared machinery of the /verif checks.

Every check is `./check <ID> [--tier quick|thorough] [--replay file]`.
A check (1) regenerates Gen/*.v from /repo, (2) rebuilds and re-checks the Coq
theories of the property and records Print Assumptions, (3) runs the
correspondence between the executable Coq model (vm_compute, binary64) and the
implementation, (4) runs a model-free oracle on the implementation, and
(5) writes evidence/<ID>.json.
"""
from __future__ import annotations

import fcntl
import json
import math
import os
import re
import shutil
import struct
import subprocess
import sys
import tempfile
import time
import traceback

VERIF = os.path.dirname(os.path.dirname(os.path.abspath(__file__)))
REPO = os.environ.get("VERIF_REPO", "/repo")
COQ = os.path.join(VERIF, "coq")
THEORIES = os.path.join(COQ, "theories")
# trial runs against a scratch worktree (VERIF_REPO set) must not overwrite the
# evidence of /repo itself
_TRIAL = os.path.realpath(REPO) != "/repo"
EVIDENCE = os.path.join(VERIF, "scratch", "evidence") if _TRIAL else os.path.join(VERIF, "evidence")
REPLAY = os.path.join(VERIF, "scratch", "replay") if _TRIAL else os.path.join(VERIF, "replay")
PY = "/venv/bin/python"

FORBIDDEN = re.compile(
    r"\b(Admitted|admit|Axiom|Axioms|Parameter|Parameters|Conjecture|Conjectures|Admit Obligations)\b"
    r"|Unset\s+Guard|bypass_check|Unset\s+Positivity|Unset\s+Universe|type-in-type|impredicative-set")

STD_AXIOMS = {
    "ClassicalDedekindReals.sig_forall_dec",
    "ClassicalDedekindReals.sig_not_dec",
    "FunctionalExtensionality.functional_extensionality_dep",
    "Classical_Prop.classic",
    "ProofIrrelevance.proof_irrelevance",
    "Eqdep.Eq_rect_eq.eq_rect_eq",
    "JMeq.JMeq_eq",
    "Coq.Logic.Eqdep.Eq_rect_eq.eq_rect_eq",
}


# ----------------------------------------------------------------------------
# scratch directories

class Scratch:
    """Per-run scratch directory outside /repo and /verif, removed on exit."""
    def __init__(self, tag):
        self.dir = tempfile.mkdtemp(prefix="sasverif_%s_" % tag)
        self.dll = os.path.join(self.dir, "dll")
        os.makedirs(self.dll)
        os.environ["SAS_DLL_PATH"] = self.dll
        os.environ.setdefault("SAS_OPENCL", "none")

    def sub(self, name):
        p = os.path.join(self.dir, name)
        os.makedirs(p, exist_ok=True)
        return p

    def cleanup(self):
        os.chdir("/")
        shutil.rmtree(self.dir, ignore_errors=True)


# ----------------------------------------------------------------------------
# Coq literals

def fhex(x):
    """Exact Coq float literal of a Python float."""
    x = float(x)
    if math.isnan(x):
        return "nan"
    if math.isinf(x):
        return "infinity" if x > 0 else "neg_infinity"
    if x == 0:
        return "(-0)%float" if math.copysign(1.0, x) < 0 else "0%float"
    h = x.hex()  # like -0x1.8p+3
    if h.startswith("-"):
        return "(-%s)%%float" % h[1:]
    return "%s%%float" % h


def coq_list(items, ty=None):
    s = "[" + "; ".join(items) + "]"
    if not items and ty:
        return "(@nil %s)" % ty
    return s


def flist(xs):
    return coq_list([fhex(x) for x in xs], "float")


def nlist(xs):
    return coq_list(["%d%%nat" % int(x) for x in xs], "nat")


def cbool(b):
    return "true" if b else "false"


# ----------------------------------------------------------------------------
# parsing Coq's printed values

_TOK = re.compile(r"\s*(\[|\]|\(|\)|;|,|[^\s\[\]\(\);,]+)")


def parse_coq_value(text):
    """Parse nested lists / tuples of nat, Z, bool, float printed by Coq."""
    text = re.sub(r"%(nat|Z|float|N|positive|string|char)\b", "", text)
    toks = _TOK.findall(text)
    pos = [0]

    def atom(t):
        t = re.sub(r"%(nat|Z|float|N|positive|string)$", "", t)
        if t == "true":
            return True
        if t == "false":
            return False
        if t == "nan":
            return float("nan")
        if t == "infinity":
            return float("inf")
        if t == "neg_infinity":
            return float("-inf")
        try:
            return int(t)
        except ValueError:
            pass
        try:
            return float(t)
        except ValueError:
            return t

    def parse():
        t = toks[pos[0]]
        pos[0] += 1
        if t == "[":
            out = []
            if toks[pos[0]] == "]":
                pos[0] += 1
                return out
            while True:
                out.append(parse())
                t2 = toks[pos[0]]
                pos[0] += 1
                if t2 == "]":
                    return out
                assert t2 == ";", t2
        if t == "(":
            out = [parse()]
            while True:
                t2 = toks[pos[0]]
                pos[0] += 1
                if t2 == ")":
                    return out[0] if len(out) == 1 else tuple(out)
                assert t2 == ",", t2
                out.append(parse())
        if t == "-":
            v = parse()
            return -v
        return atom(t)

    return parse()


def coq_eval_outputs(stdout):
    """Split coqc stdout into the values printed by `Eval ... in`."""
    vals = []
    for m in re.finditer(r"^\s*= (.*?)\n\s*: ", stdout, re.S | re.M):
        vals.append(parse_coq_value(m.group(1)))
    return vals


def run_coq_text(text, workdir, name="cases", timeout=600):
    """Compile a generated .v file against the built theories; return stdout."""
    path = os.path.join(workdir, name + ".v")
    with open(path, "w") as f:
        f.write(text)
    cmd = ["timeout", str(timeout), "coqc", "-Q", THEORIES, "SM", path]
    p = subprocess.run(cmd, capture_output=True, text=True, cwd=workdir)
    return p.returncode, p.stdout, p.stderr


def run_coq_shards(shards, workdir, prefix="cases", timeout=600, jobs=8):
    """shards: list of .v texts.  Returns list of (rc, values, stderr)."""
    procs = []
    results = [None] * len(shards)
    pending = list(enumerate(shards))
    running = []
    while pending or running:
        while pending and len(running) < jobs:
            i, text = pending.pop(0)
            path = os.path.join(workdir, "%s_%d.v" % (prefix, i))
            with open(path, "w") as f:
                f.write(text)
            cmd = ["timeout", str(timeout), "coqc", "-Q", THEORIES, "SM", path]
            pr = subprocess.Popen(cmd, stdout=subprocess.PIPE, stderr=subprocess.PIPE,
                                  text=True, cwd=workdir)
            running.append((i, pr))
        i, pr = running.pop(0)
        out, err = pr.communicate()
        results[i] = (pr.returncode, coq_eval_outputs(out) if pr.returncode == 0 else [], err)
    return results


# ----------------------------------------------------------------------------
# building the Coq development

def grep_gate():
    """Fail-closed scan for escape hatches in the development."""
    bad = []
    for root, _, files in os.walk(THEORIES):
        for fn in files:
            if fn.endswith(".v"):
                p = os.path.join(root, fn)
                with open(p) as f:
                    txt = f.read()
                txt_nc = re.sub(r"\(\*.*?\*\)", "", txt, flags=re.S)
                for m in FORBIDDEN.finditer(txt_nc):
                    bad.append("%s: %s" % (os.path.relpath(p, VERIF), m.group(0)))
    return bad


def project_files():
    files = []
    for root, _, fns in os.walk(THEORIES):
        for fn in sorted(fns):
            if fn.endswith(".v"):
                files.append(os.path.relpath(os.path.join(root, fn), COQ))
    return sorted(files)


def coq_make(targets=None, jobs=8, timeout=1800):
    """(Re)build .vo files with a full coqc build under an exclusive lock.
    Returns (ok, log)."""
    os.makedirs(COQ, exist_ok=True)
    lock = open(os.path.join(COQ, ".build.lock"), "w")
    fcntl.flock(lock, fcntl.LOCK_EX)
    try:
        proj = "-Q theories SM\n" + "\n".join(project_files()) + "\n"
        pp = os.path.join(COQ, "_CoqProject")
        old = open(pp).read() if os.path.exists(pp) else None
        if old != proj or not os.path.exists(os.path.join(COQ, "Makefile")):
            with open(pp, "w") as f:
                f.write(proj)
            subprocess.run(["coq_makefile", "-f", "_CoqProject", "-o", "Makefile"],
                           cwd=COQ, check=True, capture_output=True)
        cmd = ["timeout", str(timeout), "make", "-j%d" % jobs]
        if targets:
            cmd += [t for t in targets]
        p = subprocess.run(cmd, cwd=COQ, capture_output=True, text=True)
        return p.returncode == 0, p.stdout + p.stderr
    finally:
        fcntl.flock(lock, fcntl.LOCK_UN)
        lock.close()


def write_if_changed(path, text):
    os.makedirs(os.path.dirname(path), exist_ok=True)
    if os.path.exists(path) and open(path).read() == text:
        return False
    with open(path, "w") as f:
        f.write(text)
    return True


def property_assumptions(relpath, timeout=600):
    """Re-check a Property.v file with coqc and collect, per theorem, the
    output of Print Assumptions.  Returns (ok, {theorem: [axioms]}, log)."""
    src = os.path.join(THEORIES, relpath)
    text = open(src).read()
    names = re.findall(r"^\s*Print Assumptions\s+([A-Za-z0-9_']+)\s*\.", text, re.M)
    theorems = re.findall(r"^\s*(?:Theorem|Example)\s+([A-Za-z0-9_']+)", text, re.M)
    lock = open(os.path.join(COQ, ".build.lock"), "w")
    fcntl.flock(lock, fcntl.LOCK_EX)
    try:
        p = subprocess.run(["timeout", str(timeout), "coqc", "-Q", THEORIES, "SM", src],
                           capture_output=True, text=True, cwd=THEORIES)
    finally:
        fcntl.flock(lock, fcntl.LOCK_UN)
        lock.close()
    if p.returncode != 0:
        return False, {}, p.stdout + p.stderr
    blocks = re.split(r"(?=^Closed under the global context|^Axioms:)", p.stdout, flags=re.M)
    blocks = [b for b in blocks if b.startswith("Closed") or b.startswith("Axioms:")]
    res = {}
    for name, b in zip(names, blocks):
        if b.startswith("Closed"):
            res[name] = []
        else:
            body = b.split("\n", 1)[1] if "\n" in b else ""
            res[name] = re.findall(r"^([A-Za-z_][A-Za-z0-9_.']*)\s*$|^([A-Za-z_][A-Za-z0-9_.']*)\s*:", body, re.M)
            res[name] = sorted({a or c for a, c in res[name]} - {""})
    ok = len(blocks) == len(names) and set(names) >= set(t for t in theorems if not t.endswith("_example"))
    return ok, res, p.stdout + p.stderr


def coqchk_all(timeout=3000):
    """Re-check every compiled Property module (and everything it depends on) with the independent checker
    coqchk and list the axioms.  Returns (ok, summary dict, raw text)."""
    mods = []
    for root, _, fns in os.walk(THEORIES):
        for fn in fns:
            if fn == "Property.v" and os.path.exists(os.path.join(root, "Property.vo")):
                mods.append("SM.%s.Property" % os.path.basename(root))
    mods.sort()
    p = subprocess.run(["timeout", str(timeout), "coqchk", "-silent", "-o", "-Q", "theories", "SM"] + mods,
                       capture_output=True, text=True, cwd=COQ)
    out = p.stdout + p.stderr
    sect = {}
    cur = None
    for ln in out.splitlines():
        m = re.match(r"\* (.*?):\s*(<none>)?\s*$", ln.strip())
        if m:
            cur = m.group(1); sect[cur] = []
            continue
        if cur and ln.strip():
            sect[cur].append(ln.strip())
    axioms = sect.get("Axioms", [])
    ours = [a for a in axioms if a.startswith("SM.")]
    nonstd = [a for a in axioms if not (a.startswith("Coq.") or a.startswith("Bignums.") or a.startswith("Coquelicot.") or a.startswith("SM."))]
    bad = [k for k in sect if k != "Axioms" and k != "Theory" and sect[k]]
    ok = p.returncode == 0 and not ours and not bad
    summary = dict(modules=mods, returncode=p.returncode, axioms=axioms, axioms_declared_by_this_development=ours,
                   axioms_outside_coq_stdlib=nonstd, other_sections={k: v for k, v in sect.items() if k != "Axioms"})
    return ok, summary, out


# ----------------------------------------------------------------------------
# findings, known findings, evidence

class Finding:
    def __init__(self, key, what, replay=None, no_input=False):
        self.key = key            # stable identifier matched against known_findings.json
        self.what = what          # one-line description
        self.replay = replay or {}
        self.no_input = no_input  # True: a proof/correspondence broke, no failing input found


def load_known(pid):
    path = os.path.join(VERIF, "known_findings.json")
    if not os.path.exists(path):
        return []
    data = json.load(open(path))
    return [k for k in data.get("findings", []) if k["property"] == pid and k.get("status") == "known"]


class Run:
    def __init__(self, pid, argv):
        self.pid = pid
        self.t0 = time.time()
        self.tier = os.environ.get("VERIF_TIER", "quick")
        self.replay_file = None
        i = 0
        while i < len(argv):
            if argv[i] == "--tier":
                self.tier = argv[i + 1]; i += 2
            elif argv[i] == "--replay":
                self.replay_file = argv[i + 1]; i += 2
            else:
                i += 1
        if self.tier not in ("quick", "thorough"):
            self.tier = "quick"
        try:
            self.seed = int(os.environ.get("VERIF_SEED", "0"))
        except ValueError:
            self.seed = 0
        self.findings = []
        self.coverage = {"samples": []}
        self.assumptions = []
        self.obligations = 0
        self.discharged = 0
        self.theorem_axioms = {}
        self.checker_cmds = []
        self.scratch = Scratch(pid)
        self.notes = []

    # -- proof step -----------------------------------------------------
    def prove(self, property_files, gen=None):
        """Regenerate, rebuild, and re-check the property theorems."""
        bad = grep_gate()
        if bad:
            self.findings.append(Finding("proof:forbidden", "forbidden construct in the Coq development: " + "; ".join(bad[:5]),
                                         {"theorem": "grep gate", "hits": bad}, no_input=True))
        if gen:
            gen()
        # build only what this property needs (its Property.vo and Exec.vo with their
        # dependencies), so that one property's development cannot break another's check
        targets = []
        for pf in property_files:
            targets.append("theories/" + pf[:-2] + ".vo")
            ex = os.path.join(os.path.dirname(pf), "Exec.v")
            if os.path.exists(os.path.join(THEORIES, ex)):
                targets.append("theories/" + ex[:-2] + ".vo")
        ok, log = coq_make(targets=targets)
        self.checker_cmds.append("coq_makefile -f _CoqProject -o Makefile && make -j8 %s (full .vo build, coqc 8.16.1)" % " ".join(targets))
        if not ok:
            m = re.search(r'File "([^"]+)", line (\d+).*?\n(Error:.*?)(?:\n\n|\Z)', log, re.S)
            where = "%s:%s %s" % (m.group(1), m.group(2), " ".join(m.group(3).split())[:300]) if m else log[-500:]
            self.findings.append(Finding("proof:build", "Coq build failed: " + where,
                                         {"theorem_or_file": where, "log_tail": log[-3000:]}, no_input=True))
        for pf in property_files:
            okp, axioms, plog = property_assumptions(pf)
            self.checker_cmds.append("coqc -Q theories SM theories/%s (Print Assumptions per theorem)" % pf)
            src = open(os.path.join(THEORIES, pf)).read()
            thms = re.findall(r"^\s*Theorem\s+([A-Za-z0-9_']+)", src, re.M)
            self.obligations += len(thms)
            if okp:
                self.discharged += len([t for t in thms if t in axioms])
                self.theorem_axioms.update(axioms)
                for t, ax in axioms.items():
                    extra = [a for a in ax if a not in STD_AXIOMS and not a.startswith(("PrimFloat", "Uint63", "PrimInt63", "FloatOps", "CarryType"))]
                    if extra:
                        self.findings.append(Finding("proof:axiom:" + t, "theorem %s depends on non-standard axioms %s" % (t, extra),
                                                     {"theorem": t, "axioms": extra}, no_input=True))
            elif ok:
                self.findings.append(Finding("proof:" + pf, "property file %s no longer checks" % pf,
                                             {"theorem_or_file": pf, "log_tail": plog[-3000:]}, no_input=True))
        return ok

    def proof_broken(self):
        return any(f.key.startswith("proof:") for f in self.findings)

    # -- reporting --------------------------------------------------------
    def add(self, finding):
        self.findings.append(finding)

    def sample(self, s):
        if len(self.coverage["samples"]) < 6:
            self.coverage["samples"].append(s)

    def finish(self, level="proof", rule="", trusted=None, extra=None):
        os.makedirs(EVIDENCE, exist_ok=True)
        os.makedirs(REPLAY, exist_ok=True)
        known = load_known(self.pid)
        violations = 0
        lines = []
        # if a proof/correspondence broke AND a concrete failing input was found,
        # the concrete ones carry the replay; drop the no-input placeholder lines
        concrete = [f for f in self.findings if not f.no_input]
        seen_known = set()
        nrep = 0
        for f in self.findings:
            matched = None
            for k in known:
                if re.search(k["match"], f.key):
                    matched = k
                    break
            if matched is not None:
                if matched["id"] not in seen_known:
                    seen_known.add(matched["id"])
                    lines.append("KNOWN-FINDING: property=%s %s [%s]" % (self.pid, matched["what"], matched["id"]))
                continue
            violations += 1
            nrep += 1
            path = os.path.join(REPLAY, "%s-%s-%d.json" % (self.pid, self.tier, nrep))
            with open(path, "w") as fh:
                json.dump({"property": self.pid, "key": f.key, "what": f.what, "seed": self.seed,
                           "tier": self.tier, "no_failing_input_found": f.no_input, "replay": f.replay},
                          fh, indent=1, default=_json_default)
            tail = " no-failing-input-found" if (f.no_input and not concrete) else ""
            lines.append("VIOLATION property=%s replay=%s%s" % (self.pid, path, tail))
            print("  -> %s" % f.what)
        for ln in lines:
            print(ln)
        cov = dict(self.coverage)
        cov.setdefault("evaluations", 0)
        cov.setdefault("distinct_nontrivial", 0)
        cov["rule"] = rule
        cov["obligations"] = self.obligations
        cov["discharged"] = self.discharged
        cov["checker_cmd"] = "; ".join(dict.fromkeys(self.checker_cmds)) or "none"
        tb = list(trusted or [])
        axs = sorted({a for v in self.theorem_axioms.values() for a in v})
        tb.append("Coq 8.16.1 kernel + vm_compute (no native_compute)")
        tb.append("axioms reported by Print Assumptions over this property's theorems: %s" % (", ".join(axs) if axs else "none (closed under the global context)"))
        cov["trusted_base"] = tb
        cov["theorem_axioms"] = self.theorem_axioms
        if not cov.get("samples"):
            cov["samples"] = ["(no sample recorded)"]
        if extra:
            cov.update(extra)
        ev = {
            "property_id": self.pid, "tier": self.tier, "seed": self.seed, "level": level,
            "coverage": cov, "assumptions": self.assumptions,
            "wall_s": round(time.time() - self.t0, 2), "violations": violations,
            "known_findings_reported": sorted(seen_known), "notes": self.notes,
        }
        with open(os.path.join(EVIDENCE, self.pid + ".json"), "w") as fh:
            json.dump(ev, fh, indent=1, default=_json_default)
        self.scratch.cleanup()
        print("%s %s: %d obligations (%d discharged), %d evaluations, %d violations, %d known, %.1fs" % (
            self.pid, self.tier, self.obligations, self.discharged, cov.get("evaluations", 0),
            violations, len(seen_known), time.time() - self.t0))
        return 1 if violations else 0


def _json_default(o):
    try:
        import numpy as np
        if isinstance(o, np.ndarray):
            return o.tolist()
        if isinstance(o, (np.floating,)):
            return float(o)
        if isinstance(o, (np.integer,)):
            return int(o)
        if isinstance(o, np.bool_):
            return bool(o)
    except ImportError:
        pass
    return repr(o)


def main_wrapper(pid, fn, argv):
    run = Run(pid, argv)
    try:
        fn(run)
    except Exception:
        tb = traceback.format_exc()
        print(tb)
        run.add(Finding("harness:exception", "check raised an exception: " + tb.strip().splitlines()[-1],
                        {"traceback": tb}, no_input=True))
    rc = run.finish(**getattr(run, "finish_args", {}))
    sys.exit(rc)
