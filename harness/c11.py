"""C11 — results do not depend on call history and inputs are not modified.

A history worker executes a random sequence of evaluation requests on several
models sharing one process (cached models, kernels, DirectModel and
SasviewModel objects, releases, reloads, clones); every request is also
executed first-thing in a fresh process.  Returned arrays must be bit-identical
and every argument object must be left unchanged.
"""
from __future__ import annotations

import json
import os
import random
import subprocess

import numpy as np

from . import common, sas, c01
from .common import Finding

WORKER = r'''
import copy, json, sys
import numpy as np

def hexs(a):
    if a is None:
        return None
    return [float(x).hex() for x in np.asarray(a, "d").ravel()]

class State:
    def __init__(self):
        self.models, self.kernels, self.direct, self.sasview = {}, {}, {}, {}
        self.held = []       # (step, array object as returned, its content at that time): results the caller keeps

S = State()

def qvec(req):
    return [np.array(v, "d") for v in req["q"]]

def get_model(name):
    from sasmodels.core import load_model
    if name not in S.models:
        S.models[name] = load_model(name, dtype="double", platform="dll")
    return S.models[name]

def get_kernel(req):
    key = (req["model"], json.dumps(req["q"]))
    if key not in S.kernels:
        S.kernels[key] = get_model(req["model"]).make_kernel(qvec(req))
    return S.kernels[key]

def get_kernel_same_arrays(req):
    # the caller keeps ONE set of q arrays per (model, shape), rewrites their contents in place for every request and
    # asks for a new kernel on the same array objects (what a GUI does with its plot buffers)
    shape = tuple(len(v) for v in req["q"])
    key = (req["model"], shape)
    if not hasattr(S, "qobj"):
        S.qobj = {}
    if key not in S.qobj:
        S.qobj[key] = [np.zeros(n, "d") for n in shape]
    for arr, v in zip(S.qobj[key], req["q"]):
        arr[:] = v
    return get_model(req["model"]).make_kernel(S.qobj[key])

def same(a, b):
    if isinstance(a, dict):
        return isinstance(b, dict) and list(a.keys()) == list(b.keys()) and all(same(a[k], b[k]) for k in a)
    if isinstance(a, (list, tuple)):
        return type(a) is type(b) and len(a) == len(b) and all(same(x, y) for x, y in zip(a, b))
    if isinstance(a, np.ndarray):
        return isinstance(b, np.ndarray) and a.dtype == b.dtype and a.shape == b.shape and np.array_equal(a, b, equal_nan=True)
    return type(a) is type(b) and a == b

def handle(req):
    from sasmodels.direct_model import call_kernel, call_Fq, DirectModel
    op = req["op"]
    out = {"op": op}
    if op == "make_kernel":
        get_kernel(req); return out
    if op == "release":
        key = (req["model"], json.dumps(req["q"]))
        k = S.kernels.pop(key, None)
        if k is not None:
            k.release()
        return out
    if op == "reload":
        for key in [k for k in S.kernels if k[0] == req["model"]]:
            S.kernels.pop(key).release()
        S.models.pop(req["model"], None)
        get_model(req["model"])
        return out
    if op == "ngauss":
        # somebody (sascomp -ngauss, a convergence study) derives a variant of the model with another quadrature size
        from sasmodels import generate
        from sasmodels.core import load_model_info
        info = load_model_info(req["model"])
        generate.set_integration_size(info, req["n"])
        return out
    if op in ("call_kernel", "call_Fq"):
        k = get_kernel_same_arrays(req) if req.get("same_q_arrays") else get_kernel(req)
        pars = dict(req["pars"])
        before = copy.deepcopy(pars)
        qb = [v.copy() for v in k.q_input.q.T] if hasattr(k, "q_input") and k.q_input is not None else None
        if op == "call_kernel":
            r = call_kernel(k, pars, cutoff=req["cutoff"])
            out["result"] = hexs(r)
            S.held.append((req.get("step"), r, np.array(r, copy=True)))
        else:
            F1, F2, reff, shell, ratio = call_Fq(k, pars, cutoff=req["cutoff"])
            out["result"] = [hexs(F1), hexs(F2), float(reff).hex(), float(shell).hex(), float(ratio).hex()]
            for a_ in (F1, F2):
                if a_ is not None:
                    S.held.append((req.get("step"), a_, np.array(a_, copy=True)))
        out["args_unchanged"] = same(before, pars)
        return out
    if op == "direct":
        from sasmodels.data import empty_data1D, empty_data2D
        key = (req["model"], json.dumps(req["q"]), req["cutoff"])     # the cutoff is fixed when the calculator is built
        if key not in S.direct:
            q = qvec(req)
            data = empty_data1D(q[0]) if len(q) == 1 else None
            S.direct[key] = DirectModel(data, get_model(req["model"]), cutoff=req["cutoff"])
        pars = dict(req["pars"])
        before = copy.deepcopy(pars)
        r = S.direct[key](**pars)
        out["result"] = hexs(r)
        out["args_unchanged"] = same(before, pars)
        return out
    if op in ("sasview", "sasview_clone"):
        from sasmodels.sasview_model import _make_standard_model
        name = req["model"]
        if name not in S.sasview:
            S.sasview[name] = _make_standard_model(name)()
        m = S.sasview[name]
        if op == "sasview_clone":
            m = m.clone()
        m.cutoff = req["cutoff"]
        # the request names the disperser of every parameter: Gaussian objects unless an array distribution is given
        from sasmodels import weights as _w
        arrays = req.get("arrays", {})
        held = {}
        for pname, d in list(m.dispersion.items()):
            if pname in arrays:
                disp = _w.ArrayDispersion()
                vals = np.array(arrays[pname]["values"], "d"); wts = np.array(arrays[pname]["weights"], "d")
                held[pname] = (vals, wts, vals.copy(), wts.copy())
                disp.set_weights(vals, wts)
                m.set_dispersion(pname, disp)
            elif pname in req.get("fresh_dispersers", []):
                # a disperser constructed with no arguments: 35 points over 3 sigmas until the caller says otherwise
                m.set_dispersion(pname, _w.GaussianDispersion())
            elif d.get("type") != "gaussian":
                m.set_dispersion(pname, _w.GaussianDispersion())
        for k, v in req["settings"]:
            m.setParam(k, v)
        q = qvec(req)
        arg = q[0] if len(q) == 1 else [q[0], q[1]]
        before = copy.deepcopy(arg)
        r = m.evalDistribution(arg)
        out["result"] = hexs(r)
        out["args_unchanged"] = same(before, arg) and all(same(v, v0) and same(w, w0) for v, w, v0, w0 in held.values())
        return out
    raise ValueError(op)

for line in sys.stdin:
    req = json.loads(line)
    if req.get("op") == "quit":
        break
    try:
        res = handle(req)
    except Exception as exc:
        res = {"op": req.get("op"), "error": "%s: %s" % (type(exc).__name__, exc)}
    # arrays handed back earlier belong to the caller: later evaluations must not change them
    S.held = S.held[-8:]
    spoiled = [st for st, a_, c_ in S.held if not np.array_equal(np.asarray(a_), c_, equal_nan=True)]
    if spoiled:
        res["earlier_results_changed"] = spoiled
        S.held = [h for h in S.held if np.array_equal(np.asarray(h[1]), h[2], equal_nan=True)]
    print(json.dumps(res)); sys.stdout.flush()
'''

MODELS_1D = ["sphere", "core_shell_sphere", "cylinder", "ellipsoid", "power_law", "sphere@hardsphere", "sphere+cylinder", "fractal",
             "sphere@squarewell", "sphere*power_law"]
MODELS_2D = ["cylinder", "sphere", "parallelepiped", "sphere+cylinder", "cylinder@stickyhardsphere"]


class Worker:
    def __init__(self, path, cache):
        env = dict(os.environ)
        env.update(PYTHONPATH=common.REPO, SAS_DLL_PATH=cache, PYTHONHASHSEED="0", SAS_OPENCL="none", OMP_NUM_THREADS="1")
        self.p = subprocess.Popen([common.PY, path], env=env, stdin=subprocess.PIPE, stdout=subprocess.PIPE,
                                  stderr=subprocess.PIPE, text=True)

    def ask(self, req):
        self.p.stdin.write(json.dumps(req) + "\n"); self.p.stdin.flush()
        line = self.p.stdout.readline()
        if not line:
            return {"error": "worker died: " + self.p.stderr.read()[-500:]}
        return json.loads(line)

    def close(self):
        try:
            self.p.stdin.write(json.dumps({"op": "quit"}) + "\n"); self.p.stdin.flush()
            self.p.wait(timeout=20)
        except Exception:  # noqa
            self.p.kill()


def gen_pars(info, rng, dim):
    pars = c01.base_pars(info, rng)
    pars = {k: v for k, v in pars.items()}
    pars["scale"] = rng.choice([1.0, 0.37]); pars["background"] = rng.choice([0.0, 0.01])
    pdn = c01.dispersible(info.parameters, dim)
    byname = {p.name: p for p in info.parameters.call_parameters}
    if pdn and rng.random() < 0.6:
        for name in rng.sample(pdn, min(len(pdn), rng.choice([1, 2]))):
            p = byname[name]
            pars[name + "_pd"] = rng.uniform(2, 15) if p.type == "orientation" else rng.uniform(0.05, 0.3)
            pars[name + "_pd_n"] = rng.choice([3, 8, 40, 120])
            pars[name + "_pd_type"] = rng.choice(["gaussian", "rectangle"]) if p.type == "orientation" else rng.choice(["gaussian", "schulz", "lognormal"])
    for p in info.parameters.call_parameters:
        if ("volfraction" in p.name) and p.name in pars:
            pars[p.name] = rng.uniform(0.05, 0.3)
        if p.name.endswith("_mode") or p.name.endswith("structure_factor_mode"):
            pars[p.name] = float(p.default)
        if p.name == "radius_effective_mode" and "@" in info.id:
            pars[p.name] = float(rng.choice([0, 1]))      # 0: the user's radius_effective (with its dispersity) goes to S
    if dim == "2d" and rng.random() < 0.5:
        m0 = [p.name for p in info.parameters.call_parameters if p.name.endswith("_M0")]
        if m0:
            pars[m0[0]] = rng.uniform(0.5, 4)
            pars["up_frac_i"] = rng.choice([0.0, 0.4, 1.0]); pars["up_frac_f"] = rng.choice([0.0, 0.7])
            pars["up_theta"] = rng.uniform(0, 180); pars["up_phi"] = rng.uniform(0, 90)
    return pars


def sasview_settings(pars, info=None):
    """A SasviewModel is a stateful object (setParam persists), so a request lists EVERY parameter and every
    dispersity field: the same request then means the same object state, whatever was set before."""
    if info is not None:
        full = {}
        for p in info.parameters.call_parameters:
            full[p.name] = float(p.default)
            if p.polydisperse:
                full[p.name + "_pd"] = 0.0; full[p.name + "_pd_n"] = 35; full[p.name + "_pd_nsigma"] = 3.0
        full.update(pars)
        pars = full
    out = []
    for k, v in pars.items():
        if k.endswith("_pd_type"):
            continue
        if k.endswith("_pd_n"):
            out.append((k[:-5] + ".npts", v))
        elif k.endswith("_pd_nsigma"):
            out.append((k[:-10] + ".nsigmas", v))
        elif k.endswith("_pd"):
            out.append((k[:-3] + ".width", v))
        else:
            out.append((k, v))
    return out


def one_field_edit(req, rng, info):
    """The same request with ONE field changed (same kernel / calculator object): caches keyed on part of the
    arguments show up as a stale value in the second evaluation."""
    import copy
    if req["op"] == "call_Fq":
        # the same amplitude request with another effective-radius mode (0 = none) on the same kernel
        r2 = copy.deepcopy(req)
        modes = getattr(info, "radius_effective_modes", None) or []
        cur = int(r2["pars"].get("radius_effective_mode", 0))
        choices = [m for m in range(0, len(modes) + 1) if m != cur] or [1 - cur]
        r2["pars"]["radius_effective_mode"] = rng.choice(choices)
        r2["edit"] = "mode"
        return r2
    if req["op"] not in ("call_kernel", "direct"):
        return None
    r2 = copy.deepcopy(req)
    pars = r2["pars"]
    dim = "2d" if len(req["q"]) == 2 else "1d"
    pdn = c01.dispersible(info.parameters, dim)
    byname = {p.name: p for p in info.parameters.call_parameters}
    kinds = ["scale", "background", "value"]
    if req["op"] == "call_kernel":
        kinds.append("cutoff")
    have_pd = [k[:-3] for k in pars if k.endswith("_pd") and pars[k] > 0]
    if have_pd:
        kinds += ["pd_width", "pd_n", "pd_type", "pd_off"]
    if [n for n in pdn if n not in have_pd]:
        kinds += ["pd_on", "pd_on"]
    kind = rng.choice(kinds)
    if kind == "scale":
        pars["scale"] = pars.get("scale", 1.0) * 1.7
    elif kind == "background":
        pars["background"] = pars.get("background", 0.0) + 0.125
    elif kind == "cutoff":
        r2["cutoff"] = 1e-3 if req["cutoff"] != 1e-3 else 0.0
    elif kind == "value":
        cands = [k for k, v in pars.items() if k in byname and isinstance(v, float) and v != 0 and not k.endswith("_mode")
                 and byname[k].type in ("volume", "orientation", "sld", "")]
        if not cands:
            return None
        k = rng.choice(cands)
        pars[k] = pars[k] + 17.0 if byname[k].type == "orientation" else pars[k] * 1.11
    elif kind == "pd_width":
        n = rng.choice(have_pd); pars[n + "_pd"] = pars[n + "_pd"] * 1.6
    elif kind == "pd_n":
        n = rng.choice(have_pd); pars[n + "_pd_n"] = int(pars.get(n + "_pd_n", 35)) + 5
    elif kind == "pd_type":
        n = rng.choice(have_pd); pars[n + "_pd_type"] = "rectangle" if pars.get(n + "_pd_type", "gaussian") != "rectangle" else "gaussian"
    elif kind == "pd_off":
        n = rng.choice(have_pd); pars[n + "_pd"] = 0.0
    elif kind == "pd_on":
        n = rng.choice([x for x in pdn if x not in have_pd])
        pars[n + "_pd"] = 12.0 if byname[n].type == "orientation" else 0.15
        pars[n + "_pd_n"] = rng.choice([4, 9]); pars[n + "_pd_type"] = "gaussian"
    r2["edit"] = kind
    return r2


def reuse_sequence(model, q, pars, cutoff, rng, info, n_edits=3):
    """Evaluate a request and a few one-field edits of it, then the request again, all on ONE kernel object; every
    result must be bit-identical to the same evaluation on a kernel of its own.  Returns (sequence, mismatches)."""
    import numpy as np
    from sasmodels.direct_model import call_kernel
    seq = [dict(op="call_kernel", model=info.id, pars=dict(pars), q=[list(map(float, v)) for v in q], cutoff=cutoff)]
    for _ in range(n_edits):
        e = one_field_edit(seq[-1], rng, info)
        if e is not None:
            seq.append(e)
    seq.append(seq[0])
    bad = []
    k = model.make_kernel(q)
    try:
        for i, r in enumerate(seq):
            try:
                got = np.asarray(call_kernel(k, dict(r["pars"]), cutoff=r["cutoff"]), "d")
            except Exception as exc:  # noqa
                got = "%s: %s" % (type(exc).__name__, exc)
            k2 = model.make_kernel(q)
            try:
                ref = np.asarray(call_kernel(k2, dict(r["pars"]), cutoff=r["cutoff"]), "d")
            except Exception as exc:  # noqa
                ref = "%s: %s" % (type(exc).__name__, exc)
            finally:
                k2.release()
            if isinstance(got, str) or isinstance(ref, str):
                if isinstance(got, str) != isinstance(ref, str):
                    bad.append((i, r, got, ref))
            elif not np.array_equal(got, ref, equal_nan=True):
                bad.append((i, r, got, ref))
    finally:
        k.release()
    return seq, bad


def gen_history(rng, infos, length):
    qs1 = [[[0.01, 0.05, 0.2]], [[0.003, 0.02, 0.07, 0.11, 0.3]], [[0.1]]]
    qs2 = [[[0.03, -0.05, 0.1], [0.04, 0.05, -0.02]], [[0.0, 0.2], [0.1, 0.0]]]
    reqs = []
    names = rng.sample(MODELS_1D, rng.randint(3, 5))
    for _ in range(length):
        r = rng.random()
        dim = "2d" if rng.random() < 0.25 else "1d"
        model = rng.choice([m for m in names if m in MODELS_2D] or MODELS_2D) if dim == "2d" else rng.choice(names)
        info = infos[model]
        q = rng.choice(qs2 if dim == "2d" else qs1)
        cutoff = rng.choice([0.0, 1e-5, 1e-5])
        if r < 0.08:
            reqs.append(dict(op="release", model=model, q=q))
        elif r < 0.13:
            if rng.random() < 0.3 and model in ("cylinder", "ellipsoid", "parallelepiped"):
                reqs.append(dict(op="ngauss", model=model, n=rng.choice([20, 150])))
            reqs.append(dict(op="reload", model=model))
        elif r < 0.18:
            reqs.append(dict(op="make_kernel", model=model, q=q))
        elif r < 0.30 and "@" not in model and "+" not in model and "*" not in model:
            pars = gen_pars(info, rng, dim)
            # orientation dispersity is part of the object's state whatever the data: inactive for 1-D q, active for 2-D
            for p_ in info.parameters.call_parameters:
                if p_.type == "orientation" and rng.random() < 0.6:
                    pars[p_.name + "_pd"] = rng.uniform(3, 20); pars[p_.name + "_pd_n"] = rng.choice([3, 6, 10])
            pars = {k: v for k, v in pars.items() if not k.endswith("_pd_type")}
            req = dict(op=rng.choice(["sasview", "sasview_clone"]), model=model, q=q, cutoff=cutoff, settings=sasview_settings(pars, info))
            pd1 = [n for n in c01.dispersible(info.parameters, "1d") if n in pars and pars[n] > 0]
            if pd1 and rng.random() < 0.4:
                # an empirical (array) distribution supplied by the caller: values around the centre, weights that
                # are not normalised
                pn = rng.choice(pd1)
                k = rng.choice([1, 2, 5, 7, 12])
                vals = sorted(pars[pn] * rng.uniform(0.6, 1.5) for _ in range(k))
                wts = [rng.choice([0.05, 0.1, 0.2, 0.3, 0.55, 0.7, 1.0, 2.5]) for _ in range(k)]
                req["arrays"] = {pn: dict(values=vals, weights=wts)}
            reqs.append(req)
            if model in MODELS_2D and rng.random() < 0.7:
                # the same object, same settings, asked for the other kind of data (and back)
                other = rng.choice(qs1 if dim == "2d" else qs2)
                reqs.append(dict(req, q=other, op="sasview"))
                reqs.append(dict(req, op="sasview"))
            if rng.random() < 0.5:
                # the same object edited in place: values change, every dispersity setting stays
                req2 = dict(req, settings=[[k, (v * 1.37 if (isinstance(v, float) and "." not in k and v > 0 and k not in ("scale", "background") and not k.startswith(("sld", "theta", "phi", "psi"))) else v)]
                                           for k, v in req["settings"]], op="sasview")
                reqs.append(req2)
        elif r < 0.42 and dim == "1d":
            reqs.append(dict(op="direct", model=model, q=q, cutoff=cutoff, pars=gen_pars(info, rng, dim)))
        elif r < 0.60 and "@" not in model and "+" not in model:
            pars = gen_pars(info, rng, dim)
            modes = getattr(info, "radius_effective_modes", None) or []
            pars["radius_effective_mode"] = rng.randint(0, len(modes)) if modes else rng.choice([0, 1])
            reqs.append(dict(op="call_Fq", model=model, q=q, cutoff=cutoff, pars=pars))
        else:
            reqs.append(dict(op="call_kernel", model=model, q=q, cutoff=cutoff, pars=gen_pars(info, rng, dim)))
        # the request just made, again with one field changed (same kernel or calculator object), once or twice
        if reqs and reqs[-1]["op"] in ("call_kernel", "direct", "call_Fq") and rng.random() < 0.6:
            for _ in range(rng.choice([1, 2, 3])):
                e = one_field_edit(reqs[-1], rng, infos[reqs[-1]["model"]])
                if e is not None:
                    reqs.append(e)
        # repeat an earlier request now and then: the same request after other work
        if reqs and rng.random() < 0.25:
            evals = [x for x in reqs if x["op"] not in ("release", "reload", "make_kernel", "ngauss")]
            if evals:
                reqs.append(dict(rng.choice(evals)))
    return reqs


def _scan_statics():
    """Every C source the builtin models are compiled from (models/*.c, models/lib/*.c, kernel_iq.c, kernel_header.c):
    variables with static storage that are not const - inside a function body or at file scope.  Such a variable keeps
    its value from one evaluation to the next; the model of C11 (a call is a function of its arguments and of buffers
    it overwrites) has no place for it.  Returns (list of "file:name", number of files)."""
    import glob
    import re
    from . import ctrans
    root = os.path.join(common.REPO, "sasmodels")
    files = sorted(glob.glob(os.path.join(root, "models", "*.c")) + glob.glob(os.path.join(root, "models", "lib", "*.c"))) + \
        [os.path.join(root, "kernel_iq.c"), os.path.join(root, "kernel_header.c")]
    found = []
    for path in files:
        text = ctrans.strip_comments(open(path, errors="replace").read())
        text = re.sub(r'"(?:\\.|[^"\\])*"', '""', text)
        text = re.sub(r"^\s*#.*?(?<!\\)$", "", text, flags=re.M)            # preprocessor lines (without continuations)
        for m in re.finditer(r"\bstatic\b([^;{}()=]*?)([A-Za-z_]\w*)\s*(\[[^\]]*\]\s*)*(=|;)", text):
            quals = m.group(1).split()
            if "const" in quals or "constant" in quals:
                continue
            found.append("%s:%s" % (os.path.basename(path), m.group(2)))
    return found, len(files)


_NUMERIC_MODULES = ["sesans.py", "resolution.py", "resolution2d.py", "weights.py", "kernelpy.py", "kerneldll.py", "kernel.py", "product.py",
                    "mixture.py", "details.py", "direct_model.py"]


def _scan_python_state():
    """The Python modules on the path from a request to its numbers: module-level containers that start empty or have
    a lower-case name (tables of constants are upper-case and filled where they are written), `global` statements, and
    functions wrapped in a cache decorator - the Python counterparts of a C static."""
    import ast
    found = []
    for mod in _NUMERIC_MODULES:
        tree = ast.parse(open(os.path.join(common.REPO, "sasmodels", mod)).read())
        for n in tree.body:
            if isinstance(n, (ast.Assign, ast.AnnAssign)) and n.value is not None:
                v = n.value
                cont = isinstance(v, (ast.Dict, ast.List, ast.Set, ast.ListComp, ast.DictComp, ast.SetComp)) or (
                    isinstance(v, ast.Call) and ast.unparse(v.func).split(".")[-1] in ("dict", "list", "set", "OrderedDict", "defaultdict", "WeakValueDictionary", "deque"))
                if not cont:
                    continue
                empty = (isinstance(v, ast.Dict) and not v.keys) or (isinstance(v, (ast.List, ast.Set)) and not v.elts) or (isinstance(v, ast.Call) and not v.args and not v.keywords) \
                    or (isinstance(v, ast.Call) and ast.unparse(v.func).split(".")[-1] == "defaultdict")
                for t in (n.targets if isinstance(n, ast.Assign) else [n.target]):
                    name = ast.unparse(t)
                    if name == "__all__":
                        continue
                    if empty or name != name.upper():
                        found.append("%s:%s" % (mod, name))
        for n in ast.walk(tree):
            if isinstance(n, ast.Global):
                found += ["%s:global %s" % (mod, x) for x in n.names]
            if isinstance(n, (ast.FunctionDef, ast.AsyncFunctionDef)):
                found += ["%s:@%s %s" % (mod, ast.unparse(d), n.name) for d in n.decorator_list if "cache" in ast.unparse(d).lower() or "memo" in ast.unparse(d).lower()]
    return found


def gen():
    """Regenerate Gen/C11_statics.v from the C sources of the builtin models."""
    lines = ["(* GENERATED by harness/c11.py from sasmodels/models/*.c, models/lib/*.c, kernel_iq.c, kernel_header.c *)",
             "From Coq Require Import List String.", "Import ListNotations.", "Open Scope string_scope.", ""]
    note = None
    try:
        found, nfiles = _scan_statics()
        pyfound = _scan_python_state()
    except (OSError, ValueError, SyntaxError) as exc:
        note = "%s: %s" % (type(exc).__name__, exc)
        found, nfiles, pyfound = [], 0, []
    lines.append("Definition statics_scanned : bool := %s." % ("true" if note is None else "false"))
    if note:
        lines.append("(* not scanned: %s *)" % note.replace("*)", "* )"))
    lines += ["Definition code_files_scanned : nat := %d." % nfiles,
              "(* non-const variables with static storage (file:name) *)",
              "Definition code_mutable_statics : list string := [%s]." % "; ".join('"%s"' % f for f in found),
              "(* module-level state of the Python modules between a request and its numbers (%s): containers that start empty or" % ", ".join(_NUMERIC_MODULES),
              "   have a lower-case name, global statements, cache decorators *)",
              "Definition code_python_module_state : list string := [%s]." % "; ".join('"%s"' % f.replace('"', "'") for f in pyfound), ""]
    common.write_if_changed(os.path.join(common.THEORIES, "Gen", "C11_statics.v"), "\n".join(lines))
    return note


def main(run):
    from sasmodels.core import load_model_info
    rng = random.Random(run.seed * 997 + 11)
    thorough = run.tier == "thorough"
    note = []
    run.prove(["C11/Property.v"], gen=lambda: note.append(gen()))
    run.notes.append(("the C sources could not be scanned for static state (%s)" % note[0]) if note and note[0] else
                     "the C sources of the builtin models scanned for non-const variables with static storage (Gen/C11_statics.v): none (C11_code_no_static_state), nor module-level containers, global statements or cache decorators in the Python modules between a request and its numbers (C11_code_no_module_state) - the model's 'a call is a function of its arguments and of the buffers it overwrites' has no hidden C state to miss")
    wdir = run.scratch.sub("c11")
    wpath = os.path.join(wdir, "worker.py")
    open(wpath, "w").write(WORKER)
    cache = run.scratch.dll
    infos = {m: load_model_info(m) for m in set(MODELS_1D + MODELS_2D + ["ellipsoid", "hayter_msa"])}
    nhist = 6 if not thorough else 60
    length = 18 if not thorough else 40
    # warm the library cache so that parallel fresh processes do not all compile
    warm = Worker(wpath, cache)
    for m in sorted(infos):
        warm.ask(dict(op="reload", model=m))
    warm.close()
    histories = [gen_history(rng, infos, length) for _ in range(nhist)]
    # corpus: call_Fq twice with one dictionary; empty mesh after a non-empty one
    histories.insert(0, [
        dict(op="call_Fq", model="core_shell_sphere", q=[[0.01, 0.05, 0.2]], cutoff=0.0, pars={"radius": 40.0, "radius_effective_mode": 2}),
        dict(op="call_kernel", model="sphere", q=[[0.01, 0.05, 0.2]], cutoff=0.0, pars={"radius": 50.0, "radius_pd": 0.2, "radius_pd_n": 30}),
        dict(op="call_kernel", model="sphere", q=[[0.01, 0.05, 0.2]], cutoff=0.0, pars={"radius": -20.0, "radius_pd": 0.1, "radius_pd_n": 10, "background": 0.5}),
        dict(op="call_kernel", model="sphere", q=[[0.01, 0.05, 0.2]], cutoff=0.0, pars={"radius": 50.0}),
    ])
    # corpus: one SasView object of an oriented model with orientation dispersity, asked for 1-D, 2-D, 1-D, 2-D data and
    # cloned in between; the same for a second model with the 2-D request first
    for mname, first2d in (("cylinder", False), ("parallelepiped", True), ("ellipsoid", False)):
        inf = infos.get(mname) or load_model_info(mname)
        infos[mname] = inf
        pars = gen_pars(inf, rng, "2d")
        pars = {k: v for k, v in pars.items() if not k.endswith("_pd_type") and not k.startswith("up_") and "_M0" not in k}
        for p_ in inf.parameters.call_parameters:
            if p_.type == "orientation":
                pars[p_.name + "_pd"] = rng.uniform(5, 25); pars[p_.name + "_pd_n"] = rng.choice([4, 7])
        st = sasview_settings(pars, inf)
        q1_, q2_ = [[0.01, 0.05, 0.2]], [[0.03, -0.05, 0.1], [0.04, 0.05, -0.02]]
        order = [q2_, q1_, q2_, q1_] if first2d else [q1_, q2_, q1_, q2_]
        h = [dict(op="sasview", model=mname, q=qq, cutoff=1e-5, settings=st) for qq in order]
        h.insert(2, dict(op="sasview_clone", model=mname, q=order[1], cutoff=1e-5, settings=st))
        histories.insert(1, h)
    # corpus: a SasView object is given a DEFAULT-constructed disperser and only its width is set (35 points over 3 sigmas
    # is what the library documents for it) - after other evaluations in the process have used the same distribution
    # type with other numbers, through the calculator and through another object
    sph_ = infos.get("sphere") or load_model_info("sphere")
    st_full = sasview_settings({"radius": 60.0, "radius_pd": 0.3, "radius_pd_n": 80, "radius_pd_nsigma": 2.0}, sph_)
    st_dflt = [kv for kv in sasview_settings({"radius": 55.0, "radius_pd": 0.2}, sph_) if kv[0] not in ("radius.npts", "radius.nsigmas")]
    histories.insert(1, [dict(op="sasview", model="sphere", q=[[0.01, 0.05, 0.2]], cutoff=0.0, settings=st_full),
                         dict(op="call_kernel", model="sphere", q=[[0.01, 0.05, 0.2]], cutoff=0.0, pars={"radius": 50.0, "radius_pd": 0.1, "radius_pd_n": 10, "radius_pd_nsigma": 2.0}),
                         dict(op="sasview", model="sphere", q=[[0.01, 0.05, 0.2]], cutoff=0.0, settings=st_dflt, fresh_dispersers=["radius"])])
    # corpus: one pair of q arrays whose CONTENTS change between requests (same objects, new kernel each time)
    histories.insert(1, [dict(op="call_kernel", model="sphere", q=[qv_], cutoff=0.0, pars={"radius": 50.0, "radius_pd": 0.1, "radius_pd_n": 5}, same_q_arrays=True)
                         for qv_ in ([0.01, 0.05, 0.2], [0.02, 0.1, 0.4], [0.015, 0.06, 0.3])] +
                        [dict(op="call_kernel", model="cylinder", q=qv_, cutoff=0.0, pars={"radius": 20.0, "length": 300.0, "theta": 40.0, "phi": 10.0}, same_q_arrays=True)
                         for qv_ in ([[0.03, -0.05, 0.1], [0.04, 0.05, -0.02]], [[0.06, -0.1, 0.2], [0.08, 0.1, -0.04]])])
    # corpus: a structure factor whose iteration does not converge for this parameter set (the documented answer is NaN at
    # the low q value): asked twice on one kernel, then on a new kernel, then after another parameter set
    hm_ = {"radius_effective": 20.75, "charge": 1.0, "volfraction": 0.4, "concentration_salt": 0.001}
    hq_ = [[0.001, 0.05, 0.1, 0.3]]
    histories.insert(1, [dict(op="call_kernel", model="hayter_msa", q=hq_, cutoff=0.0, pars=dict(hm_)),
                         dict(op="call_kernel", model="hayter_msa", q=hq_, cutoff=0.0, pars=dict(hm_)),
                         dict(op="call_kernel", model="hayter_msa", q=[[0.05]], cutoff=0.0, pars=dict(hm_)),
                         dict(op="call_kernel", model="hayter_msa", q=hq_, cutoff=0.0, pars=dict(hm_, charge=19.0, volfraction=0.05)),
                         dict(op="call_kernel", model="hayter_msa", q=hq_, cutoff=0.0, pars=dict(hm_))])
    # corpus: a long thin cylinder at high q (sensitive to the size of the orientation quadrature), a variant of the
    # model with 150 Gauss points is derived, the model is loaded again by name and evaluated
    cyl_ = dict(op="call_kernel", model="cylinder", q=[[0.1, 0.2, 0.3]], cutoff=0.0, pars={"radius": 20.0, "length": 3000.0})
    histories.insert(1, [dict(cyl_), dict(op="ngauss", model="cylinder", n=150), dict(op="reload", model="cylinder"), dict(cyl_),
                         dict(op="ngauss", model="cylinder", n=20), dict(op="reload", model="cylinder"), dict(cyl_)])
    # corpus: amplitude requests on one kernel with the effective-radius mode going 2 -> 0 -> 1 -> 0
    histories.insert(1, [dict(op="call_Fq", model="core_shell_sphere", q=[[0.01, 0.05, 0.2]], cutoff=0.0,
                              pars={"radius": 40.0, "thickness": 12.0, "radius_pd": 0.1, "radius_pd_n": 5, "radius_effective_mode": m_})
                         for m_ in (2, 0, 1, 0)])
    # fresh-process oracle, memoised per distinct request
    oracle = {}
    todo = []
    for h in histories:
        for req in h:
            if req["op"] in ("release", "reload", "make_kernel", "ngauss"):
                continue
            key = json.dumps(req, sort_keys=True)
            if key not in oracle:
                oracle[key] = None
                todo.append((key, req))

    def fresh(item):
        key, req = item
        r2 = dict(req)
        if r2["op"] == "sasview_clone":
            r2["op"] = "sasview"       # a clone of a fresh object is a fresh object
        w = Worker(wpath, cache)
        try:
            return key, w.ask(r2)
        finally:
            w.close()

    def play(h):
        w = Worker(wpath, cache)
        try:
            return [w.ask(dict(req, step=i)) for i, req in enumerate(h)]
        finally:
            w.close()

    from concurrent.futures import ThreadPoolExecutor
    with ThreadPoolExecutor(max_workers=14) as ex:
        for key, res in ex.map(fresh, todo):
            oracle[key] = res
        played = list(ex.map(play, histories))
    stats = dict(histories=len(histories), ops={}, requests=0, distinct_requests=len(todo), errors_both=0)
    nontrivial = set()
    for h, outs in zip(histories, played):
        for i, (req, got) in enumerate(zip(h, outs)):
            stats["ops"][req["op"]] = stats["ops"].get(req["op"], 0) + 1
            if req["op"] in ("release", "reload", "make_kernel", "ngauss"):
                if "error" in got:
                    run.add(Finding("C11:error:%s" % req["op"], "history step %d %s raised %s" % (i, req["op"], got["error"]), dict(history=h[:i + 1])))
                continue
            stats["requests"] += 1
            want = oracle[json.dumps(req, sort_keys=True)]
            desc = dict(history=h[:i + 1], request=req, in_history=got, fresh_process=want)
            if "error" in got or "error" in want:
                if ("error" in got) != ("error" in want):
                    run.add(Finding("C11:error-differs:%s:%s" % (req["op"], req["model"]),
                                    "step %d %s(%s): error only %s (%s)" % (i, req["op"], req["model"], "in history" if "error" in got else "in fresh process", got.get("error") or want.get("error")), desc))
                else:
                    stats["errors_both"] += 1
                continue
            if i > 0:
                nontrivial.add(json.dumps(req, sort_keys=True))
            if got.get("result") != want.get("result"):
                run.add(Finding("C11:history:%s:%s" % (req["op"], req["model"]),
                                "step %d of a history: %s(%s) returned different bits than the same request made first in a fresh process" % (i, req["op"], req["model"]), desc))
            if got.get("earlier_results_changed"):
                run.add(Finding("C11:result-overwritten:%s" % req["op"], "step %d %s(%s) changed the arrays returned by step(s) %s of the same history (results handed to the caller are overwritten by later evaluations)" % (
                    i, req["op"], req["model"], got["earlier_results_changed"]), desc))
            if got.get("args_unchanged") is False:
                run.add(Finding("C11:args-modified:%s" % req["op"], "%s(%s) modified its argument objects" % (req["op"], req["model"]), desc))
    # ---- data arrays supplied by the caller (detector coordinates, per-pixel resolution, intensities, masks; 1-D
    # q, dq and slit arrays) are left as they were: resolution widths of exactly zero or below the smallest usable
    # width included, with and without an excluded point, through DirectModel on a data object and the Iq / Iqxy helpers
    from sasmodels import direct_model as _dm
    from sasmodels.core import load_model as _load_model
    from sasmodels.data import Data1D as _D1, Data2D as _D2
    stats["caller_array_cases"] = 0
    for cname in ("sphere", "cylinder"):
        cmodel = _load_model(cname)
        for rep in range(4 if not thorough else 12):
            npix = rng.randint(12, 40)
            qx = np.array([rng.choice([-1, 1]) * rng.uniform(0.01, 0.2) for _ in range(npix)])
            qy = np.array([rng.choice([-1, 1]) * rng.uniform(0.01, 0.2) for _ in range(npix)])
            dqx = np.array([rng.choice([0.0, 1e-12, rng.uniform(1e-3, 1e-2)]) for _ in range(npix)])
            dqy = np.array([rng.choice([0.0, 1e-12, rng.uniform(1e-3, 1e-2)]) for _ in range(npix)])
            zz = np.array([rng.uniform(1, 2) for _ in range(npix)])
            if rep % 2 == 1:
                zz[rng.randrange(npix)] = float("nan")        # one excluded pixel
            arrays = dict(qx=qx, qy=qy, dqx=dqx, dqy=dqy, z=zz)
            before = {k: v.copy() for k, v in arrays.items()}
            how = "DirectModel(Data2D)" if rep % 4 < 2 else "Iqxy(dqx=, dqy=)"
            try:
                if rep % 4 < 2:
                    data = _D2(x=qx, y=qy, z=zz, dx=dqx, dy=dqy)
                    data.err_data = np.ones(npix)
                    calc = _dm.DirectModel(data, cmodel)
                    calc(radius=rng.uniform(20, 60)); calc(radius=rng.uniform(20, 60))
                else:
                    _dm.Iqxy(cname, qx, qy, dqx=dqx, dqy=dqy, radius=rng.uniform(20, 60))
            except Exception as exc:  # noqa
                run.add(Finding("C11:caller-arrays:error", "%s on %s with caller arrays raised %r" % (how, cname, exc), dict(model=cname, arrays={k: v.tolist() for k, v in before.items()})))
                continue
            stats["caller_array_cases"] += 1
            changed = [k for k in arrays if not np.array_equal(arrays[k], before[k], equal_nan=True)]
            if changed:
                k0 = changed[0]
                idx = [int(i) for i in np.nonzero(~((arrays[k0] == before[k0]) | (np.isnan(arrays[k0]) & np.isnan(before[k0]))))[0][:5]]
                run.add(Finding("C11:caller-arrays:2d", "%s on %s changed the caller's %s array(s): %s[%s] went from %s to %s" % (
                    how, cname, changed, k0, idx, before[k0][idx].tolist(), arrays[k0][idx].tolist()),
                    dict(model=cname, how=how, arrays={k: v.tolist() for k, v in before.items()}, changed=changed)))
            # 1-D: q not sorted, pinhole widths with zeros; slit lengths/widths as arrays
            n1 = rng.randint(6, 20)
            q1 = np.array([rng.uniform(0.005, 0.3) for _ in range(n1)])
            dq1 = np.array([rng.choice([0.0, rng.uniform(1e-4, 5e-3)]) for _ in range(n1)])
            y1 = np.array([rng.uniform(1, 2) for _ in range(n1)])
            arrays = dict(q=q1, dq=dq1, y=y1)
            before = {k: v.copy() for k, v in arrays.items()}
            if rep % 2 == 0:
                d1 = _D1(x=q1, y=y1, dx=dq1, dy=np.ones(n1))
                _dm.DirectModel(d1, cmodel)(radius=rng.uniform(20, 60)); how = "DirectModel(Data1D with dx)"
            else:
                _dm.Iq(cname, q1, dq=dq1, radius=rng.uniform(20, 60)); how = "Iq(dq=)"
            stats["caller_array_cases"] += 1
            changed = [k for k in arrays if not np.array_equal(arrays[k], before[k], equal_nan=True)]
            if changed:
                run.add(Finding("C11:caller-arrays:1d", "%s on %s changed the caller's %s array(s)" % (how, cname, changed),
                                dict(model=cname, how=how, arrays={k: v.tolist() for k, v in before.items()}, changed=changed)))
    for h in histories[:3]:
        run.sample([dict(op=r["op"], model=r.get("model"), q=r.get("q"), pars=r.get("pars") or r.get("settings")) for r in h[:6]])
    run.coverage.update(evaluations=stats["requests"], distinct_nontrivial=len(nontrivial), traces_validated_against_impl=len(histories),
                        input_distribution=stats)
    run.assumptions += ["both sides run the same compiled libraries from one warmed cache directory; OMP_NUM_THREADS=1",
                        "a clone of a fresh SasviewModel is taken to be a fresh object for the oracle"]
    run.finish_args = dict(level="proof",
                           rule="random operation sequences over {make_kernel, call_kernel, call_Fq, DirectModel call, SasviewModel setParam/evalDistribution/clone, release, reload} on 3-5 models in one process, each evaluation compared bit-for-bit with a fresh process; distinct = distinct requests evaluated after at least one other operation",
                           trusted=["harness/c11.py (worker protocol, fresh-process oracle)"])
