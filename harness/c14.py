"""C14 — amplitude outputs are mutually consistent for every form factor (partial)."""
from __future__ import annotations

import math
import random

import numpy as np

from . import common, sas, c01
from .common import Finding

QUICK = ["sphere", "core_shell_sphere", "cylinder", "ellipsoid", "vesicle", "hollow_cylinder", "fuzzy_sphere", "core_shell_cylinder"]


def size_of(info, pars):
    vals = [abs(v) for p in info.parameters.kernel_parameters for k, v in pars.items()
            if (k == p.name or k.startswith(p.name) and k[len(p.name):].isdigit()) and p.type == "volume" and isinstance(v, (int, float)) and v > 0]
    return max(vals) if vals else 100.0


def main(run):
    from sasmodels.core import load_model_info
    from sasmodels.direct_model import call_kernel, call_Fq
    rng = random.Random(run.seed * 59 + 14)
    thorough = run.tier == "thorough"
    run.prove(["C14/Property.v"])
    names = [n for n in sas.compiled_model_names() if load_model_info(n).have_Fq]
    stats = dict(models=len(names), modes=0, mono=0, disperse=0, spherical_models=0, volume_sphere_modes=0, q_points=0, max_excess=0.0)
    evals, distinct = 0, set()
    np.random.seed(run.seed + 14)
    for name in names:
        model = sas.load(name)
        info = model.info
        modes = info.radius_effective_modes or []
        oriented = any(p.type == "orientation" for p in info.parameters.call_parameters)
        symmetric = (not oriented) and str(info.category).startswith("shape:sphere")
        stats["spherical_models"] += int(symmetric)
        nrep = 3 if not thorough else 8
        for rep in range(nrep + 1):
            pars = c01.base_pars(info, rng)
            degenerate = rep == nrep
            if degenerate:
                # special shapes, where shortcuts live: every dimensionless size ratio exactly 1 (circular cross-section,
                # equal axes), monodisperse
                hit_ = False
                for p_ in info.parameters.kernel_parameters:
                    if p_.name in pars and p_.type == "volume" and p_.units in ("", "None") and p_.length == 1 and not p_.choices and p_.limits[0] <= 1.0 <= p_.limits[1]:
                        pars[p_.name] = 1.0; hit_ = True
                if not hit_:
                    continue
                stats["degenerate_sets"] = stats.get("degenerate_sets", 0) + 1
            if rep and not degenerate and callable(getattr(info, "random", None)):
                try:
                    rp = info.random()
                    for k, v in rp.items():
                        if k in pars and isinstance(v, (int, float)) and np.isfinite(v):
                            p = [x for x in info.parameters.call_parameters if x.name == k][0]
                            pars[k] = float(min(max(v, p.limits[0]), p.limits[1]))
                except Exception:  # noqa
                    pass
            pars = {k: v for k, v in pars.items() if not (k.endswith("_M0") or k.endswith("_mtheta") or k.endswith("_mphi") or k.startswith("up_"))}
            if (rep % 2 == 1 or not callable(getattr(info, "random", None))) and not degenerate:
                # parameters that default to zero (roughness, penetration, ...) switched on
                if c01.nonzero_defaults(info, pars, rng):
                    stats["zero_defaults_switched_on"] = stats.get("zero_defaults_switched_on", 0) + 1
            size = size_of(info, pars)
            q = np.logspace(math.log10(1e-5 / size), math.log10(20.0 / size), 40)
            kernel = model.make_kernel([q])
            disperse = rep % 2 == 1 and not degenerate
            dpars = dict(pars)
            if disperse:
                pdn = c01.dispersible(info.parameters, "1d")
                # meshes on both sides of the 100-point chunk of the DLL driver: 5..81 points, 101, 151, 12 x 12
                big_ok = thorough or name in QUICK          # models with inner quadratures are slow on 100+ point meshes
                shape = ("one-big" if big_ok else "small") if rep == 1 else rng.choice(["small", "small2"] + (["one-big", "two-big"] if big_ok else []))
                chosen = rng.sample(pdn, min(len(pdn), 1 if shape in ("small", "one-big") else 2))
                for nm in chosen:
                    dpars[nm + "_pd"] = rng.uniform(0.05, 0.3); dpars[nm + "_pd_type"] = rng.choice(["gaussian", "schulz"])
                    dpars[nm + "_pd_n"] = (rng.choice([5, 9]) if shape.startswith("small") else
                                           rng.choice([101, 151]) if shape == "one-big" else 12)
                stats.setdefault("mesh_shapes", {}).setdefault(shape, 0); stats["mesh_shapes"][shape] += 1
            stats["disperse" if disperse else "mono"] += 1
            scale, bg = rng.uniform(0.1, 2), rng.uniform(0, 0.1)
            for mode in range(0, len(modes) + 1):
                evals += 1; stats["modes"] += 1; stats["q_points"] += len(q)
                fq = dict(dpars, scale=scale, background=bg, radius_effective_mode=mode)
                F1, F2, reff, shell, ratio = call_Fq(kernel, fq, cutoff=1e-5)
                desc = dict(model=name, mode=mode, mode_name=(modes[mode - 1] if mode else "unconstrained"), pars=dpars, disperse=disperse,
                            q_range=[float(q[0]), float(q[-1])])
                if F1 is None:
                    run.add(Finding("C14:noF:%s" % name, "%s declares amplitude output but call_Fq returns no <F>" % name, desc)); break
                F1 = np.asarray(F1); F2 = np.asarray(F2)
                if not (np.all(np.isfinite(F1)) and np.all(np.isfinite(F2))):
                    continue
                if not F2.max() > 0:
                    # matched contrast or a parameter set outside the model's validity region: nothing to compare
                    stats["zero_intensity"] = stats.get("zero_intensity", 0) + 1
                    continue
                excess = float(np.max(F1 ** 2 - F2 * (1 + 1e-12)))
                stats["max_excess"] = max(stats["max_excess"], excess / float(F2.max()))
                bad = None
                if np.any(F2 < 0) or excess > 1e-13 * F2.max():
                    j = int(np.argmax(F1 ** 2 - F2))
                    bad = "<F>^2 = %.15g exceeds <F^2> = %.15g at q=%.6g" % (F1[j] ** 2, F2[j], q[j])
                elif not disperse and abs(F1[0] ** 2 - F2[0]) > 1e-7 * F2[0]:
                    bad = "monodisperse: <F>^2 = %.12g differs from <F^2> = %.12g as q -> 0 (q=%.3g)" % (F1[0] ** 2, F2[0], q[0])
                elif not disperse and symmetric and np.any(np.abs(F1 ** 2 - F2) > 1e-9 * F2.max()):
                    j = int(np.argmax(np.abs(F1 ** 2 - F2)))
                    bad = "monodisperse spherically symmetric shape: <F>^2 = %.12g differs from <F^2> = %.12g at q=%.6g" % (F1[j] ** 2, F2[j], q[j])
                if bad is None:
                    iq = np.asarray(call_kernel(kernel, dict(dpars, scale=scale, background=bg), cutoff=1e-5))
                    want = scale * F2 / shell + bg
                    if np.any(np.abs(iq - want) > 1e-12 * (np.abs(want) + abs(bg))):
                        j = int(np.argmax(np.abs(iq - want)))
                        bad = "I(q)=%.15g differs from scale*<F^2>/V_shell+background=%.15g with the reported tuple" % (iq[j], want[j])
                if bad is None and mode > 0:
                    if not (np.isfinite(reff) and reff > 0):
                        bad = "effective radius %r for mode '%s' is not positive and finite" % (reff, modes[mode - 1])
                    elif "volume sphere" in modes[mode - 1] and not disperse:
                        stats["volume_sphere_modes"] += 1
                        vform = ratio * shell
                        if abs(4.0 / 3.0 * math.pi * reff ** 3 - vform) > 1e-9 * vform:
                            bad = "mode '%s': 4/3 pi R^3 = %.12g but <V_form> = %.12g" % (modes[mode - 1], 4.0 / 3.0 * math.pi * reff ** 3, vform)
                if bad is None and not (np.isfinite(shell) and shell > 0 and np.isfinite(ratio) and ratio > 0):
                    bad = "volume %r / volume ratio %r not positive and finite" % (shell, ratio)
                if bad is None and disperse:
                    # the mono switch of the amplitude interface: with the dispersity settings still in the dictionary,
                    # call_Fq(..., mono=True) is the monodisperse tuple (so <F>^2 = <F^2> as q -> 0 again)
                    tm = call_Fq(kernel, dict(fq), cutoff=1e-5, mono=True)
                    tp = call_Fq(kernel, dict(pars, scale=scale, background=bg, radius_effective_mode=mode), cutoff=1e-5)
                    evals += 2; stats["mono_switch"] = stats.get("mono_switch", 0) + 1
                    for a_, b_, nm_ in zip(tm, tp, ("<F>", "<F^2>", "R_eff", "V_shell", "volume ratio")):
                        a_, b_ = np.asarray(a_, "d"), np.asarray(b_, "d")
                        if np.all(np.isfinite(b_)) and np.any(np.abs(a_ - b_) > 1e-12 * (np.abs(b_) + 1e-300)):
                            bad = "call_Fq(mono=True) with dispersity settings present gives %s = %s, the monodisperse evaluation gives %s" % (nm_, a_.ravel()[:3].tolist(), b_.ravel()[:3].tolist())
                            break
                if bad:
                    run.add(Finding("C14:%s:%s" % (name, "mode%d" % mode), "%s (mode %d, %s): %s" % (name, mode, "dispersed" if disperse else "monodisperse", bad), desc))
                else:
                    distinct.add((name, rep, mode))
            # the reported averages are the normalised weighted sums of the monodisperse values over the mesh
            pdset = [k[:-3] for k in dpars if k.endswith("_pd")]
            if disperse and len(pdset) == 1 and dpars[pdset[0] + "_pd_n"] <= 151:
                from sasmodels import weights as _w
                nm = pdset[0]
                par = [x for x in info.parameters.call_parameters if x.name == nm][0]
                xs, ws = _w.get_weights(dpars[nm + "_pd_type"], dpars[nm + "_pd_n"], dpars[nm + "_pd"], 3.0 if dpars[nm + "_pd_type"] == "gaussian" else 8.0,
                                        dpars[nm], par.limits, par.relative_pd)
                mode = len(modes)
                kq = model.make_kernel([q[::8]])
                acc = np.zeros((2, len(q[::8]))); nr = 0.0; sr = 0.0; sv = 0.0; sf = 0.0
                allv = True
                for x, w in zip(xs, ws):
                    one = {k: v for k, v in dpars.items() if not k.startswith(nm + "_pd")}
                    one[nm] = float(x)
                    a1, a2, r_, sh_, ra_ = call_Fq(kq, dict(one, scale=1.0, background=0.0, radius_effective_mode=mode), cutoff=0.0)
                    if not (np.all(np.isfinite(a2)) and np.isfinite(sh_) and sh_ > 0):
                        allv = False; break
                    if not np.any(np.asarray(a2) != 0) and sh_ == 1.0:
                        continue        # a mesh point outside the model's validity region takes no part (nor its weight)
                    acc[0] += w * np.asarray(a1); acc[1] += w * np.asarray(a2); nr += w; sr += w * r_; sv += w * sh_; sf += w * sh_ * ra_
                if allv and nr > 0:
                    evals += len(xs)
                    fq = dict(dpars, scale=1.0, background=0.0, radius_effective_mode=mode)
                    fq[nm + "_pd_nsigma"] = 3.0 if dpars[nm + "_pd_type"] == "gaussian" else 8.0
                    F1, F2, reff, shell, ratio = call_Fq(kq, fq, cutoff=0.0)
                    stats["brute_force_averages"] = stats.get("brute_force_averages", 0) + 1
                    tol = 1e-9
                    msg = None
                    if np.any(np.abs(np.asarray(F1) - acc[0] / nr) > tol * np.abs(acc[0] / nr).max()) or np.any(np.abs(np.asarray(F2) - acc[1] / nr) > tol * (acc[1] / nr).max()):
                        msg = "<F>, <F^2> are not sum(w F)/sum(w), sum(w F^2)/sum(w) over the %d-point mesh in %s (first q: %.9g, %.9g against %.9g, %.9g)" % (
                            len(xs), nm, F1[0], F2[0], acc[0][0] / nr, acc[1][0] / nr)
                    elif abs(shell - sv / nr) > tol * sv / nr or abs(ratio * shell - sf / nr) > tol * sf / nr or (mode and abs(reff - sr / nr) > tol * abs(sr / nr)):
                        msg = "reported R_eff=%.9g, V_shell=%.9g, V_form=%.9g are not the weighted means %.9g, %.9g, %.9g over the %d-point mesh in %s" % (
                            reff, shell, ratio * shell, sr / nr, sv / nr, sf / nr, len(xs), nm)
                    if msg:
                        run.add(Finding("C14:%s:average" % name, "%s: %s" % (name, msg), dict(model=name, pars=dpars, mesh_points=len(xs))))
                kq.release()
            kernel.release()
            if len(run.coverage["samples"]) < 5:
                run.sample(dict(model=name, dispersed=disperse, modes=len(modes), q_range=[float(q[0]), float(q[-1])], pars={k: v for k, v in list(dpars.items())[:6]}))
    # ---- the tuple does not depend on build-time switches of the environment: a fresh process with SAS_OPENMP set and an
    # empty library cache (so that the models are compiled there) reports the same <F>, <F^2>, R_eff, volumes and I(q)
    import json as _json, os as _os, subprocess as _sp, tempfile as _tf
    envw = r"""
import json, sys
import numpy as np
from sasmodels.core import load_model
from sasmodels.direct_model import call_kernel, call_Fq
q = np.logspace(-4, -0.3, 1500)
out = {}
for name, pars in json.loads(sys.argv[1]):
    m = load_model(name, dtype="double", platform="dll")
    k = m.make_kernel([q])
    rows = []
    for rep in range(4):
        F1, F2, reff, shell, ratio = call_Fq(k, dict(pars, radius_effective_mode=1), cutoff=0.0)
        iq = call_kernel(k, dict(pars, scale=1.3, background=0.01), cutoff=0.0)
        rows.append([np.asarray(F1).tolist(), np.asarray(F2).tolist(), float(reff), float(shell), float(ratio), np.asarray(iq).tolist()])
    out[name] = rows
    k.release()
print(json.dumps(out))
"""
    jobs = [("sphere", dict(radius=150.0, radius_pd=0.15, radius_pd_n=12)), ("cylinder", dict(radius=40.0, length=600.0))]
    tmpd = _tf.mkdtemp(prefix="c14env_", dir=run.scratch.sub("envdll"))
    results = {}
    for label, extra in (("plain", {}), ("SAS_OPENMP", {"SAS_OPENMP": "1", "OMP_NUM_THREADS": "8"})):
        env = dict(_os.environ); env.pop("SAS_OPENMP", None)
        env.update(PYTHONPATH=common.REPO, SAS_DLL_PATH=_os.path.join(tmpd, label), SAS_OPENCL="none", PYTHONHASHSEED="0")
        env.update(extra)
        _os.makedirs(env["SAS_DLL_PATH"], exist_ok=True)
        pr = _sp.run([common.PY, "-c", envw, _json.dumps(jobs)], env=env, capture_output=True, text=True, timeout=600)
        evals += 1
        if pr.returncode != 0:
            run.add(Finding("C14:environment:error", "evaluating in a fresh process with %s raised: %s" % (label, pr.stderr[-400:]), dict(environment=extra)))
            results = None
            break
        results[label] = _json.loads(pr.stdout.strip().splitlines()[-1])
    stats["environment_builds"] = 2 if results else 0
    if results:
        for name, _ in jobs:
            ref = results["plain"][name][0]
            for label in ("plain", "SAS_OPENMP"):
                for rep, row in enumerate(results[label][name]):
                    worst = max(float(np.max(np.abs(np.asarray(a_, "d") - np.asarray(b_, "d")) / (np.abs(np.asarray(b_, "d")) + 1e-300))) for a_, b_ in zip(row, ref))
                    if worst > 1e-12:
                        run.add(Finding("C14:environment:%s" % name, "%s compiled and evaluated in a process with %s in the environment (evaluation %d): <F>, <F^2>, R_eff, volumes or I(q) differ from the plain build by up to %.3g (relative)" % (
                            name, label, rep, worst), dict(model=name, environment=label, pars=dict(jobs)[name])))
                        break
                else:
                    continue
                break
            else:
                distinct.add(("environment", name))
    run.coverage.update(evaluations=evals, distinct_nontrivial=len(distinct), traces_validated_against_impl=0, input_distribution=stats)
    run.assumptions += ["the theorem needs F(x)^2 <= F^2(x) at every mesh point (an orientation average inside each model's C code): measured, not proved",
                        "equality as q -> 0, equality for spherically symmetric shapes, the volume-sphere identity and positivity per mode are measured on the implementation",
                        "the tie of the dispersity sums to the Coq model is the C01 correspondence (which includes the F and F^2 slots)"]
    run.finish_args = dict(level="proof",
                           rule="models with amplitude output x default-jittered and random() parameter sets x dispersity on/off x every effective-radius mode x 40 q values from 1e-5/size to 20/size; distinct = distinct (model, parameter set, mode)",
                           trusted=["harness/c14.py"])
