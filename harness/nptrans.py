"""nptrans — a small fail-closed symbolic evaluator for straight-line numpy code.

The array code of sasmodels/sesans.py and sasmodels/resolution.py is written with whole-array numpy operations
(broadcasting with ``[:, None]``, ``np.outer``, boolean-mask assignment, ``np.sum(axis=0)``, ``np.dot``).  This module
evaluates such statements on *symbolic* arrays: an array value is a tuple of named axes and ONE element expression
whose leaves are elements of the input arrays at the current index (possibly shifted by a constant along an axis,
for ``x[1:] - x[:-1]``).  The result is the element formula of the output array, which the property generators
print as a Coq definition (same expression format as harness/ctrans.py) so that ``Cnn/Translated.v`` can prove it
equal to the hand-written model.  Anything outside the supported fragment raises Untranslatable (fail closed).

Expressions:  ("el", name, offs)   element of input `name`, offs = tuple of (axis, shift) with shift != 0
              ("num", text) ("neg", e) ("bin", op, a, b) ("cmp", op, a, b) ("ite", c, a, b) ("call", f, [args])
              ("and", a, b) ("or", a, b) ("not", a) ("sum", axis, e)
"""
import ast


class Untranslatable(Exception):
    pass


class Arr(object):
    __slots__ = ("axes", "e")

    def __init__(self, axes, e):
        self.axes, self.e = tuple(axes), e

    def __repr__(self):
        return "Arr(%r, %r)" % (self.axes, self.e)


def shift(e, axis, k, decl):
    """the expression at index+k along `axis`"""
    t = e[0]
    if t == "el":
        if axis not in decl[e[1]]:
            return e
        offs = dict(e[2]); offs[axis] = offs.get(axis, 0) + k
        return ("el", e[1], tuple(sorted((a, s) for a, s in offs.items() if s)))
    if t == "num":
        return e
    if t in ("neg", "not"):
        return (t, shift(e[1], axis, k, decl))
    if t in ("bin", "cmp"):
        return (t, e[1], shift(e[2], axis, k, decl), shift(e[3], axis, k, decl))
    if t in ("and", "or"):
        return (t, shift(e[1], axis, k, decl), shift(e[2], axis, k, decl))
    if t == "ite":
        return (t,) + tuple(shift(x, axis, k, decl) for x in e[1:])
    if t == "call":
        return (t, e[1], [shift(x, axis, k, decl) for x in e[2]])
    if t == "sum":
        if e[1] == axis:
            return e
        return (t, e[1], shift(e[2], axis, k, decl))
    raise Untranslatable("shift of %s" % t)


def bcast(a, b):
    la, lb = list(a.axes), list(b.axes)
    n = max(len(la), len(lb))
    la = [None] * (n - len(la)) + la
    lb = [None] * (n - len(lb)) + lb
    out = []
    for x, y in zip(la, lb):
        if x is None:
            out.append(y)
        elif y is None or x == y:
            out.append(x)
        else:
            raise Untranslatable("shapes do not broadcast: %s vs %s" % (a.axes, b.axes))
    return tuple(out)


class Evaluator(object):
    """decl: input name -> axes tuple.  leaf_calls: function name -> leaf name (its argument expression is recorded in
    .leaf_args and the call is replaced by an input array of the same axes)."""

    BIN = {ast.Add: "+", ast.Sub: "-", ast.Mult: "*", ast.Div: "/"}
    CMP = {ast.Lt: "<", ast.LtE: "<=", ast.Gt: ">", ast.GtE: ">=", ast.Eq: "=="}

    def __init__(self, decl, leaf_calls=None, consts=None):
        self.decl = dict(decl)
        self.env = {n: Arr(ax, ("el", n, ())) for n, ax in decl.items()}
        self.leaf_calls = dict(leaf_calls or {})
        self.leaf_args = {}
        self.consts = dict(consts or {})       # python names bound to numbers: "pi" -> ("el","pi",()) etc. are given in decl
        self.assume = {}                       # source text of a scalar condition -> its (assumed) truth value: selects branches
        self.bool_leaves = set()               # input arrays (or leaf calls) that hold booleans
        self.returned = None

    # ------------------------------------------------------------------ expressions
    def name_of(self, node):
        if isinstance(node, ast.Name):
            return node.id
        if isinstance(node, ast.Attribute) and isinstance(node.value, ast.Name):
            return "%s.%s" % (node.value.id, node.attr)
        raise Untranslatable("target %s" % ast.unparse(node))

    def ev(self, node):
        if isinstance(node, ast.Constant):
            if isinstance(node.value, bool) or not isinstance(node.value, (int, float)):
                raise Untranslatable("constant %r" % (node.value,))
            return Arr((), ("num", repr(float(node.value))))
        if isinstance(node, (ast.Name, ast.Attribute)):
            if isinstance(node, ast.Attribute) and node.attr == "T":
                v = self.ev(node.value)
                return Arr(tuple(reversed(v.axes)), v.e)
            n = self.name_of(node)
            if n not in self.env:
                raise Untranslatable("unknown name %s" % n)
            return self.env[n]
        if isinstance(node, ast.BinOp):
            if type(node.op) in self.BIN:
                a, b = self.ev(node.left), self.ev(node.right)
                return Arr(bcast(a, b), ("bin", self.BIN[type(node.op)], a.e, b.e))
            if isinstance(node.op, ast.Pow) and isinstance(node.right, ast.Constant) and node.right.value == 2 and not isinstance(node.right.value, bool):
                a = self.ev(node.left)
                return Arr(a.axes, ("bin", "*", a.e, a.e))
            if isinstance(node.op, (ast.BitAnd, ast.BitOr)):
                a, b = self.ev(node.left), self.ev(node.right)
                if not (self.is_bool(a.e) and self.is_bool(b.e)):
                    raise Untranslatable("& or | on numbers")
                return Arr(bcast(a, b), ("and" if isinstance(node.op, ast.BitAnd) else "or", a.e, b.e))
            raise Untranslatable("operator %s" % type(node.op).__name__)
        if isinstance(node, ast.UnaryOp):
            v = self.ev(node.operand)
            if isinstance(node.op, ast.USub):
                return Arr(v.axes, ("neg", v.e))
            if isinstance(node.op, ast.Invert) and self.is_bool(v.e):
                return Arr(v.axes, ("not", v.e))
            raise Untranslatable("unary %s" % type(node.op).__name__)
        if isinstance(node, ast.Compare):
            if len(node.ops) != 1 or type(node.ops[0]) not in self.CMP:
                raise Untranslatable("comparison %s" % ast.unparse(node))
            a, b = self.ev(node.left), self.ev(node.comparators[0])
            return Arr(bcast(a, b), ("cmp", self.CMP[type(node.ops[0])], a.e, b.e))
        if isinstance(node, ast.IfExp):
            return self.ev(node.body if self.truth(node.test) else node.orelse)
        if isinstance(node, ast.Subscript):
            return self.subscript(self.ev(node.value), node.slice)
        if isinstance(node, ast.Call):
            return self.call(node)
        raise Untranslatable("expression %s" % ast.unparse(node))

    def truth(self, test):
        """a scalar Python condition whose value the caller fixed in .assume (evaluated once per combination)"""
        txt = ast.unparse(test)
        if txt in self.assume:
            return bool(self.assume[txt])
        if isinstance(test, ast.UnaryOp) and isinstance(test.op, ast.Not) and ast.unparse(test.operand) in self.assume:
            return not self.assume[ast.unparse(test.operand)]
        raise Untranslatable("condition %s is not one of the assumed flags" % txt)

    def is_bool(self, e):
        return e[0] in ("cmp", "and", "or", "not") or (e[0] == "el" and e[1] in self.bool_leaves)

    def subscript(self, v, sl):
        items = list(sl.elts) if isinstance(sl, ast.Tuple) else [sl]
        axes, e, src = [], v.e, list(v.axes)
        for it in items:
            if isinstance(it, ast.Constant) and it.value is None:
                axes.append(None)
                continue
            if not src:
                raise Untranslatable("too many indices")
            ax = src.pop(0)
            k = None
            if isinstance(it, ast.Constant) and isinstance(it.value, int) and not isinstance(it.value, bool):
                k = it.value
            elif isinstance(it, ast.UnaryOp) and isinstance(it.op, ast.USub) and isinstance(it.operand, ast.Constant) and isinstance(it.operand.value, int):
                k = -it.operand.value
            if k is not None:
                # one fixed entry of an INPUT vector: a named scalar leaf  name[k]
                if not (e[0] == "el" and e[2] == () and len(v.axes) == 1 and len(items) == 1):
                    raise Untranslatable("integer index into a computed array")
                nm = "%s[%d]" % (e[1], k)
                self.decl.setdefault(nm, ())
                return Arr((), ("el", nm, ()))
            if isinstance(it, ast.Slice):
                if it.step is not None:
                    raise Untranslatable("slice step")
                lo = 0
                if it.lower is not None:
                    if not (isinstance(it.lower, ast.Constant) and isinstance(it.lower.value, int) and it.lower.value >= 0):
                        raise Untranslatable("slice start %s" % ast.unparse(it.lower))
                    lo = it.lower.value
                if it.upper is not None:
                    u = it.upper
                    ok = isinstance(u, ast.UnaryOp) and isinstance(u.op, ast.USub) and isinstance(u.operand, ast.Constant) and isinstance(u.operand.value, int)
                    if not ok:
                        raise Untranslatable("slice stop %s" % ast.unparse(u))
                if lo and ax is not None:
                    e = shift(e, ax, lo, self.decl)
                axes.append(ax)
            else:
                raise Untranslatable("index %s" % ast.unparse(it))
        return Arr(tuple(axes) + tuple(src), e)

    def call(self, node):
        fn = ast.unparse(node.func)
        args = node.args
        if fn in self.leaf_calls and len(args) == 1 and not [k for k in node.keywords if k.arg != "out"]:
            v = self.ev(args[0])
            leaf = self.leaf_calls[fn]
            if leaf in self.leaf_args and self.leaf_args[leaf][1] != v.e:
                raise Untranslatable("%s called with two different arguments" % fn)
            self.leaf_args[leaf] = (v.axes, v.e)
            self.decl[leaf] = tuple(a for a in v.axes if a is not None)
            out = Arr(v.axes, ("el", leaf, ()))
            for k in node.keywords:
                self.env[self.name_of(k.value)] = out
            return out
        if node.keywords and not (fn == "np.sum" and [k.arg for k in node.keywords] == ["axis"]):
            raise Untranslatable("keywords in %s" % ast.unparse(node))
        if fn in ("np.asarray",) and len(args) == 1:
            return self.ev(args[0])
        if fn in ("sqrt", "np.sqrt") and len(args) == 1:
            v = self.ev(args[0])
            return Arr(v.axes, ("call", "sqrt", [v.e]))
        if fn in ("abs", "np.abs") and len(args) == 1:
            v = self.ev(args[0])
            return Arr(v.axes, ("call", "abs", [v.e]))
        if fn == "np.diff" and len(args) == 1:
            v = self.ev(args[0])
            if len(v.axes) != 1 or v.axes[0] is None:
                raise Untranslatable("np.diff of %s" % (v.axes,))
            return Arr(v.axes, ("bin", "-", shift(v.e, v.axes[0], 1, self.decl), v.e))
        if isinstance(node.func, ast.Attribute) and node.func.attr == "flatten" and not args:
            v = self.ev(node.func.value)
            return Arr(tuple(a for a in v.axes if a is not None), v.e)
        if fn == "np.outer" and len(args) == 2:
            a, b = self.ev(args[0]), self.ev(args[1])
            if len(a.axes) != 1 or len(b.axes) > 1:
                raise Untranslatable("np.outer of %s and %s" % (a.axes, b.axes))
            return Arr((a.axes[0], b.axes[0] if b.axes else None), ("bin", "*", a.e, b.e))
        if fn == "np.sum" and len(args) == 1 and not node.keywords:
            v = self.ev(args[0])
            if len(v.axes) != 1 or v.axes[0] is None:
                raise Untranslatable("np.sum without an axis on %s" % (v.axes,))
            return Arr((), ("sum", v.axes[0], v.e))
        if fn == "np.sum" and len(args) == 1 and node.keywords:
            v = self.ev(args[0])
            k = node.keywords[0].value
            if not (isinstance(k, ast.Constant) and isinstance(k.value, int) and 0 <= k.value < len(v.axes) and v.axes[k.value] is not None):
                raise Untranslatable("np.sum axis")
            ax = v.axes[k.value]
            return Arr(tuple(a for i, a in enumerate(v.axes) if i != k.value), ("sum", ax, v.e))
        if fn == "np.dot" and len(args) == 2:
            a, b = self.ev(args[0]), self.ev(args[1])
            if len(b.axes) not in (1, 2) or not a.axes or a.axes[-1] != b.axes[0] or b.axes[0] is None:
                raise Untranslatable("np.dot of %s and %s" % (a.axes, b.axes))
            return Arr(a.axes[:-1] + b.axes[1:], ("sum", b.axes[0], ("bin", "*", a.e, b.e)))
        if isinstance(node.func, ast.Attribute) and node.func.attr == "reshape" and ast.unparse(node).endswith(".reshape((-1, 1))"):
            v = self.ev(node.func.value)
            if len(v.axes) != 1:
                raise Untranslatable("reshape of %s" % (v.axes,))
            return Arr((v.axes[0], None), v.e)
        raise Untranslatable("call %s" % ast.unparse(node))

    # ------------------------------------------------------------------ statements
    def run(self, stmts):
        for st in stmts:
            self.stmt(st)
        return self

    def stmt(self, st):
        if self.returned is not None:
            raise Untranslatable("statement after return")
        if isinstance(st, ast.Expr) and isinstance(st.value, ast.Constant) and isinstance(st.value.value, str):
            return
        if isinstance(st, ast.Assign) and len(st.targets) == 1:
            tg = st.targets[0]
            if isinstance(tg, ast.Tuple):
                if not (isinstance(st.value, ast.Tuple) and len(st.value.elts) == len(tg.elts)):
                    raise Untranslatable("tuple assignment %s" % ast.unparse(st))
                vals = [self.ev(v) for v in st.value.elts]
                for t, v in zip(tg.elts, vals):
                    self.env[self.name_of(t)] = v
                return
            if isinstance(tg, ast.Subscript):
                # X[mask] = value
                n = self.name_of(tg.value)
                cur = self.env.get(n)
                if cur is None:
                    raise Untranslatable("mask assignment to unknown %s" % n)
                m = self.ev(tg.slice)
                v = self.ev(st.value)
                if not self.is_bool(m.e):
                    raise Untranslatable("index assignment %s is not a boolean mask" % ast.unparse(st))
                if bcast(cur, m) != cur.axes or bcast(cur, v) != cur.axes:
                    raise Untranslatable("mask of another shape in %s" % ast.unparse(st))
                self.env[n] = Arr(cur.axes, ("ite", m.e, v.e, cur.e))
                return
            self.env[self.name_of(tg)] = self.ev(st.value)
            return
        if isinstance(st, ast.AugAssign) and isinstance(st.op, (ast.BitAnd, ast.BitOr)):
            n = self.name_of(st.target)
            cur = self.env.get(n)
            v = self.ev(st.value)
            if cur is None or not (self.is_bool(cur.e) and self.is_bool(v.e)) or bcast(cur, v) != cur.axes:
                raise Untranslatable("in-place & or | in %s" % ast.unparse(st))
            self.env[n] = Arr(cur.axes, ("and" if isinstance(st.op, ast.BitAnd) else "or", cur.e, v.e))
            return
        if isinstance(st, ast.AugAssign) and type(st.op) in self.BIN:
            n = self.name_of(st.target)
            cur = self.env.get(n)
            if cur is None:
                raise Untranslatable("augmented assignment to unknown %s" % n)
            v = self.ev(st.value)
            if bcast(cur, v) != cur.axes:
                raise Untranslatable("in-place operation changes the shape in %s" % ast.unparse(st))
            self.env[n] = Arr(cur.axes, ("bin", self.BIN[type(st.op)], cur.e, v.e))
            return
        if isinstance(st, ast.Expr) and isinstance(st.value, ast.Call):
            # j0(H, out=H)
            kw = st.value.keywords
            if len(kw) == 1 and kw[0].arg == "out":
                self.ev(st.value)
                return
        if isinstance(st, ast.If):
            for b in (st.body if self.truth(st.test) else st.orelse):
                self.stmt(b)
            return
        if isinstance(st, ast.Return) and st.value is not None:
            self.returned = self.ev(st.value)
            return
        raise Untranslatable("statement %s" % ast.unparse(st).splitlines()[0])


# -------------------------------------------------------------------------------------------------------- printing
def coq(e, names, lits, sums=None):
    """names: ("name", offs) -> Coq term for that element.  lits: float text -> Coq name.  sums: axis -> (list term,
    binder) printing ("sum", axis, body) as sumL (map (fun binder => body) list)."""
    t = e[0]
    r = lambda x: coq(x, names, lits, sums)
    if t == "el":
        key = (e[1], e[2])
        if key not in names:
            raise Untranslatable("element %s%s has no name in the model" % (e[1], list(e[2]) or ""))
        return names[key]
    if t == "num":
        f = float(e[1])
        if f == 0.0:
            return "(zero O)"
        if f == 1.0:
            return "(one O)"
        for txt, nm in lits.items():
            if float(txt) == f:
                return nm
        raise Untranslatable("literal %s has no name" % e[1])
    if t == "neg":
        return "(opp O %s)" % r(e[1])
    if t == "bin":
        return "(%s O %s %s)" % ({"+": "add", "-": "sub", "*": "mul", "/": "div"}[e[1]], r(e[2]), r(e[3]))
    if t == "cmp":
        a, b = r(e[2]), r(e[3])
        return {"<": "(ltb O %s %s)" % (a, b), ">": "(ltb O %s %s)" % (b, a), "<=": "(leb O %s %s)" % (a, b),
                ">=": "(leb O %s %s)" % (b, a), "==": "(eqb O %s %s)" % (a, b)}[e[1]]
    if t == "and":
        return "(andb %s %s)" % (r(e[1]), r(e[2]))
    if t == "or":
        return "(orb %s %s)" % (r(e[1]), r(e[2]))
    if t == "not":
        return "(negb %s)" % r(e[1])
    if t == "ite":
        return "(if %s then %s else %s)" % (r(e[1]), r(e[2]), r(e[3]))
    if t == "call":
        key = ("call:" + e[1], tuple(repr(a) for a in e[2]))
        if key in names:
            return names[key]
        if ("fn", e[1]) in names:
            return "(%s %s)" % (names[("fn", e[1])], " ".join(r(a) for a in e[2]))
        raise Untranslatable("function %s" % e[1])
    if t == "sum":
        if not sums or e[1] not in sums:
            raise Untranslatable("sum over %s" % e[1])
        lst, binder = sums[e[1]]
        return "(sumL O (map (fun %s => %s) %s))" % (binder, r(e[2]), lst)
    raise Untranslatable("cannot print %s" % t)


def function_body(path, qualname):
    """statements of a top-level function or Class.method, docstring dropped"""
    tree = ast.parse(open(path).read())
    parts = qualname.split(".")
    body = tree.body
    node = None
    for p in parts:
        node = next((n for n in body if isinstance(n, (ast.FunctionDef, ast.ClassDef)) and n.name == p), None)
        if node is None:
            raise Untranslatable("%s not found" % qualname)
        body = node.body
    if not isinstance(node, ast.FunctionDef):
        raise Untranslatable("%s is not a function" % qualname)
    stmts = [s for s in node.body if not (isinstance(s, ast.Expr) and isinstance(s.value, ast.Constant) and isinstance(s.value.value, str))]
    return node, stmts
