"""C01 — dispersity-averaged I(q) is the documented volume-normalised weighted mean."""
from __future__ import annotations

import itertools
import math
import random

import numpy as np

from . import common, sas
from .common import Finding, fhex, flist, nlist, cbool, coq_list

QUICK_MODELS = ["sphere", "core_shell_sphere", "cylinder", "ellipsoid", "core_shell_cylinder",
                "hollow_cylinder", "parallelepiped", "barbell", "core_multi_shell", "vesicle"]

DISTS_SIZE = ["gaussian", "rectangle", "lognormal", "schulz", "uniform", "boltzmann"]
DISTS_ANGLE = ["gaussian", "rectangle", "uniform"]

REL_TOL = 1e-11


def base_pars(info, rng):
    """A plausible parameter set: defaults jittered by +-30%, inside limits."""
    pars = {}
    for p in info.parameters.call_parameters:
        if p.name in ("scale", "background"):
            continue
        v = p.default
        if "_M0" in p.name or p.name.startswith("up_") or "_mtheta" in p.name or "_mphi" in p.name:
            continue
        if p.type == "orientation":
            v = rng.choice([0.0, 90.0, 180.0, rng.uniform(-90, 90), rng.uniform(0, 360)])
        elif p.type == "sld":
            v = rng.uniform(-1, 8)
        elif isinstance(v, (int, float)) and v != 0 and not p.choices and p.units != "":
            v = v * rng.uniform(0.7, 1.3)
        lo, hi = p.limits
        if p.type != "orientation":
            v = min(max(v, lo), hi)
        pars[p.name] = float(v)
    return pars


def nonzero_defaults(info, pars, rng):
    """Parameters whose default is 0 (interface roughness, penetration, offsets ...) never move under a multiplicative
    jitter: give each of them a value well inside its limits.  Returns the names changed."""
    changed = []
    for p in info.parameters.call_parameters:
        if p.name not in pars or p.default != 0 or p.choices or p.type in ("orientation", "sld", "magnetic") or p.length != 1:
            continue
        if p.name in ("background",) or p.name.endswith("_M0") or p.name.startswith("up_"):
            continue
        lo, hi = p.limits
        if p.units == "Ang":
            v = rng.choice([rng.uniform(0.3, 3.0), rng.uniform(3.0, 40.0)])
        else:
            v = rng.uniform(0.05, 0.9)
        if hi < float("inf"):
            v = min(v, lo + 0.9 * (hi - lo)) if lo > -float("inf") else min(v, hi)
        v = max(v, lo)
        pars[p.name] = float(v)
        changed.append(p.name)
    return changed


def dispersible(pt, dim):
    """names of the call parameters that may carry a distribution for this kind of data, from the parameter flags
    themselves (numbered entries of vector parameters included; orientation only for 2-D data; never magnetic)"""
    return [p.name for p in pt.call_parameters if p.polydisperse and p.type != "magnetic" and (dim == "2d" or p.type != "orientation")]


def gen_case(model, info, dim, rng, cap, kinds, force_kind=None):
    """Return (pars, cutoff, mode, tags)."""
    pt = info.parameters
    pars = base_pars(info, rng)
    pars["scale"] = rng.choice([1.0, rng.uniform(0.01, 3)])
    pars["background"] = rng.choice([0.0, rng.uniform(0.001, 2)])
    pd_names = dispersible(pt, dim)
    byname = {p.name: p for p in pt.call_parameters}
    tags = []
    kind = force_kind or rng.choice(kinds)
    maxk = min(len(pd_names), pt.max_pd)
    if kind == "toomany":
        k = pt.max_pd + 1
        if len(pd_names) < k:
            kind = "plain"
    tags.append(kind)
    if kind != "toomany":
        k = rng.randint(1, max(1, min(maxk, 3 if cap <= 400 else 5))) if maxk else 0
    chosen = rng.sample(pd_names, min(k, len(pd_names)))
    # target mesh size: sometimes straddle the 100-point chunk boundary
    target = rng.choice([rng.randint(2, 60), 99, 100, 101, 105, 125, 200, rng.randint(100, cap)])
    target = min(target, cap)
    if kind == "toomany":
        target = 2 ** len(chosen)
    per = max(2, int(round(target ** (1.0 / max(1, len(chosen))))))
    for i, name in enumerate(chosen):
        p = byname[name]
        n = per if i else max(2, min(target // max(1, per ** (len(chosen) - 1)), 130))
        if kind == "toomany":
            n = 2
        if p.type == "orientation":
            pars[name + "_pd"] = rng.uniform(1, 25)
            pars[name + "_pd_type"] = rng.choice(DISTS_ANGLE)
        else:
            pars[name + "_pd"] = rng.uniform(0.03, 0.6)
            pars[name + "_pd_type"] = rng.choice(DISTS_SIZE)
        pars[name + "_pd_n"] = n
        pars[name + "_pd_nsigma"] = rng.choice([3.0, 2.0, rng.uniform(0.5, 6)])
        if kind == "toomany":
            if p.type != "orientation":
                pars[name + "_pd"] = 0.05
            pars[name + "_pd_type"] = "gaussian"
            pars[name + "_pd_nsigma"] = 2.0
    # distributions cut by the limits down to 2, 1 or 0 points
    if kind in ("cut2", "cut1", "cut0") and chosen:
        cands = [n for n in chosen if byname[n].type != "orientation" and byname[n].limits[0] == 0.0]
        if cands:
            name = cands[0]
            pars[name + "_pd_type"] = "gaussian"
            pars[name + "_pd"] = 1.0
            pars[name + "_pd_nsigma"] = 3.0
            if kind == "cut2":
                pars[name + "_pd_n"] = 3      # -2c, c, 4c -> 2 points
            elif kind == "cut1":
                pars[name + "_pd_n"] = 2      # -2c, 4c -> the single point 4c
            else:
                pars[name] = -abs(pars[name]) - 1.0   # every point below the limit
                pars[name + "_pd"] = 0.1
                pars[name + "_pd_n"] = 5
    cutoff = rng.choice([0.0, 0.0, 1e-5, 1e-5, 1e-3, 10.0 if kind == "allcut" else 1e-5])
    modes = getattr(info, "radius_effective_modes", None) or []
    mode = rng.randint(0, len(modes)) if modes else rng.choice([0, 1])
    return pars, cutoff, mode, tags


def mesh_of(info, pars, dim):
    from sasmodels.direct_model import get_mesh
    p = {k: v for k, v in pars.items()}
    return get_mesh(info, p, dim=dim)


def build_case(kernel, info, dim, q, pars, cutoff, mode, rng, cap, with_runs=True, leaf_fn=None):
    """Run the implementation and collect everything the Coq case needs.
    Returns (case dict | None, oracle_result dict)."""
    from sasmodels.direct_model import call_kernel, call_Fq
    from sasmodels.details import make_kernel_args
    nq = len(q[0])
    mesh = mesh_of(info, pars, dim)
    cp = info.parameters.call_parameters
    npars = info.parameters.npars
    kp = cp[2:2 + npars]
    scalars = {p.name: float(m[0]) for p, m in zip(cp, mesh)}
    # "every distribution point that lies inside the parameter's limits takes part": the mesh entry of every parameter the
    # caller dispersed (by the parameter's own flags - numbered entries of vector parameters included) is the requested
    # distribution cut at the limits declared for it (for a numbered entry: those of the vector's row)
    mesh_mismatch = None
    try:
        from sasmodels import weights as _wts
        declared = {k.id: k for k in info.parameters.kernel_parameters}
        for p_, m_ in zip(cp, mesh):
            n_ = pars.get(p_.name + "_pd_n", 0)
            if p_.name in dispersible(info.parameters, dim) and pars.get(p_.name + "_pd", 0.0) > 0 and n_ and n_ >= 2:
                base_ = declared.get(p_.id) or declared.get(p_.id.rstrip("0123456789"))
                lim_ = base_.limits if base_ is not None else p_.limits
                xv_, wv_ = _wts.get_weights(pars.get(p_.name + "_pd_type", "gaussian"), n_, pars[p_.name + "_pd"], pars.get(p_.name + "_pd_nsigma", 3.0),
                                            float(pars[p_.name]), lim_, p_.relative_pd)
                mv_, mw_ = np.asarray(m_[1], "d"), np.asarray(m_[2], "d")
                if len(mv_) != len(xv_) or not np.allclose(mv_, xv_, rtol=1e-13, atol=1e-13) or not np.allclose(mw_, wv_, rtol=1e-12, atol=0):
                    mesh_mismatch = "%s: a distribution of %d points (width %.4g) was requested, the mesh carries %d point(s) %s" % (
                        p_.name, n_, pars[p_.name + "_pd"], len(mv_), np.round(mv_[:4], 4).tolist())
                    break
    except NotImplementedError:
        pass
    kmesh = mesh[2:2 + npars]
    lens = [len(m[2]) for m in kmesh]
    total = int(np.prod(lens)) if lens else 1
    out = dict(lens=lens, total=total)
    if mesh_mismatch:
        out["mesh_mismatch"] = mesh_mismatch
    if total > cap:
        return None, dict(skip="mesh too large %d" % total)
    # --- implementation outputs
    try:
        iq = np.asarray(call_kernel(kernel, dict(pars), cutoff=cutoff), "d")
        err = None
    except Exception as exc:  # noqa
        iq, err = None, "%s: %s" % (type(exc).__name__, exc)
    out["iq"] = iq
    out["error"] = err
    nactive = sum(1 for n in lens if n > 1)
    if nactive > info.parameters.max_pd:
        out["expect_error"] = True
        return None, out
    if err is not None:
        return None, out
    fqp = dict(pars)
    fqp["radius_effective_mode"] = mode
    F1, F2, reff, shell, ratio = call_Fq(kernel, fqp, cutoff=cutoff)
    # --- leaves over the full mesh in table order (last parameter fastest)
    W = [np.asarray(m[2], "d") for m in kmesh]
    V = [np.asarray(m[1], "d") for m in kmesh]
    nf = 2 if (info.have_Fq and dim == "1d") else 1
    ncomp = 4 + nq * nf
    leaves = []
    if total > 0:
        for idx in itertools.product(*[range(n) for n in lens]):
            pv, jit = {}, {}
            for p, i, v in zip(kp, idx, V):
                if p.type == "orientation" and dim == "2d":
                    jit[p.name] = float(v[i])
                else:
                    pv[p.name] = float(v[i])
            if leaf_fn is not None:      # leaves from the definition's own formulas, not from the kernel
                full = dict(scalars); full.update(pv)
                leaves.append(leaf_fn(full, mode, q))
            else:
                leaves.append(sas.leaf_eval(kernel, pv, jit, mode, nq, scalars))
    # --- oracle: the property's formula, straight from the text
    wn = wf = ws = wr = 0.0
    f2 = [0.0] * nq
    f1 = [0.0] * nq
    near_tie = False
    if total > 0:
        for t, idx in enumerate(itertools.product(*[range(n) for n in lens])):
            valid, proj, comps = leaves[t]
            w = proj
            for Wp, i in zip(W, idx):
                w *= float(Wp[i])
            if valid and cutoff > 0 and abs(w - cutoff) <= 1e-12 * cutoff:
                near_tie = True
            if valid and w > cutoff:
                wn += w; wf += w * comps[1]; ws += w * comps[2]; wr += w * comps[3]
                for j in range(nq):
                    f2[j] += w * comps[4 + j]
                    if nf == 2:
                        f1[j] += w * comps[4 + nq + j]
    tw = wn if wn != 0 else 1.0
    sh = ws / tw if ws != 0 else 1.0
    o_iq = [pars["scale"] / sh * (x / tw) + pars["background"] for x in f2]
    out.update(oracle_iq=o_iq, near_tie=near_tie, fq=(F1, F2, reff, shell, ratio),
               oracle_fq=dict(reff=wr / tw, shell=sh, ratio=(wf / tw) / sh, f2=[x / tw for x in f2],
                              f1=[x / tw for x in f1] if nf == 2 else None),
               qualifying=int(wn != 0))
    if near_tie:
        return None, out
    # --- observed slot assignment and raw kernel runs with arbitrary partitions
    call_details, values, is_magnetic = make_kernel_args(kernel, mesh)
    max_pd = info.parameters.max_pd
    ks = [int(x) for x in call_details.pd_par[:max_pd]]
    ns = [int(x) for x in call_details.pd_length[:max_pd]]
    runs = []
    neval = int(call_details.num_eval)
    if with_runs and neval > 0 and not is_magnetic and hasattr(kernel, "kernel"):
        parts_list = [[(0, neval)], [(s, min(s + 100, neval)) for s in range(0, neval, 100)]]
        step = rng.choice([1, 7, 37, 64]) if neval <= 400 else rng.choice([37, 64, 101])
        parts_list.append([(s, min(s + step, neval)) for s in range(0, neval, step)])
        cuts = sorted(set(rng.sample(range(1, neval), min(neval - 1, rng.randint(1, 4))))) if neval > 1 else []
        edges = [0] + cuts + [neval]
        parts_list.append(list(zip(edges[:-1], edges[1:])))
        for parts in parts_list:
            prev = rng.choice([0.0, 7.25, -3.5e10, float("nan")])
            res = np.full(nq * nf + 4, prev, "d")
            fn = kernel.kernel[0]
            for (a, b) in parts:
                fn(nq, a, b, call_details.buffer.ctypes.data, values.ctypes.data,
                   kernel.q_input.q.ctypes.data, res.ctypes.data, np.float64(cutoff), mode)
            n = nf * nq
            obs = [res[n], res[n + 1], res[n + 2], res[n + 3]] + list(res[0:n:nf]) + (list(res[1:n:nf]) if nf == 2 else [])
            runs.append((parts, prev, [float(x) for x in obs]))
    fq_list = []
    if F2 is not None:
        fq_list = [float(reff), float(shell), float(ratio)] + [float(x) for x in F2] + ([float(x) for x in F1] if nf == 2 else [])
    case = dict(lens=lens, W=[list(map(float, w)) for w in W], leaves=leaves, cutoff=cutoff,
                scale=pars["scale"], bg=pars["background"], nq=nq, nf=nf, ks=ks, ns=ns, runs=runs,
                iq=[float(x) for x in iq], fq=fq_list)
    return case, out



# ---- synthetic definitions whose single-particle functions are known independently of the kernel -----------
# A hollow sphere written in the three documented ways (inline strings, c_code, separate .c file) and once
# with an amplitude function.  F^2, V_form, V_shell and R_eff at a mesh point are evaluated here in Python
# from the formulas below, so "the model's own scattering and (shell) volume" is checked against the
# definition, not against what the compiled kernel says about itself.
_HOLLOW_HEAD = """
from numpy import inf
name = "{name}"
title = "C01 hollow probe ({flavour})"
description = "rational hollow-sphere-like form factor with distinct form and shell volumes"
category = "shape:sphere"
parameters = [
    ["sld", "1e-6/Ang^2", 2.0, [-inf, inf], "sld", ""],
    ["sld_solvent", "1e-6/Ang^2", 5.0, [-inf, inf], "sld", ""],
    ["radius", "Ang", 30.0, [0, inf], "volume", ""],
    ["thickness", "Ang", 8.0, [0, inf], "volume", ""],
    ["fuzz", "", 0.3, [0, inf], "", "non-volume parameter"],
]
radius_effective_modes = ["outer radius", "core radius"]
valid = "thickness < 2.0*radius"
"""
_C_FORM = "return 4.18879020478639*(radius+thickness)*(radius+thickness)*(radius+thickness);"
_C_SHELL = "return 4.18879020478639*((radius+thickness)*(radius+thickness)*(radius+thickness) - radius*radius*radius);"
_C_REFF = "return mode == 1 ? radius + thickness : radius;"
_C_IQ = ("const double vs = 4.18879020478639*((radius+thickness)*(radius+thickness)*(radius+thickness) - radius*radius*radius);\n"
         "    const double a = (sld - sld_solvent)*vs/(1.0 + q*q*(radius+thickness)*(radius+thickness)*(1.0+fuzz));\n")


def hollow_defs(pdir):
    """Write the four plug-ins; return {name: path}."""
    import os
    out = {}
    # 1. inline strings
    txt = _HOLLOW_HEAD.format(name="verif_hollow_str", flavour="inline strings")
    # (radius_effective has no inline-string form: it goes through c_code)
    txt += 'form_volume = """%s"""\nshell_volume = """%s"""\nIq = """%s    return 1e-4*a*a;"""\n' % (_C_FORM, _C_SHELL, _C_IQ)
    txt += 'c_code = r"""\nstatic double radius_effective(int mode, double radius, double thickness) { %s }\n"""\n' % _C_REFF
    out["verif_hollow_str"] = txt
    # 2. c_code
    sig_v = "double radius, double thickness"
    sig_q = "double q, double sld, double sld_solvent, double radius, double thickness, double fuzz"
    ccode = ("static double form_volume(%s) { %s }\nstatic double shell_volume(%s) { %s }\n"
             "static double radius_effective(int mode, %s) { %s }\nstatic double Iq(%s) {\n    %s    return 1e-4*a*a;\n}\n" % (
                 sig_v, _C_FORM, sig_v, _C_SHELL, sig_v, _C_REFF, sig_q, _C_IQ))
    out["verif_hollow_cc"] = _HOLLOW_HEAD.format(name="verif_hollow_cc", flavour="c_code") + 'c_code = r"""\n%s"""\n' % ccode
    # 3. separate C file
    with open(os.path.join(pdir, "verif_hollow_src.c"), "w") as f:
        f.write(ccode)
    out["verif_hollow_file"] = _HOLLOW_HEAD.format(name="verif_hollow_file", flavour="source file") + 'source = ["verif_hollow_src.c"]\n'
    # 4. amplitude function
    fq = ("static double form_volume(%s) { %s }\nstatic double shell_volume(%s) { %s }\n"
          "static double radius_effective(int mode, %s) { %s }\n"
          "static void Fq(double q, double *F1, double *F2, double sld, double sld_solvent, double radius, double thickness, double fuzz) {\n"
          "    %s    *F1 = 1e-2*a; *F2 = 1e-4*a*a;\n}\n" % (sig_v, _C_FORM, sig_v, _C_SHELL, sig_v, _C_REFF, _C_IQ))
    out["verif_hollow_fq"] = _HOLLOW_HEAD.format(name="verif_hollow_fq", flavour="c_code with Fq") + 'have_Fq = True\nc_code = r"""\n%s"""\n' % fq
    paths = {}
    for nm, t in out.items():
        paths[nm] = os.path.join(pdir, nm + ".py")
        with open(paths[nm], "w") as f:
            f.write(t)
    return paths


def hollow_leaf(has_f1):
    def leaf(p, mode, q):
        r, t = p["radius"], p["thickness"]
        if not (t < 2.0 * r):
            nq = len(q[0])
            return False, 0.0, [0.0] * (4 + nq * (2 if has_f1 else 1))
        k = 4.18879020478639
        vf = k * (r + t) * (r + t) * (r + t)
        vs = k * ((r + t) * (r + t) * (r + t) - r * r * r)
        re = (r + t) if mode == 1 else (r if mode == 2 else 0.0)
        if len(q) == 2:
            qq = [math.sqrt(float(x) * float(x) + float(y) * float(y)) for x, y in zip(q[0], q[1])]
        else:
            qq = [float(x) for x in q[0]]
        amp = [(p["sld"] - p["sld_solvent"]) * vs / (1.0 + x * x * (r + t) * (r + t) * (1.0 + p["fuzz"])) for x in qq]
        comps = [1.0, vf, vs, re] + [1e-4 * a * a for a in amp]
        if has_f1:
            comps += [1e-2 * a for a in amp]
        return True, 1.0, comps
    return leaf



class Untranslatable(Exception):
    pass


def _translate_kernel_py():
    """Kernel.Fq and Kernel.Iq of the current kernel.py (normalisation by the total weight and the shell volume,
    scale and background) as Gallina over an Ops carrier.  Fail-closed Python-ast walk."""
    import ast, os
    tree = ast.parse(open(os.path.join(common.REPO, "sasmodels", "kernel.py")).read())
    fns = {}
    for node in tree.body:
        if isinstance(node, ast.ClassDef) and node.name == "Kernel":
            for it in node.body:
                if isinstance(it, ast.FunctionDef):
                    fns[it.name] = it
    if "Fq" not in fns or "Iq" not in fns:
        raise Untranslatable("Kernel.Fq / Kernel.Iq not found")
    SLOT = {0: "(s_norm s)", 1: "(s_form s)", 2: "(s_shell s)", 3: "(s_rad s)"}

    def slot(e):
        # result[nout*self.q_input.nq + k]
        if isinstance(e, ast.Subscript) and isinstance(e.value, ast.Name) and e.value.id == "result":
            ix = e.slice
            if isinstance(ix, ast.BinOp) and isinstance(ix.op, ast.Add) and ast.unparse(ix.left) == "nout * self.q_input.nq" \
                    and isinstance(ix.right, ast.Constant) and ix.right.value in SLOT:
                return SLOT[ix.right.value]
            if isinstance(ix, ast.Slice) and ast.unparse(ix.upper) == "nout * self.q_input.nq" and ast.unparse(ix.step) == "nout" \
                    and isinstance(ix.lower, ast.Constant) and ix.lower.value in (0, 1):
                return ("vec", "(s_f2 s)" if ix.lower.value == 0 else "(s_f1 s)")
        return None

    def ex(e, env):
        """returns a scalar Coq text or ("vec", text)"""
        sl = slot(e)
        if sl is not None:
            return sl
        if isinstance(e, ast.Constant) and isinstance(e.value, float):
            if e.value == 0.0:
                return "(zero O)"
            if e.value == 1.0:
                return "(one O)"
            raise Untranslatable("literal %r" % e.value)
        if isinstance(e, ast.Name):
            if e.id in env:
                return env[e.id]
            raise Untranslatable("name %s" % e.id)
        if isinstance(e, ast.BinOp) and isinstance(e.op, (ast.Div, ast.Mult, ast.Add, ast.Sub)):
            op = {ast.Div: "div", ast.Mult: "mul", ast.Add: "add", ast.Sub: "sub"}[type(e.op)]
            a, b = ex(e.left, env), ex(e.right, env)
            if isinstance(a, tuple) and isinstance(b, tuple):
                raise Untranslatable("vector (op) vector")
            if isinstance(a, tuple):
                return ("vec", "(map (fun x__ => %s O x__ %s) %s)" % (op, b, a[1]))
            if isinstance(b, tuple):
                return ("vec", "(map (fun x__ => %s O %s x__) %s)" % (op, a, b[1]))
            return "(%s O %s %s)" % (op, a, b)
        raise Untranslatable("expression %s" % ast.unparse(e)[:60])

    # ---- Fq
    env, lets = {}, []
    ret = None
    counter = [0]

    def bind(name, val):
        counter[0] += 1
        v = "%s_%d" % (name, counter[0])
        if isinstance(val, tuple):
            lets.append((v, val[1])); env[name] = ("vec", v)
        else:
            lets.append((v, val)); env[name] = v

    for st in fns["Fq"].body:
        if isinstance(st, ast.Expr) and isinstance(st.value, ast.Constant):
            continue
        txt = ast.unparse(st)
        if txt == "nout = 2 if self.info.have_Fq and self.dim == '1d' else 1":
            continue
        if isinstance(st, ast.If) and ast.unparse(st.test) == "call_details.num_eval > 0":
            body = [ast.unparse(x) for x in st.body]
            orelse = [ast.unparse(x) for x in st.orelse]
            if not (len(body) == 2 and body[0].startswith("self._call_kernel(") and body[1] == "result = self.result"
                    and orelse == ["result = np.zeros(nout * self.q_input.nq + 4, 'd')"]):
                raise Untranslatable("the kernel call / empty-mesh branch has changed: %s" % txt[:120])
            continue
        if isinstance(st, ast.If) and len(st.body) == 1 and not st.orelse and isinstance(st.test, ast.Compare) \
                and len(st.test.ops) == 1 and isinstance(st.test.ops[0], ast.Eq) and isinstance(st.test.left, ast.Name):
            nm = st.test.left.id
            a = st.body[0]
            if not (isinstance(a, ast.Assign) and len(a.targets) == 1 and isinstance(a.targets[0], ast.Name) and a.targets[0].id == nm):
                raise Untranslatable("conditional %s" % txt[:60])
            bind(nm, "(if eqb O %s %s then %s else %s)" % (env[nm], ex(st.test.comparators[0], env), ex(a.value, env), env[nm]))
            continue
        if isinstance(st, ast.Assign) and len(st.targets) == 1 and isinstance(st.targets[0], ast.Name):
            v = st.value
            if isinstance(v, ast.IfExp):
                if ast.unparse(v.test) == "nout == 2" and isinstance(v.orelse, ast.Constant) and v.orelse.value is None:
                    v = v.body
                else:
                    raise Untranslatable("conditional expression %s" % ast.unparse(v)[:60])
            bind(st.targets[0].id, ex(v, env))
            continue
        if isinstance(st, ast.Return) and isinstance(st.value, ast.Tuple) and len(st.value.elts) == 5:
            ret = [ex(e, env) for e in st.value.elts]
            continue
        raise Untranslatable("statement %s" % txt[:80])
    if ret is None or not (isinstance(ret[0], tuple) and isinstance(ret[1], tuple)) or any(isinstance(r, tuple) for r in ret[2:]):
        raise Untranslatable("Fq does not return (F1, F2, R_eff, V_shell, ratio)")
    norm = "".join("    let %s := %s in\n" % (n, e) for n, e in lets) + "    MkFq %s %s %s %s %s" % (ret[0][1], ret[1][1], ret[2], ret[3], ret[4])
    # ---- Iq
    env, lets = {"values[0]": "scale", "values[1]": "background"}, []
    ret = None
    for st in fns["Iq"].body:
        if isinstance(st, ast.Expr) and isinstance(st.value, ast.Constant):
            continue
        txt = ast.unparse(st)
        if isinstance(st, ast.Assign) and isinstance(st.targets[0], ast.Tuple):
            names = [ast.unparse(t) for t in st.targets[0].elts]
            if not (ast.unparse(st.value).startswith("self.Fq(call_details, values, cutoff, magnetic") and len(names) == 5):
                raise Untranslatable("Iq no longer unpacks self.Fq(...): %s" % txt[:80])
            fields = [("vec", "(o_f1 o)"), ("vec", "(o_f2 o)"), "(o_reff o)", "(o_shell o)", "(o_ratio o)"]
            for n, f in zip(names, fields):
                if n != "_":
                    env[n] = f
            continue
        if isinstance(st, ast.Assign) and len(st.targets) == 1 and isinstance(st.targets[0], ast.Name):
            def ex2(e):
                if isinstance(e, ast.Subscript) and ast.unparse(e) in env:
                    return env[ast.unparse(e)]
                if isinstance(e, ast.BinOp):
                    e2 = ast.BinOp(left=ast.Name(id="__l"), op=e.op, right=ast.Name(id="__r"))
                    return ex(e2, dict(env, __l=ex2(e.left), __r=ex2(e.right)))
                return ex(e, env)
            env[st.targets[0].id] = ex2(st.value)
            continue
        if isinstance(st, ast.Return):
            def ex3(e):
                if isinstance(e, ast.BinOp):
                    e2 = ast.BinOp(left=ast.Name(id="__l"), op=e.op, right=ast.Name(id="__r"))
                    return ex(e2, dict(env, __l=ex3(e.left), __r=ex3(e.right)))
                return ex(e, env)
            ret = ex3(st.value)
            continue
        raise Untranslatable("statement %s" % txt[:80])
    if not isinstance(ret, tuple):
        raise Untranslatable("Iq does not return a vector")
    return norm, "    let o := code_normalise s in\n    %s" % ret[1]


DETAILS_NOTE = [None]


def _translate_make_details():
    """details.make_details of the current tree (fail-closed Python-ast walk): the count of active distributions, the
    refusal test and ITS PLACE relative to the selection, the selection itself and the mesh size.  Returns Coq terms."""
    import ast
    import os
    tree = ast.parse(open(os.path.join(common.REPO, "sasmodels", "details.py")).read())
    fn = next((n for n in tree.body if isinstance(n, ast.FunctionDef) and n.name == "make_details"), None)
    if fn is None:
        raise Untranslatable("make_details not found")
    body = [b for b in fn.body if not (isinstance(b, ast.Expr) and isinstance(b.value, ast.Constant))]
    txt = [ast.unparse(b) for b in body]

    def cmp_nat(node, names):
        if not (isinstance(node, ast.Compare) and len(node.ops) == 1):
            raise Untranslatable("not one comparison: %s" % ast.unparse(node))
        l, r = ast.unparse(node.left), ast.unparse(node.comparators[0])
        if l not in names or r not in names:
            raise Untranslatable("comparison of %s with %s" % (l, r))
        a, b = names[l], names[r]
        return {ast.Gt: "Nat.ltb %s %s" % (b, a), ast.Lt: "Nat.ltb %s %s" % (a, b), ast.GtE: "Nat.leb %s %s" % (b, a), ast.LtE: "Nat.leb %s %s" % (a, b)}[type(node.ops[0])]
    # num_active = np.sum(length > c)
    i_na = next((i for i, b in enumerate(body) if isinstance(b, ast.Assign) and ast.unparse(b.targets[0]) == "num_active"), None)
    if i_na is None:
        raise Untranslatable("num_active is not computed")
    v = body[i_na].value
    if not (isinstance(v, ast.Call) and ast.unparse(v.func) == "np.sum" and len(v.args) == 1 and not v.keywords and isinstance(v.args[0], ast.Compare)
            and ast.unparse(v.args[0].left) == "length" and len(v.args[0].ops) == 1 and isinstance(v.args[0].comparators[0], ast.Constant)
            and isinstance(v.args[0].comparators[0].value, int)):
        raise Untranslatable("num_active = %s" % ast.unparse(v))
    c_ = v.args[0].comparators[0].value
    active = {ast.Gt: "Nat.ltb %d n" % c_, ast.GtE: "Nat.leb %d n" % c_}.get(type(v.args[0].ops[0]))
    if active is None:
        raise Untranslatable("num_active counts %s" % ast.unparse(v.args[0]))
    if "max_pd = model_info.parameters.max_pd" not in txt:
        raise Untranslatable("max_pd is not the model's")
    # the refusal: if <num_active ? max_pd>: raise ValueError
    i_rf = next((i for i, b in enumerate(body) if isinstance(b, ast.If) and len(b.body) == 1 and isinstance(b.body[0], ast.Raise) and not b.orelse), None)
    if i_rf is None:
        raise Untranslatable("no refusal of too many dispersed parameters")
    refuses = cmp_nat(body[i_rf].test, {"num_active": "(code_num_active lens)", "max_pd": "max_pd"})
    # the selection
    i_ix = next((i for i, t in enumerate(txt) if t.startswith("idx = ")), None)
    if i_ix is None or txt[i_ix] != "idx = np.argsort(length)[::-1][:max_pd]":
        raise Untranslatable("selection: %s" % (txt[i_ix] if i_ix is not None else None))
    if not (i_na < i_rf < i_ix) or txt.index("max_pd = model_info.parameters.max_pd") > i_rf:
        raise Untranslatable("the refusal does not stand between the count and the selection")
    for i, b in enumerate(body[:i_ix]):
        if i not in (i_na, i_rf) and any(isinstance(n, ast.Name) and isinstance(n.ctx, ast.Store) and n.id in ("length", "num_active", "max_pd") for n in ast.walk(b)) \
                and txt[i] != "max_pd = model_info.parameters.max_pd":
            raise Untranslatable("length / num_active / max_pd reassigned: %s" % txt[i])
    need = ["pd_stride = np.cumprod(np.hstack((1, length[idx])))", "call_details.pd_par[:max_pd] = idx", "call_details.pd_length[:max_pd] = length[idx]",
            "call_details.pd_offset[:max_pd] = offset[idx]", "call_details.pd_stride[:max_pd] = pd_stride[:-1]",
            "call_details.num_eval = pd_stride[-1] if np.all(length > 0) else 0", "call_details.num_active = num_active", "return call_details"]
    for t in need:
        if t not in txt[i_ix:]:
            raise Untranslatable("missing after the selection: %s" % t)
    return active, refuses


def gen_details():
    """Regenerate Gen/C01_details.v from the text of details.make_details."""
    import os
    lines = ["(* GENERATED by harness/c01.py from sasmodels/details.py (make_details: which parameters get a loop, when the call is refused, how many mesh points) *)",
             "From Coq Require Import List Arith Bool.", "Import ListNotations.", "From SM Require Import Base.Num C01.Model.", ""]
    note = None
    try:
        active, refuses = _translate_make_details()
    except (Untranslatable, OSError, SyntaxError) as exc:
        note = "%s: %s" % (type(exc).__name__, exc)
        active, refuses = "Nat.ltb 1 n", "Nat.ltb max_pd (code_num_active lens)"
    lines.append("Definition details_translated : bool := %s." % ("true" if note is None else "false"))
    if note:
        lines.append("(* not translated: %s *)" % note.replace("*)", "* )"))
    lines += ["(* num_active = np.sum(length > 1) *)",
              "Definition code_num_active (lens : list nat) : nat := length (filter (fun n => %s) lens)." % active,
              "(* the refusal test, which stands BEFORE the selection is cut to max_pd entries *)",
              "Definition code_refuses (max_pd : nat) (lens : list nat) : bool := %s." % refuses,
              "(* idx = np.argsort(length)[::-1][:max_pd]: the max_pd longest distributions, longest first *)",
              "Definition code_selection (max_pd : nat) (lens : list nat) : list (nat * nat) := firstn max_pd (sort_desc (combine (seq 0 (length lens)) lens)).",
              "(* num_eval = pd_stride[-1] if np.all(length > 0) else 0, with pd_stride the running product of the selected lengths *)",
              "Definition code_num_eval (max_pd : nat) (lens : list nat) : nat :=",
              "  if forallb (fun n => Nat.ltb 0 n) lens then fold_left Nat.mul (map snd (code_selection max_pd lens)) 1 else 0.", ""]
    common.write_if_changed(os.path.join(common.THEORIES, "Gen", "C01_details.v"), "\n".join(lines))
    return note


PD_MACROS = {
    "PD_INIT(_LOOP)": "const int n##_LOOP = details->pd_length[_LOOP]; const int p##_LOOP = details->pd_par[_LOOP]; "
                      "pglobal const double *v##_LOOP = pd_value + details->pd_offset[_LOOP]; pglobal const double *w##_LOOP = pd_weight + details->pd_offset[_LOOP]; "
                      "int i##_LOOP = (pd_start/details->pd_stride[_LOOP])%n##_LOOP;",
    "PD_OPEN(_LOOP,_OUTER)": "while (i##_LOOP < n##_LOOP) { local_values.vector[p##_LOOP] = v##_LOOP[i##_LOOP]; const double weight##_LOOP = w##_LOOP[i##_LOOP] * weight##_OUTER;",
    "PD_CLOSE(_LOOP)": "if (step >= pd_stop) break; ++i##_LOOP; } i##_LOOP = 0;",
}


def _translate_loop_nest():
    """The skeleton of the dispersity loop nest of kernel_iq.c (fail-closed text walk): the three macro bodies, and the
    order and the MAX_PD guards of their uses - PD_INIT / PD_OPEN from the outermost level inwards, ++step, PD_CLOSE from
    the innermost level outwards.  Returns (init order, open order with outer level, close order)."""
    import os
    import re
    from . import ctrans
    src = ctrans.strip_comments(open(os.path.join(common.REPO, "sasmodels", "kernel_iq.c")).read())
    for head, want in PD_MACROS.items():
        m = re.search(r"#define\s+" + re.escape(head) + r"\s*\\\n((?:.*\\\n)*.*)\n", src)
        if not m:
            raise Untranslatable("macro %s not found" % head)
        body = " ".join(m.group(1).replace("\\\n", " ").split())
        if body != want:
            raise Untranslatable("macro %s is now: %s" % (head, body[:160]))
    a = src.index("#define PD_CLOSE(_LOOP)")
    tail = src[a:]
    uses = [(m.start(), m.group(1), [int(x) for x in m.group(2).split(",")]) for m in re.finditer(r"^\s*PD_(INIT|OPEN|CLOSE)\(([0-9, ]+)\)\s*$", tail, re.M)]
    lines = tail.split("\n")
    # every use is guarded by the directive "#if MAX_PD>k" on the line before and "#endif" on the line after

    def line_of(start):
        return tail.count("\n", 0, start + (len(tail[start:]) - len(tail[start:].lstrip("\n"))))
    out = {"INIT": [], "OPEN": [], "CLOSE": []}
    for start, kind, args in uses:
        ln = line_of(start)
        k = args[0]
        if lines[ln - 1].replace(" ", "") != "#ifMAX_PD>%d" % k or not lines[ln + 1].strip().startswith("#endif"):
            raise Untranslatable("PD_%s(%s) is not guarded by '#if MAX_PD>%d' ... '#endif' (found %r / %r)" % (kind, args, k, lines[ln - 1], lines[ln + 1]))
        if kind == "OPEN" and args[1] != k + 1:
            raise Untranslatable("PD_OPEN(%d,%d): the outer level is not %d" % (k, args[1], k + 1))
        out[kind].append(k)
    order = [kind for _, kind, _ in uses]
    if order != ["INIT"] * len(out["INIT"]) + ["OPEN"] * len(out["OPEN"]) + ["CLOSE"] * len(out["CLOSE"]):
        raise Untranslatable("INIT / OPEN / CLOSE uses are interleaved: %s" % order)
    step = tail.index("++step;")
    first_close = [s_ for s_, kd, _ in uses if kd == "CLOSE"][0]
    last_open = [s_ for s_, kd, _ in uses if kd == "OPEN"][-1]
    if not (last_open < step < first_close) or tail.count("++step;") != 1:
        raise Untranslatable("++step is not once, between the innermost PD_OPEN and the first PD_CLOSE")
    return out["INIT"], out["OPEN"], out["CLOSE"]


def gen_loop():
    """Regenerate Gen/C01_loop.v from the text of kernel_iq.c."""
    import os
    lines = ["(* GENERATED by harness/c01.py from sasmodels/kernel_iq.c (skeleton of the dispersity loop nest: macro bodies checked against their expected text, order and MAX_PD guards of PD_INIT / PD_OPEN / PD_CLOSE) *)",
             "From Coq Require Import List.", "Import ListNotations.", ""]
    note = None
    try:
        ini, opn, cls = _translate_loop_nest()
    except (Untranslatable, OSError, ValueError, IndexError) as exc:
        note = "%s: %s" % (type(exc).__name__, exc)
        ini, opn, cls = [4, 3, 2, 1, 0], [4, 3, 2, 1, 0], [0, 1, 2, 3, 4]
    nl = lambda l: "[" + "; ".join(str(x) for x in l) + "]"
    lines.append("Definition loop_translated : bool := %s." % ("true" if note is None else "false"))
    if note:
        lines.append("(* not translated: %s *)" % note.replace("*)", "* )"))
    lines += ["(* levels in the order their loop variables are initialised, their loops are opened (each inside level+1), and closed *)",
              "Definition code_init_order : list nat := %s." % nl(ini),
              "Definition code_open_order : list nat := %s." % nl(opn),
              "Definition code_close_order : list nat := %s." % nl(cls), ""]
    common.write_if_changed(os.path.join(common.THEORIES, "Gen", "C01_loop.v"), "\n".join(lines))
    return note


LOOP_NOTE = [None]


def gen():
    """Regenerate Gen/C01_code.v from the text of kernel.py (Kernel.Fq, Kernel.Iq), Gen/C01_details.v from details.py and
    Gen/C01_loop.v from kernel_iq.c."""
    _dn = gen_details()
    LOOP_NOTE[0] = gen_loop()
    import os
    lines = ["(* GENERATED by harness/c01.py from sasmodels/kernel.py: Kernel.Fq (normalisation of the accumulated sums) and Kernel.Iq. *)",
             "From Coq Require Import List.", "Import ListNotations.", "From SM Require Import Base.Num C01.Model.", ""]
    note = None
    try:
        norm, iq = _translate_kernel_py()
    except (Untranslatable, OSError, SyntaxError, KeyError, AttributeError) as exc:
        note = "%s: %s" % (type(exc).__name__, exc)
        norm, iq = "    normalise O s", "    intensity O scale background s"
    lines.append("Definition translated : bool := %s." % ("true" if note is None else "false"))
    if note:
        lines.append("(* not translated: %s *)" % note.replace("*)", "* )"))
    lines += ["", "Section Code.", "  Context {T : Type} (O : Ops T).", "",
              "  Definition code_normalise (s : Sums (T:=T)) : FqOut (T:=T) :=\n%s." % norm, "",
              "  Definition code_intensity (scale background : T) (s : Sums (T:=T)) : list T :=\n%s." % iq,
              "End Code.", ""]
    common.write_if_changed(os.path.join(common.THEORIES, "Gen", "C01_code.v"), "\n".join(lines))
    DETAILS_NOTE[0] = _dn
    return note


def case_to_coq(c):
    leaves = coq_list(["(%s, %s, %s)" % (cbool(v), fhex(pj), flist(cs)) for v, pj, cs in c["leaves"]],
                      "(bool * float * list float)")
    runs = coq_list(["(%s, %s, %s)" % (coq_list(["(%d%%nat, %d%%nat)" % ab for ab in parts], "(nat * nat)"),
                                        fhex(prev), flist(obs)) for parts, prev, obs in c["runs"]],
                    "(list (nat * nat) * float * list float)")
    W = coq_list([flist(w) for w in c["W"]], "(list float)")
    return ("(MkCase %s %s %s %s %s %s %d%%nat %d%%nat %s %s %s %s %s)" %
            (nlist(c["lens"]), W, leaves, fhex(c["cutoff"]), fhex(c["scale"]), fhex(c["bg"]),
             c["nq"], c["nf"], nlist(c["ks"]), nlist(c["ns"]), runs, flist(c["iq"]), flist(c["fq"])))


def shard_text(cases):
    body = ";\n".join(case_to_coq(c) for c in cases)
    return ("From Coq Require Import List PrimFloat.\nImport ListNotations.\n"
            "From SM Require Import Base.Num C01.Model C01.Exec.\n"
            "Definition cases : list Case := [\n%s\n].\n"
            "Eval vm_compute in (check_cases %s cases).\n" % (body, fhex(REL_TOL)))


def close(a, b, scale, rel=1e-9):
    if a is None or b is None:
        return a is b
    if math.isnan(a) or math.isnan(b):
        return math.isnan(a) and math.isnan(b)
    return abs(a - b) <= rel * max(abs(scale), abs(a), abs(b)) + 1e-300


def q_vectors(dim, rng):
    if dim == "1d":
        return [np.array(sorted(rng.uniform(0.001, 0.4) for _ in range(3)))]
    qx = np.array([rng.uniform(-0.3, 0.3) for _ in range(3)])
    qy = np.array([rng.uniform(-0.3, 0.3) for _ in range(3)])
    return [qx, qy]


def main(run):
    rng = random.Random(run.seed * 7919 + 101)
    thorough = run.tier == "thorough"
    note = []
    run.prove(["C01/Property.v"], gen=lambda: note.append(gen()))
    if note and note[0]:
        run.notes.append("kernel.py Fq/Iq not translated (%s): the source-text obligations C01_code_* are vacuous in this run, the behavioural tie decides" % note[0])
    else:
        run.notes.append("Kernel.Fq / Kernel.Iq translated from the current kernel.py (Gen/C01_code.v) and proved equal to the model for every number type (C01_code_normalisation)")
    if LOOP_NOTE[0]:
        run.notes.append("the loop-nest skeleton of kernel_iq.c not translated (%s): C01_code_loop_nest is vacuous in this run" % LOOP_NOTE[0])
    else:
        run.notes.append("the skeleton of the dispersity loop nest read from the current kernel_iq.c (Gen/C01_loop.v): macro bodies as expected, PD_INIT/PD_OPEN outermost-in, ++step, PD_CLOSE innermost-out, every use under its MAX_PD guard (C01_code_loop_nest)")
    if DETAILS_NOTE[0]:
        run.notes.append("details.make_details not translated (%s): C01_code_make_details is vacuous in this run" % DETAILS_NOTE[0])
    else:
        run.notes.append("details.make_details translated from the current details.py (Gen/C01_details.v): count of active distributions, refusal test ahead of the selection, selection and mesh size are the model's (C01_code_make_details)")
    names = sas.compiled_model_names()
    models = list(names) if thorough else [m for m in QUICK_MODELS if m in names]
    ncases = 14 if not thorough else 12
    cap = 260 if not thorough else 1300
    kinds = ["plain", "plain", "plain", "cut2", "cut1", "cut0", "allcut", "toomany"]
    coq_cases, metas = [], []
    stats = dict(models=len(models), by_kind={}, mesh_sizes=[], refused_ok=0, near_tie_excluded=0,
                 empty_mesh=0, dims={"1d": 0, "2d": 0}, raw_runs=0)
    distinct = set()
    evals = 0
    corpus = [  # minimized failures seen on earlier trees: they run first
        ("core_shell_sphere", "1d", dict(radius=10.0, radius_pd=1.0, radius_pd_n=2, radius_pd_nsigma=3.0), 0.0, 0),
        ("sphere", "1d", dict(radius=-20.0, radius_pd=0.1, radius_pd_n=10, background=0.5, scale=1.0), 0.0, 0),
        ("core_shell_sphere", "1d", dict(radius=-20.0, radius_pd=0.1, radius_pd_n=10, background=0.25, scale=1.0), 0.0, 0),
    ]
    # synthetic definitions with independently known leaves (see hollow_defs)
    hpaths = hollow_defs(run.scratch.sub("plugins"))
    leaf_fns = {nm: hollow_leaf(nm.endswith("_fq")) for nm in hpaths}
    stats["synthetic_definitions"] = sorted(hpaths)
    # a reparameterised compiled model with an intermediate variable (ellipsoid by volume and eccentricity): its
    # single-particle values at a mesh point are those of the BASE model at the translated parameters
    extra_models = {}
    try:
        from sasmodels.core import reparameterize, build_model, load_model_info
        from numpy import inf as _inf
        import os as _os
        _binfo = load_model_info("ellipsoid")
        _rinfo = reparameterize(_binfo, [["volume", "Ang^3", 1e5, [0, _inf], "volume", ""], ["eccentricity", "", 1.0, [0, _inf], "volume", ""]],
                                "Re = cbrt(volume/eccentricity/M_4PI_3)\nradius_polar = eccentricity*Re\nradius_equatorial = Re",
                                filename=_os.path.join(run.scratch.sub("plugins"), "verif_repar_ellipsoid.py"))
        extra_models["verif_repar_ellipsoid"] = build_model(_rinfo, dtype="double", platform="dll")
        _base = sas.load("ellipsoid")
        _bk = {}

        def _repar_leaf(pfull, mode, q):
            key = tuple(map(float, q[0]))
            if key not in _bk:
                _bk[key] = _base.make_kernel([np.asarray(q[0], "d")])
            Re = (pfull["volume"] / pfull["eccentricity"] / (4.0 * math.pi / 3.0)) ** (1.0 / 3.0)
            bp = dict(sld=pfull["sld"], sld_solvent=pfull["sld_solvent"], radius_polar=pfull["eccentricity"] * Re, radius_equatorial=Re)
            return sas.leaf_eval(_bk[key], bp, {}, mode, len(q[0]), bp)
        leaf_fns["verif_repar_ellipsoid"] = _repar_leaf
        stats["synthetic_definitions"] = stats["synthetic_definitions"] + ["verif_repar_ellipsoid (reparameterised, 1-D)"]
    except Exception as exc:  # noqa
        run.notes.append("reparameterised ellipsoid not available: %r" % (exc,))
    # ... and the hollow definition (with its validity condition "thickness < 2.0*radius") reparameterised so that the
    # radius is a SUM: the points the model declares valid are those where thickness < 2.0*(r_core + extra)
    try:
        _hinfo = load_model_info(hpaths["verif_hollow_cc"])
        _rh = reparameterize(_hinfo, [["r_core", "Ang", 6.0, [0, _inf], "volume", ""], ["extra", "Ang", 3.0, [0, _inf], "volume", ""]],
                             "radius = r_core + extra", filename=_os.path.join(run.scratch.sub("plugins"), "verif_repar_hollow.py"))
        extra_models["verif_repar_hollow"] = build_model(_rh, dtype="double", platform="dll")
        _hl = hollow_leaf(False)
        leaf_fns["verif_repar_hollow"] = lambda pfull, mode, q: _hl(dict(pfull, radius=pfull["r_core"] + pfull["extra"]), mode, q)
        stats["synthetic_definitions"] = stats["synthetic_definitions"] + ["verif_repar_hollow (reparameterised: radius = r_core + extra, with a validity condition)"]
        corpus += [("verif_repar_hollow", "1d", dict(r_core=5.0, extra=3.0, thickness=14.0, thickness_pd=0.12, thickness_pd_n=9, thickness_pd_nsigma=3.0), 0.0, 1),
                   ("verif_repar_hollow", "1d", dict(r_core=5.0, extra=3.0, extra_pd=0.5, extra_pd_n=7, extra_pd_nsigma=2.0, thickness=14.5), 0.0, 2),
                   ("verif_repar_hollow", "1d", dict(r_core=8.0, r_core_pd=0.3, r_core_pd_n=8, extra=1.0, thickness=17.0, thickness_pd=0.05, thickness_pd_n=4), 1e-4, 0)]
    except Exception as exc:  # noqa
        run.notes.append("reparameterised hollow definition not available: %r" % (exc,))
    only_1d = set(extra_models)
    for name in list(models) + sorted(hpaths) + sorted(extra_models):
        model = extra_models[name] if name in extra_models else sas.load(hpaths.get(name, name))
        info = model.info
        oriented = any(p.type == "orientation" for p in info.parameters.call_parameters) and name not in only_1d
        plan = []
        for cname, cdim, cpars, ccut, cmode in corpus:
            if cname == name:
                plan.append((cdim, dict(cpars), ccut, cmode, ["corpus"]))
        for i in range(ncases):
            dim = "2d" if (oriented and i % 2 == 1) or (not oriented and i % 5 == 4) else "1d"
            plan.append((dim, None, None, None, None))
        if name in only_1d:
            plan = [(("1d",) + t[1:]) for t in plan]
        for dim in (["1d", "2d"] if oriented else ["1d"]):
            pdn = dispersible(info.parameters, dim)
            if len(pdn) > info.parameters.max_pd:
                plan.append((dim, None, None, None, ["toomany"]))
        kernels = {}
        for dim, cpars, ccut, cmode, ctags in plan:
            if dim not in kernels:
                q = q_vectors(dim, rng)
                kernels[dim] = (model.make_kernel(q), q)
            kernel, q = kernels[dim]
            if cpars is None:
                pars, cutoff, mode, tags = gen_case(model, info, dim, rng, cap, kinds,
                                                    force_kind=ctags[0] if ctags else None)
            else:
                pars, cutoff, mode, tags = cpars, ccut, cmode, ctags
                pars.setdefault("scale", 1.0); pars.setdefault("background", 0.0)
                for p in info.parameters.call_parameters:
                    pars.setdefault(p.name, p.default)
            evals += 1
            case, out = build_case(kernel, info, dim, q, pars, cutoff, mode, rng, cap, leaf_fn=leaf_fns.get(name))
            desc = dict(model=name, dim=dim, pars=pars, cutoff=cutoff, mode=mode, q=[list(map(float, v)) for v in q], tags=tags)
            stats["by_kind"][tags[0]] = stats["by_kind"].get(tags[0], 0) + 1
            if out.get("mesh_mismatch"):
                run.add(Finding("C01:mesh:%s" % name, "%s: %s - the distribution does not take part in the average" % (name, out["mesh_mismatch"]), desc))
                continue
            if "skip" in out:
                continue
            stats["dims"][dim] += 1
            if out.get("expect_error"):
                if out["error"] is None:
                    run.add(Finding("C01:toomany:%s" % name,
                                    "%s: %d dispersed parameters accepted although the model supports %d" % (
                                        name, sum(1 for n in out["lens"] if n > 1), info.parameters.max_pd), desc))
                else:
                    stats["refused_ok"] += 1
                continue
            if out["error"] is not None:
                run.add(Finding("C01:error:%s" % name, "%s: call_kernel raised %s" % (name, out["error"]), desc))
                continue
            if out.get("near_tie"):
                stats["near_tie_excluded"] += 1
                continue
            stats["mesh_sizes"].append(out["total"])
            if out["total"] == 0 or not out["qualifying"]:
                stats["empty_mesh"] += 1
            # model-free oracle, always on
            bad = None
            sc = max(abs(x) for x in out["oracle_iq"]) if out["oracle_iq"] else 1.0
            for j, (a, b) in enumerate(zip(out["oracle_iq"], out["iq"])):
                if not close(a, float(b), sc):
                    bad = "I(q[%d]): formula %.17g, call_kernel %.17g" % (j, a, float(b))
                    break
            if bad is None:
                F1, F2, reff, shell, ratio = out["fq"]
                o = out["oracle_fq"]
                for lbl, a, b in [("R_eff", o["reff"], float(reff)), ("V_shell", o["shell"], float(shell)),
                                  ("V_form/V_shell", o["ratio"], float(ratio))]:
                    if not close(a, b, 0.0):
                        bad = "%s: formula %.17g, call_Fq %.17g" % (lbl, a, b)
                        break
            if bad is not None:
                kind = "empty" if (out["total"] == 0 or not out["qualifying"]) else (
                    "onepoint" if any(n == 1 and abs(float(mesh_v) - float(nom)) > 0 for n, mesh_v, nom in _onepoints(info, pars, dim)) else "value")
                desc["oracle"] = out["oracle_iq"]; desc["impl"] = out["iq"]
                run.add(Finding("C01:%s:%s:%s" % (kind, name, dim), "%s %s [%s]: %s" % (name, dim, kind, bad), desc))
                continue
            key = (name, dim, tuple(out["lens"]), cutoff, mode)
            if out["total"] > 1:
                distinct.add(key)
            if case is not None:
                stats["raw_runs"] += len(case["runs"])
                coq_cases.append(case)
                metas.append(desc)
                run.sample(dict(model=name, dim=dim, lens=out["lens"], cutoff=cutoff, mode=mode,
                                slots=case["ks"], partitions=[len(r[0]) for r in case["runs"]]))
        for kernel, _ in kernels.values():
            kernel.release()
    # ---- the value does not depend on how the mesh is split across kernel invocations - nor on how many q values are
    # computed together: meshes of exactly 100, 200 and 300 points (whole multiples of the driver's slice) with a q vector
    # of 1000 points against the same parameters evaluated at a few of those q values
    stats["long_q_vectors"] = 0
    q_long = np.linspace(0.002, 0.4, 1000)
    pick = [0, 1, 137, 500, 998, 999]
    for lname, meshes in (("cylinder", [(10, 10), (20, 10), (20, 15)]), ("core_shell_sphere", [(10, 10), (25, 4)])):
        if lname not in names:
            continue
        lmodel = sas.load(lname)
        linfo = lmodel.info
        two = [p_.name for p_ in linfo.parameters.call_parameters if p_.type == "volume" and p_.polydisperse][:2]
        for n1, n2 in (meshes if thorough else meshes[:2]):
            lp = base_pars(linfo, rng)
            lp.update({two[0] + "_pd": 0.2, two[0] + "_pd_n": n1, two[0] + "_pd_type": "gaussian", two[1] + "_pd": 0.15, two[1] + "_pd_n": n2, two[1] + "_pd_type": "uniform"})
            lp.update(scale=rng.uniform(0.3, 2), background=rng.uniform(0, 0.1))
            lens_ = [len(m_[1]) for m_ in mesh_of(linfo, lp, "1d")]
            if int(np.prod(lens_)) != n1 * n2:
                run.notes.append("long-q case %s: the mesh has %d points, not %d x %d" % (lname, int(np.prod(lens_)), n1, n2))
            kl, ks = lmodel.make_kernel([q_long]), lmodel.make_kernel([q_long[pick]])
            try:
                from sasmodels.direct_model import call_kernel as _ck
                a_ = np.asarray(_ck(kl, dict(lp), cutoff=0.0), "d")[pick]
                b_ = np.asarray(_ck(ks, dict(lp), cutoff=0.0), "d")
            finally:
                kl.release(); ks.release()
            evals += 2; stats["long_q_vectors"] += 1
            if not np.allclose(a_, b_, rtol=1e-13, atol=0):
                run.add(Finding("C01:q-vector-length:%s" % lname, "%s with a %d x %d mesh: I(q) computed together with 999 other q values is %s, computed with 5 others %s (max relative difference %.3g)" % (
                    lname, n1, n2, a_[:3].tolist(), b_[:3].tolist(), float(np.max(np.abs(a_ / b_ - 1)))), dict(model=lname, pars=lp, mesh=[n1, n2], q=q_long[pick].tolist())))
            else:
                distinct.add(("long-q", lname, n1, n2))
    # ---- tabulated (array) distributions through the SasView-style object: the table IS the mesh - every entry is a
    # point of the sum, a one-entry table is evaluated at its entry (not at the nominal value), whatever the
    # distribution object's (unused) width field says
    from sasmodels import weights as _W
    from sasmodels.sasview_model import _make_standard_model as _std
    from sasmodels.direct_model import call_Fq as _call_Fq
    stats["array_tables"] = 0
    q_arr = np.array([0.01, 0.05, 0.2])
    for aname, apar in (("sphere", "radius"), ("cylinder", "length"), ("hollow_cylinder", "thickness"), ("core_shell_sphere", "thickness")):
        if aname not in names:
            continue
        ainfo = sas.load(aname).info
        akern = sas.load(aname).make_kernel([q_arr])
        for ntab in (1, 2, 5) if not thorough else (1, 2, 3, 5, 9):
            pars_a = base_pars(ainfo, rng)
            vals_ = np.array(sorted(pars_a[apar] * rng.uniform(0.6, 1.5) for _ in range(ntab)))
            wts_ = np.array([rng.uniform(0.2, 2) for _ in range(ntab)])
            sc_, bg_ = rng.uniform(0.3, 2), rng.uniform(0, 0.1)
            M = _std(aname)()
            for k_, v_ in dict(pars_a, scale=sc_, background=bg_).items():
                if k_ in M.params:
                    M.setParam(k_, v_)
            disp_ = _W.ArrayDispersion()
            disp_.set_weights(vals_, wts_)
            M.set_dispersion(apar, disp_)
            got_ = np.asarray(M.evalDistribution(q_arr), "d")
            num_ = np.zeros(len(q_arr)); den_ = 0.0
            for v_, w_ in zip(vals_, wts_):
                F_ = _call_Fq(akern, dict(pars_a, **{apar: float(v_)}), cutoff=0.0)
                num_ += w_ * np.asarray(F_[1], "d"); den_ += w_ * float(F_[3])
            want_ = sc_ * num_ / den_ + bg_
            evals += 1 + ntab; stats["array_tables"] += 1
            if np.any(np.abs(got_ - want_) > 1e-10 * np.abs(want_)):
                run.add(Finding("C01:array-table:%s" % aname, "%s with a %d-entry table on %s (values %s, weights %s): the SasView-style object returns %s, scale*sum(w F^2)/sum(w V)+background over the table is %s" % (
                    aname, ntab, apar, np.round(vals_, 4).tolist(), np.round(wts_, 4).tolist(), got_.tolist(), want_.tolist()),
                    dict(model=aname, parameter=apar, pars=pars_a, values=vals_.tolist(), weights=wts_.tolist(), scale=sc_, background=bg_)))
            else:
                distinct.add(("array-table", aname, ntab))
        akern.release()
    # ---- correspondence: Coq float model vs implementation
    traces = 0
    if coq_cases:
        shards, shard_meta = [], []
        cur, cur_w = [], 0
        for c, m in zip(coq_cases, metas):
            wgt = max(1, len(c["leaves"])) * (2 + len(c["runs"]))
            if cur and (cur_w + wgt > 6000 or len(cur) >= 40):
                shards.append(cur); cur, cur_w = [], 0
            cur.append((c, m)); cur_w += wgt
        if cur:
            shards.append(cur)
        results = common.run_coq_shards([shard_text([c for c, _ in sh]) for sh in shards],
                                        run.scratch.sub("coq"), prefix="c01", timeout=900, jobs=12)
        for sh, (rc, vals, err) in zip(shards, results):
            if rc != 0 or not vals:
                run.add(Finding("corr:C01:coq", "correspondence shard failed to evaluate: %s" % err[-400:],
                                {"correspondence": "C01.Exec.check_cases", "stderr": err[-2000:]}, no_input=True))
                continue
            for (c, m), codes in zip(sh, vals[0]):
                traces += 1
                if codes:
                    m = dict(m); m["codes"] = codes; m["slots"] = c["ks"]; m["lens"] = c["lens"]
                    what = []
                    if 1 in codes: what.append("call_kernel differs from scale*sum(wF^2)/sum(wV)+background")
                    if 2 in codes: what.append("call_Fq differs from the weighted means")
                    if any(10 <= x < 20 for x in codes): what.append("raw kernel run with partition #%s differs from the loop model" % [x - 10 for x in codes if 10 <= x < 20])
                    if any(20 <= x for x in codes): what.append("loop model differs from the mesh sum (model-internal)")
                    run.add(Finding("C01:corr:%s:%s" % (m["model"], m["dim"]), "%s %s: %s" % (m["model"], m["dim"], "; ".join(what)), m))
    stats["mesh_sizes"] = dict(n=len(stats["mesh_sizes"]), min=min(stats["mesh_sizes"] or [0]), max=max(stats["mesh_sizes"] or [0]),
                               over_100=sum(1 for x in stats["mesh_sizes"] if x > 100))
    run.coverage.update(evaluations=evals, distinct_nontrivial=len(distinct), traces_validated_against_impl=traces,
                        input_distribution=stats)
    run.assumptions += [
        "leaf values (F^2, F, V_form, V_shell, R_eff at one mesh point) are taken from degenerate-mesh calls of the same compiled kernel",
        "binary64 evaluation of the Coq model is compared with tolerance %g relative to the sum of absolute terms" % REL_TOL,
        "weight products within 1e-12 relative of the cutoff are excluded (counted in near_tie_excluded)",
    ]
    run.finish_args = dict(level="proof",
                           rule="random parameter sets per model: 1..5 dispersed parameters, six distribution types, mesh sizes around the 100-step chunk, limits cutting to 2/1/0 points, cutoffs incl. all-excluding, 1-D and 2-D; distinct = distinct (model, dim, mesh shape, cutoff, mode) with more than one mesh point",
                           trusted=["harness/c01.py + harness/sas.py (case generation, leaf extraction, oracle)", "C compiler and libm used by sasmodels.kerneldll"])


def _onepoints(info, pars, dim):
    mesh = mesh_of(info, pars, dim)
    cp = info.parameters.call_parameters
    out = []
    for p, m in zip(cp, mesh):
        if p.type != "orientation" and len(m[1]) == 1:
            out.append((1, m[1][0], m[0]))
    return out
