"""C06 — polarised magnetic scattering is the weighted sum of the four spin channels."""
from __future__ import annotations

import math
import os
import random

import numpy as np

from . import common, sas, c01
from .common import Finding, fhex, coq_list

REL_TOL = 1e-11

PROBE = '''
name = "verif_probe_sld"
title = "C06 probe: a polynomial in three SLDs"
description = "(1+q)(s1-s3)^2 + 2(s2-s3)(s1-s3) + s2^2/2 + dlin*s1"
category = "shape:sphere"
parameters = [
    ["s1", "1e-6/Ang^2", 1.0, [-100, 100], "sld", ""],
    ["s2", "1e-6/Ang^2", 2.0, [-100, 100], "sld", ""],
    ["s3", "1e-6/Ang^2", 3.0, [-100, 100], "sld", ""],
    ["dlin", "", 0.0, [-10, 10], "", "coefficient of a term that is odd in the SLDs"],
]
form_volume = "return 1.0;"
Iq = "return (1.0+q)*(s1-s3)*(s1-s3) + 2.0*(s2-s3)*(s1-s3) + 0.5*s2*s2 + dlin*s1;"
'''

QUICK_MODELS = ["sphere", "core_shell_sphere", "cylinder", "ellipsoid", "parallelepiped", "core_multi_shell"]


def cs(deg):
    x = deg * (math.pi / 180.0)
    return math.cos(x), math.sin(x)


def frame(up_theta, up_phi):
    ct, st = cs(up_theta); cp, sp = cs(up_phi)
    P = np.array([st * cp, st * sp, ct])
    e1 = np.array([-sp, cp, 0.0])
    e2 = np.array([-ct * cp, -ct * sp, st])
    return P, e1, e2


def spin_weights(i, f):
    i = min(max(i, 0.0), 1.0); f = min(max(f, 0.0), 1.0)
    n = max(f, 1 - f)
    return (1 - i) * (1 - f) / n, (1 - i) * f / n, i * (1 - f) / n, i * f / n     # dd, du, ud, uu


def main(run):
    from sasmodels.core import load_model, load_model_info
    from sasmodels.direct_model import call_kernel
    rng = random.Random(run.seed * 53 + 6)
    thorough = run.tier == "thorough"
    run.prove(["C06/Property.v"])
    pdir = run.scratch.sub("probe")
    ppath = os.path.join(pdir, "verif_probe_sld.py")
    open(ppath, "w").write(PROBE)
    probe = load_model(ppath, dtype="double", platform="dll")
    cases, metas = [], []
    stats = dict(probe_cases=0, model_cases=0, fractions={}, magnetic_slds={1: 0, 2: 0, 3: 0}, models=0, with_dispersity=0)
    evals, distinct = 0, set()
    # ---- 1. SLD probe through the public 2-D kernel vs the Coq model of the magnetic loop
    for _ in range(120 if not thorough else 1500):
        fi = rng.choice([0.0, 0.5, 1.0, rng.uniform(0, 1), rng.uniform(-0.3, 1.3)])
        ff = rng.choice([0.0, 0.5, 1.0, rng.uniform(0, 1), rng.uniform(-0.3, 1.3)])
        upt, upp = rng.choice([0.0, 90.0, rng.uniform(0, 360)]), rng.choice([0.0, 90.0, rng.uniform(0, 180)])
        slds = [rng.uniform(-3, 8) for _ in range(3)]
        nmag = rng.choice([1, 2, 3])
        mags = []
        for k in range(3):
            if k < nmag:
                mags.append((rng.uniform(-5, 5), rng.uniform(-90, 90), rng.uniform(-180, 180)))
            else:
                mags.append((0.0, rng.uniform(-90, 90), rng.uniform(-180, 180)))
        rng.shuffle(mags)
        dlin = rng.choice([0.0, 0.25, -1.5])
        qx, qy = rng.uniform(-0.4, 0.4), rng.uniform(-0.4, 0.4)
        if rng.random() < 0.08:
            qx = 0.0
        pars = dict(s1=slds[0], s2=slds[1], s3=slds[2], dlin=dlin, scale=1.0, background=0.0,
                    up_frac_i=fi, up_frac_f=ff, up_theta=upt, up_phi=upp)
        for k, (m0, mt, mp) in enumerate(mags):
            pars["s%d_M0" % (k + 1)] = m0; pars["s%d_mtheta" % (k + 1)] = mt; pars["s%d_mphi" % (k + 1)] = mp
        if all(m[0] == 0 for m in mags):
            continue
        kern = probe.make_kernel([np.array([qx]), np.array([qy])])
        got = float(call_kernel(kern, pars, cutoff=0.0)[0])
        kern.release()
        evals += 1
        stats["probe_cases"] += 1
        stats["magnetic_slds"][sum(1 for m in mags if m[0] != 0)] += 1
        key = "%s/%s" % ("edge" if fi in (0.0, 0.5, 1.0) else "in", "edge" if ff in (0.0, 0.5, 1.0) else "in")
        stats["fractions"][key] = stats["fractions"].get(key, 0) + 1
        # oracle: the property's formula in numpy
        q = math.hypot(qx, qy)
        qh = np.array([qx / q, qy / q, 0.0])
        P, e1, e2 = frame(upt, upp)
        wdd, wdu, wud, wuu = spin_weights(fi, ff)

        def I(s):
            return (1 + q) * (s[0] - s[2]) ** 2 + 2 * (s[1] - s[2]) * (s[0] - s[2]) + 0.5 * s[1] ** 2 + dlin * s[0]
        Mp = []
        for (m0, mt, mp) in mags:
            ct, st = cs(mt); cp, sp = cs(mp)
            M = np.array([m0 * st * cp, m0 * st * sp, m0 * ct])
            Mp.append(M - qh * (qh @ M))
        terms = [(wdd, [s - P @ m for s, m in zip(slds, Mp)]), (wuu, [s + P @ m for s, m in zip(slds, Mp)]),
                 (wdu, [e1 @ m for m in Mp]), (wud, [e1 @ m for m in Mp]), (wdu, [-(e2 @ m) for m in Mp]), (wud, [e2 @ m for m in Mp])]
        oracle = sum(w * I(s) for w, s in terms if w > 1e-8)
        scale = sum(abs(w) * (abs(I(s)) + sum(x * x for x in s) * (3 + q)) for w, s in terms) + 1e-30
        desc = dict(pars=pars, qx=qx, qy=qy, kernel=got, formula=float(oracle))
        if abs(got - oracle) > 1e-10 * scale:
            run.add(Finding("C06:probe", "SLD probe at q=(%.4g,%.4g), up_frac=(%.3g,%.3g), up angles (%.4g,%.4g): kernel %.17g, channel formula %.17g" % (
                qx, qy, fi, ff, upt, upp, got, oracle), desc))
            continue
        distinct.add((round(fi, 6), round(ff, 6), round(upt, 3), nmag, dlin))
        ct, st = cs(upt); cp, sp = cs(upp)
        sl = coq_list(["(%s, (%s, %s, %s, %s, %s))" % ((fhex(s), fhex(m0)) + tuple(fhex(x) for x in cs(mt) + cs(mp)))
                       for s, (m0, mt, mp) in zip(slds, mags)], "(float * (float * float * float * float * float))")
        cases.append("(MkCase %s %s (%s, %s, %s, %s) %s %s %s %s %s %s)" % (
            fhex(fi), fhex(ff), fhex(ct), fhex(st), fhex(cp), fhex(sp), sl, fhex(dlin), fhex(qx), fhex(qy), fhex(scale), fhex(got)))
        metas.append(desc)
        run.sample(dict(up_frac_i=fi, up_frac_f=ff, up_theta=upt, up_phi=upp, slds=slds, magnetisation=mags, q=[qx, qy], kernel=got))
    # ---- 2. real models: magnetic 2-D call vs recombination of non-magnetic calls
    names = [n for n in sas.compiled_model_names() if load_model_info(n).parameters.nmagnetic > 0]
    if not thorough:
        names = [n for n in QUICK_MODELS if n in names]
    # mixtures are models with SLD parameters too: a moment on one component's SLD only must leave the other
    # components in the polarised evaluation (weights w_dd + w_uu, not 1)
    names = list(names) + ["sphere+cylinder", "core_shell_sphere+ellipsoid"] + (["sphere*cylinder", "sphere+cylinder+ellipsoid"] if thorough else [])
    for name in names:
        model = sas.load(name)
        info = model.info
        stats["models"] += 1
        sld_names = [p.id for p in info.parameters.call_parameters if p.type == "sld"]
        for rep in range(3 if not thorough else 6):
            pars = c01.base_pars(info, rng)
            pars.update(scale=rng.choice([1.0, 0.5]), background=rng.choice([0.0, 0.02]))
            fi, ff = rng.choice([0.0, 1.0, rng.uniform(0, 1)]), rng.choice([0.0, 1.0, 0.5, rng.uniform(0, 1)])
            upt, upp = rng.uniform(0, 180), rng.uniform(0, 180)
            mags = {}
            for s in rng.sample(sld_names, rng.randint(1, min(3, len(sld_names)))):
                mags[s] = (rng.uniform(0.5, 5), rng.uniform(-90, 90), rng.uniform(-180, 180))
            if rep == 2:      # size or angle dispersity on top
                pdn = list(info.parameters.pd_2d)
                if pdn:
                    nm = rng.choice(pdn)
                    p = [x for x in info.parameters.call_parameters if x.name == nm][0]
                    pars[nm + "_pd"] = rng.uniform(2, 10) if p.type == "orientation" else rng.uniform(0.05, 0.2)
                    pars[nm + "_pd_n"] = 4
                    stats["with_dispersity"] += 1
            mpars = dict(pars, up_frac_i=fi, up_frac_f=ff, up_theta=upt, up_phi=upp)
            for s, (m0, mt, mp) in mags.items():
                mpars[s + "_M0"] = m0; mpars[s + "_mtheta"] = mt; mpars[s + "_mphi"] = mp
            qx, qy = rng.uniform(-0.2, 0.2), rng.uniform(-0.2, 0.2)
            kern = model.make_kernel([np.array([qx]), np.array([qy])])
            got = float(call_kernel(kern, mpars, cutoff=1e-5)[0])
            q = math.hypot(qx, qy)
            qh = np.array([qx / q, qy / q, 0.0])
            P, e1, e2 = frame(upt, upp)
            wdd, wdu, wud, wuu = spin_weights(fi, ff)
            Mp = {}
            for s in sld_names:
                m0, mt, mp = mags.get(s, (0.0, 0.0, 0.0))
                ct, st = cs(mt); cp, sp = cs(mp)
                M = np.array([m0 * st * cp, m0 * st * sp, m0 * ct])
                Mp[s] = M - qh * (qh @ M)

            def nonmag(f):
                p2 = dict(pars, scale=1.0, background=0.0)
                for s in sld_names:
                    p2[s] = f(pars[s], Mp[s])
                return float(call_kernel(kern, p2, cutoff=1e-5)[0])
            tot = 0.0
            if wdd > 1e-8:
                tot += wdd * nonmag(lambda r, m: r - P @ m)
            if wuu > 1e-8:
                tot += wuu * nonmag(lambda r, m: r + P @ m)
            if wdu + wud > 0:
                a = nonmag(lambda r, m: e1 @ m); b = nonmag(lambda r, m: e2 @ m)
                tot += (wdu if wdu > 1e-8 else 0.0) * (a + b) + (wud if wud > 1e-8 else 0.0) * (a + b)
            oracle = pars["scale"] * tot + pars["background"]
            kern.release()
            evals += 1
            stats["model_cases"] += 1
            desc = dict(model=name, pars=mpars, qx=qx, qy=qy, kernel=got, recombined=oracle)
            if abs(got - oracle) > 1e-8 * (abs(oracle) + abs(got)) + 1e-12:
                run.add(Finding("C06:model:%s" % name, "%s at q=(%.4g,%.4g): magnetic kernel %.12g, recombination of non-magnetic calls %.12g" % (name, qx, qy, got, oracle), desc))
            else:
                distinct.add((name, rep, tuple(sorted(mags))))
        # all magnitudes zero: the ordinary intensity, whatever the spin state
        pars = c01.base_pars(info, rng)
        kern = model.make_kernel([np.array([0.05]), np.array([0.03])])
        a = float(call_kernel(kern, dict(pars), cutoff=0.0)[0])
        b = float(call_kernel(kern, dict(pars, up_frac_i=0.3, up_frac_f=0.8, up_theta=33.0, up_phi=12.0), cutoff=0.0)[0])
        kern.release()
        evals += 1
        if a != b:
            run.add(Finding("C06:zeroM:%s" % name, "%s with all M0=0: %.17g with a spin state vs %.17g without" % (name, b, a), dict(model=name, pars=pars)))
    traces = 0
    if cases and not run.proof_broken():
        shards = []
        N = 300
        for i in range(0, len(cases), N):
            shards.append("From Coq Require Import List PrimFloat.\nImport ListNotations.\nFrom SM Require Import Base.Num C06.Model C06.Exec.\n"
                          "Definition cases : list Case := [\n%s\n].\nEval vm_compute in (check_cases %s cases).\n" % (";\n".join(cases[i:i + N]), fhex(REL_TOL)))
        for si, (rc, vals, err) in enumerate(common.run_coq_shards(shards, run.scratch.sub("coq"), prefix="c06", jobs=8)):
            if rc != 0 or not vals:
                run.add(Finding("corr:C06:coq", "correspondence shard failed: %s" % err[-300:], {"correspondence": "C06.Exec.check_cases", "stderr": err[-1500:]}, no_input=True))
                continue
            traces += min(N, len(cases) - si * N)
            for idx in vals[0]:
                m = metas[si * N + idx]
                run.add(Finding("C06:corr", "SLD probe: kernel %.17g differs from the Coq model of the magnetic loop" % m["kernel"], m))
    run.coverage.update(evaluations=evals, distinct_nontrivial=len(distinct), traces_validated_against_impl=traces, input_distribution=stats)
    run.assumptions += ["sin/cos of the magnetic and polarisation angles are computed by the harness (angle*pi/180, libm)",
                        "real models are assumed even under reversal of all SLDs (I depends on SLD differences quadratically); the probe with dlin != 0 is not, and is compared term by term"]
    run.finish_args = dict(level="proof",
                           rule="SLD-probe plug-in (polynomial in three SLDs, with and without an odd term) through the public 2-D kernel: 1-3 magnetic SLDs, up fractions incl. 0/0.5/1 and outside [0,1], polarisation axes, q directions incl. qx=0; magnetic-capable models recombined from non-magnetic 2-D calls incl. dispersity; distinct = distinct settings / (model, case, magnetic SLD set)",
                           trusted=["harness/c06.py (probe plug-in, numpy oracle)"])
