"""Entry point: python -m harness.main <ID> [--tier quick|thorough] [--replay file]"""
import importlib
import sys

from . import common


# modules with a gen() that regenerates coq/theories/Gen/*.v from /repo
GEN_MODULES = ["c20", "c12", "c13"]


def main():
    if len(sys.argv) < 2:
        print("usage: check <ID|setup> [--tier quick|thorough]")
        sys.exit(2)
    pid = sys.argv[1]
    if pid == "setup":
        for name in GEN_MODULES:
            importlib.import_module("harness." + name).gen()
        ok, log = common.coq_make(jobs=16)
        print(log[-3000:])
        sys.exit(0 if ok else 1)
    mod = importlib.import_module("harness." + pid.lower())
    common.main_wrapper(pid, mod.main, sys.argv[2:])


if __name__ == "__main__":
    main()
