"""Entry point: python -m harness.main <ID> [--tier quick|thorough] [--replay file]"""
import importlib
import sys

from . import common


# modules with a gen() that regenerates coq/theories/Gen/*.v from /repo
GEN_MODULES = ["c20", "c12", "c13", "c02", "c01", "c05", "c06", "c07", "c08", "c10", "c19", "c03", "c18", "c17", "c15", "c09", "c11"]


def main():
    if len(sys.argv) < 2:
        print("usage: check <ID|setup> [--tier quick|thorough]")
        sys.exit(2)
    pid = sys.argv[1]
    if pid == "setup":
        for name in GEN_MODULES:
            importlib.import_module("harness." + name).gen()
        ok, log = common.coq_make(jobs=16)
        print(log[-3000:])
        sys.exit(0 if ok else 1)
    if pid == "coqchk":
        import json, os
        ok, summary, raw = common.coqchk_all()
        os.makedirs(os.path.join(common.VERIF, "reports"), exist_ok=True)
        with open(os.path.join(common.VERIF, "reports", "coqchk.json"), "w") as fh:
            json.dump(summary, fh, indent=1)
        print("coqchk: %d modules, rc=%d, %d axioms (%d declared by this development), other sections: %s" % (
            len(summary["modules"]), summary["returncode"], len(summary["axioms"]), len(summary["axioms_declared_by_this_development"]),
            {k: len(v) for k, v in summary["other_sections"].items()}))
        sys.exit(0 if ok else 1)
    mod = importlib.import_module("harness." + pid.lower())
    common.main_wrapper(pid, mod.main, sys.argv[2:])


if __name__ == "__main__":
    main()
