"""C16 — a reparameterised model equals its base model at the translated parameters."""
from __future__ import annotations

import math
import os
import random

import numpy as np

from . import common, sas
from .common import Finding, fhex, coq_list

PROBE = '''
from numpy import inf
name = "verif_probe_base"
title = "C16 probe base model"
description = "returns the base parameter selected by sel"
category = "shape:sphere"
parameters = [
    ["sel", "", 0.0, [0, 10], "", "which parameter to return"],
    ["p1", "Ang", 10.0, [-inf, inf], "volume", ""],
    ["p2", "Ang", 20.0, [-inf, inf], "volume", ""],
    ["d", "", 3.0, [-inf, inf], "", "a single-letter parameter"],
    ["p4", "", 4.0, [-inf, inf], "", ""],
]
form_volume = "return 1.0;"
valid = "2.0*p1 > p2 || d >= p4"
Iq = "return sel < 0.5 ? p1 : sel < 1.5 ? p2 : sel < 2.5 ? d : sel < 3.5 ? p4 : 7.0;"
'''
VALID_COQ = '(App float string "||" [App float string ">" [App float string "*" [Num float string 2%float; Var float string "p1"]; Var float string "p2"]; App float string ">=" [Var float string "d"; Var float string "p4"]])'


def valid_py(env):
    return bool(2.0 * env["p1"] > env["p2"] or env["d"] >= env["p4"])


def to_c_top(e, rng):
    """Right-hand side as a user would write it: no parentheses around the whole expression (half of the time)."""
    k = e[0]
    if k == "?:" and all(x[0] in ("var", "num") for x in e[1:]):
        return "%s > 0.0 ? %s : %s" % (to_c(e[1]), to_c(e[2]), to_c(e[3]))
    if rng.random() < 0.5:
        return to_c(e)
    if k in "+-*/" and len(k) == 1:
        return "%s %s %s" % (to_c(e[1]), k, to_c(e[2]))
    if k == "neg":
        return "-%s" % to_c(e[1])
    if k == "?:":
        return "%s > 0.0 ? %s : %s" % (to_c(e[1]), to_c(e[2]), to_c(e[3]))
    return to_c(e)

BASE_PARS = ["p1", "p2", "d", "p4"]


# ---- random expression trees, printable as C and as Coq ------------------------------
def gen_expr(rng, names, depth):
    if depth == 0 or rng.random() < 0.3:
        if rng.random() < 0.65 and names:
            return ("var", rng.choice(names))
        return ("num", rng.choice([0.5, 2.0, 3.0, 1.25, 10.0]))
    k = rng.random()
    if k < 0.7:
        return (rng.choice(["+", "-", "*", "/"]), gen_expr(rng, names, depth - 1), gen_expr(rng, names, depth - 1))
    if k < 0.8:
        return ("neg", gen_expr(rng, names, depth - 1))
    if k < 0.9:
        return ("sqrt", ("fabs", gen_expr(rng, names, depth - 1)))
    return ("?:", gen_expr(rng, names, depth - 1), gen_expr(rng, names, depth - 1), gen_expr(rng, names, depth - 1))


def to_c(e):
    k = e[0]
    if k == "var":
        return e[1]
    if k == "num":
        return repr(float(e[1]))
    if k in "+-*/":
        return "(%s %s %s)" % (to_c(e[1]), k, to_c(e[2]))
    if k == "neg":
        return "(-%s)" % to_c(e[1])
    if k in ("sqrt", "fabs"):
        return "%s(%s)" % (k, to_c(e[1]))
    if k == "?:":
        return "((%s) > 0.0 ? %s : %s)" % (to_c(e[1]), to_c(e[2]), to_c(e[3]))
    raise ValueError(k)


def to_coq(e):
    k = e[0]
    if k == "var":
        return '(Var float string "%s")' % e[1]
    if k == "num":
        return "(Num float string %s)" % fhex(e[1])
    args = "; ".join(to_coq(x) for x in e[1:])
    return '(App float string "%s" [%s])' % (k, args)


def evaluate(e, env):
    k = e[0]
    if k == "var":
        return env[e[1]]
    if k == "num":
        return float(e[1])
    with np.errstate(all="ignore"):
        if k == "+":
            return evaluate(e[1], env) + evaluate(e[2], env)
        if k == "-":
            return evaluate(e[1], env) - evaluate(e[2], env)
        if k == "*":
            return evaluate(e[1], env) * evaluate(e[2], env)
        if k == "/":
            return float(np.float64(evaluate(e[1], env)) / np.float64(evaluate(e[2], env)))
        if k == "neg":
            return -evaluate(e[1], env)
        if k == "sqrt":
            return math.sqrt(evaluate(e[1], env))
        if k == "fabs":
            return abs(evaluate(e[1], env))
        if k == "?:":
            return evaluate(e[2], env) if evaluate(e[1], env) > 0.0 else evaluate(e[3], env)
    raise ValueError(k)


def gen_translation(rng):
    """new parameters a,b,c (+ optional single-letter w), intermediates t1,t2; replaces a random subset of the base parameters"""
    new = ["a", "bb", "c3"] + (["w"] if rng.random() < 0.5 else [])
    replaced = rng.sample(BASE_PARS, rng.randint(1, 3))
    assigns, defined = [], []
    order = []
    for i in range(rng.randint(0, 2)):
        order.append("t%d" % (i + 1))
    order += replaced
    rng.shuffle(order)
    # intermediates must be defined before use; build in order
    for name in order:
        usable = new + defined + [p for p in BASE_PARS if p not in replaced]
        if rng.random() < 0.4:
            # a clamp / switch written with a bare C conditional on plain names or numbers (no arithmetic operator)
            leaf = lambda: ("var", rng.choice(usable)) if rng.random() < 0.8 else ("num", rng.choice([0.5, 2.0, 3.0]))
            assigns.append((name, ("?:", leaf(), leaf(), leaf())))
        else:
            assigns.append((name, gen_expr(rng, usable, rng.randint(1, 3))))
        if name.startswith("t"):
            defined.append(name)
    return new, replaced, assigns


def main(run):
    from sasmodels.core import load_model_info, build_model, reparameterize, load_model
    from sasmodels.direct_model import call_kernel, call_Fq
    from numpy import inf
    rng = random.Random(run.seed * 97 + 16)
    thorough = run.tier == "thorough"
    run.prove(["C16/Property.v"])
    pdir = run.scratch.sub("probe")
    ppath = os.path.join(pdir, "verif_probe_base.py")
    open(ppath, "w").write(PROBE)
    base_info = load_model_info(ppath)
    stats = dict(probe_translations=0, real_models=0, insert_after=0, single_letter=0, dispersity_checks=0, invalid_region=0)
    evals, distinct = 0, set()
    cases, metas = [], []
    q = [np.array([0.1])]
    for t in range(16 if not thorough else 90):
        new, replaced, assigns = gen_translation(rng)
        # (a fifth of the lines end in a '#' comment; a quarter carry two C block comments, around the right-hand side)
        def _line(n, e):
            rhs = to_c_top(e, rng)
            if rng.random() < 0.25:
                return "    %s = /* from the new parameters */ %s /* base units */" % (n, rhs)
            return "    %s = %s%s" % (n, rhs, "  # comment" if rng.random() < 0.2 else "")
        text = "\n".join(_line(n, e) for n, e in assigns)
        pdefs = [[n, "", 1.0, [-inf, inf], "", "new parameter " + n] for n in new]
        insert_after = None
        if rng.random() < 0.4:
            kept = [p for p in ["sel"] + BASE_PARS if p not in replaced]
            anchor = rng.choice(kept + [""])
            insert_after = {anchor: ",".join(new)}
            stats["insert_after"] += 1
        if "d" in replaced or "w" in new:
            stats["single_letter"] += 1
        desc = dict(translation=text, new=new, replaced=replaced, insert_after=insert_after)
        try:
            info = reparameterize(base_info, pdefs, text, filename=os.path.join(pdir, "verif_repar_%d.py" % t), insert_after=insert_after)
            names = [p.name for p in info.parameters.kernel_parameters]
            model = build_model(info, dtype="double", platform="dll")
        except Exception as exc:  # noqa
            run.add(Finding("C16:build", "reparameterisation failed to build: %r for\n%s" % (exc, text), desc))
            continue
        stats["probe_translations"] += 1
        # table: untouched base parameters keep their relative order, every new parameter is present once
        untouched = [p for p in ["sel"] + BASE_PARS if p not in replaced]
        if [n for n in names if n in untouched] != untouched or sorted(n for n in names if n in new) != sorted(new) or any(r in names for r in replaced):
            run.add(Finding("C16:table", "derived table %s for new=%s replaced=%s insert_after=%s" % (names, new, replaced, insert_after), desc))
            continue
        if insert_after is None:
            first = min(["sel"] + BASE_PARS.index(r) + 1 if False else (["sel"] + BASE_PARS).index(r) for r in replaced)
            expect = [p for p in (["sel"] + BASE_PARS)[:first] if p not in replaced] + new + [p for p in (["sel"] + BASE_PARS)[first:] if p not in replaced]
            if names != expect:
                run.add(Finding("C16:table-order", "derived table %s, expected %s" % (names, expect), desc))
                continue
        kern = model.make_kernel(q)
        for rep in range(6 if any(e[0] == "?:" for _, e in assigns) else 3):
            rho = {n: rng.choice([1.0, 2.0, -1.5, 0.25, 7.0, rng.uniform(-5, 5)]) for n in new}
            for p in untouched:
                if p != "sel":
                    rho[p] = rng.uniform(-5, 5)
            env = dict(rho)
            for n, e in assigns:
                env[n] = evaluate(e, env)
            got = {}
            for si, p in enumerate(BASE_PARS):
                got[p] = float(call_kernel(kern, dict(rho, sel=float(si), scale=1.0, background=0.0), cutoff=0.0)[0])
                evals += 1
            # validity region: the point is evaluated (the constant 7 comes back) iff the base model's validity
            # expression holds at the translated parameters
            seen_valid = float(call_kernel(kern, dict(rho, sel=4.0, scale=1.0, background=0.0), cutoff=0.0)[0]) == 7.0
            want_valid = valid_py(env)
            stats["invalid_points"] = stats.get("invalid_points", 0) + (0 if want_valid else 1)
            if seen_valid != want_valid:
                run.add(Finding("C16:valid", "translation\n%s\nat %s: the base parameters are %s, so the base model's region (2 p1 > p2 || d >= p4) %s the point, but the reparameterised model %s it" % (
                    text, rho, {p: env[p] for p in BASE_PARS}, "contains" if want_valid else "excludes", "evaluates" if seen_valid else "skips"),
                    dict(desc, caller=rho, translated={p: env[p] for p in BASE_PARS})))
                continue
            if not want_valid:
                if any(v != 0.0 for v in got.values()):
                    run.add(Finding("C16:valid", "an invalid point returned %s instead of the background" % got, dict(desc, caller=rho)))
                else:
                    distinct.add((t, rep))
                    cases.append("(MkCase %s %s %s %s %s %s false)" % (
                        coq_list(['"%s"' % n for n in names], "string"), coq_list(['"%s"' % n for n in ["sel"] + BASE_PARS], "string"),
                        coq_list(['("%s", %s)' % (n, to_coq(e)) for n, e in assigns], "(string * expr float string)"),
                        coq_list(['("%s", %s)' % (n, fhex(v)) for n, v in rho.items()], "(string * float)"),
                        "(@nil (string * float))", VALID_COQ))
                    metas.append(dict(desc, caller=rho, kernel=got, translated={p: env[p] for p in BASE_PARS}))
                continue
            bad = [p for p in BASE_PARS if not (abs(got[p] - env[p]) <= 1e-12 * (abs(env[p]) + 1) or (math.isnan(got[p]) and math.isnan(env[p])) or (math.isinf(env[p]) and got[p] == env[p]))]
            d2 = dict(desc, caller=rho, kernel=got, translated={p: env[p] for p in BASE_PARS})
            if bad:
                run.add(Finding("C16:probe", "translation\n%s\nat %s: base parameters %s receive %s, the equations give %s" % (
                    text, rho, bad, [got[p] for p in bad], [env[p] for p in bad]), d2))
                continue
            if all(math.isfinite(v) for v in got.values()):
                distinct.add((t, rep))
                call_pars = names
                cases.append("(MkCase %s %s %s %s %s)" % (
                    coq_list(['"%s"' % n for n in call_pars], "string"), coq_list(['"%s"' % n for n in ["sel"] + BASE_PARS], "string"),
                    coq_list(['("%s", %s)' % (n, to_coq(e)) for n, e in assigns], "(string * expr float string)"),
                    coq_list(['("%s", %s)' % (n, fhex(v)) for n, v in rho.items()], "(string * float)"),
                    coq_list(['("%s", %s)' % (p, fhex(got[p])) for p in BASE_PARS], "(string * float)") + " " + VALID_COQ + " true"))
                metas.append(d2)
        kern.release()
        run.sample(dict(translation=text.strip().split("\n"), new=new, replaced=replaced, insert_after=insert_after, table=names))
    # ---------------- translations that call a helper function brought in through source=[...]: several
    # reparameterisations of ONE base, each in its own directory with its own version of a same-named helper file,
    # built one after the other in this process - each must be compiled against the helper next to ITS file
    stats["helper_sources"] = 0
    for hv in range(3 if not thorough else 6):
        hdir = os.path.join(pdir, "hv%d" % hv)
        os.makedirs(hdir, exist_ok=True)
        kf, cf = float(hv + 2), float(rng.randint(-3, 3))
        open(os.path.join(hdir, "verif_helper.c"), "w").write("double vh(double x);\ndouble vh(double x) { return %.1f*x + %.1f; }\n" % (kf, cf))
        text = "    p1 = vh(a)\n    d = a - p2"
        desc = dict(translation=text, helper="vh(x) = %g x + %g" % (kf, cf), directory="hv%d" % hv)
        try:
            info = reparameterize(base_info, [["a", "", 1.0, [-inf, inf], "", "new parameter a"]], text,
                                  filename=os.path.join(hdir, "verif_helper_model.py"), source=["verif_helper.c"])
            model = build_model(info, dtype="double", platform="dll")
        except Exception as exc:  # noqa
            run.add(Finding("C16:helper:build", "reparameterisation with a helper source failed to build: %r" % (exc,), desc))
            continue
        kern = model.make_kernel(q)
        for rep in range(3):
            rho = dict(a=rng.uniform(-5, 5), p2=rng.uniform(-5, 5))
            rho["p4"] = rho["a"] - rho["p2"] - rng.uniform(0.1, 2)       # inside the base model's validity region (d >= p4)
            want = dict(p1=kf * rho["a"] + cf, p2=rho["p2"], d=rho["a"] - rho["p2"], p4=rho["p4"])
            if not valid_py(want):
                continue
            got = {p_: float(call_kernel(kern, dict(rho, sel=float(si), scale=1.0, background=0.0), cutoff=0.0)[0]) for si, p_ in enumerate(BASE_PARS)}
            evals += len(BASE_PARS); stats["helper_sources"] += 1
            bad = [p_ for p_ in BASE_PARS if not abs(got[p_] - want[p_]) <= 1e-12 * (abs(want[p_]) + 1)]
            if bad:
                run.add(Finding("C16:helper", "translation\n%s\nwith helper %s (directory %s) at %s: base parameters %s receive %s, the equations give %s" % (
                    text, desc["helper"], desc["directory"], rho, bad, [got[p_] for p_ in bad], [want[p_] for p_ in bad]), dict(desc, caller=rho, kernel=got, translated=want)))
                break
        else:
            distinct.add(("helper", hv))
        kern.release()
    # ---------------- real models against the base model at independently translated parameters
    # ---- insert_after placements of the derived table (no build needed): random partitions of the new parameters
    # over anchors, plus the three misuses (unknown name, a name used twice, a new parameter never placed)
    ia_cases, ia_metas = [], []
    allbase = ["sel"] + BASE_PARS
    for t in range(40 if not thorough else 300):
        new = rng.sample(["a", "bb", "c3", "w", "zz"], rng.randint(1, 4))
        replaced = rng.sample(BASE_PARS, rng.randint(1, 3))
        kept_ = [p for p in allbase if p not in replaced]
        anchors = rng.sample(kept_ + replaced + [""], rng.randint(1, 3))
        groups = {a_: [] for a_ in anchors}
        for n_ in new:
            groups[rng.choice(anchors)].append(n_)
        groups = {k: v for k, v in groups.items() if v}
        kind = rng.choice(["ok", "ok", "ok", "unknown", "twice", "leftover", "bad-anchor"])
        if kind == "unknown":
            groups.setdefault(rng.choice(anchors), []).append("nosuch")
        elif kind == "twice":
            groups.setdefault(rng.choice(anchors), []).append(new[0])
        elif kind == "leftover" and len(new) > 1:
            for k_ in groups:
                if new[-1] in groups[k_]:
                    groups[k_] = [x for x in groups[k_] if x != new[-1]]
            groups = {k: v for k, v in groups.items() if v}
        elif kind == "bad-anchor":
            groups["not_a_parameter"] = [new[0]]; 
            for k_ in list(groups):
                if k_ != "not_a_parameter" and new[0] in groups[k_]:
                    groups[k_] = [x for x in groups[k_] if x != new[0]]
            groups = {k: v for k, v in groups.items() if v}
        text = "\n".join("    %s = %s" % (r_, new[0]) for r_ in replaced)
        pdefs = [[n, "", 1.0, [-inf, inf], "", "new parameter " + n] for n in new]
        ia = {k: ",".join(v) for k, v in groups.items()}
        try:
            info = reparameterize(base_info, pdefs, text, filename=os.path.join(pdir, "verif_ia_%d.py" % t), insert_after=ia)
            got = [p.name for p in info.parameters.kernel_parameters]
        except ValueError as exc:
            got = None
        evals += 1
        stats["insert_after_tables"] = stats.get("insert_after_tables", 0) + 1
        stats.setdefault("insert_after_kinds", {}); stats["insert_after_kinds"][kind] = stats["insert_after_kinds"].get(kind, 0) + 1
        desc = dict(new=new, replaced=replaced, insert_after=ia, table=got, kind=kind)
        # model-free statement: untouched parameters keep their order, every new one exactly once
        if got is not None:
            if [n for n in got if n in kept_] != kept_ or sorted(n for n in got if n not in kept_) != sorted(new):
                run.add(Finding("C16:insert-after", "derived table %s for new=%s replaced=%s insert_after=%s" % (got, new, replaced, ia), desc))
        qs = lambda l: coq_list(['"%s"' % x for x in l], "string")
        ia_cases.append("(%s, %s, %s, %s, %s)" % (qs(allbase), qs(new), qs(replaced),
                        coq_list(['("%s", %s)' % (k, qs(v)) for k, v in groups.items()], "(string * list string)"),
                        "None" if got is None else "Some %s" % qs(got)))
        ia_metas.append(desc)
    if ia_cases and not run.proof_broken():
        text = ("From Coq Require Import List String.\nImport ListNotations.\nOpen Scope string_scope.\nFrom SM Require Import C16.Exec.\n"
                "Definition cases : list IACase := [\n%s\n].\nEval vm_compute in (check_ias cases).\n" % ";\n".join(ia_cases))
        rc, vals, err = common.run_coq_shards([text], run.scratch.sub("coqia"), prefix="c16ia")[0]
        if rc != 0 or not vals:
            run.add(Finding("corr:C16:coq", "insert_after correspondence failed to evaluate: %s" % err[-300:], {"correspondence": "C16.Exec.check_ias", "stderr": err[-1500:]}, no_input=True))
        else:
            for i in vals[0]:
                m = ia_metas[i]
                run.add(Finding("C16:corr:insert-after", "derived table %s (None = refused) for new=%s replaced=%s insert_after=%s differs from the Coq model of _insert_after" % (
                    m["table"], m["new"], m["replaced"], m["insert_after"]), m))
    real = [
        ("ellipsoid", [["volume", "Ang^3", 1e5, [0, inf], "volume", ""], ["eccentricity", "", 1, [0, inf], "volume", ""]],
         "Re = cbrt(volume/eccentricity/M_4PI_3)\nradius_polar = eccentricity*Re\nradius_equatorial = Re",
         lambda p: dict(radius_polar=p["eccentricity"] * (p["volume"] / p["eccentricity"] / (4 * math.pi / 3)) ** (1 / 3), radius_equatorial=(p["volume"] / p["eccentricity"] / (4 * math.pi / 3)) ** (1 / 3)),
         dict(volume=(5e4, 5e5), eccentricity=(0.3, 3.0)), "volume"),
        ("cylinder", [["aspect", "", 2.0, [0, inf], "volume", ""], ["rad", "Ang", 20, [0, inf], "volume", ""]],
         "radius = rad\nlength = 2.0*aspect*rad",
         lambda p: dict(radius=p["rad"], length=2.0 * p["aspect"] * p["rad"]), dict(aspect=(0.5, 8), rad=(10, 60)), "rad"),
        ("hollow_cylinder", [["outer", "Ang", 40, [0, inf], "volume", ""], ["frac", "", 0.5, [0, 1], "volume", ""]],
         "radius = frac*outer\nthickness = outer - frac*outer",
         lambda p: dict(radius=p["frac"] * p["outer"], thickness=p["outer"] - p["frac"] * p["outer"]), dict(outer=(20, 80), frac=(0.2, 0.9)), "outer"),
        ("barbell", [["ratio", "", 1.5, [0, inf], "volume", "bell radius over bar radius"]],
         "radius_bell = ratio*radius",
         lambda p: dict(radius_bell=p["ratio"] * p["radius"]), dict(ratio=(0.5, 3.0)), "ratio"),
    ]
    # a new parameter may reuse the NAME of the base parameter it replaces (a change of unit, an outer instead of a
    # core radius): the right-hand side then reads the caller's value, the left-hand side defines the base value
    real += [
        ("sphere", [["radius", "nm", 5.0, [0, inf], "volume", "radius in nm"]],
         "radius = 10.0*radius",
         lambda p: dict(radius=10.0 * p["radius"]), dict(radius=(2.0, 8.0)), "radius"),
        ("core_shell_sphere", [["radius", "Ang", 70.0, [0, inf], "volume", "outer radius"]],
         "radius = radius - thickness",
         lambda p: dict(radius=p["radius"] - p["thickness"]), dict(radius=(60.0, 90.0)), "radius"),
    ]
    stats["same_name_reparameterisations"] = 2
    # the same cylinder reparameterisation with the new parameters placed at the FRONT of the table: every untouched
    # parameter (the SLDs among them) then sits at another position than in the base table; evaluated in 2-D with a
    # magnetic SLD, where the kernel addresses the SLD slots by index
    real.append(("cylinder", [["aspect", "", 2.0, [0, inf], "volume", ""], ["rad", "Ang", 20, [0, inf], "volume", ""]],
                 "radius = rad\nlength = 2.0*aspect*rad",
                 lambda p: dict(radius=p["rad"], length=2.0 * p["aspect"] * p["rad"]), dict(aspect=(0.5, 8), rad=(10, 60)), "rad",
                 dict(insert_after={"": "aspect,rad"}, magnetic=True)))
    stats["moved_sld_magnetic"] = 1
    # ... and with the new parameters placed BEHIND the orientation angles (the angle block is then no longer the tail
    # of the table), after phi (a parameter BETWEEN theta and phi is refused by the library: 'phi must follow theta'); evaluated in 2-D
    real.append(("ellipsoid", [["volume", "Ang^3", 1e5, [0, inf], "volume", ""], ["eccentricity", "", 1, [0, inf], "volume", ""]],
                 "Re = cbrt(volume/eccentricity/M_4PI_3)\nradius_polar = eccentricity*Re\nradius_equatorial = Re",
                 lambda p: dict(radius_polar=p["eccentricity"] * (p["volume"] / p["eccentricity"] / (4 * math.pi / 3)) ** (1 / 3), radius_equatorial=(p["volume"] / p["eccentricity"] / (4 * math.pi / 3)) ** (1 / 3)),
                 dict(volume=(5e4, 5e5), eccentricity=(0.3, 3.0)), "volume", dict(insert_after={"phi": "volume,eccentricity"}, all_2d=True)))
    real.append(("cylinder", [["aspect", "", 2.0, [0, inf], "volume", ""], ["rad", "Ang", 20, [0, inf], "volume", ""]],
                 "radius = rad\nlength = 2.0*aspect*rad",
                 lambda p: dict(radius=p["rad"], length=2.0 * p["aspect"] * p["rad"]), dict(aspect=(0.5, 8), rad=(10, 60)), "rad",
                 dict(insert_after={"phi": "rad,aspect"}, all_2d=True)))
    stats["new_parameters_behind_the_angles"] = 2
    real = [r_ if len(r_) == 7 else r_ + (dict(),) for r_ in real]
    for ri_, (bname, pdefs, text, tr, ranges, dpar, opts) in enumerate(real):
        binfo = load_model_info(bname)
        try:
            info = reparameterize(binfo, pdefs, text, filename=os.path.join(pdir, "verif_real_%s_%d.py" % (bname, ri_)), insert_after=opts.get("insert_after"))
            model = build_model(info, dtype="double", platform="dll")
        except Exception as exc:  # noqa
            run.add(Finding("C16:build:%s" % bname, "reparameterised %s failed to build: %r" % (bname, exc), dict(base=bname, translation=text)))
            continue
        base = sas.load(bname)
        stats["real_models"] += 1
        oriented = any(p.type == "orientation" for p in binfo.parameters.call_parameters)
        for rep in range(3 if not thorough else 8):
            dim = "2d" if oriented and (rep % 3 == 2 or (opts.get("all_2d") and rep > 0)) else "1d"
            qq = [np.array([0.01, 0.05, 0.12])] if dim == "1d" else [np.array([0.03, -0.06]), np.array([0.05, 0.02])]
            new = {k: rng.uniform(*v) for k, v in ranges.items()}
            common_pars = dict(scale=rng.uniform(0.5, 2), background=rng.uniform(0, 0.01))
            if oriented and dim == "2d":
                common_pars.update(theta=rng.uniform(0, 90), phi=rng.uniform(0, 180))
                if opts.get("magnetic"):
                    common_pars.update(sld_M0=rng.uniform(0.5, 4), sld_mtheta=rng.uniform(-80, 80), sld_mphi=rng.uniform(-170, 170),
                                       up_frac_i=rng.choice([0.0, 0.3]), up_frac_f=rng.choice([0.0, 0.8]), up_theta=rng.uniform(0, 180), up_phi=rng.uniform(0, 90))
            other = {}
            for p in info.parameters.kernel_parameters:
                if p.name not in new and p.type == "volume":
                    other[p.name] = p.default * rng.uniform(0.8, 1.2)
            bp = dict(other); bp.update(tr(dict(new, **other)))
            k1 = model.make_kernel(qq); k2 = base.make_kernel(qq)
            a = np.asarray(call_kernel(k1, dict(new, **other, **common_pars), cutoff=0.0))
            b = np.asarray(call_kernel(k2, dict(bp, **common_pars), cutoff=0.0))
            evals += 2
            desc = dict(base=bname, translation=text, new=new, other=other, base_pars=bp, dim=dim, reparameterised=list(map(float, a)), base_model=list(map(float, b)))
            if bname == "barbell" and new["ratio"] < 1.0:
                stats["invalid_region"] += 1      # radius_bell < radius: outside the base model's validity region
            if not np.allclose(a, b, rtol=1e-10, atol=1e-14):
                run.add(Finding("C16:real:%s" % bname, "%s reparameterised (%s) at %s: %s vs base %s" % (bname, dim, new, a, b), desc))
                k1.release(); k2.release()
                continue
            if dim == "1d":
                fa = call_Fq(k1, dict(new, **other, radius_effective_mode=1), cutoff=0.0)
                fb = call_Fq(k2, dict(bp, radius_effective_mode=1), cutoff=0.0)
                for x, y in zip(fa[1:], fb[1:]):
                    if not np.allclose(x, y, rtol=1e-10, atol=1e-300):
                        run.add(Finding("C16:fq:%s" % bname, "%s: call_Fq tuple differs from the base model's: %r vs %r" % (bname, x, y), desc)); break
                # dispersity on a new parameter = volume-normalised weighted average of base evaluations
                from sasmodels.weights import get_weights
                width, npts = 0.15, 7
                lim = [p.limits for p in info.parameters.kernel_parameters if p.name == dpar][0]
                xs, ws = get_weights("gaussian", npts, width, 3.0, new[dpar], lim, True)
                disp = np.asarray(call_kernel(k1, dict(new, **other, **common_pars, **{dpar + "_pd": width, dpar + "_pd_n": npts}), cutoff=0.0))
                num = np.zeros(len(qq[0])); den = 0.0
                for xv, wv in zip(xs, ws):
                    nb = dict(other); nb.update(tr(dict(new, **other, **{dpar: xv})))
                    F = call_Fq(k2, dict(nb), cutoff=0.0)
                    valid = np.any(np.asarray(F[1]) != 0) or F[3] != 1.0
                    if not valid:
                        continue
                    num += wv * np.asarray(F[1]); den += wv * F[3]
                want = common_pars["scale"] * num / den + common_pars["background"] if den else np.full(len(num), common_pars["background"])
                stats["dispersity_checks"] += 1
                evals += 1
                if not np.allclose(disp, want, rtol=1e-9, atol=1e-14):
                    run.add(Finding("C16:dispersity:%s" % bname, "%s: dispersity on %s gives %s, weighted average of base evaluations %s" % (bname, dpar, disp, want), desc))
                else:
                    distinct.add((bname, rep, "disp"))
            distinct.add((bname, rep, dim))
            k1.release(); k2.release()
    traces = 0
    if cases and not run.proof_broken():
        shards = ["From Coq Require Import String List PrimFloat.\nImport ListNotations.\nFrom SM Require Import Base.Num C16.Model C16.Exec.\nOpen Scope string_scope.\n"
                  "Definition cases : list Case := [\n%s\n].\nEval vm_compute in (check_cases %s cases).\n" % (";\n".join(cases[i:i + 30]), fhex(1e-13)) for i in range(0, len(cases), 30)]
        for si, (rc, vals, err) in enumerate(common.run_coq_shards(shards, run.scratch.sub("coq"), prefix="c16", jobs=8)):
            if rc != 0 or not vals:
                run.add(Finding("corr:C16:coq", "correspondence shard failed: %s" % err[-300:], {"correspondence": "C16.Exec.check_cases", "stderr": err[-1500:]}, no_input=True))
                continue
            traces += min(30, len(cases) - si * 30)
            for idx in vals[0]:
                m = metas[si * 30 + idx]
                run.add(Finding("C16:corr", "probe translation:\n%s\nkernel %s differs from the Coq model of the generated call" % (m["translation"], m["kernel"]), m))
    run.coverage.update(evaluations=evals, distinct_nontrivial=len(distinct), traces_validated_against_impl=traces, input_distribution=stats)
    run.assumptions += ["probe base model whose Iq returns the base parameter selected by sel, so the translated arguments are observed through the public kernel",
                        "expression trees use + - * / unary minus sqrt fabs and ?: ; cbrt and other libm calls are exercised only through the real-model cases"]
    run.finish_args = dict(level="proof",
                           rule="random translations (0-2 intermediates, 1-3 replaced base parameters incl. a single-letter one, expression depth 1-3, insert_after placements) of a probe base model x caller values; reparameterisations of ellipsoid, cylinder, hollow_cylinder, barbell against the base model in 1-D/2-D incl. call_Fq and dispersity on a new parameter",
                           trusted=["harness/c16.py (expression generator printing both C and Coq syntax, Python evaluation of the translation)"])
