"""Particle-frame access to a model's own C functions.

Builds, in a scratch directory, a shared library from the source sasmodels
itself generates for the model (generate.make_source) plus a few exported
wrappers that call the model's Iqabc / Iqac / Iq / Fq / form_volume with the
parameters in iq_parameters order - the same order generate.py uses for its
CALL_* macros.  Nothing in /repo is touched.
"""
from __future__ import annotations

import ctypes as ct
import os
import subprocess

import numpy as np


class Shim:
    def __init__(self, info, workdir, tag=""):
        from sasmodels import generate
        self.info = info
        table = info.parameters
        base = getattr(info, "base", None)      # the base parameter table of a reparameterised model
        btable = base if base is not None else table
        pars = btable.iq_parameters
        if any(p.length > 1 for p in pars):
            raise ValueError("vector parameters are not supported by the shim")
        self.names = [p.name for p in pars]
        self.volume_names = [p.name for p in btable.form_volume_parameters]
        src = generate.convert_type(generate.make_source(info)["dll"], np.dtype("d"))
        n = len(self.names)
        refs = ",".join("p[%d]" % i for i in range(n))
        vrefs = ",".join("p[%d]" % self.names.index(v) for v in self.volume_names)
        self.mode = "qabc" if "Iqabc" in _defined(src) else ("qac" if "Iqac" in _defined(src) else None)
        w = ["\n/* ---- verification shim ---- */"]
        if self.mode == "qabc":
            w.append("double verif_iqabc(double qa, double qb, double qc, const double *p) { return Iqabc(qa, qb, qc%s); }" % ("," + refs if n else ""))
        elif self.mode == "qac":
            w.append("double verif_iqac(double qab, double qc, const double *p) { return Iqac(qab, qc%s); }" % ("," + refs if n else ""))
        if self.mode == "qabc":
            w.append("void verif_iqabc_n(int n, const double *qa, const double *qb, const double *qc, const double *p, double *out) { for (int i = 0; i < n; i++) out[i] = Iqabc(qa[i], qb[i], qc[i]%s); }" % ("," + refs if n else ""))
        elif self.mode == "qac":
            w.append("void verif_iqac_n(int n, const double *qab, const double *qc, const double *p, double *out) { for (int i = 0; i < n; i++) out[i] = Iqac(qab[i], qc[i]%s); }" % ("," + refs if n else ""))
        if self.volume_names:
            w.append("double verif_form_volume(const double *p) { return form_volume(%s); }" % vrefs)
        src = src + "\n".join(w) + "\n"
        cpath = os.path.join(workdir, "shim_%s%s.c" % (info.id, tag))
        so = os.path.join(workdir, "shim_%s%s.so" % (info.id, tag))
        open(cpath, "w").write(src)
        r = subprocess.run(["cc", "-std=c99", "-O2", "-fPIC", "-shared", "-w", cpath, "-o", so, "-lm"], capture_output=True, text=True)
        if r.returncode != 0:
            raise RuntimeError("shim build failed: " + r.stderr[-500:])
        self.lib = ct.CDLL(so)
        dp = ct.POINTER(ct.c_double)
        if self.mode == "qabc":
            self.lib.verif_iqabc.restype = ct.c_double
            self.lib.verif_iqabc.argtypes = [ct.c_double, ct.c_double, ct.c_double, dp]
        elif self.mode == "qac":
            self.lib.verif_iqac.restype = ct.c_double
            self.lib.verif_iqac.argtypes = [ct.c_double, ct.c_double, dp]
        if self.volume_names:
            self.lib.verif_form_volume.restype = ct.c_double
            self.lib.verif_form_volume.argtypes = [dp]

    def pvec(self, pars):
        v = np.array([float(pars[n]) for n in self.names], "d")
        return v, v.ctypes.data_as(ct.POINTER(ct.c_double))

    def iqabc(self, qa, qb, qc, pars):
        v, p = self.pvec(pars)
        return self.lib.verif_iqabc(float(qa), float(qb), float(qc), p)

    def iqac(self, qab, qc, pars):
        v, p = self.pvec(pars)
        return self.lib.verif_iqac(float(qab), float(qc), p)

    # array versions (one C loop instead of one ctypes call per point)
    def iqabc_n(self, qa, qb, qc, pars):
        dp = ct.POINTER(ct.c_double)
        qa = np.ascontiguousarray(qa, "d"); qb = np.ascontiguousarray(qb, "d"); qc = np.ascontiguousarray(qc, "d")
        out = np.empty(len(qa), "d")
        v, p = self.pvec(pars)
        self.lib.verif_iqabc_n(ct.c_int(len(qa)), qa.ctypes.data_as(dp), qb.ctypes.data_as(dp), qc.ctypes.data_as(dp), p, out.ctypes.data_as(dp))
        return out

    def iqac_n(self, qab, qc, pars):
        dp = ct.POINTER(ct.c_double)
        qab = np.ascontiguousarray(qab, "d"); qc = np.ascontiguousarray(qc, "d")
        out = np.empty(len(qab), "d")
        v, p = self.pvec(pars)
        self.lib.verif_iqac_n(ct.c_int(len(qab)), qab.ctypes.data_as(dp), qc.ctypes.data_as(dp), p, out.ctypes.data_as(dp))
        return out


def _defined(src):
    import re
    return set(re.findall(r"\b(Iqabc|Iqac|Iqxy|Fq|Iq|form_volume)\s*\(", src))
