"""C08 — sum and product mixtures equal the stated combination of their parts."""
from __future__ import annotations

import random

import numpy as np

from . import common, sas, c01, c11
from .common import Finding, fhex, flist, cbool, coq_list

REL_TOL = 1e-11

QUICK_EXPRS = [
    "sphere+cylinder", "line*power_law", "power_law*line", "sphere*hardsphere",
    "sphere@hardsphere+cylinder", "line*power_law+sphere", "core_multi_shell+sphere",
    "sphere+cylinder+ellipsoid", "guinier*sphere*line", "ellipsoid+line*sphere",
    "cylinder*sphere", "sphere+sphere", "lorentz+power_law+line+guinier",
    "core_shell_sphere@hayter_msa*line", "onion+sphere", "porod*sphere+line",
]
THOROUGH_EXTRA = [
    "cylinder@hardsphere+sphere@squarewell", "parallelepiped+ellipsoid", "vesicle*power_law",
    "core_shell_cylinder+core_shell_sphere+sphere", "fuzzy_sphere*line+guinier",
    "barbell+capped_cylinder", "hollow_cylinder@stickyhardsphere+line", "triaxial_ellipsoid*guinier",
    "sphere+line*power_law*guinier", "dab+two_lorentzian", "mass_fractal+surface_fractal*line",
    "ellipsoid*cylinder+sphere*guinier", "stacked_disks+lamellar", "sphere*line+porod*cylinder", "porod+sphere*porod",
]


def split_top(expr):
    if "+" in expr:
        return "+", expr.split("+")
    if "*" in expr:
        return "*", expr.split("*")
    raise ValueError(expr)


def expanded(info):
    p = info.parameters
    return p.call_parameters[2:2 + p.npars]


def name_maps(cinfo, op, part_infos):
    """For each part: (scale_name | None, {combined name -> part name})."""
    cpars = expanded(cinfo)
    i = 0
    maps = []
    for pi in part_infos:
        scale_name = None
        if op == "+":
            scale_name = cpars[i].name
            i += 1
        pp = expanded(pi)
        m = {}
        for a, b in zip(cpars[i:i + len(pp)], pp):
            m[a.name] = b.name
        i += len(pp)
        maps.append((scale_name, m))
    assert i == len(cpars), (i, len(cpars))
    return maps


def gen_pars(cinfo, rng, dim, zero_part=None):
    pars = c01.base_pars(cinfo, rng)
    for p in expanded(cinfo):
        if p.name.endswith("scale") and p.name not in pars:
            pars[p.name] = 1.0
        if p.name.endswith("_scale") or p.name == "scale":
            # per-part scales range over the reals: unit, fractional, zero (switched off) and negative (a subtracted term)
            pars[p.name] = rng.choice([1.0, rng.uniform(0.1, 3), 0.0 if rng.random() < 0.1 else 0.7, -rng.uniform(0.1, 2)])
        if p.name.endswith("radius_effective_mode") or p.name.endswith("structure_factor_mode"):
            pars[p.name] = float(p.default)
        if "volfraction" in p.name:
            pars[p.name] = rng.uniform(0.05, 0.3)
    pars["scale"] = rng.choice([1.0, rng.uniform(0.1, 3)])
    pars["background"] = rng.choice([0.0, rng.uniform(0.001, 1)])
    # dispersity on up to three parameters anywhere in the expression
    pdn = list(cinfo.parameters.pd_2d if dim == "2d" else cinfo.parameters.pd_1d)
    byname = {p.name: p for p in cinfo.parameters.call_parameters}
    for name in rng.sample(pdn, min(len(pdn), rng.choice([0, 1, 2, 3]))):
        p = byname[name]
        if p.type == "orientation":
            pars[name + "_pd"] = rng.uniform(2, 20)
            pars[name + "_pd_type"] = rng.choice(["gaussian", "uniform"])
        else:
            pars[name + "_pd"] = rng.uniform(0.05, 0.3)
            pars[name + "_pd_type"] = rng.choice(["gaussian", "schulz", "lognormal", "rectangle"])
        pars[name + "_pd_n"] = rng.randint(2, 6)
        pars[name + "_pd_nsigma"] = 3.0
    # magnetism in 2-D on one sld
    if dim == "2d" and rng.random() < 0.5:
        slds = [p.name for p in cinfo.parameters.call_parameters if p.name.endswith("_M0")]
        if slds:
            m0 = rng.choice(slds)
            pars[m0] = rng.uniform(0.5, 5)
            pars[m0[:-3] + "_mtheta"] = rng.uniform(-80, 80)
            pars[m0[:-3] + "_mphi"] = rng.uniform(-170, 170)
            pars["up_frac_i"] = rng.choice([0.0, 0.3, 1.0])
            pars["up_frac_f"] = rng.choice([0.0, 0.6, 1.0])
            pars["up_theta"] = rng.uniform(0, 180)
            pars["up_phi"] = rng.uniform(0, 180)
    return pars


def part_pars(pars, mapping, pinfo):
    out = {"scale": 1.0, "background": 0.0}
    known = {p.name for p in pinfo.parameters.call_parameters}
    for cname, pname in mapping.items():
        for suffix in ("", "_pd", "_pd_n", "_pd_nsigma", "_pd_type", "_M0", "_mtheta", "_mphi"):
            if cname + suffix in pars:
                if suffix in ("_M0", "_mtheta", "_mphi") and pname + suffix not in known:
                    continue
                out[pname + suffix] = pars[cname + suffix]
    for k in ("up_frac_i", "up_frac_f", "up_theta", "up_phi"):
        if k in pars and k in known:
            out[k] = pars[k]
    # The mixture selects the polarised kernel for every component as soon as
    # any component is magnetic; a component evaluated alone with all
    # magnitudes zero would silently drop the spin state.  Keep the component
    # in the same polarisation state with a negligible magnitude.
    if any(k.endswith("_M0") and v != 0 for k, v in pars.items()):
        m0s = [p.name for p in pinfo.parameters.call_parameters if p.name.endswith("_M0")]
        if m0s and not any(out.get(n, 0.0) != 0 for n in m0s):
            out[m0s[0]] = 1e-200
    return out


def main(run):
    from sasmodels.core import load_model_info, build_model
    from sasmodels.direct_model import call_kernel
    rng = random.Random(run.seed * 104729 + 8)
    thorough = run.tier == "thorough"
    run.prove(["C08/Property.v"])
    exprs = QUICK_EXPRS + (THOROUGH_EXTRA if thorough else [])
    nrep = 3 if not thorough else 12
    cases, metas = [], []
    stats = dict(expressions=len(exprs), ops={"+": 0, "*": 0}, parts={}, with_zero_component=0, dims={"1d": 0, "2d": 0},
                 with_dispersity=0, magnetic=0)
    evals, distinct = 0, set()
    for expr in exprs:
        op, part_exprs = split_top(expr)
        cinfo = load_model_info(expr)
        part_infos = [load_model_info(e) for e in part_exprs]
        maps = name_maps(cinfo, op, part_infos)
        cmodel = build_model(cinfo, dtype="double", platform="dll")
        pmodels = [build_model(pi, dtype="double", platform="dll") for pi in part_infos]
        oriented = any(p.type == "orientation" for p in cinfo.parameters.call_parameters)
        has_mag = sum(1 for p in cinfo.parameters.call_parameters if p.name.endswith("_M0")) >= 1
        def has_python(m):
            return type(m).__name__ == "PyModel" or any(has_python(x) for x in getattr(m, "parts", []) or [])
        no_mag = any(has_python(pm) for pm in pmodels)   # pure-Python components refuse magnetic evaluation (NotImplementedError)
        if no_mag:
            has_mag = False
        for rep in range(nrep + (1 if has_mag else 0)):
            allmag = has_mag and rep == nrep       # every magnetic SLD of every component switched on, 2-D
            dim = "2d" if (allmag or (oriented and rep % 3 == 2)) else "1d"
            if dim == "1d":
                q = [np.array([0.01, 0.05, 0.1, rng.uniform(0.001, 0.3)])]
            else:
                q = [np.array([0.03, -0.05, rng.uniform(-0.2, 0.2)]), np.array([0.04, 0.05, rng.uniform(-0.2, 0.2)])]
            pars = gen_pars(cinfo, rng, dim)
            if no_mag:
                pars = {k: v for k, v in pars.items() if not (k.endswith("_M0") or k.endswith("_mtheta") or k.endswith("_mphi") or k.startswith("up_"))}
            if allmag:
                for p in cinfo.parameters.call_parameters:
                    if p.name.endswith("_M0"):
                        pars[p.name] = rng.uniform(0.5, 6)
                        pars[p.name[:-3] + "_mtheta"] = rng.uniform(-80, 80)
                        pars[p.name[:-3] + "_mphi"] = rng.uniform(-170, 170)
                pars.update(up_frac_i=rng.choice([0.0, 0.3, 1.0]), up_frac_f=rng.choice([0.0, 0.6, 1.0]),
                            up_theta=rng.uniform(0, 180), up_phi=rng.uniform(0, 180))
            # make some component exactly zero on the grid: a line with a root at q=0.05
            zero = False
            for (sn, m), pe in zip(maps, part_exprs):
                if pe == "line" and rng.random() < 0.7:
                    inv = {v: k for k, v in m.items()}
                    pars[inv["intercept"]] = 0.05
                    pars[inv["slope"]] = -1.0
                    zero = True
            evals += 1
            ck = cmodel.make_kernel(q)
            try:
                mix = np.asarray(call_kernel(ck, dict(pars), cutoff=1e-5), "d")
            finally:
                ck.release()
            # the same kernel object evaluated again after one-field edits (overall scale, another component's angle
            # or dispersity, ...): each evaluation must equal the one a kernel of its own gives
            seq, badseq = c11.reuse_sequence(cmodel, q, pars, 1e-5, rng, cinfo)
            evals += len(seq); stats["reuse_evaluations"] = stats.get("reuse_evaluations", 0) + len(seq)
            for i, r, g_, f_ in badseq[:1]:
                run.add(Finding("C08:reuse:%s" % expr, "%s: evaluation %d on a reused kernel (after edits %s) returns %s, a fresh kernel %s" % (
                    expr, i, [x.get("edit") for x in seq[1:i + 1]], np.asarray(g_).tolist() if not isinstance(g_, str) else g_,
                    np.asarray(f_).tolist() if not isinstance(f_, str) else f_), dict(expr=expr, dim=dim, sequence=seq[:i + 1])))
            parts_out, pscales = [], []
            for (sn, m), pi, pm in zip(maps, part_infos, pmodels):
                pk = pm.make_kernel(q)
                try:
                    r = np.asarray(call_kernel(pk, part_pars(pars, m, pi), cutoff=1e-5), "d")
                finally:
                    pk.release()
                parts_out.append([float(x) for x in r])
                pscales.append(float(pars.get(sn, 1.0)) if sn else 1.0)
            if zero and any(any(x == 0.0 for x in r) for r in parts_out):
                stats["with_zero_component"] += 1
            stats["ops"][op] += 1
            stats["parts"][len(part_exprs)] = stats["parts"].get(len(part_exprs), 0) + 1
            stats["dims"][dim] += 1
            if any(k.endswith("_pd_n") for k in pars):
                stats["with_dispersity"] += 1
            if any(k.endswith("_M0") and v != 0 for k, v in pars.items()):
                stats["magnetic"] += 1
            # model-free oracle
            pa = np.array(parts_out) * np.array(pscales)[:, None]
            comb = pa.sum(axis=0) if op == "+" else pa.prod(axis=0)
            oracle = pars["scale"] * comb + pars["background"]
            sc = abs(pars["scale"]) * (np.abs(pa).sum(axis=0) if op == "+" else np.abs(pa).prod(axis=0)) + abs(pars["background"])
            desc = dict(expr=expr, dim=dim, pars=pars, q=[list(map(float, v)) for v in q],
                        parts=parts_out, part_scales=pscales, mixture=list(map(float, mix)), formula=list(map(float, oracle)))
            bad = [j for j in range(len(mix)) if not (abs(mix[j] - oracle[j]) <= 1e-9 * sc[j] + 1e-300)
                   and not (np.isnan(mix[j]) and np.isnan(oracle[j]))]
            if np.isnan(mix).any():
                stats["nan_results_skipped"] = stats.get("nan_results_skipped", 0) + 1
                if not bad:
                    continue
            if bad:
                kind = "zero" if (op == "*" and any(any(x == 0.0 for x in r) for r in parts_out)) else "value"
                run.add(Finding("C08:%s:%s" % (kind, expr),
                                "%s %s: mixture %.17g, formula %.17g at q index %d" % (expr, dim, mix[bad[0]], oracle[bad[0]], bad[0]), desc))
                continue
            distinct.add((expr, dim, tuple(sorted(k for k in pars if "_pd" in k)), zero))
            cases.append(dict(sum=(op == "+"), scale=pars["scale"], bg=pars["background"], pscales=pscales,
                              parts=parts_out, expect=[float(x) for x in mix]))
            metas.append(desc)
            run.sample(dict(expr=expr, dim=dim, part_scales=pscales, zero_component=zero))
    traces = 0
    if cases:
        body = ";\n".join("(MkCase %s %s %s %s %s %s)" % (
            cbool(c["sum"]), fhex(c["scale"]), fhex(c["bg"]), flist(c["pscales"]),
            coq_list([flist(r) for r in c["parts"]], "(list float)"), flist(c["expect"])) for c in cases)
        text = ("From Coq Require Import List PrimFloat.\nImport ListNotations.\n"
                "From SM Require Import Base.Num C08.Model C08.Exec.\n"
                "Definition cases : list Case := [\n%s\n].\nEval vm_compute in (check_cases %s cases).\n" % (body, fhex(REL_TOL)))
        rc, vals, err = common.run_coq_shards([text], run.scratch.sub("coq"), prefix="c08")[0]
        if rc != 0 or not vals:
            run.add(Finding("corr:C08:coq", "correspondence shard failed: %s" % err[-400:],
                            {"correspondence": "C08.Exec.check_cases", "stderr": err[-2000:]}, no_input=True))
        else:
            for m, codes in zip(metas, vals[0]):
                traces += 1
                if codes:
                    run.add(Finding("C08:corr:%s" % m["expr"], "%s: mixture output differs from the Coq combination at q indices %s" % (m["expr"], codes), m))
    run.coverage.update(evaluations=evals, distinct_nontrivial=len(distinct), traces_validated_against_impl=traces,
                        input_distribution=stats)
    run.assumptions += ["each component is evaluated alone through call_kernel with scale 1, background 0 and its parameters mapped by position in the combined table",
                        "tolerance %g relative to the sum/product of absolute terms" % REL_TOL]
    run.finish_args = dict(level="proof",
                           rule="model expressions with 2-4 components (sums, products, nested P@S, vector-parameter components), random parameters, dispersity on up to 3 parameters, magnetism in 2-D, line components with a root on the q grid; distinct = distinct (expression, dim, dispersed set, zero-flag)",
                           trusted=["harness/c08.py (positional parameter mapping, case generation)"])
