"""C08 — sum and product mixtures equal the stated combination of their parts."""
from __future__ import annotations

import random

import numpy as np

from . import common, sas, c01, c11
from .common import Finding, fhex, flist, cbool, coq_list

REL_TOL = 1e-11

QUICK_EXPRS = [
    "sphere+cylinder", "line*power_law", "power_law*line", "sphere*hardsphere",
    "sphere@hardsphere+cylinder", "line*power_law+sphere", "core_multi_shell+sphere",
    "sphere+cylinder+ellipsoid", "guinier*sphere*line", "ellipsoid+line*sphere",
    "cylinder*sphere", "sphere+sphere", "lorentz+power_law+line+guinier",
    "core_shell_sphere@hayter_msa*line", "onion+sphere", "porod*sphere+line",
]
THOROUGH_EXTRA = [
    "cylinder@hardsphere+sphere@squarewell", "parallelepiped+ellipsoid", "vesicle*power_law",
    "core_shell_cylinder+core_shell_sphere+sphere", "fuzzy_sphere*line+guinier",
    "barbell+capped_cylinder", "hollow_cylinder@stickyhardsphere+line", "triaxial_ellipsoid*guinier",
    "sphere+line*power_law*guinier", "dab+two_lorentzian", "mass_fractal+surface_fractal*line",
    "ellipsoid*cylinder+sphere*guinier", "stacked_disks+lamellar", "sphere*line+porod*cylinder", "porod+sphere*porod",
]


def split_top(expr):
    if "+" in expr:
        return "+", expr.split("+")
    if "*" in expr:
        return "*", expr.split("*")
    raise ValueError(expr)


def expanded(info):
    p = info.parameters
    return p.call_parameters[2:2 + p.npars]


def name_maps(cinfo, op, part_infos):
    """For each part: (scale_name | None, {combined name -> part name})."""
    cpars = expanded(cinfo)
    i = 0
    maps = []
    for pi in part_infos:
        scale_name = None
        if op == "+":
            scale_name = cpars[i].name
            i += 1
        pp = expanded(pi)
        m = {}
        for a, b in zip(cpars[i:i + len(pp)], pp):
            m[a.name] = b.name
        i += len(pp)
        maps.append((scale_name, m))
    assert i == len(cpars), (i, len(cpars))
    return maps


def gen_pars(cinfo, rng, dim, zero_part=None):
    pars = c01.base_pars(cinfo, rng)
    for p in expanded(cinfo):
        if p.name.endswith("scale") and p.name not in pars:
            pars[p.name] = 1.0
        if p.name.endswith("_scale") or p.name == "scale":
            # per-part scales range over the reals: unit, fractional, zero (switched off) and negative (a subtracted term)
            pars[p.name] = rng.choice([1.0, rng.uniform(0.1, 3), 0.0 if rng.random() < 0.1 else 0.7, -rng.uniform(0.1, 2)])
        if p.name.endswith("radius_effective_mode") or p.name.endswith("structure_factor_mode"):
            pars[p.name] = float(p.default)
        if "volfraction" in p.name:
            pars[p.name] = rng.uniform(0.05, 0.3)
    pars["scale"] = rng.choice([1.0, rng.uniform(0.1, 3)])
    pars["background"] = rng.choice([0.0, rng.uniform(0.001, 1)])
    # dispersity on up to three parameters anywhere in the expression
    pdn = c01.dispersible(cinfo.parameters, dim)
    byname = {p.name: p for p in cinfo.parameters.call_parameters}
    for name in rng.sample(pdn, min(len(pdn), rng.choice([0, 1, 2, 3]))):
        p = byname[name]
        if p.type == "orientation":
            pars[name + "_pd"] = rng.uniform(2, 20)
            pars[name + "_pd_type"] = rng.choice(["gaussian", "uniform"])
        else:
            pars[name + "_pd"] = rng.uniform(0.05, 0.3)
            pars[name + "_pd_type"] = rng.choice(["gaussian", "schulz", "lognormal", "rectangle"])
        pars[name + "_pd_n"] = rng.randint(2, 6)
        pars[name + "_pd_nsigma"] = 3.0
    # magnetism in 2-D on one sld
    if dim == "2d" and rng.random() < 0.5:
        slds = [p.name for p in cinfo.parameters.call_parameters if p.name.endswith("_M0")]
        if slds:
            m0 = rng.choice(slds)
            pars[m0] = rng.uniform(0.5, 5)
            pars[m0[:-3] + "_mtheta"] = rng.uniform(-80, 80)
            pars[m0[:-3] + "_mphi"] = rng.uniform(-170, 170)
            pars["up_frac_i"] = rng.choice([0.0, 0.3, 1.0])
            pars["up_frac_f"] = rng.choice([0.0, 0.6, 1.0])
            pars["up_theta"] = rng.uniform(0, 180)
            pars["up_phi"] = rng.uniform(0, 180)
    return pars


def part_pars(pars, mapping, pinfo):
    out = {"scale": 1.0, "background": 0.0}
    known = {p.name for p in pinfo.parameters.call_parameters}
    for cname, pname in mapping.items():
        for suffix in ("", "_pd", "_pd_n", "_pd_nsigma", "_pd_type", "_M0", "_mtheta", "_mphi"):
            if cname + suffix in pars:
                if suffix in ("_M0", "_mtheta", "_mphi") and pname + suffix not in known:
                    continue
                out[pname + suffix] = pars[cname + suffix]
    for k in ("up_frac_i", "up_frac_f", "up_theta", "up_phi"):
        if k in pars and k in known:
            out[k] = pars[k]
    # The mixture selects the polarised kernel for every component as soon as
    # any component is magnetic; a component evaluated alone with all
    # magnitudes zero would silently drop the spin state.  Keep the component
    # in the same polarisation state with a negligible magnitude.
    if any(k.endswith("_M0") and v != 0 for k, v in pars.items()):
        m0s = [p.name for p in pinfo.parameters.call_parameters if p.name.endswith("_M0")]
        if m0s and not any(out.get(n, 0.0) != 0 for n in m0s):
            out[m0s[0]] = 1e-200
    return out



class Untranslatable(Exception):
    pass


def _translate_mixture_parts():
    """The integer arithmetic of mixture._MixtureParts (__init__, __iter__, __next__, _part_values, _part_details) of
    the current mixture.py, over Z.  Fail-closed Python-ast walk."""
    import ast, os
    import sasmodels.mixture as mix
    tree = ast.parse(open(os.path.join(common.REPO, "sasmodels", "mixture.py")).read())
    fns = {}
    for node in tree.body:
        if isinstance(node, ast.ClassDef) and node.name == "_MixtureParts":
            for it in node.body:
                if isinstance(it, ast.FunctionDef):
                    fns[it.name] = it
    for need in ("__init__", "__iter__", "__next__", "_part_values", "_part_details"):
        if need not in fns:
            raise Untranslatable("_MixtureParts.%s not found" % need)
    consts = {}
    for cname in ("NUM_COMMON_PARS", "NUM_MAGNETIC_PARS", "NUM_MAGFIELD_PARS"):
        v = getattr(mix, cname, None)
        if not isinstance(v, int):
            raise Untranslatable("constant %s" % cname)
        consts[cname] = v
    IS_SUM = "self.model_info.operation == '+'"

    def ex(e, env):
        txt = ast.unparse(e)
        if txt in env:
            return env[txt]
        if isinstance(e, ast.Constant) and isinstance(e.value, int) and not isinstance(e.value, bool):
            return "%d" % e.value
        if isinstance(e, ast.Name) and e.id in consts:
            return "%d" % consts[e.id]
        if isinstance(e, ast.BinOp) and type(e.op) in (ast.Add, ast.Sub, ast.Mult):
            op = {ast.Add: "+", ast.Sub: "-", ast.Mult: "*"}[type(e.op)]
            return "(%s %s %s)" % (ex(e.left, env), op, ex(e.right, env))
        if isinstance(e, ast.IfExp) and ast.unparse(e.test) == IS_SUM:
            return "(if sum then %s else %s)" % (ex(e.body, env), ex(e.orelse, env))
        raise Untranslatable("expression %s" % txt[:60])

    def body_of(fn):
        return [st for st in fn.body if not (isinstance(st, ast.Expr) and isinstance(st.value, ast.Constant))]

    # __init__: spin_index
    spin = None
    for st in body_of(fns["__init__"]):
        if isinstance(st, ast.Assign) and ast.unparse(st.targets[0]) == "self.spin_index":
            spin = ex(st.value, {"model_info.parameters.npars": "total_npars"})
    if spin is None:
        raise Untranslatable("spin_index not assigned in __init__")
    # __iter__
    init = {}
    for st in body_of(fns["__iter__"]):
        t = ast.unparse(st)
        if t in ("self.part_num = 0", "return self"):
            continue
        if isinstance(st, ast.Assign) and ast.unparse(st.targets[0]) in ("self.par_index", "self.mag_index"):
            init[ast.unparse(st.targets[0])] = ex(st.value, {"self.spin_index": "spin_index"})
            continue
        raise Untranslatable("__iter__: %s" % t[:60])
    if set(init) != {"self.par_index", "self.mag_index"}:
        raise Untranslatable("__iter__ does not set par_index and mag_index")
    # __next__
    env = {"self.par_index": "par_index", "self.mag_index": "mag_index", "info.parameters.npars": "npars",
           "len(info.parameters.magnetism_index)": "nmag"}
    cur = {"self.par_index": "par_index", "self.mag_index": "mag_index"}
    skip = {"info = self.parts[self.part_num]", "kernel = self.kernels[self.part_num]",
            "call_details = self._part_details(info, self.par_index)",
            "values = self._part_values(info, self.par_index, self.mag_index)", "values = values.astype(kernel.dtype)",
            "self.part_num += 1", "return (kernel, call_details, values)", "return kernel, call_details, values"}
    seen_calls = False
    def aug(st):
        tgt = ast.unparse(st.target)
        if tgt not in cur or not isinstance(st.op, ast.Add):
            raise Untranslatable("__next__: %s" % ast.unparse(st)[:60])
        cur[tgt] = "(%s + %s)" % (cur[tgt], ex(st.value, env))
    for st in body_of(fns["__next__"]):
        t = ast.unparse(st)
        if t.startswith("if self.part_num >= len(self.parts)"):
            continue
        if t in skip:
            if t.startswith("values = self._part_values") or t.startswith("call_details = self._part_details"):
                if cur != {"self.par_index": "par_index", "self.mag_index": "mag_index"}:
                    raise Untranslatable("the indices are advanced before the part is built")
                seen_calls = True
            continue
        if isinstance(st, ast.AugAssign):
            aug(st); continue
        if isinstance(st, ast.If) and ast.unparse(st.test) == IS_SUM and not st.orelse and all(isinstance(x, ast.AugAssign) for x in st.body):
            before = dict(cur)
            for x in st.body:
                aug(x)
            for k in cur:
                if cur[k] != before[k]:
                    cur[k] = "(if sum then %s else %s)" % (cur[k], before[k])
            continue
        raise Untranslatable("__next__: %s" % t[:60])
    if not seen_calls:
        raise Untranslatable("__next__ does not build the part")
    # _part_values
    envv = {"par_index": "par_index", "mag_index": "mag_index", "info.parameters.npars": "npars", "self.spin_index": "spin_index",
            "len(info.parameters.magnetism_index)": "nmag", "self.model_info.parameters.nvalues": "nvalues",
            "self.call_details.num_weights": "nweights"}
    out = {}
    def sl(e):     # self.values[a:b]
        if not (isinstance(e, ast.Subscript) and ast.unparse(e.value) == "self.values" and isinstance(e.slice, ast.Slice)):
            raise Untranslatable("slice %s" % ast.unparse(e)[:60])
        return ex(e.slice.lower, envv), ex(e.slice.upper, envv)
    order = None
    for st in body_of(fns["_part_values"]):
        t = ast.unparse(st)
        if isinstance(st, ast.Assign) and len(st.targets) == 1 and isinstance(st.targets[0], ast.Name):
            nm, v = st.targets[0].id, st.value
            if nm == "scale":
                if not (isinstance(v, ast.IfExp) and ast.unparse(v.test) == IS_SUM and ast.unparse(v.body).startswith("self.values[") and ast.unparse(v.orelse) == "1.0"):
                    raise Untranslatable("scale: %s" % t[:80])
                out["scale_index"] = ex(v.body.slice, envv)
            elif nm == "pars":
                out["pars"] = sl(v)
            elif nm == "weights":
                out["weights"] = sl(v)
            elif nm in ("diff", "nmagnetic", "nvalues", "nweights"):
                envv[nm] = ex(v, envv)
            elif nm == "zero" or nm == "spacer":
                continue
            elif nm == "values":
                if isinstance(v, ast.List):
                    order = t
                continue
            else:
                raise Untranslatable("_part_values: %s" % t[:60])
            continue
        if isinstance(st, ast.If) and ast.unparse(st.test) == "nmagnetic":
            th = {ast.unparse(x.targets[0]): x.value for x in st.body if isinstance(x, ast.Assign)}
            el = {ast.unparse(x.targets[0]): ast.unparse(x.value) for x in st.orelse if isinstance(x, ast.Assign)}
            if set(th) != {"spin_state", "mag_index"} or el != {"spin_state": "[]", "mag_index": "[]"}:
                raise Untranslatable("magnetic branch: %s" % t[:100])
            out["spin"] = sl(th["spin_state"]); out["mag"] = sl(th["mag_index"])
            continue
        if t.startswith("values.append(") or t == "return values":
            continue
        raise Untranslatable("_part_values: %s" % t[:60])
    if order != "values = [[scale, zero], pars, spin_state, mag_index, weights]":
        raise Untranslatable("order of the part's value vector: %s" % order)
    for k in ("scale_index", "pars", "spin", "mag", "weights"):
        if k not in out:
            raise Untranslatable("%s not found in _part_values" % k)
    # _part_details
    envd = {"par_index": "par_index", "info.parameters.npars": "npars"}
    det = None
    for st in body_of(fns["_part_details"]):
        t = ast.unparse(st)
        if isinstance(st, ast.Assign) and len(st.targets) == 1 and isinstance(st.targets[0], ast.Name):
            nm, v = st.targets[0].id, st.value
            if nm == "diff":
                envd["diff"] = ex(v, envd)
            elif nm == "index":
                if not (isinstance(v, ast.Call) and ast.unparse(v.func) == "slice" and len(v.args) == 2):
                    raise Untranslatable("index: %s" % t[:60])
                det = (ex(v.args[0], envd), ex(v.args[1], envd))
            elif nm in ("full", "length", "offset", "part"):
                if nm in ("length", "offset") and ast.unparse(v) != "full.%s[index]" % nm:
                    raise Untranslatable("_part_details: %s" % t[:60])
                continue
            else:
                raise Untranslatable("_part_details: %s" % t[:60])
            continue
        if t == "return part":
            continue
        raise Untranslatable("_part_details: %s" % t[:60])
    if det is None:
        raise Untranslatable("no index slice in _part_details")
    return dict(spin=spin, init=(init["self.par_index"], init["self.mag_index"]), adv=(cur["self.par_index"], cur["self.mag_index"]),
                slices=[out["scale_index"], out["pars"][0], out["pars"][1], out["spin"][0], out["spin"][1], out["mag"][0], out["mag"][1],
                        out["weights"][0], out["weights"][1], det[0], det[1]])


def gen():
    """Regenerate Gen/C08_code.v from the text of mixture.py (_MixtureParts)."""
    import os
    lines = ["(* GENERATED by harness/c08.py from sasmodels/mixture.py: the index arithmetic of _MixtureParts over Z.",
             "   code_slices: scale index, pars [lo,hi), spin state [lo,hi), magnetic triples [lo,hi), weights [lo,hi), lengths/offsets rows [lo,hi) *)",
             "From Coq Require Import ZArith List Bool.", "Import ListNotations.", "Local Open Scope Z_scope.", ""]
    note = None
    try:
        t = _translate_mixture_parts()
    except (Untranslatable, OSError, SyntaxError, AttributeError, KeyError) as exc:
        note = "%s: %s" % (type(exc).__name__, exc)
        t = None
    lines.append("Definition translated : bool := %s." % ("true" if note is None else "false"))
    if note:
        lines.append("(* not translated: %s *)" % note.replace("*)", "* )"))
    lines.append("")
    if t is None:
        lines += ["Definition code_spin_index (total_npars : Z) : Z := 0.",
                  "Definition code_init (spin_index : Z) : Z * Z := (0, 0).",
                  "Definition code_advance (sum : bool) (par_index mag_index npars nmag : Z) : Z * Z := (0, 0).",
                  "Definition code_slices (sum : bool) (spin_index par_index mag_index npars nmag nvalues nweights : Z) : list Z := @nil Z.", ""]
    else:
        lines += ["Definition code_spin_index (total_npars : Z) : Z := %s." % t["spin"],
                  "Definition code_init (spin_index : Z) : Z * Z := (%s, %s)." % t["init"],
                  "Definition code_advance (sum : bool) (par_index mag_index npars nmag : Z) : Z * Z :=\n  (%s,\n   %s)." % t["adv"],
                  "Definition code_slices (sum : bool) (spin_index par_index mag_index npars nmag nvalues nweights : Z) : list Z :=\n  [ " + ";\n    ".join(t["slices"]) + " ].", ""]
    common.write_if_changed(os.path.join(common.THEORIES, "Gen", "C08_code.v"), "\n".join(lines))
    return note


def main(run):
    from sasmodels.core import load_model_info, build_model
    from sasmodels.direct_model import call_kernel
    rng = random.Random(run.seed * 104729 + 8)
    thorough = run.tier == "thorough"
    note = []
    run.prove(["C08/Property.v"], gen=lambda: note.append(gen()))
    if note and note[0]:
        run.notes.append("_MixtureParts not translated (%s): the source-text obligations C08_code_* are vacuous in this run, the behavioural tie decides" % note[0])
    else:
        run.notes.append("the index arithmetic of mixture._MixtureParts translated from the current mixture.py (Gen/C08_code.v) and proved equal to the model (C08_code_iterator, C08_code_slices)")
    exprs = QUICK_EXPRS + (THOROUGH_EXTRA if thorough else [])
    nrep = 3 if not thorough else 12
    cases, metas = [], []
    stats = dict(expressions=len(exprs), ops={"+": 0, "*": 0}, parts={}, with_zero_component=0, dims={"1d": 0, "2d": 0},
                 with_dispersity=0, magnetic=0)
    evals, distinct = 0, set()
    evals_box = [0]
    for expr in exprs:
        try:
            _one_expression(run, expr, rng, thorough, nrep, cases, metas, stats, distinct, evals_box)
        except Exception as exc:  # noqa  (an expression that cannot even be evaluated is a finding with that expression as input)
            import traceback
            run.add(Finding("C08:error:%s" % expr, "%s: evaluating the mixture and its parts raised %s: %s" % (expr, type(exc).__name__, exc),
                            dict(expr=expr, traceback=traceback.format_exc()[-1500:])))
    evals = evals_box[0]
    _finish(run, cases, metas, stats, distinct, evals)


def _one_expression(run, expr, rng, thorough, nrep, cases, metas, stats, distinct, evals_box):
    from sasmodels.core import load_model_info, build_model
    from sasmodels.direct_model import call_kernel
    evals = 0
    if True:
        op, part_exprs = split_top(expr)
        cinfo = load_model_info(expr)
        part_infos = [load_model_info(e) for e in part_exprs]
        maps = name_maps(cinfo, op, part_infos)
        cmodel = build_model(cinfo, dtype="double", platform="dll")
        pmodels = [build_model(pi, dtype="double", platform="dll") for pi in part_infos]
        oriented = any(p.type == "orientation" for p in cinfo.parameters.call_parameters)
        has_mag = sum(1 for p in cinfo.parameters.call_parameters if p.name.endswith("_M0")) >= 1
        def has_python(m):
            return type(m).__name__ == "PyModel" or any(has_python(x) for x in getattr(m, "parts", []) or [])
        no_mag = any(has_python(pm) for pm in pmodels)   # pure-Python components refuse magnetic evaluation (NotImplementedError)
        if no_mag:
            has_mag = False
        for rep in range(nrep + (2 if has_mag else 0)):
            allmag = has_mag and rep >= nrep       # every magnetic SLD of every component switched on, 2-D
            beam_mag = has_mag and rep == nrep + 1  # ... all of them along the beam (mtheta = 0, the default latitude), partly polarised beam
            # (every expression is also evaluated on 2-D data, oriented or not: a component may define a 2-D function of
            #  its own that is not a function of |q| - `line` does)
            dim = "2d" if (allmag or rep % 3 == 2) else "1d"
            if dim == "1d":
                q = [np.array([0.01, 0.05, 0.1, rng.uniform(0.001, 0.3)])]
            else:
                q = [np.array([0.03, -0.05, rng.uniform(-0.2, 0.2)]), np.array([0.04, 0.05, rng.uniform(-0.2, 0.2)])]
            pars = gen_pars(cinfo, rng, dim)
            if no_mag:
                pars = {k: v for k, v in pars.items() if not (k.endswith("_M0") or k.endswith("_mtheta") or k.endswith("_mphi") or k.startswith("up_"))}
            if allmag:
                for p in cinfo.parameters.call_parameters:
                    if p.name.endswith("_M0"):
                        pars[p.name] = rng.uniform(0.5, 6)
                        pars[p.name[:-3] + "_mtheta"] = rng.uniform(-80, 80)
                        pars[p.name[:-3] + "_mphi"] = rng.uniform(-170, 170)
                pars.update(up_frac_i=rng.choice([0.0, 0.3, 1.0]), up_frac_f=rng.choice([0.0, 0.6, 1.0]),
                            up_theta=rng.uniform(0, 180), up_phi=rng.uniform(0, 180))
                if beam_mag:
                    for p in cinfo.parameters.call_parameters:
                        if p.name.endswith("_M0"):
                            pars[p.name[:-3] + "_mtheta"] = 0.0
                            pars[p.name[:-3] + "_mphi"] = 0.0
                    pars.update(up_frac_i=0.3, up_frac_f=0.6, up_theta=rng.uniform(20, 70))
                    stats["magnetised_along_beam"] = stats.get("magnetised_along_beam", 0) + 1
            # make some component exactly zero on the grid: a line with a root at q=0.05
            zero = False
            for (sn, m), pe in zip(maps, part_exprs):
                if pe == "line" and rng.random() < 0.7:
                    inv = {v: k for k, v in m.items()}
                    pars[inv["intercept"]] = 0.05
                    pars[inv["slope"]] = -1.0
                    zero = True
            evals += 1
            ck = cmodel.make_kernel(q)
            try:
                mix = np.asarray(call_kernel(ck, dict(pars), cutoff=1e-5), "d")
            finally:
                ck.release()
            # the same kernel object evaluated again after one-field edits (overall scale, another component's angle
            # or dispersity, ...): each evaluation must equal the one a kernel of its own gives
            seq, badseq = c11.reuse_sequence(cmodel, q, pars, 1e-5, rng, cinfo)
            evals += len(seq); stats["reuse_evaluations"] = stats.get("reuse_evaluations", 0) + len(seq)
            for i, r, g_, f_ in badseq[:1]:
                run.add(Finding("C08:reuse:%s" % expr, "%s: evaluation %d on a reused kernel (after edits %s) returns %s, a fresh kernel %s" % (
                    expr, i, [x.get("edit") for x in seq[1:i + 1]], np.asarray(g_).tolist() if not isinstance(g_, str) else g_,
                    np.asarray(f_).tolist() if not isinstance(f_, str) else f_), dict(expr=expr, dim=dim, sequence=seq[:i + 1])))
            parts_out, pscales = [], []
            for (sn, m), pi, pm in zip(maps, part_infos, pmodels):
                pk = pm.make_kernel(q)
                try:
                    r = np.asarray(call_kernel(pk, part_pars(pars, m, pi), cutoff=1e-5), "d")
                finally:
                    pk.release()
                parts_out.append([float(x) for x in r])
                pscales.append(float(pars.get(sn, 1.0)) if sn else 1.0)
            if zero and any(any(x == 0.0 for x in r) for r in parts_out):
                stats["with_zero_component"] += 1
            stats["ops"][op] += 1
            stats["parts"][len(part_exprs)] = stats["parts"].get(len(part_exprs), 0) + 1
            stats["dims"][dim] += 1
            if any(k.endswith("_pd_n") for k in pars):
                stats["with_dispersity"] += 1
            if any(k.endswith("_M0") and v != 0 for k, v in pars.items()):
                stats["magnetic"] += 1
            # model-free oracle
            pa = np.array(parts_out) * np.array(pscales)[:, None]
            comb = pa.sum(axis=0) if op == "+" else pa.prod(axis=0)
            oracle = pars["scale"] * comb + pars["background"]
            sc = abs(pars["scale"]) * (np.abs(pa).sum(axis=0) if op == "+" else np.abs(pa).prod(axis=0)) + abs(pars["background"])
            desc = dict(expr=expr, dim=dim, pars=pars, q=[list(map(float, v)) for v in q],
                        parts=parts_out, part_scales=pscales, mixture=list(map(float, mix)), formula=list(map(float, oracle)))
            bad = [j for j in range(len(mix)) if not (abs(mix[j] - oracle[j]) <= 1e-9 * sc[j] + 1e-300)
                   and not (np.isnan(mix[j]) and np.isnan(oracle[j]))]
            if np.isnan(mix).any():
                stats["nan_results_skipped"] = stats.get("nan_results_skipped", 0) + 1
                if not bad:
                    continue
            if bad:
                kind = "zero" if (op == "*" and any(any(x == 0.0 for x in r) for r in parts_out)) else "value"
                run.add(Finding("C08:%s:%s" % (kind, expr),
                                "%s %s: mixture %.17g, formula %.17g at q index %d" % (expr, dim, mix[bad[0]], oracle[bad[0]], bad[0]), desc))
                continue
            distinct.add((expr, dim, tuple(sorted(k for k in pars if "_pd" in k)), zero))
            cases.append(dict(sum=(op == "+"), scale=pars["scale"], bg=pars["background"], pscales=pscales,
                              parts=parts_out, expect=[float(x) for x in mix]))
            metas.append(desc)
            run.sample(dict(expr=expr, dim=dim, part_scales=pscales, zero_component=zero))
    evals_box[0] += evals


def _finish(run, cases, metas, stats, distinct, evals):
    traces = 0
    if cases:
        body = ";\n".join("(MkCase %s %s %s %s %s %s)" % (
            cbool(c["sum"]), fhex(c["scale"]), fhex(c["bg"]), flist(c["pscales"]),
            coq_list([flist(r) for r in c["parts"]], "(list float)"), flist(c["expect"])) for c in cases)
        text = ("From Coq Require Import List PrimFloat.\nImport ListNotations.\n"
                "From SM Require Import Base.Num C08.Model C08.Exec.\n"
                "Definition cases : list Case := [\n%s\n].\nEval vm_compute in (check_cases %s cases).\n" % (body, fhex(REL_TOL)))
        rc, vals, err = common.run_coq_shards([text], run.scratch.sub("coq"), prefix="c08")[0]
        if rc != 0 or not vals:
            run.add(Finding("corr:C08:coq", "correspondence shard failed: %s" % err[-400:],
                            {"correspondence": "C08.Exec.check_cases", "stderr": err[-2000:]}, no_input=True))
        else:
            for m, codes in zip(metas, vals[0]):
                traces += 1
                if codes:
                    run.add(Finding("C08:corr:%s" % m["expr"], "%s: mixture output differs from the Coq combination at q indices %s" % (m["expr"], codes), m))
    run.coverage.update(evaluations=evals, distinct_nontrivial=len(distinct), traces_validated_against_impl=traces,
                        input_distribution=stats)
    run.assumptions += ["each component is evaluated alone through call_kernel with scale 1, background 0 and its parameters mapped by position in the combined table",
                        "tolerance %g relative to the sum/product of absolute terms" % REL_TOL]
    run.finish_args = dict(level="proof",
                           rule="model expressions with 2-4 components (sums, products, nested P@S, vector-parameter components), random parameters, dispersity on up to 3 parameters, magnetism in 2-D, line components with a root on the q grid; distinct = distinct (expression, dim, dispersed set, zero-flag)",
                           trusted=["harness/c08.py (positional parameter mapping, case generation)"])
