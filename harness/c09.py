"""C09 — pure-Python and compiled-C executions of one model definition agree; ill-formed definitions are rejected."""
from __future__ import annotations

import itertools
import math
import os
import random

import numpy as np

from . import common, sas
from .common import Finding, fhex, flist, nlist, coq_list, cbool

REL_TOL = 1e-11
UNIT = 4            # validator cases use multiples of 0.25


# ---------------------------------------------------------------- expression trees (printable as C and as Python)
def gen_expr(rng, names, depth, cond_names=None):
    if depth == 0 or rng.random() < 0.25:
        if names and rng.random() < 0.7:
            return ("var", rng.choice(names))
        return ("num", rng.choice([0.5, 2.0, 3.0, 1.25, 0.1]))
    k = rng.random()
    if k < 0.55:
        return (rng.choice(["+", "-", "*"]), gen_expr(rng, names, depth - 1, cond_names), gen_expr(rng, names, depth - 1, cond_names))
    if k < 0.75:
        return ("sdiv", gen_expr(rng, names, depth - 1, cond_names), gen_expr(rng, names, depth - 1, cond_names))
    if k < 0.87:
        return ("sqrtabs", gen_expr(rng, names, depth - 1, cond_names))
    if cond_names:
        return ("cond", ("var", rng.choice(cond_names)), rng.choice([1.0, 7.5, 20.0]), gen_expr(rng, names, depth - 1, cond_names), gen_expr(rng, names, depth - 1, cond_names))
    return ("neg", gen_expr(rng, names, depth - 1, cond_names))


def pos_expr(rng, names, depth):
    """an expression that is positive for positive arguments"""
    if depth == 0 or not names or rng.random() < 0.3:
        return ("var", rng.choice(names)) if names and rng.random() < 0.8 else ("num", rng.choice([0.5, 1.0, 2.0]))
    return (rng.choice(["+", "*"]), pos_expr(rng, names, depth - 1), pos_expr(rng, names, depth - 1))


def show(e, py):
    k = e[0]
    if k == "var":
        return e[1]
    if k == "num":
        return repr(float(e[1]))
    if k in "+-*":
        return "(%s %s %s)" % (show(e[1], py), k, show(e[2], py))
    if k == "sdiv":
        b = show(e[2], py)
        return "(%s / (1.0 + %s*%s))" % (show(e[1], py), b, b)
    if k == "sqrtabs":
        return "sqrt(fabs(%s))" % show(e[1], py)
    if k == "neg":
        return "(-%s)" % show(e[1], py)
    if k == "cond":
        if py:
            return "(%s if %s > %r else %s)" % (show(e[3], py), show(e[1], py), e[2], show(e[4], py))
        return "(%s > %r ? %s : %s)" % (show(e[1], py), e[2], show(e[3], py), show(e[4], py))
    raise ValueError(k)


def ev(e, env):
    k = e[0]
    if k == "var":
        return env[e[1]]
    if k == "num":
        return float(e[1])
    if k == "+":
        return ev(e[1], env) + ev(e[2], env)
    if k == "-":
        return ev(e[1], env) - ev(e[2], env)
    if k == "*":
        return ev(e[1], env) * ev(e[2], env)
    if k == "sdiv":
        b = ev(e[2], env)
        return ev(e[1], env) / (1.0 + b * b)
    if k == "sqrtabs":
        return math.sqrt(abs(ev(e[1], env)))
    if k == "neg":
        return -ev(e[1], env)
    if k == "cond":
        return ev(e[3], env) if ev(e[1], env) > e[2] else ev(e[4], env)
    raise ValueError(k)


# ---------------------------------------------------------------- definitions
class Defn(object):
    pass


def gen_definition(rng, tag):
    d = Defn()
    d.tag = tag
    pars = []          # [name, units, default, [lo, hi], type, desc]
    nvol = rng.choice([0, 1, 1, 2, 2, 3])
    if tag == 5:
        nvol = max(nvol, 1)      # the sixth is hollow with its shell volume as an inline string next to C code
    if tag == 2:
        nvol = max(nvol, 2)      # the third takes the un-normalised two-parameter mesh with a cutoff
    if tag in (0, 1):
        nvol = max(nvol, 1)      # the first definition of every run is hollow and gets the mesh beyond one kernel invocation;
        #                          the second has a validity region that cuts through a dispersed mesh
    nsld = rng.randint(0, 2)
    npl = rng.randint(0, 3)
    if nvol + nsld + npl == 0:
        nvol = 1
    kinds = ["volume"] * nvol + ["sld"] * nsld + [""] * npl
    rng.shuffle(kinds)
    cnt = {"volume": 0, "sld": 0, "": 0}
    for t in kinds:
        cnt[t] += 1
        if t == "volume":
            nm = "v%d" % cnt[t]; dflt = round(rng.uniform(5, 50), 2); lim = rng.choice([[0, float("inf")], [1, 200]])
        elif t == "sld":
            nm = "rho%d" % cnt[t]; dflt = round(rng.uniform(0.5, 6), 2); lim = [-float("inf"), float("inf")]
        else:
            nm = "c%d" % cnt[t]; dflt = round(rng.uniform(0.5, 3), 2); lim = rng.choice([[-float("inf"), float("inf")], [0, 10]])
        pars.append([nm, "Ang" if t == "volume" else "", dflt, lim, t, ""])
    d.vector = None
    if len(pars) <= 6 and rng.random() < 0.4:
        L = rng.choice([2, 3])
        vt = rng.choice(["volume", ""])
        pos = rng.randint(0, len(pars))
        pars.insert(pos, ["n", "", float(rng.randint(1, L)), [0, L], "", "control"])
        pars.insert(rng.randint(pos + 1, len(pars)), ["th[n]", "Ang" if vt else "", round(rng.uniform(2, 20), 2), [0, float("inf")], vt, "vector"])
        d.vector = ("th", L, vt)
    d.pars = pars[:8] if len(pars) > 8 else pars
    # variables visible to the functions
    iq_vars, vol_vars, scalars = [], [], []
    for p in d.pars:
        nm = p[0]
        if nm == "th[n]":
            refs = ["th[%d]" % i for i in range(d.vector[1])]
            iq_vars += refs
            if p[4] == "volume":
                vol_vars += refs
        else:
            iq_vars.append(nm); scalars.append(nm)
            if p[4] == "volume":
                vol_vars.append(nm)
    d.iq_vars, d.vol_vars = iq_vars, vol_vars
    d.vectorized = rng.random() < 0.6
    # a scalar (point-by-point) kernel may treat the origin apart and write the limit there as a whole number:
    # "if q == 0: return 1".  The q vectors of such a definition start at the origin.
    d.block_style = rng.random() < 0.4 or tag in (0, 3, 4, 5)
    d.file_style = tag in (3, 4)
    d.mixed_style = tag == 5 or (d.block_style and not d.file_style and tag not in (0,) and rng.random() < 0.3)
    if tag == 2:
        d.vectorized = False
    d.origin_int = (not d.vectorized) and (rng.random() < 0.6 or tag == 2)
    d.Iq = ("+", gen_expr(rng, iq_vars + ["q", "q"], 3, scalars), ("sdiv", ("var", rng.choice(iq_vars)), ("*", ("var", "q"), ("num", 20.0))))
    d.Iqxy = None
    if rng.random() < 0.3:
        d.Iqxy = ("+", gen_expr(rng, iq_vars + ["qx", "qy"], 2, scalars), ("*", ("var", "qx"), ("var", "qy")))
    d.form_volume = ("+", ("num", 1.0), pos_expr(rng, vol_vars, 2)) if vol_vars else None
    d.shell_volume = ("+", ("num", 0.5), pos_expr(rng, vol_vars, 2)) if vol_vars and (rng.random() < 0.4 or tag in (0, 5)) else None
    d.modes = []
    if vol_vars and rng.random() < 0.5:
        d.modes = [pos_expr(rng, vol_vars, 2) for _ in range(rng.randint(1, 3))]
    d.valid = None
    vs = [p for p in d.pars if p[4] == "volume" and p[0] != "th[n]"]
    if vs and (rng.random() < 0.5 or tag == 1):
        p = rng.choice(vs)
        d.valid = (p[0], round(p[2] * rng.uniform(0.8, 1.05), 3))      # valid iff name > threshold (the default may be invalid)
    return d


def table_text(d):
    rows = []
    for nm, un, df, lim, ty, ds in d.pars:
        ls = "[%s, %s]" % tuple("inf" if x == float("inf") else "-inf" if x == -float("inf") else repr(x) for x in lim)
        rows.append('    ["%s", "%s", %r, %s, "%s", "%s"],' % (nm, un, df, ls, ty, ds))
    return "parameters = [\n%s\n]\n" % "\n".join(rows)


def sig(d, vars_kind, c):
    out = []
    for p in d.pars:
        if vars_kind == "vol" and p[4] != "volume":
            continue
        if p[0] == "th[n]":
            out.append("double *th" if c else "th")
        else:
            out.append(("double " if c else "") + p[0])
    return out


def c_module(d, name):
    t = ['from numpy import inf', 'name = "%s"' % name, 'title = "C09 generated"', 'description = "generated"', 'category = "shape:sphere"', table_text(d)]
    og1 = "if (q == 0.0) return 1.0; " if getattr(d, "origin_int", False) else ""
    og2 = "if (qx == 0.0 && qy == 0.0) return 1.0; " if getattr(d, "origin_int", False) else ""
    code = []
    if getattr(d, "block_style", False):
        # the same definition written the way the builtin models are: complete C functions in one source text, with
        # block comments between them
        code.append("/* generated definition: volumes */")
        if d.form_volume:
            code.append("static double form_volume(%s) { return %s; }" % (", ".join(sig(d, "vol", True)), show(d.form_volume, False)))
        if d.shell_volume and getattr(d, "mixed_style", False):
            # ... except the shell volume, which this definition gives as an inline body string next to the C text
            t.append('shell_volume = "return %s;"' % show(d.shell_volume, False))
        elif d.shell_volume:
            code.append("/* hollow: the shell volume normalises */")
            code.append("static double shell_volume(%s) { return %s; }" % (", ".join(sig(d, "vol", True)), show(d.shell_volume, False)))
        code.append("/* intensity */")
        code.append("static double Iq(double q, %s) { %sreturn %s; }" % (", ".join(sig(d, "iq", True)), og1, show(d.Iq, False)))
        if d.Iqxy:
            code.append("/* its own 2-D function */")
            code.append("static double Iqxy(double qx, double qy, %s) { %sreturn %s; }" % (", ".join(sig(d, "iq", True)), og2, show(d.Iqxy, False)))
        code.append("/* end of the generated definition */")
    else:
        if d.form_volume:
            t.append('form_volume = "return %s;"' % show(d.form_volume, False))
        if d.shell_volume:
            t.append('shell_volume = "return %s;"' % show(d.shell_volume, False))
        t.append('Iq = "%sreturn %s;"' % (og1, show(d.Iq, False)))
        if d.Iqxy:
            t.append('Iqxy = "%sreturn %s;"' % (og2, show(d.Iqxy, False)))
    if d.modes:
        t.append("radius_effective_modes = %r" % ["mode%d" % (i + 1) for i in range(len(d.modes))])
        body = " ".join("if (mode == %d) return %s;" % (i + 1, show(e, False)) for i, e in enumerate(d.modes))
        code.append("static double radius_effective(int mode, %s) { %s return 0.0; }" % (", ".join(sig(d, "vol", True)), body))
    d._src_text = None
    if code and getattr(d, "file_style", False):
        # ... or in a C file of its own next to the definition (every such definition uses the SAME file name, each in
        # its own directory)
        d._src_text = "\n".join(code) + "\n"
        t.append('source = ["verif_c09_src.c"]')
    elif code:
        t.append('c_code = """\n%s\n"""' % "\n".join(code))
    if d.valid:
        t.append('valid = "%s > %r"' % d.valid)
    t.append("have_Fq = False")
    return "\n".join(t) + "\n"


def py_module(d, name):
    t = ['from numpy import inf, sqrt, fabs, nan', 'name = "%s"' % name, 'title = "C09 generated"', 'description = "generated"', 'category = "shape:sphere"', table_text(d)]
    if d.form_volume:
        t.append("def form_volume(%s):\n    return %s" % (", ".join(sig(d, "vol", False)), show(d.form_volume, True)))
    if d.shell_volume:
        t.append("def shell_volume(%s):\n    return %s" % (", ".join(sig(d, "vol", False)), show(d.shell_volume, True)))
    guard = "    if not (%s > %r):\n        return nan*q\n" % d.valid if d.valid else ""
    if getattr(d, "origin_int", False):
        guard += "    if q == 0:\n        return 1\n"
    t.append("def Iq(q, %s):\n%s    return %s" % (", ".join(sig(d, "iq", False)), guard, show(d.Iq, True)))
    if d.vectorized:
        t.append("Iq.vectorized = True")
    if d.Iqxy:
        guard = "    if not (%s > %r):\n        return nan*qx\n" % d.valid if d.valid else ""
        if getattr(d, "origin_int", False):
            guard += "    if qx == 0 and qy == 0:\n        return 1\n"
        t.append("def Iqxy(qx, qy, %s):\n%s    return %s" % (", ".join(sig(d, "iq", False)), guard, show(d.Iqxy, True)))
        if d.vectorized:
            t.append("Iqxy.vectorized = True")
    if d.modes:
        t.append("radius_effective_modes = %r" % ["mode%d" % (i + 1) for i in range(len(d.modes))])
        body = "\n".join("    if mode == %d:\n        return %s" % (i + 1, show(e, True)) for i, e in enumerate(d.modes))
        t.append("def radius_effective(mode, %s):\n%s\n    return 0.0" % (", ".join(sig(d, "vol", False)), body))
    return "\n".join(t) + "\n"


# ---------------------------------------------------------------- direct evaluation of the definition
def leaf_direct(d, env, q, mode):
    """(valid, comps) with comps = [1, V_form, V_shell, R_eff, I(q_0)..] from the definition's formulas"""
    valid = True if d.valid is None else env[d.valid[0]] > d.valid[1]
    vf = ev(d.form_volume, env) if d.form_volume else 1.0
    vs = ev(d.shell_volume, env) if d.shell_volume else vf
    re = ev(d.modes[mode - 1], env) if (mode and d.modes) else 0.0
    vals = []
    for qq in zip(*q):
        if getattr(d, "origin_int", False) and all(float(x) == 0.0 for x in qq):
            vals.append(1.0)
        elif len(qq) == 1:
            e2 = dict(env, q=float(qq[0]))
            vals.append(ev(d.Iq, e2))
        else:
            qx, qy = float(qq[0]), float(qq[1])
            if d.Iqxy:
                vals.append(ev(d.Iqxy, dict(env, qx=qx, qy=qy)))
            else:
                vals.append(ev(d.Iq, dict(env, q=math.sqrt(qx * qx + qy * qy))))
    if not valid:
        return False, [1.0, 0.0, 0.0, 0.0] + [0.0] * len(vals)
    return True, [1.0, vf, vs, re] + vals


def env_of(d, names, values):
    env = {}
    for nm, v in zip(names, values):
        if d.vector and nm.startswith("th") and nm[2:].isdigit():
            env["th[%d]" % (int(nm[2:]) - 1)] = float(v)
        else:
            env[nm] = float(v)
    return env


# ---------------------------------------------------------------- malformed / validator stream
def ext(x):
    if x == float("inf"):
        return "PosInf"
    if x == -float("inf"):
        return "NegInf"
    z = x * UNIT
    assert z == int(z), x
    return "(Fin (%d)%%Z)" % int(z)


def gen_vdef(rng):
    """a small definition with quarter-integer numbers; returns (pars, xy, python, defect)"""
    q4 = lambda a, b: rng.randint(int(a * 4), int(b * 4)) / 4.0
    pars = []
    for i in range(rng.randint(1, 4)):
        ty = rng.choice(["volume", "sld", "", ""])
        lo, hi = rng.choice([(0.0, float("inf")), (-float("inf"), float("inf")), (1.0, 100.0), (0.0, 10.0)])
        df = q4(max(lo, 1.0), min(hi, 9.0))
        pars.append(["p%d" % i, "", df, [lo, hi], ty, ""])
    python = rng.random() < 0.3
    oriented = (not python) and rng.random() < 0.5
    xy = "none"
    if oriented:
        asym = rng.random() < 0.4
        for nm in ["theta", "phi"] + (["psi"] if asym else []):
            pars.append([nm, "degrees", 0.0, [-360.0, 360.0], "orientation", ""])
        xy = "qabc" if asym else "qac"
    elif not python and rng.random() < 0.2:
        xy = "qxy"
    if rng.random() < 0.3 and len(pars) < 6:
        L = rng.choice([2, 3, 5])
        pars.insert(0, ["n", "", 1.0, [0.0, float(L)], "", ""])
        pars.insert(rng.randint(1, len([p for p in pars if p[4] != "orientation"])), ["w[n]", "", 1.0, [0.0, float("inf")], rng.choice(["volume", ""]), ""])
    defect = None
    if rng.random() < 0.6:
        cands = ["limits", "limits-equal", "default-low", "default-high", "type", "dup", "dup-scale", "angle-name", "angle-type"]
        if oriented:
            cands += ["no-phi", "phi-first", "not-last", "xy-swap", "xy-missing", "psi-gap", "angle-moved"] * 2
        else:
            cands += ["xy-unoriented", "theta-only"] if not python else ["theta-only"]
        if any(p[0] == "n" for p in pars):
            cands += ["control-limit", "control-frac", "control-missing"] * 2
        defect = rng.choice(cands)
        plain = [p for p in pars if p[4] != "orientation" and p[0] not in ("n",) and "[" not in p[0]]
        p = rng.choice(plain) if plain else pars[0]
        if defect == "limits":
            p[3] = [5.0, 2.0]; p[2] = 3.0
        elif defect == "limits-equal":
            p[3] = [2.0, 2.0]; p[2] = 2.0
        elif defect == "default-low":
            p[3] = [1.0, 100.0]; p[2] = 0.75
        elif defect == "default-high":
            p[3] = [0.0, 10.0]; p[2] = 10.25
        elif defect == "type":
            p[4] = rng.choice(["Volume", "size", "orient", "shape"])
        elif defect == "dup":
            pars.insert(rng.randint(0, len([x for x in pars if x[4] != "orientation"])), list(p))
        elif defect == "dup-scale":
            p[0] = rng.choice(["scale", "background"])
        elif defect == "angle-name":
            p[4] = "orientation"
        elif defect == "angle-type":
            p[0] = rng.choice(["theta", "phi", "psi"]) if not oriented else p[0]
            if oriented:
                [x for x in pars if x[0] == "theta"][0][4] = ""
        elif defect == "no-phi":
            pars[:] = [x for x in pars if x[0] != "phi"]
        elif defect == "phi-first":
            i = [k for k, x in enumerate(pars) if x[0] == "theta"][0]
            pars[i], pars[i + 1] = pars[i + 1], pars[i]
        elif defect == "not-last":
            pars.append(["tail", "", 1.0, [0.0, 10.0], "", ""])
        elif defect == "psi-gap":
            if any(x[0] == "psi" for x in pars):
                i = [k for k, x in enumerate(pars) if x[0] == "psi"][0]
                pars.insert(i, ["gap", "", 1.0, [0.0, 10.0], "", ""])
            else:
                pars.insert(len(pars) - 1, ["gap", "", 1.0, [0.0, 10.0], "", ""])
        elif defect == "angle-moved":
            # one of the orientation rows moved to an arbitrary other position, the first row included
            names = [x[0] for x in pars if x[4] == "orientation"]
            nm = rng.choice(names)
            row = [x for x in pars if x[0] == nm][0]
            i0 = pars.index(row)
            pars.remove(row)
            j = rng.choice([0, 0, rng.randint(0, len(pars))])
            if j == i0:
                j = 0 if i0 else len(pars)
            pars.insert(j, row)
            if [x[0] for x in pars if x[4] == "orientation"] == names and pars.index(row) == i0:
                defect = None
        elif defect == "xy-swap":
            xy = "qac" if xy == "qabc" else "qabc"
        elif defect == "xy-missing":
            xy = "none"
        elif defect == "xy-unoriented":
            xy = rng.choice(["qac", "qabc"])
        elif defect == "theta-only":
            pars.append(["theta", "degrees", 0.0, [-360.0, 360.0], "orientation", ""])
        elif defect == "control-limit":
            [x for x in pars if x[0] == "n"][0][3] = [0.0, 21.0]
        elif defect == "control-frac":
            [x for x in pars if x[0] == "n"][0][3] = [0.0, 2.5]
        elif defect == "control-missing":
            pars[:] = [x for x in pars if x[0] != "n"]
    return pars, xy, python, defect


def vdef_module(pars, xy, python, name):
    d = Defn(); d.pars = pars
    t = ['from numpy import inf', 'name = "%s"' % name, 'title = "t"', 'description = "d"', 'category = "shape:sphere"', table_text(d)]
    iq = [p for p in pars if p[4] not in ("orientation", "magnetic")]
    if python:
        args = ", ".join(p[0].split("[")[0] for p in iq)
        t.append("def Iq(q, %s):\n    return 1.0 + 0*q\nIq.vectorized = True" % args)
    else:
        t.append('Iq = "return 1.0;"')
        if any(p[4] == "volume" for p in pars):
            t.append('form_volume = "return 1.0;"')
        if xy == "qxy":
            t.append('Iqxy = "return 1.0;"')
        elif xy == "qac":
            t.append('Iqac = "return 1.0;"')
        elif xy == "qabc":
            t.append('Iqabc = "return 1.0;"')
    return "\n".join(t) + "\n"


def vdef_coq(pars, xy, python):
    rows = []
    for nm, un, df, lim, ty, ds in pars:
        if "[" in nm:
            pid, ref = nm[:-1].split("[")
            vec = "(FixedLen %d)" % int(ref) if ref.isdigit() else '(Controlled "%s")' % ref
        else:
            pid, vec = nm, "Scalar"
        rows.append('(MkP "%s" %s %s %s %s "%s")' % (pid, vec, ext(lim[0]), ext(lim[1]), ext(df), ty))
    return "(MkD %s %s %s)" % (coq_list(rows, "pdef"), {"none": "XYnone", "qxy": "XYqxy", "qac": "XYqac", "qabc": "XYqabc"}[xy], cbool(python))


# ---------------------------------------------------------------- main
class Untranslatable(Exception):
    pass


_FN = {"form_volume": "FormVolume", "shell_volume": "ShellVolume", "Iq": "FIq", "Iqxy": "FIqxy", "Iqac": "FIqac", "Iqabc": "FIqabc"}
_SIG = {"base_table.form_volume_parameters": "SVolume", "[q] + base_table.iq_parameters": "SIq",
        "[qx, qy] + base_table.iq_parameters + base_table.orientation_parameters": "SIqxy",
        "[qab, qc] + base_table.iq_parameters": "SIqac", "[qa, qb, qc] + base_table.iq_parameters": "SIqabc"}


def _translate_wrappers():
    """Which C wrapper functions generate.make_source writes for the functions a definition gives as inline strings,
    under which conditions and with which parameter list: the `if isinstance(model_info.X, str):` statements read
    with their nesting.  Returns a Coq term of type list (fn * sig) in [inl : fn -> bool]."""
    import ast
    tree = ast.parse(open(os.path.join(common.REPO, "sasmodels", "generate.py")).read())
    fn = [f for f in tree.body if isinstance(f, ast.FunctionDef) and f.name == "make_source"]
    if len(fn) != 1:
        raise Untranslatable("make_source not found")
    count = [0]

    def test_name(t):
        if isinstance(t, ast.Call) and ast.unparse(t.func) == "isinstance" and len(t.args) == 2 and ast.unparse(t.args[1]) == "str" \
                and isinstance(t.args[0], ast.Attribute) and ast.unparse(t.args[0].value) == "model_info" and t.args[0].attr in _FN:
            return _FN[t.args[0].attr]
        return None

    def mentions(node):
        return any(isinstance(n, ast.Name) and n.id == "_gen_fn" for n in ast.walk(node))

    def block(stmts, pars):
        out = []
        for st in stmts:
            if isinstance(st, ast.If) and test_name(st.test):
                out.append("(if inl %s then %s else %s)" % (test_name(st.test), block(st.body, pars), block(st.orelse, pars)))
                if any(isinstance(n, ast.Name) and n.id == "pars" and isinstance(n.ctx, ast.Store) for n in ast.walk(st)):
                    pars = None        # assigned under a condition: unknown afterwards
            elif isinstance(st, ast.Assign) and [ast.unparse(t) for t in st.targets] == ["pars"]:
                pars = _SIG.get(ast.unparse(st.value))
                if mentions(st.value):
                    raise Untranslatable("pars = %s" % ast.unparse(st.value))
            elif isinstance(st, ast.Expr) and isinstance(st.value, ast.Call) and ast.unparse(st.value.func) == "source.append" and len(st.value.args) == 1 \
                    and isinstance(st.value.args[0], ast.Call) and ast.unparse(st.value.args[0].func) == "_gen_fn":
                a = st.value.args[0].args
                if len(a) != 3 or ast.unparse(a[0]) != "model_info" or not isinstance(a[1], ast.Constant) or a[1].value not in _FN or ast.unparse(a[2]) != "pars" or pars is None:
                    raise Untranslatable("wrapper statement %s" % ast.unparse(st))
                out.append("[(%s, %s)]" % (_FN[a[1].value], pars))
                count[0] += 1
            elif mentions(st):
                raise Untranslatable("_gen_fn used in %s" % ast.unparse(st).splitlines()[0])
        return "(" + " ++ ".join(out) + ")" if out else "[]"
    term = block(fn[0].body, None)
    if count[0] == 0:
        raise Untranslatable("no wrapper statements found")
    return term


def gen():
    """Regenerate Gen/C09_wrappers.v from generate.make_source."""
    lines = ["(* GENERATED by harness/c09.py from sasmodels/generate.py (make_source: wrappers for functions given as inline strings) *)",
             "From Coq Require Import List.", "Import ListNotations.", "From SM Require Import C09.Wrappers.", ""]
    note = None
    try:
        term = _translate_wrappers()
    except (Untranslatable, OSError, SyntaxError) as exc:
        note = "%s: %s" % (type(exc).__name__, exc)
        term = "wrappers inl"
    lines.append("Definition wrappers_translated : bool := %s." % ("true" if note is None else "false"))
    if note:
        lines.append("(* not translated: %s *)" % note.replace("*)", "* )"))
    lines += ["Definition code_wrappers (inl : fn -> bool) : list (fn * sig) :=", "  %s." % term, ""]
    common.write_if_changed(os.path.join(common.THEORIES, "Gen", "C09_wrappers.v"), "\n".join(lines))
    return note


def main(run):
    from sasmodels import core, generate
    from sasmodels.direct_model import call_kernel, call_Fq, get_mesh
    from sasmodels.details import make_kernel_args
    rng = random.Random(run.seed * 107 + 9)
    thorough = run.tier == "thorough"
    note = []
    run.prove(["C09/Property.v"], gen=lambda: note.append(gen()))
    run.notes.append(("the inline-string wrappers of generate.make_source not translated (%s): C09_code_wrappers is vacuous in this run" % note[0]) if note and note[0] else
                     "which wrapper functions make_source writes for inline strings read from the current generate.py (Gen/C09_wrappers.v): a function given as an inline string gets its wrapper whatever form the other functions have (C09_code_wrappers, C09_code_wrapper_iff)")
    known = common.load_known("C09")
    pdir = run.scratch.sub("plugins")
    stats = dict(definitions=0, with_vector=0, with_shell=0, with_modes=0, with_valid=0, with_Iqxy=0, scalar_Iq=0, meshes=0, mono=0, invalid_nominal=0,
                 all_invalid=0, two_d=0, cutoff_positive=0, npars={}, validator_cases=0, validator_defects={}, validator_rejected=0, validator_accepted=0)
    evals, distinct = 0, set()
    cases, metas = [], []
    ndef = 10 if not thorough else 80
    nmesh = 6 if not thorough else 12
    for t in range(ndef):
        # the first three definitions and their meshes are a CORPUS: drawn from fixed streams, the same in every run
        # whatever the seed (hollow x mesh beyond one kernel invocation; a validity region cutting through a dispersed
        # mesh; a scalar kernel returning a whole number at the origin)
        drng = random.Random(7001 + t) if t < 3 else rng
        d = gen_definition(drng, t)
        cname, pname = "verif_c09_c%d_%d" % (run.seed, t), "verif_c09_p%d_%d" % (run.seed, t)
        cdir = os.path.join(pdir, "d%d" % t) if getattr(d, "file_style", False) else pdir
        os.makedirs(cdir, exist_ok=True)
        cpath, ppath = os.path.join(cdir, cname + ".py"), os.path.join(pdir, pname + ".py")
        open(cpath, "w").write(c_module(d, cname)); open(ppath, "w").write(py_module(d, pname))
        if d._src_text:
            open(os.path.join(cdir, "verif_c09_src.c"), "w").write(d._src_text)
            stats["file_style_definitions"] = stats.get("file_style_definitions", 0) + 1
        desc0 = dict(c_definition=c_module(d, cname), python_definition=py_module(d, pname))
        try:
            mc = core.load_model(cpath, dtype="double", platform="dll")
            mp = core.load_model(ppath)
        except Exception as exc:  # noqa
            run.add(Finding("C09:build", "generated definition failed to load/build: %r" % (exc,), desc0))
            continue
        if type(mp).__name__ != "PyModel" or type(mc).__name__ != "DllModel":
            run.add(Finding("C09:path", "unexpected execution paths %s / %s" % (type(mc).__name__, type(mp).__name__), desc0)); continue
        info = mc.info
        stats["definitions"] += 1
        stats["with_vector"] += int(d.vector is not None); stats["with_shell"] += int(d.shell_volume is not None); stats["with_modes"] += int(bool(d.modes))
        stats["with_valid"] += int(d.valid is not None); stats["with_Iqxy"] += int(d.Iqxy is not None); stats["scalar_Iq"] += int(not d.vectorized)
        stats["npars"][str(len(d.pars))] = stats["npars"].get(str(len(d.pars)), 0) + 1
        npars = info.parameters.npars
        kp = info.parameters.call_parameters[2:2 + npars]
        knames = [p.name for p in kp]
        if [p.name for p in mp.info.parameters.call_parameters] != [p.name for p in info.parameters.call_parameters]:
            run.add(Finding("C09:table", "the two definitions give different call tables", desc0)); continue
        if len(run.coverage["samples"]) < 4:
            run.sample(dict(parameters=[p[0] + ":" + p[4] for p in d.pars], Iq=show(d.Iq, False), form_volume=show(d.form_volume, False) if d.form_volume else None,
                            valid=d.valid, modes=len(d.modes), vectorized=d.vectorized))
        for m in range(nmesh):
            two_d = m % 3 == 2
            q = [np.array([0.01, 0.07, 0.3])] if not two_d else [np.array([0.02, -0.1, 0.21]), np.array([0.05, 0.08, -0.13])]
            if getattr(d, "origin_int", False):
                q = [np.concatenate([[0.0], x]) for x in q]
                stats["origin_first"] = stats.get("origin_first", 0) + 1
            pars = {}
            for p in kp:
                if p.name == "n":
                    pars["n"] = float(drng.randint(0, d.vector[1]))
                else:
                    pars[p.name] = p.default * drng.uniform(0.7, 1.3) if drng.random() < 0.8 else p.default
                    pars[p.name] = float(min(max(pars[p.name], p.limits[0]), p.limits[1]))
            kind = drng.choice(["mono", "pd", "pd", "pd2", "pd2", "cut1", "allinvalid" if d.valid else "pd"])
            if t == 0 and m == 1:
                kind = "pd"          # corpus: hollow definition x more than 100 mesh points, every run
            pdn = [p.name for p in kp if p.polydisperse]
            corpus_unnorm = t == 2 and m == 3 and len(pdn) >= 2
            if corpus_unnorm:
                kind = "pd2"         # corpus: un-normalised weights x two dispersed parameters x a cutoff, every run
            corpus_valid = t == 1 and m == 0 and d.valid is not None and d.valid[0] in pdn
            if corpus_valid:
                kind = "pd"          # corpus: invalid mesh points FOLLOWED by valid ones in loop order, every run
            if kind in ("pd", "pd2", "cut1") and pdn:
                for nm in ([d.valid[0]] if corpus_valid else drng.sample(pdn, min(len(pdn), 1 if kind != "pd2" else drng.randint(2, 3)))):
                    pars[nm + "_pd"] = drng.uniform(0.05, 0.5); pars[nm + "_pd_n"] = drng.randint(2, 7)
                    # one mesh per definition goes beyond a single kernel invocation (the compiled path runs the
                    # mesh in slices of 100 points and carries its running sums from one slice to the next)
                    if m == 1 and kind in ("pd", "pd2"):
                        first_ = not any(k_.endswith("_pd_n") and k_ != nm + "_pd_n" for k_ in pars)
                        if kind == "pd":
                            pars[nm + "_pd_n"] = drng.choice([101, 130, 257])
                        else:
                            pars[nm + "_pd_n"] = 41 if first_ else drng.choice([2, 3])
                        stats["large_meshes"] = stats.get("large_meshes", 0) + int(first_)
                    pars[nm + "_pd_type"] = drng.choice(["gaussian", "rectangle", "schulz", "lognormal"]); pars[nm + "_pd_nsigma"] = drng.choice([2.0, 3.0])
                    if corpus_valid:
                        pars[nm] = float(d.valid[1]); pars[nm + "_pd"] = 0.3; pars[nm + "_pd_n"] = 7; pars[nm + "_pd_type"] = "gaussian"; pars[nm + "_pd_nsigma"] = 3.0
                    if kind == "cut1":
                        pars[nm + "_pd"] = 1.0; pars[nm + "_pd_n"] = 2; pars[nm + "_pd_type"] = "gaussian"; pars[nm + "_pd_nsigma"] = 3.0
            if kind == "allinvalid":
                pars[d.valid[0]] = d.valid[1] * 0.5
                if drng.random() < 0.5:
                    pars[d.valid[0] + "_pd"] = 0.1; pars[d.valid[0] + "_pd_n"] = 3
            cutoff = drng.choice([0.0, 1e-5, 1e-3, 0.05])
            if corpus_unnorm:
                cutoff = 1e-3
            mode = drng.randint(0, len(d.modes)) if d.modes else 0
            scale, bg = drng.uniform(0.3, 2), drng.choice([0.0, drng.uniform(0.01, 0.2)])
            full = dict(pars, scale=scale, background=bg)
            desc = dict(desc0, pars=pars, cutoff=cutoff, mode=mode, scale=scale, background=bg, q=[x.tolist() for x in q], kind=kind)
            kc, kpy = mc.make_kernel(q), mp.make_kernel(q)
            # the mesh the interfaces build; every third dispersed case it is then handed to the kernels with
            # UN-NORMALISED weights (Kernel.Fq documents them as legal: array distributions, hand-made meshes):
            # the longest distribution scaled up, the others down, so that outer partial products fall below the
            # cutoff while the full product does not
            mesh = get_mesh(info, dict(full), dim="2d" if two_d else "1d")
            unnorm = kind in ("pd", "pd2") and (drng.random() < 0.4 or corpus_unnorm) and max(len(mm[2]) for mm in mesh) > 1
            if unnorm:
                lens_ = [len(mm[2]) for mm in mesh]
                longest = int(np.argmax(lens_))
                fac = drng.choice([30.0, 1e3, 1e5]) if not corpus_unnorm else 1e3
                nact = sum(1 for n_ in lens_ if n_ > 1)
                mesh = [(v, vals, np.asarray(w, "d") * (fac if k == longest else (fac ** (-1.0 / max(1, nact - 1)) if len(w) > 1 else 1.0)))
                        for k, (v, vals, w) in enumerate(mesh)]
                stats["unnormalised_meshes"] = stats.get("unnormalised_meshes", 0) + 1
                desc["unnormalised_weights"] = True

            def via_mesh(kern, fq_mode=None):
                call_details, values, is_magnetic = make_kernel_args(kern, mesh)
                if fq_mode is None:
                    return kern(call_details, values, cutoff, is_magnetic)
                return kern.Fq(call_details, values, cutoff, is_magnetic, fq_mode)
            try:
                if unnorm:
                    Ic = np.asarray(via_mesh(kc)); Ip = np.asarray(via_mesh(kpy))
                    Fc = via_mesh(kc, mode)
                else:
                    Ic = np.asarray(call_kernel(kc, dict(full), cutoff=cutoff))
                    Ip = np.asarray(call_kernel(kpy, dict(full), cutoff=cutoff))
                    Fc = call_Fq(kc, dict(pars, radius_effective_mode=mode), cutoff=cutoff)
                rawc = sas.raw_sums(kc, len(q[0])) if getattr(kc, "result", None) is not None else None
                kpy.result = None
                Fp = via_mesh(kpy, mode) if unnorm else call_Fq(kpy, dict(pars, radius_effective_mode=mode), cutoff=cutoff)
                rawp = sas.raw_sums(kpy, len(q[0])) if getattr(kpy, "result", None) is not None else None
            except Exception as exc:  # noqa
                run.add(Finding("C09:error", "an execution path raised %r" % (exc,), desc))
                kc.release(); kpy.release()
                continue
            evals += 4
            stats["meshes"] += 1; stats["two_d"] += int(two_d); stats["cutoff_positive"] += int(cutoff > 0)
            # --- the definition's formula evaluated directly over the mesh (model-free oracle)
            kmesh = mesh[2:2 + npars]
            lens = [len(mm[2]) for mm in kmesh]
            W = [np.asarray(mm[2], "d") for mm in kmesh]; V = [np.asarray(mm[1], "d") for mm in kmesh]
            total = int(np.prod(lens))
            leaves = []
            wn = wf = ws = wr = 0.0
            tot = np.zeros(len(q[0]))
            near = False
            for idx in itertools.product(*[range(n) for n in lens]):
                env = env_of(d, knames, [V[k][i] for k, i in enumerate(idx)])
                valid, comps = leaf_direct(d, env, q, mode)
                leaves.append((valid, 1.0, comps))
                w = 1.0
                for k, i in enumerate(idx):
                    w *= float(W[k][i])
                if cutoff > 0 and abs(w - cutoff) <= 1e-9 * cutoff:
                    near = True
                if valid and w > cutoff:
                    wn += w; wf += w * comps[1]; ws += w * comps[2]; wr += w * comps[3]; tot += w * np.array(comps[4:])
            if total == 0:
                stats["empty_mesh"] = stats.get("empty_mesh", 0) + 1
                if not (np.array_equal(Ic, Ip) and np.all(Ic == bg)):
                    run.add(Finding("C09:empty", "empty mesh: C gives %s, Python gives %s, background is %r" % (Ic, Ip, bg), desc))
            if total == 0 or near or rawp is None or rawc is None:
                kc.release(); kpy.release(); continue
            stats["mono"] += int(all(n == 1 for n in lens))
            stats["all_invalid"] += int(wn == 0)
            tw = wn if wn else 1.0
            sh = ws / tw if ws else 1.0
            want_I = scale / sh * (tot / tw) + bg
            want_F = (tot / tw, wr / tw, sh, (wf / tw) / sh)

            def same(a, b, tol=1e-11):
                a, b = np.asarray(a, float), np.asarray(b, float)
                return a.shape == b.shape and bool(np.all((np.abs(a - b) <= tol * (np.abs(a) + np.abs(b)) + 1e-300) | (np.isnan(a) & np.isnan(b))))
            rep = dict(desc, C=dict(I=Ic.tolist(), F2=np.asarray(Fc[1]).tolist(), reff=float(Fc[2]), volume=float(Fc[3]), ratio=float(Fc[4])),
                       Python=dict(I=Ip.tolist(), F2=np.asarray(Fp[1]).tolist(), reff=float(Fp[2]), volume=float(Fp[3]), ratio=float(Fp[4])),
                       formula=dict(I=want_I.tolist(), F2=want_F[0].tolist(), reff=want_F[1], volume=want_F[2], ratio=want_F[3]))
            cmp_reff = bool(d.modes) or mode == 0
            bad = None
            # cancellation-safe comparison: absolute sums as scale
            if not same(Ic, Ip) or not same(Fc[1], Fp[1]) or not same(Fc[3], Fp[3]) or not same(Fc[4], Fp[4]) or (cmp_reff and not same(Fc[2], Fp[2])):
                bad = "the Python and C paths differ: I %s vs %s; <F^2> %s vs %s; (R_eff, V, ratio) %s vs %s" % (Ip, Ic, Fp[1], Fc[1], Fp[2:], Fc[2:])
            elif not same(Ic, want_I, 1e-10) or not same(Fc[1], want_F[0], 1e-10) or not same(Fc[3], want_F[2], 1e-10) or not same(Fc[4], want_F[3], 1e-10) or (cmp_reff and not same(Fc[2], want_F[1], 1e-10)):
                bad = "both paths differ from the definition's formula evaluated directly: I %s vs %s; (R_eff, V, ratio) %s vs %s" % (Ic, want_I, Fc[2:], want_F[1:])
            if bad:
                run.add(Finding("C09:agree:%s" % kind, "generated definition %d (%s, %s): %s" % (t, kind, "2-D" if two_d else "1-D", bad), rep))
            else:
                distinct.add((t, m))
            # --- the Coq models on the same mesh
            cd_c, _, _ = make_kernel_args(kc, mesh)
            cd_p, _, _ = make_kernel_args(kpy, mesh)
            na = int(cd_p.num_active)
            max_pd = info.parameters.max_pd
            obs_p = [rawp["norm"], rawp["form"], rawp["shell"], rawp["rad"]] + [float(x) for x in rawp["f2"]]
            obs_c = [rawc["norm"], rawc["form"], rawc["shell"], rawc["rad"]] + [float(x) for x in rawc["f2"]]
            if int(cd_c.num_eval) == 0:
                obs_c = []
            cases.append("(MkPCase %s %s %s %s %d%%nat %s %s %s %s %s %s)" % (
                nlist(lens), coq_list([flist(list(map(float, w))) for w in W], "(list float)"),
                coq_list(["(%s, %s, %s)" % (cbool(v), fhex(pj), flist(cs)) for v, pj, cs in leaves], "(bool * float * list float)"),
                fhex(cutoff), len(q[0]), nlist([int(x) for x in cd_p.pd_par[:na]]), nlist([int(x) for x in cd_p.pd_length[:na]]),
                nlist([int(x) for x in cd_c.pd_par[:max_pd]]), nlist([int(x) for x in cd_c.pd_length[:max_pd]]), flist(obs_p), flist(obs_c)))
            metas.append(rep)
            kc.release(); kpy.release()
        # known difference outside the theorem's hypothesis: a cutoff of 1 or more with no dispersity
        kc, kpy = mc.make_kernel([np.array([0.05])]), mp.make_kernel([np.array([0.05])])
        base = {p.name: p.default for p in kp}
        if d.valid is None or base[d.valid[0]] > d.valid[1]:
            a = call_kernel(kc, dict(base, background=0.0), cutoff=1.0); b = call_kernel(kpy, dict(base, background=0.0), cutoff=1.0)
            if not np.allclose(a, b, rtol=1e-12):
                run.add(Finding("C09:cutoff-ge-1", "with no dispersity and cutoff >= 1 the C path drops the single point of weight 1 (I = background) while the Python path evaluates it (%s vs %s)" % (a, b),
                                dict(desc0, cutoff=1.0, C=np.asarray(a).tolist(), Python=np.asarray(b).tolist())))
        kc.release(); kpy.release()

    # ---------------------------------------------------------------- validator stream
    vcases, vmetas = [], []
    # corpus: every way of moving one orientation row of a well-formed table to another position (first row included)
    def _row(n, ty="volume"):
        return [n, "degrees", 0.0, [-360.0, 360.0], "orientation", ""] if ty == "orientation" else [n, "", 2.0, [0.0, 10.0], ty, ""]
    vstream = []
    for angles, xy0 in ((["theta", "phi", "psi"], "qabc"), (["theta", "phi"], "qac")):
        good = [_row("ra"), _row("sb", "")] + [_row(a, "orientation") for a in angles]
        vstream.append(([list(r) for r in good], xy0, False, None))
        for a in angles:
            i0 = [r[0] for r in good].index(a)
            for j in range(len(good)):
                if j != i0:
                    rows = [list(r) for r in good]
                    row = rows.pop(i0); rows.insert(j, row)
                    if [r[0] for r in rows] != [r[0] for r in good]:
                        vstream.append((rows, xy0, False, "angle-moved"))
    # (the swap of two adjacent rows is generated twice; harmless)
    nrand = 60 if not thorough else 400
    for t in range(len(vstream) + nrand):
        pars, xy, python, defect = vstream[t] if t < len(vstream) else gen_vdef(rng)
        name = "verif_c09_v%d_%d" % (run.seed, t)
        path = os.path.join(pdir, name + ".py")
        text = vdef_module(pars, xy, python, name)
        open(path, "w").write(text)
        err = None
        try:
            info = core.load_model_info(path)
            if not python:
                generate.make_source(info)
        except Exception as exc:  # noqa
            err = "%s: %s" % (type(exc).__name__, exc)
        evals += 1
        stats["validator_cases"] += 1
        stats["validator_defects"][defect or "none"] = stats["validator_defects"].get(defect or "none", 0) + 1
        stats["validator_rejected" if err else "validator_accepted"] += 1
        desc = dict(definition=text, defect=defect, error=err)
        if defect and not err:
            run.add(Finding("C09:validator:%s" % defect, "ill-formed definition (%s) was accepted by load_model_info/make_source" % defect, desc))
        elif not defect and err:
            run.add(Finding("C09:validator:false-reject", "well-formed definition rejected: %s" % err, desc))
        vcases.append("(MkV %s %s)" % (vdef_coq(pars, xy, python), cbool(err is None)))
        vmetas.append(desc)
    # vector-name syntax (not in the Coq model)
    for bad_name in ("w[n", "w[]"):
        name = "verif_c09_s%d_%d" % (run.seed, len(bad_name))
        text = vdef_module([["n", "", 1.0, [0.0, 3.0], "", ""], [bad_name, "", 1.0, [0.0, float("inf")], "", ""]], "none", False, name)
        path = os.path.join(pdir, name + ".py"); open(path, "w").write(text)
        try:
            core.build_model(core.load_model_info(path), dtype="double", platform="dll")     # "rejected when loaded or built"
            run.add(Finding("C09:validator:vector-syntax", "parameter name %r accepted" % bad_name, dict(definition=text)))
        except Exception:  # noqa
            pass

    traces = 0
    if not run.proof_broken():
        hdr = "From Coq Require Import List PrimFloat String ZArith.\nImport ListNotations.\nFrom SM Require Import Base.Num C01.Model C01.Exec C09.Model C09.Exec.\nOpen Scope string_scope.\n"
        shards, owners = [], []
        for i in range(0, len(cases), 12):
            shards.append(hdr + "Definition cases : list PCase := [\n%s\n].\nEval vm_compute in (check_pcases %s cases).\n" % (";\n".join(cases[i:i + 12]), fhex(REL_TOL)))
            owners.append(("loops", metas[i:i + 12]))
        for i in range(0, len(vcases), 100):
            shards.append(hdr + "Definition cases : list VCase := [\n%s\n].\nEval vm_compute in (check_vcases %d%%Z cases).\n" % (";\n".join(vcases[i:i + 100]), UNIT))
            owners.append(("validator", vmetas[i:i + 100]))
        for (kind, ms), (rc, vals, err) in zip(owners, common.run_coq_shards(shards, run.scratch.sub("coq"), prefix="c09", jobs=8, timeout=600)):
            if rc != 0 or not vals:
                run.add(Finding("corr:C09:coq", "correspondence shard (%s) failed: %s" % (kind, err[-300:]), {"correspondence": "C09.Exec", "stderr": err[-1500:]}, no_input=True))
                continue
            traces += len(ms)
            if kind == "loops":
                names = {1: "the Python path's raw sums differ from the Coq model of kernelpy._loops", 2: "the C path's raw sums differ from the Coq model of the C loop",
                         3: "the Coq models of the two loops differ", 4: "the Coq model of the Python loop differs from the formula over the full mesh"}
                for m, codes in zip(ms, vals[0]):
                    for c in codes:
                        run.add(Finding("C09:corr:%d" % c, "generated definition, %s mesh: %s" % (m["kind"], names.get(c, c)), m))
            else:
                for idx in vals[0]:
                    m = ms[idx]
                    run.add(Finding("C09:corr:validator", "definition (%s) is %s by the implementation; the Coq model of the validator decides otherwise" % (m["defect"], "rejected" if m["error"] else "accepted"), m))
    run.coverage.update(evaluations=evals, distinct_nontrivial=len(distinct), traces_validated_against_impl=traces, input_distribution=stats)
    run.assumptions += ["generated bodies use + - * /(1+x^2) sqrt(fabs()) and conditionals on scalar parameters: operations that are correctly rounded in both C and numpy, so the paths are compared at 1e-11",
                        "a pure-Python definition cannot have orientation or magnetic parameters evaluated (kernelpy passes only iq_parameters and refuses magnetism), so generated pairs have volume, sld and plain parameters and one optional name[n] vector",
                        "validity in Python is expressed by returning NaN for every q (the only mechanism kernelpy has); in C by the valid expression",
                        "effective radius is compared only when the definition declares modes (or mode 0)"]
    run.finish_args = dict(level="proof",
                           rule="generated plug-in pairs (1-8 parameters, optional vector+control, shell volume, 1-3 radius modes, validity threshold, custom Iqxy, scalar or vectorised Python Iq) x meshes (mono, 1-3 dispersed parameters, distribution cut to one point, all points invalid) x cutoff in {0,1e-5,1e-3,0.05} x 1-D/2-D; validator stream of small definitions with zero or one injected defect; distinct = distinct (definition, mesh) on which C, Python and the direct formula agree",
                           trusted=["harness/c09.py (expression printer for C and Python, direct evaluator, defect injector)", "numpy / C compiler arithmetic"])
