"""C03 — resolution smearing is a normalised non-negative average with full support."""
from __future__ import annotations

import random

import numpy as np

from . import common, sas
from .common import Finding, fhex, flist


def grids(rng, thorough):
    out = []
    out.append(("linear", np.linspace(0.005, 0.3, 30)))
    out.append(("log", np.logspace(-3, -0.5, 40)))
    out.append(("near0", np.linspace(1e-4, 0.02, 25)))
    out.append(("irregular", np.sort(np.array([rng.uniform(0.002, 0.4) for _ in range(rng.randint(5, 60))]))))
    # data are not always stored in increasing q (merged detector banks, descending scans): same property
    out.append(("descending", np.logspace(-0.6, -2.6, 24)))
    sh = [rng.uniform(0.002, 0.4) for _ in range(rng.randint(6, 30))] + [0.0015]
    rng.shuffle(sh)
    out.append(("shuffled", np.array(sh)))
    # equally spaced from the origin (q_k = k h, a common data layout): the default extension below q_min then
    # lands a sample on or next to zero, inside the |q| < 0.02 q_min band that is removed from q_calc
    h = rng.uniform(5e-4, 5e-3)
    out.append(("origin", h * np.arange(1, rng.randint(8, 25))))
    out.append(("origin-offset", h * np.arange(1, rng.randint(8, 25)) + rng.uniform(-0.015, 0.015) * h))
    # merged data (two configurations sharing an overlap, two scans on one grid): some q values occur twice
    a_ = np.linspace(0.004, 0.05, rng.randint(8, 16))
    b_ = np.concatenate([a_[-rng.randint(2, 4):], np.linspace(0.055, 0.3, rng.randint(6, 14))])
    out.append(("merged", np.concatenate([a_, b_])))
    out.append(("two", np.array([0.01, 0.05])))
    out.append(("single", np.array([0.1])))
    if thorough:
        out.append(("big", np.linspace(0.001, 0.5, 500)))
        for _ in range(12):
            n = rng.randint(2, 200)
            out.append(("irregular", np.sort(np.array([rng.uniform(1e-4, 0.6) for _ in range(n)]))))
        for _ in range(6):
            out.append(("log", np.logspace(rng.uniform(-4, -2), rng.uniform(-1, 0), rng.randint(3, 150))))
    return out


def check_matrix(run, tag, res, q, desc, window=None, sum_tol=1e-9, known_key=None):
    """The property's statements on one resolution object."""
    W = np.asarray(res.weight_matrix)
    qc = np.asarray(res.q_calc)
    key = known_key or ("C03:%s" % tag)
    ok = True
    if not (W >= -1e-15).all():
        run.add(Finding(key + ":negative", "%s: negative weight %.3g" % (tag, W.min()), desc)); ok = False
    s = W.sum(axis=0)
    if not np.all(np.abs(s - 1) <= sum_tol):
        j = int(np.argmax(np.abs(s - 1)))
        run.add(Finding(key + ":sum", "%s: weights of data point q=%.6g sum to %.12g" % (tag, q[j], s[j]), desc)); ok = False
    flat = res.apply(np.full(len(qc), 3.25))
    if ok and not np.all(np.abs(flat - 3.25) <= 3.25 * sum_tol):
        run.add(Finding(key + ":constant", "%s: a flat intensity 3.25 is returned as %r" % (tag, flat[:4]), desc)); ok = False
    if not (qc > 0).all():
        run.add(Finding(key + ":q_calc", "%s: theory requested at non-positive q %.6g" % (tag, qc.min()), desc)); ok = False
    if window is not None:
        lo, hi = window
        floor = 0.02 * np.min(q)
        sq = np.unique(qc)
        step_hi = np.max(np.diff(sq[-3:])) if len(sq) > 2 else (sq[-1] - sq[0])
        step_lo = np.max(np.diff(sq[:3])) if len(sq) > 2 else (sq[-1] - sq[0])
        if qc.max() < np.max(hi) - step_hi - 1e-12 or qc.min() > max(np.min(np.maximum(lo, floor)), floor) + step_lo + 1e-12:
            run.add(Finding(key + ":coverage", "%s: q_calc [%.6g, %.6g] does not span the resolution windows [%.6g, %.6g]" % (
                tag, qc.min(), qc.max(), max(np.min(lo), floor), np.max(hi)), desc)); ok = False
    return ok


class Untranslatable(Exception):
    pass


NSIGMA_TRY = "try:\n    nsigma_low, nsigma_high = nsigma\nexcept TypeError:\n    nsigma_low = nsigma_high = nsigma"


def _translate_resolution():
    """resolution.bin_edges, pinhole_resolution, _q_perp_weights and apply_resolution_matrix of the current tree,
    evaluated symbolically (harness/nptrans.py): element formulas of the edges, of the un-normalised pinhole weight,
    the normalisation by the column sum, the slit-length weights and the dot product that applies a matrix."""
    import ast
    import os
    from . import nptrans
    path = os.path.join(common.REPO, "sasmodels", "resolution.py")
    out = {}
    try:
        # ---- bin_edges: guard + hstack of [first, mids, last]
        _, body = nptrans.function_body(path, "bin_edges")
        if len(body) != 3 or not isinstance(body[0], ast.If) or not isinstance(body[0].body[0], ast.Raise) or body[0].orelse \
                or ast.unparse(body[0].test) != "len(x) < 2 or (np.diff(x) < 0).any()":
            raise Untranslatable("bin_edges: the guard on short / decreasing input changed")
        st = body[1]
        if not (isinstance(st, ast.Assign) and ast.unparse(st.targets[0]) == "edges" and isinstance(st.value, ast.Call)
                and ast.unparse(st.value.func) == "np.hstack" and len(st.value.args) == 1 and isinstance(st.value.args[0], ast.List)
                and len(st.value.args[0].elts) == 3 and ast.unparse(body[2]) == "return edges"):
            raise Untranslatable("bin_edges: not an hstack of first edge, mid points, last edge")
        ev = nptrans.Evaluator({"x": ("i",)})
        first, mid, last = [ev.ev(n) for n in st.value.args[0].elts]
        if first.axes != () or last.axes != () or mid.axes != ("i",):
            raise Untranslatable("bin_edges: shapes of the three pieces")
        out["edge_first"], out["edge_mid"], out["edge_last"] = first.e, mid.e, last.e
        # ---- pinhole_resolution
        _, body = nptrans.function_body(path, "pinhole_resolution")
        txt = [ast.unparse(b) for b in body]
        if txt[0] != "edges = bin_edges(q_calc)":
            raise Untranslatable("pinhole_resolution: edges are not bin_edges(q_calc)")
        if NSIGMA_TRY not in txt:
            raise Untranslatable("pinhole_resolution: nsigma is not unpacked as (low, high) or one number")
        rest = [b for b, t in zip(body[1:], txt[1:]) if t != NSIGMA_TRY]
        ev = nptrans.Evaluator({"edges": ("i",), "q_calc": ("i",), "q": ("j",), "q_width": ("j",), "nsigma_low": (), "nsigma_high": ()},
                               leaf_calls={"erf": "cdf"})
        ev.run(rest)
        if ev.returned is None or ev.returned.axes != ("i", "j"):
            raise Untranslatable("pinhole_resolution does not return a (q_calc, q) matrix")
        r = ev.returned.e
        if not (r[0] == "bin" and r[1] == "/" and r[3] == ("sum", "i", r[2])):
            raise Untranslatable("pinhole_resolution: the result is not weights / sum over q_calc of the same weights")
        out["pin_elem"] = r[2]
        arg = ev.leaf_args.get("cdf")
        if arg is None or arg[0] != ("i", "j"):
            raise Untranslatable("pinhole_resolution: erf is not evaluated on the (edge, q) grid")
        out["cdf_arg"] = arg[1]
        # ---- _q_perp_weights
        _, body = nptrans.function_body(path, "_q_perp_weights")
        ev = nptrans.Evaluator({"q_edges": ("i",), "qi": (), "w": ()})
        ev.run(body)
        if ev.returned is None or ev.returned.axes != ("i",):
            raise Untranslatable("_q_perp_weights does not return a vector over the bins")
        out["perp"] = ev.returned.e
        # ---- apply_resolution_matrix
        _, body = nptrans.function_body(path, "apply_resolution_matrix")
        ev = nptrans.Evaluator({"weight_matrix": ("i", "j"), "theory": ("i",)})
        ev.run(body)
        if ev.returned is None or ev.returned.axes != ("j",):
            raise Untranslatable("apply_resolution_matrix does not return one value per data point")
        out["apply"] = ev.returned.e
        return out
    except nptrans.Untranslatable as exc:
        raise Untranslatable(str(exc))


def _translate_dispatch():
    """the choice of the 1-D resolution class in DataMixin._interpret_data (direct_model.py), fail-closed Python-ast walk:
    returns the quantifier ('existsb' / 'forallb') and the comparison used on the widths of a data set that has dx."""
    import ast
    import os
    tree = ast.parse(open(os.path.join(common.REPO, "sasmodels", "direct_model.py")).read())
    fn = None
    for n in ast.walk(tree):
        if isinstance(n, ast.FunctionDef) and n.name == "_interpret_data":
            fn = n
    if fn is None:
        raise Untranslatable("_interpret_data not found")
    cand = [n for n in ast.walk(fn) if isinstance(n, ast.If) and ast.unparse(n.test) == "getattr(data, 'dx', None) is not None"]
    if len(cand) != 1:
        raise Untranslatable("%d tests of data.dx" % len(cand))
    top = cand[0]
    if len(top.body) != 2 or ast.unparse(top.body[0]) not in ("q, dq = (data.x[index], data.dx[index])", "q, dq = data.x[index], data.dx[index]") or not isinstance(top.body[1], ast.If):
        raise Untranslatable("the dx branch is not [q, dq = ...; if ...]")
    inner = top.body[1]
    if [ast.unparse(b) for b in inner.body] != ["res = resolution.Pinhole1D(q, dq)"] or [ast.unparse(b) for b in inner.orelse] != ["res = resolution.Perfect1D(q)"]:
        raise Untranslatable("the dx branch does not choose between Pinhole1D(q, dq) and Perfect1D(q)")
    t = inner.test
    if not (isinstance(t, ast.Call) and isinstance(t.func, ast.Attribute) and t.func.attr in ("any", "all") and not t.args and isinstance(t.func.value, ast.Compare)
            and len(t.func.value.ops) == 1 and ast.unparse(t.func.value.left) == "dq" and ast.unparse(t.func.value.comparators[0]) in ("0", "0.0", "0.")):
        raise Untranslatable("the test on the widths is %s" % ast.unparse(t))
    quant = {"any": "existsb", "all": "forallb"}[t.func.attr]
    cmp_ = {ast.Gt: "ltb O (zero O) w", ast.GtE: "leb O (zero O) w", ast.NotEq: "negb (eqb O w (zero O))"}.get(type(t.func.value.ops[0]))
    if cmp_ is None:
        raise Untranslatable("comparison %s" % ast.unparse(t.func.value))
    if len(top.orelse) != 1 or not isinstance(top.orelse[0], ast.If):
        raise Untranslatable("no slit branch after the dx branch")
    sl = top.orelse[0]
    if ast.unparse(sl.test) != "getattr(data, 'dxl', None) is not None or getattr(data, 'dxw', None) is not None":
        raise Untranslatable("slit test: %s" % ast.unparse(sl.test))
    if "resolution.Slit1D(" not in ast.unparse(sl.body[0]) or [ast.unparse(b) for b in sl.orelse] != ["res = resolution.Perfect1D(data.x[index])"]:
        raise Untranslatable("slit / perfect branches")
    return quant, cmp_


def gen_dispatch():
    import os
    lines = ["(* GENERATED by harness/c03.py from sasmodels/direct_model.py (DataMixin._interpret_data: which 1-D resolution class a data set gets) *)",
             "From Coq Require Import List Bool.", "From SM Require Import Base.Num C03.Dispatch.", ""]
    note = None
    try:
        quant, cmp_ = _translate_dispatch()
    except (Untranslatable, OSError, SyntaxError) as exc:
        note = "%s: %s" % (type(exc).__name__, exc)
        quant, cmp_ = "existsb", "ltb O (zero O) w"
    lines.append("Definition dispatch_translated : bool := %s." % ("true" if note is None else "false"))
    if note:
        lines.append("(* not translated: %s *)" % note.replace("*)", "* )"))
    lines += ["Definition code_dispatch {T : Type} (O : Ops T) (dx : option (list T)) (has_dxl has_dxw : bool) : res_kind :=",
              "  match dx with",
              "  | Some dq => if %s (fun w => %s) dq then RPinhole else RPerfect" % (quant, cmp_),
              "  | None => if has_dxl || has_dxw then RSlit else RPerfect",
              "  end.", ""]
    common.write_if_changed(os.path.join(common.THEORIES, "Gen", "C03_dispatch.v"), "\n".join(lines))
    return note


def _translate_theory():
    """DataMixin._calc_theory read as straight-line code over three symbols: the caller's background, the kernel
    evaluated with a given background parameter, the resolution's apply.  Returns the Coq term of the returned value.
    Vector terms: kernel (s) | resolution (v) | map (fun x => add O x (s)) (v); scalar terms: zero O | background_in |
    if sesans then a else b.  Anything else that reaches a tracked name is Untranslatable (fail-closed)."""
    import ast
    import os
    tree = ast.parse(open(os.path.join(common.REPO, "sasmodels", "direct_model.py")).read())
    fn = [f for c in tree.body if isinstance(c, ast.ClassDef) and c.name == "DataMixin" for f in c.body
          if isinstance(f, ast.FunctionDef) and f.name == "_calc_theory"]
    if len(fn) != 1:
        raise Untranslatable("DataMixin._calc_theory not found")
    env = {"pars": ("pars",), "cutoff": None}
    state = {"pars_bg": ("s", "background_in")}

    def key(t):
        if isinstance(t, ast.Name):
            return t.id
        if isinstance(t, ast.Attribute) and isinstance(t.value, ast.Name) and t.value.id == "self":
            return "self." + t.attr
        return None

    def ev(e):
        k = key(e)
        if k is not None:
            if env.get(k) is None:
                raise Untranslatable("value of %s is not tracked" % k)
            return env[k]
        if isinstance(e, ast.Constant) and isinstance(e.value, (int, float)) and e.value == 0:
            return ("s", "zero O")
        if isinstance(e, ast.IfExp):
            if ast.unparse(e.test) == "self.data_type != 'sesans'":
                a, b = ev(e.orelse), ev(e.body)
            elif ast.unparse(e.test) == "self.data_type == 'sesans'":
                a, b = ev(e.body), ev(e.orelse)
            else:
                raise Untranslatable("condition %s" % ast.unparse(e.test))
            if a[0] != "s" or b[0] != "s":
                raise Untranslatable("conditional between arrays")
            return ("s", "(if sesans then %s else %s)" % (a[1], b[1]))
        if isinstance(e, ast.Call):
            f = ast.unparse(e.func)
            if f == "pars.get" and len(e.args) == 2 and ast.unparse(e.args[0]) == "'background'" and ast.unparse(e.args[1]) == "default_background" and env.get("pars") == ("pars",):
                return state["pars_bg"]
            if f == "pars.copy" and not e.args and env.get("pars") == ("pars",):
                return ("pars",)
            if f == "call_kernel" and [ast.unparse(a) for a in e.args] == ["self._kernel", "pars"] and [(k_.arg, ast.unparse(k_.value)) for k_ in e.keywords] == [("cutoff", "cutoff")] \
                    and env.get("pars") == ("pars",):
                return ("v", "kernel (%s)" % state["pars_bg"][1])
            if f == "self.resolution.apply" and len(e.args) == 1 and not e.keywords:
                a = ev(e.args[0])
                if a[0] != "v":
                    raise Untranslatable("apply of a scalar")
                return ("v", "resolution (%s)" % a[1])
            raise Untranslatable("call %s" % ast.unparse(e))
        if isinstance(e, ast.BinOp) and isinstance(e.op, ast.Add):
            a, b = ev(e.left), ev(e.right)
            if a[0] == "s" and b[0] == "s":
                return ("s", "add O (%s) (%s)" % (a[1], b[1]))
            if a[0] == "v" and b[0] == "s":
                return ("v", "map (fun x => add O x (%s)) (%s)" % (b[1], a[1]))
            if a[0] == "s" and b[0] == "v":
                return ("v", "map (fun x => add O (%s) x) (%s)" % (a[1], b[1]))
            raise Untranslatable("sum of two arrays")
        raise Untranslatable("expression %s" % ast.unparse(e))

    def stores(node):
        out = []
        for n in ast.walk(node):
            if isinstance(n, (ast.Assign, ast.AugAssign, ast.AnnAssign)):
                for t in (n.targets if isinstance(n, ast.Assign) else [n.target]):
                    for x in ast.walk(t):
                        if isinstance(x, (ast.Name, ast.Attribute)) and key(x) is not None and isinstance(getattr(x, "ctx", None), ast.Store):
                            out.append(key(x))
                        if isinstance(x, ast.Subscript) and ast.unparse(x.value) == "pars":
                            out.append("pars[]")
        return out
    for st in fn[0].body:
        if isinstance(st, ast.Expr) and isinstance(st.value, ast.Constant):
            continue
        if isinstance(st, ast.Return):
            r = ev(st.value)
            if r[0] != "v":
                raise Untranslatable("returns a scalar")
            return r[1]
        if isinstance(st, ast.Assign) and len(st.targets) == 1:
            t = st.targets[0]
            if isinstance(t, ast.Subscript) and ast.unparse(t.value) == "pars":
                if ast.unparse(t.slice) != "'background'":
                    raise Untranslatable("assignment to %s" % ast.unparse(t))
                v = ev(st.value)
                if v[0] != "s":
                    raise Untranslatable("array stored as background")
                state["pars_bg"] = v
                continue
            k = key(t)
            if k is None:
                raise Untranslatable("assignment to %s" % ast.unparse(t))
            try:
                env[k] = ev(st.value)
            except Untranslatable:
                if k in ("pars", "self._kernel", "self.resolution", "cutoff"):
                    raise
                env[k] = None          # unknown value: an error only if it is used later
            continue
        if isinstance(st, ast.If):
            touched = stores(st)
            if "pars[]" in touched or any(k in ("pars", "cutoff", "self.resolution", "self.data_type") for k in touched):
                raise Untranslatable("conditional statement changes %s" % touched)
            for k in touched:
                if k == "self._kernel" and ast.unparse(st.test) == "self._kernel is None":
                    continue
                env[k] = None
            continue
        raise Untranslatable("statement %s" % ast.unparse(st).splitlines()[0])
    raise Untranslatable("no return statement")


def gen_theory():
    import os
    lines = ["(* GENERATED by harness/c03.py from sasmodels/direct_model.py (DataMixin._calc_theory: where the flat background enters) *)",
             "From Coq Require Import List Bool.", "From SM Require Import Base.Num.", ""]
    note = None
    try:
        term = _translate_theory()
    except (Untranslatable, OSError, SyntaxError) as exc:
        note = "%s: %s" % (type(exc).__name__, exc)
        term = "map (fun x => add O x (if sesans then zero O else background_in)) (resolution (kernel (zero O)))"
    lines.append("Definition theory_translated : bool := %s." % ("true" if note is None else "false"))
    if note:
        lines.append("(* not translated: %s *)" % note.replace("*)", "* )"))
    lines += ["Definition code_theory {T : Type} (O : Ops T) (sesans : bool) (resolution : list T -> list T) (kernel : T -> list T) (background_in : T) : list T :=",
              "  %s." % term, ""]
    common.write_if_changed(os.path.join(common.THEORIES, "Gen", "C03_theory.v"), "\n".join(lines))
    return note


DISPATCH_NOTE = [None]
THEORY_NOTE = [None]


def gen():
    """Regenerate Gen/C03_code.v from the text of sasmodels/resolution.py and Gen/C03_dispatch.v from direct_model.py."""
    DISPATCH_NOTE[0] = gen_dispatch()
    THEORY_NOTE[0] = gen_theory()
    return _gen_code()


def _gen_code():
    import os
    from . import nptrans
    head = ["(* GENERATED by harness/c03.py from sasmodels/resolution.py (bin_edges, pinhole_resolution, _q_perp_weights, apply_resolution_matrix) *)",
            "From Coq Require Import List Bool.", "Import ListNotations.", "From SM Require Import Base.Num C03.Model.", ""]
    note, defs = None, None
    try:
        t = _translate_resolution()
        lits = {"0.5": "half"}
        sh = lambda name, k: (name, (("i", k),))
        c = lambda e, names, **kw: nptrans.coq(e, names, lits, **kw)
        defs = [
            "  Definition code_edge_first (x0 x1 : T) : T := %s." % c(t["edge_first"], {("x[0]", ()): "x0", ("x[1]", ()): "x1"}),
            "  Definition code_edge_mid (a b : T) : T := %s." % c(t["edge_mid"], {("x", ()): "a", sh("x", 1): "b"}),
            "  Definition code_edge_last (xp xl : T) : T := %s." % c(t["edge_last"], {("x[-1]", ()): "xl", ("x[-2]", ()): "xp"}),
            "  Definition code_cdf_arg (edge q sigma : T) : T := %s." % c(t["cdf_arg"], {("edges", ()): "edge", ("q", ()): "q", ("q_width", ()): "sigma",
                                                                                     ("call:sqrt", (repr(("num", "2.0")),)): "sqrt2"}),
            "  Definition code_pin_elem (qc q sigma nlo nhi c0 c1 : T) : T := %s." % c(t["pin_elem"], {("q_calc", ()): "qc", ("q", ()): "q", ("q_width", ()): "sigma",
                                                                                              ("nsigma_low", ()): "nlo", ("nsigma_high", ()): "nhi", ("cdf", ()): "c0", sh("cdf", 1): "c1"}),
            "  Definition code_perp_elem (qi w e0 e1 : T) : T := %s." % c(t["perp"], {("q_edges", ()): "e0", sh("q_edges", 1): "e1", ("qi", ()): "qi", ("w", ()): "w",
                                                                                   ("fn", "sqrt"): "sqrtT", ("fn", "abs"): "absv O"}),
            "  Definition code_apply (theory column : list T) : T := %s." % c(t["apply"], {("theory", ()): "(fst tw)", ("weight_matrix", ()): "(snd tw)"},
                                                                              sums={"i": ("(combine theory column)", "tw")}),
        ]
    except (Untranslatable, nptrans.Untranslatable, OSError, SyntaxError) as exc:
        note = "%s: %s" % (type(exc).__name__, exc)
    lines = head + ["Definition translated : bool := %s." % ("true" if note is None else "false")]
    if note:
        lines.append("(* not translated: %s *)" % note.replace("*)", "* )"))
        defs = ["  Definition code_edge_first (x0 x1 : T) : T := sub O x0 (mul O half (sub O x1 x0)).",
                "  Definition code_edge_mid (a b : T) : T := mul O half (add O b a).",
                "  Definition code_edge_last (xp xl : T) : T := add O xl (mul O half (sub O xl xp)).",
                "  Definition code_cdf_arg (edge q sigma : T) : T := div O (sub O edge q) (mul O sqrt2 sigma).",
                "  Definition code_pin_elem (qc q sigma nlo nhi c0 c1 : T) : T := sub O c1 c0.",
                "  Definition code_perp_elem (qi w e0 e1 : T) : T := div O (sub O (sqrtT e1) (sqrtT e0)) w.",
                "  Definition code_apply (theory column : list T) : T := apply O theory column."]
    lines += ["Section Code.", "  Context {T : Type} (O : Ops T).", "  Variable sqrtT : T -> T.", "  Variables half sqrt2 : T.", ""] + defs + ["End Code.", ""]
    common.write_if_changed(os.path.join(common.THEORIES, "Gen", "C03_code.v"), "\n".join(lines))
    return note


def main(run):
    from sasmodels.resolution import Pinhole1D, Slit1D, Perfect1D, bin_edges
    from scipy.special import erf
    rng = random.Random(run.seed * 17 + 3)
    thorough = run.tier == "thorough"
    note = []
    run.prove(["C03/Property.v"], gen=lambda: note.append(gen()))
    if note and note[0]:
        run.notes.append("resolution.py not translated (%s): the source-text obligations C03_code_* are vacuous in this run, the behavioural tie decides" % note[0])
    else:
        run.notes.append(("the choice of the 1-D resolution class in _interpret_data not translated (%s): C03_code_dispatch is vacuous" % DISPATCH_NOTE[0]) if DISPATCH_NOTE[0] else
                         "the choice of the 1-D resolution class read from the current direct_model.py (Gen/C03_dispatch.v): a data set with at least one positive width is smeared (C03_code_dispatch, C03_positive_width_is_smeared)")
        run.notes.append(("where the background enters DataMixin._calc_theory not translated (%s): C03_code_theory is vacuous" % THEORY_NOTE[0]) if THEORY_NOTE[0] else
                         "where the flat background enters read from the current DataMixin._calc_theory (Gen/C03_theory.v): kernel asked for background 0, caller's background added to the smeared values (C03_code_theory, C03_code_background_after)")
        run.notes.append("bin_edges, pinhole_resolution, _q_perp_weights and apply_resolution_matrix translated from the current resolution.py (Gen/C03_code.v, symbolic numpy evaluation) and proved equal to the model (C03_code_*)")
    cases, metas = [], []
    ecases, emetas = [], []
    stats = dict(pinhole=0, slit_length=0, slit_width=0, slit_mixed=0, zero_width=0, two_d=0, user_qcalc=0, direct_model=0)
    evals, distinct = 0, set()
    for gname, q in grids(rng, thorough):
        # ---------------- pinhole
        widths = [("5%", 0.05 * q), ("wide", rng.uniform(0.5, 1.5) * q), ("const", np.full(len(q), rng.uniform(1e-4, 0.02))),
                  ("per-point", np.array([rng.uniform(0.001, 0.3) * x for x in q]))]
        # directed: widths for which the default extension puts a sample inside the |q| < 0.02 min(q) band that is
        # removed from q_calc (rare by chance: the band is 4% of q_min wide)
        from sasmodels.resolution import pinhole_extend_q as _ext
        hits = []
        for r_ in np.linspace(0.38, 1.6, 245):
            try:
                sg = _ext(q, r_ * q)
            except Exception:  # noqa
                continue
            if np.any(np.abs(sg) < 0.02 * np.min(q)):
                hits.append(r_)
        # some points measured with perfect resolution (dq = 0) among smeared ones
        if len(q) >= 4:
            z_ = 0.05 * q
            idx_ = rng.sample(range(len(q)), max(1, len(q) // 4))
            if gname == "merged":
                srt_ = np.sort(q)
                idx_ += [int(k) for k in np.nonzero(np.isin(q, srt_[1:][np.diff(srt_) == 0]))[0]]
            z_[idx_] = 0.0
            widths.append(("some-zero", z_))
        if hits:
            widths.append(("band", rng.choice(hits) * q))
            stats["pinhole_band_removed"] = stats.get("pinhole_band_removed", 0) + 1
        for wname, dq in widths:
            desc = dict(kind="pinhole", grid=gname, q=list(map(float, q)), dq=list(map(float, dq)))
            evals += 1; stats["pinhole"] += 1
            try:
                res = Pinhole1D(q, dq)
            except Exception as exc:  # noqa
                run.add(Finding("C03:pinhole:construct", "Pinhole1D(%s grid, %s width) raised %r" % (gname, wname, exc), desc))
                continue
            # the default grid itself against the Coq model of pinhole_extend_q / linear_extrapolation / cut / abs
            if len(q) >= 2 and len(res.q_calc) <= 400:
                from sasmodels import resolution as _R
                order = np.argsort(q, kind="stable")
                qs_, ws_ = q[order], np.asarray(dq, "d")[order]
                nlo_, nhi_ = _R.PINHOLE_N_SIGMA
                qmin_, qmax_ = np.min(q - nlo_ * dq), np.max(q + nhi_ * dq)
                d_lo, d_hi = qs_[1] - qs_[0], qs_[-1] - qs_[-2]
                n_low = int(np.ceil((qs_[0] - qmin_) / d_lo)) if d_lo > 0 else 15
                n_high = int(np.ceil((qmax_ - qs_[-1]) / d_hi)) if d_hi > 0 else 15
                if 1 <= n_low <= 300 and 1 <= n_high <= 300:
                    ecases.append("(MkECase %s %s %s %s %s %d%%nat %d%%nat %s %s)" % (
                        flist(qs_), flist(ws_), fhex(nlo_), fhex(nhi_), fhex(2 * _R.MINIMUM_RESOLUTION), n_low, n_high,
                        fhex(_R.MINIMUM_ABSOLUTE_Q * np.min(q)), flist(res.q_calc)))
                    emetas.append(dict(desc, n_low=n_low, n_high=n_high, q_calc=list(map(float, res.q_calc))))
            if check_matrix(run, "pinhole %s/%s" % (gname, wname), res, q, desc, window=(q - 2.5 * dq, q + 3.0 * dq), sum_tol=1e-12):
                distinct.add(("pinhole", gname, wname, len(q)))
                # the weights are built on the signed grid (points beyond the beam stop are negative) and q_calc is
                # its absolute value: recover the signed grid from the public extension function
                from sasmodels.resolution import pinhole_extend_q
                signed = pinhole_extend_q(q, dq)
                signed = signed[np.abs(signed) >= 0.02 * np.min(q)]
                if len(signed) == len(res.q_calc) and np.array_equal(np.abs(signed), res.q_calc):
                    qsig = signed
                    stats["pinhole_default_signed"] = stats.get("pinhole_default_signed", 0) + int(np.any(signed < 0))
                else:
                    qsig = np.asarray(res.q_calc)
                increasing = len(qsig) > 1 and bool(np.all(np.diff(qsig) > 0)) and not (qsig is not signed and np.any(q - 2.5 * dq < 0))
                edges = bin_edges(qsig) if increasing else None
                for i in (rng.sample(range(len(q)), min(3, len(q))) if increasing else []):
                    sig = max(dq[i], 1e-8)
                    cdf = erf((edges - q[i]) / (np.sqrt(2.0) * sig))
                    if len(res.q_calc) <= 260:
                        cases.append("(MkCase 0%%nat %s %s %s %s 0%%float %s)" % (flist(qsig), flist(cdf), fhex(q[i]), fhex(sig), flist(res.weight_matrix[:, i])))
                        metas.append(dict(desc, point=int(i)))
        # signed calculation grids (data next to the beam stop: the window reaches negative q): the public
        # pinhole_resolution on a grid with negative points, as Pinhole1D calls it before taking |q_calc|
        from sasmodels.resolution import pinhole_resolution
        if len(q) >= 2:
            dqw = rng.uniform(0.5, 1.5) * q
            # the data points themselves belong to the grid (as in every default q_calc), so each window holds mass
            qs = np.unique(np.concatenate([q, np.linspace((q - 2.6 * dqw).min(), (q + 3.1 * dqw).max(), rng.randint(40, 160))]))
            qs = qs[np.abs(qs) >= 0.02 * q.min()]
            Ws = pinhole_resolution(qs, q, np.maximum(dqw, 1e-8))
            evals += 1; stats["pinhole_signed"] = stats.get("pinhole_signed", 0) + 1
            desc = dict(kind="pinhole", grid=gname + "/signed", q=list(map(float, q)), dq=list(map(float, dqw)), q_calc=list(map(float, qs)))
            sgn = Ws.sum(axis=0)
            if not (Ws >= -1e-15).all() or not np.all(np.abs(sgn - 1) <= 1e-12):
                run.add(Finding("C03:pinhole-signed:sum", "pinhole_resolution on a signed grid (%s): weights negative or not summing to one (%r)" % (gname, sgn[:3]), desc))
            edges_s = bin_edges(qs)
            for i in rng.sample(range(len(q)), min(3, len(q))):
                cdf = erf((edges_s - q[i]) / (np.sqrt(2.0) * dqw[i]))
                cases.append("(MkCase 0%%nat %s %s %s %s 0%%float %s)" % (flist(qs), flist(cdf), fhex(q[i]), fhex(dqw[i]), flist(Ws[:, i])))
                metas.append(dict(desc, point=int(i)))
        # user-supplied q_calc
        qc_user = np.unique(np.concatenate([q, np.linspace(max(q.min() * 0.3, 1e-5), q.max() * 1.6, 150)]))
        try:
            res = Pinhole1D(q, 0.08 * q, q_calc=qc_user)
            stats["user_qcalc"] += 1; evals += 1
            check_matrix(run, "pinhole %s/user q_calc" % gname, res, q, dict(kind="pinhole-user", grid=gname, q=list(map(float, q))), sum_tol=1e-12)
        except Exception as exc:  # noqa
            run.add(Finding("C03:pinhole:construct", "Pinhole1D with user q_calc raised %r" % exc, dict(grid=gname)))
        # zero width reproduces the unsmeared value exactly
        f = lambda x: 1.0 / (1.0 + (40 * x) ** 2) ** 2
        for name, res in (("pinhole", lambda: Pinhole1D(q, np.zeros(len(q)))), ("slit", lambda: Slit1D(q, q_length=0.0, q_width=0.0)),
                          ("slit-none", lambda: Slit1D(q))):
            if len(q) < 2 and name == "pinhole":
                continue
            evals += 1; stats["zero_width"] += 1
            try:
                r = res()
                y = r.apply(f(r.q_calc))
                if name == "slit" and 2 <= len(r.q_calc) <= 200:
                    for i in rng.sample(range(len(q)), min(2, len(q))):
                        cases.append("(MkCase 1%%nat %s %s %s %s %s %s)" % (flist(r.q_calc), flist([]), fhex(q[i]), fhex(0.0), fhex(0.0), flist(r.weight_matrix[:, i])))
                        metas.append(dict(kind="slit", geometry="perfect", grid=gname, q=list(map(float, q)), point=int(i)))
                if not np.array_equal(y, f(q)):
                    run.add(Finding("C03:zero-width:%s" % name, "%s with zero width on the %s grid does not reproduce the unsmeared values (max diff %.3g)" % (
                        name, gname, np.abs(y - f(q)).max()), dict(grid=gname, q=list(map(float, q)))))
            except Exception as exc:  # noqa
                run.add(Finding("C03:zero-width:%s:construct" % name, "%s with zero width raised %r" % (name, exc), dict(grid=gname, q=list(map(float, q)))))
        # ---------------- slit
        Ls = [rng.uniform(0.01, 0.3), 1e-3]
        Ws = [rng.uniform(0.001, 0.05)]
        geoms = [("length", L, 0.0) for L in Ls] + [("width", 0.0, W) for W in Ws] + [("mixed", Ls[0], Ws[0])]
        geoms.append(("length-perpoint", np.array([rng.uniform(0.01, 0.2) for _ in q]), 0.0))
        for gkind, L, W in geoms:
            desc = dict(kind="slit", geometry=gkind, grid=gname, q=list(map(float, q)),
                        q_length=(list(map(float, L)) if isinstance(L, np.ndarray) else L), q_width=W)
            evals += 1
            stats["slit_" + ("length" if gkind.startswith("length") else gkind)] += 1
            try:
                res = Slit1D(q, q_length=(L if isinstance(L, np.ndarray) or L else None) if gkind != "width" else None,
                             q_width=W if W else None)
            except Exception as exc:  # noqa
                run.add(Finding("C03:slit:construct:%s" % gkind, "Slit1D(%s grid, %s) raised %r" % (gname, gkind, exc), desc))
                continue
            Lv = L if isinstance(L, np.ndarray) else np.full(len(q), L)
            known = "C03:slit-width" if W else None
            window = (q - W, np.sqrt((q + W) ** 2 + Lv ** 2)) if W else (q, np.sqrt(q ** 2 + Lv ** 2))
            ok = check_matrix(run, "slit %s/%s" % (gname, gkind), res, q, desc, window=window, sum_tol=1e-9, known_key=known)
            if ok or W:
                distinct.add(("slit", gname, gkind, len(q)))
                for i in rng.sample(range(len(q)), min(2, len(q))):
                    if len(res.q_calc) <= 200 and len(res.q_calc) >= 2:
                        cases.append("(MkCase 1%%nat %s %s %s %s %s %s)" % (flist(res.q_calc), flist([]), fhex(q[i]), fhex(Lv[i]), fhex(W), flist(res.weight_matrix[:, i])))
                        metas.append(dict(desc, point=int(i)))
    # ---------------- the result for a data point does not depend on where it is stored in the data arrays
    for gname, q in grids(rng, False)[:6]:
        if len(q) < 3:
            continue
        perm = list(range(len(q))); rng.shuffle(perm); perm = np.array(perm)
        rev = np.arange(len(q))[::-1]
        for oname, ix in (("reversed", rev), ("permuted", perm)):
            dq = 0.1 * q + 1e-4
            Lp = np.array([rng.uniform(0.01, 0.2) for _ in q])
            for kind, mk in (("pinhole", lambda qq, ii: Pinhole1D(qq, dq[ii])),
                             ("slit-length", lambda qq, ii: Slit1D(qq, q_length=Lp[ii])),
                             ("slit-scalar", lambda qq, ii: Slit1D(qq, q_length=0.05))):
                evals += 1; stats["order"] = stats.get("order", 0) + 1
                desc = dict(kind="order", resolution=kind, grid=gname, order=oname, q=list(map(float, q)), index=list(map(int, ix)))
                try:
                    r0 = mk(q, np.arange(len(q))); r1 = mk(q[ix], ix)
                except Exception as exc:  # noqa
                    run.add(Finding("C03:order:construct", "%s on the %s grid stored %s raised %r" % (kind, gname, oname, exc), desc)); continue
                same_grid = len(r0.q_calc) == len(r1.q_calc) and np.array_equal(r0.q_calc, r1.q_calc)
                if not same_grid or not np.array_equal(np.asarray(r0.weight_matrix)[:, ix], np.asarray(r1.weight_matrix)):
                    run.add(Finding("C03:order:%s" % kind, "%s: weights / q_calc of a data point change when the %s data are stored %s (q_calc %d vs %d points)" % (
                        kind, gname, oname, len(r0.q_calc), len(r1.q_calc)), desc))
                else:
                    distinct.add(("order", kind, gname, oname))
    # ---------------- 2-D pixel resolution
    from sasmodels.data import empty_data2D
    from sasmodels.resolution2d import Pinhole2D
    for acc in ["low", "med", "high"] + (["xhigh"] if thorough else []):
        for rep in range(2 if not thorough else 6):
            # an odd number of columns puts pixels exactly on qx = 0 (and qy = 0 for the symmetric range)
            qx = np.linspace(-0.1, 0.1, rng.choice([3, 5, 7]) if rep % 2 == 0 else rng.randint(3, 7))
            qy = np.linspace(-0.08, 0.12, rng.randint(3, 6)) if rep % 2 else np.linspace(-0.09, 0.09, rng.choice([3, 5]))
            data = empty_data2D(qx, qy, resolution=rng.uniform(0.01, 0.2))
            if rep % 2:
                data.dqx_data = np.abs(data.dqx_data) * rng.uniform(0.5, 3); data.dqy_data = np.abs(data.dqy_data) * rng.uniform(0.2, 2)
            evals += 1; stats["two_d"] += 1
            desc = dict(kind="2d", accuracy=acc, nqx=len(qx), nqy=len(qy))
            try:
                # every other case asks for the widths to be read along the detector axes (coords='cartesian') instead of
                # along and across q: the cloud is centred on the pixel either way
                coords_ = "cartesian" if rep % 2 == 1 else "polar"
                desc["coords"] = coords_
                stats["two_d_cartesian"] = stats.get("two_d_cartesian", 0) + int(coords_ == "cartesian")
                res = Pinhole2D(data=data, accuracy=acc, coords=coords_)
                w = np.asarray(res.q_calc_weights)
                flat = res.apply(np.full(len(res.q_calc[0]), 2.5))
                if not (w > 0).all():
                    run.add(Finding("C03:2d:negative", "Pinhole2D %s: non-positive weight %.3g" % (acc, w.min()), desc))
                elif not np.allclose(flat, 2.5, rtol=1e-13, atol=0):
                    run.add(Finding("C03:2d:constant", "Pinhole2D %s: flat intensity returned as %r" % (acc, flat[:3]), desc))
                else:
                    # every pixel's sampling cloud is centred on the pixel (or on its point reflection -q, which is the
                    # same for I(-q) = I(q)): the weighted mean of the cloud coordinates is +-(qx, qy), pixels on the
                    # axes included; and with zero widths an even theory is returned exactly
                    mx = res.apply(np.asarray(res.q_calc[0])); my = res.apply(np.asarray(res.q_calc[1]))
                    dqx_, dqy_ = np.asarray(res.qx_data), np.asarray(res.qy_data)
                    # (scale: the pixel's own |q| plus a fraction of the detector's extent, so that a pixel AT the origin -
                    #  reachable with widths read along the detector axes - is judged on an absolute scale)
                    sc_ = np.abs(dqx_) + np.abs(dqy_) + 1e-3 * float(np.max(np.abs(dqx_)) + np.max(np.abs(dqy_)))
                    off = np.maximum(np.abs(np.abs(mx) - np.abs(dqx_)), np.abs(np.abs(my) - np.abs(dqy_))) / sc_
                    cross = np.abs(mx * dqy_ - my * dqx_) / sc_ ** 2
                    stats["two_d_centroids"] = stats.get("two_d_centroids", 0) + len(mx)
                    stats["two_d_on_axis_pixels"] = stats.get("two_d_on_axis_pixels", 0) + int(np.sum((dqx_ == 0) | (dqy_ == 0)))
                    if np.any(off > 1e-9) or np.any(cross > 1e-9):
                        j = int(np.argmax(np.maximum(off, cross)))
                        run.add(Finding("C03:2d:centre", "Pinhole2D %s: the sampling cloud of the pixel (%.6g, %.6g) is centred on (%.6g, %.6g): the theory is not requested around the data point" % (
                            acc, dqx_[j], dqy_[j], mx[j], my[j]), desc))
                    else:
                        distinct.add(("2d", acc, rep))
            except Exception as exc:  # noqa
                run.add(Finding("C03:2d:construct", "Pinhole2D %s raised %r" % (acc, exc), desc))
    # ---------------- scale and background pass through smearing linearly (DirectModel)
    from sasmodels.data import empty_data1D
    from sasmodels.direct_model import DirectModel
    model = sas.load("sphere")
    for kind in ("pinhole", "slit", "slit-width"):
        q = np.linspace(0.01, 0.2, 12)
        data = empty_data1D(q, resolution=0.07)
        if kind == "slit":
            data.dx = None; data.dxl = np.full(len(q), 0.05); data.dxw = None
        elif kind == "slit-width":
            # (the width-only weights do not sum to one - recorded finding K03-slit-width - which is exactly why the
            #  background must be added AFTER smearing: linearity in scale and background holds regardless)
            data.dx = None; data.dxl = None; data.dxw = np.full(len(q), 0.005)
        calc = DirectModel(data, model)
        base = calc(radius=60.0, scale=1.0, background=0.0)
        a, b = rng.uniform(0.1, 3), rng.uniform(0.01, 2)
        both = calc(radius=60.0, scale=a, background=b)
        evals += 1; stats["direct_model"] += 1
        if not np.allclose(both, a * base + b, rtol=1e-12, atol=1e-14):
            run.add(Finding("C03:linearity:%s" % kind, "DirectModel with %s smearing: I(scale=%.4g, background=%.4g) != scale*I(1,0)+background (max diff %.3g)" % (
                kind, a, b, np.abs(both - (a * base + b)).max()), dict(kind=kind, scale=a, background=b)))
        else:
            distinct.add(("direct", kind))
    # ---------------- a data object whose widths are partly zero (merged data: a few points without a resolution column):
    # the calculator still requests the theory over every point's window and smears the points that have a width
    from sasmodels.data import Data1D as _Data1D
    from sasmodels.direct_model import call_kernel as _ck
    for rep in range(3 if not thorough else 10):
        qd = np.sort(np.array([rng.uniform(0.02, 0.25) for _ in range(rng.randint(8, 20))]))
        dqd = rng.uniform(0.05, 0.15) * qd
        zero_ = rng.sample(range(len(qd)), rng.randint(1, 3))
        dqd[zero_] = 0.0
        data = _Data1D(x=qd.copy(), y=np.ones(len(qd)), dx=dqd.copy(), dy=np.ones(len(qd)))
        calc = DirectModel(data, model, cutoff=0.0)
        rad = rng.uniform(40, 120)
        got = np.asarray(calc(radius=rad, scale=1.0, background=0.0))
        ref_res = Pinhole1D(qd, dqd)
        kern = model.make_kernel([ref_res.q_calc])
        want = ref_res.apply(np.asarray(_ck(kern, dict(radius=rad, scale=1.0, background=0.0), cutoff=0.0)))
        kern.release()
        evals += 1; stats["direct_model_partly_zero"] = stats.get("direct_model_partly_zero", 0) + 1
        desc = dict(kind="direct-model-partly-zero", q=list(map(float, qd)), dq=list(map(float, dqd)), radius=rad)
        lo_need, hi_need = float((qd - 2.5 * dqd).min()), float((qd + 3.0 * dqd).max())
        qc_ = np.asarray(calc.resolution.q_calc)
        if qc_.min() > max(lo_need, 0.02 * qd.min()) + 1e-12 or qc_.max() < hi_need - 1e-12:
            run.add(Finding("C03:direct-model:coverage", "DirectModel on data with %d zero widths among %d points requests the theory on [%.5g, %.5g]; the resolution windows span [%.5g, %.5g]" % (
                len(zero_), len(qd), qc_.min(), qc_.max(), lo_need, hi_need), desc))
        elif not np.allclose(got, want, rtol=1e-10, atol=0):
            k_ = int(np.argmax(np.abs(got / want - 1)))
            run.add(Finding("C03:direct-model:partly-zero", "DirectModel on data with %d zero widths among %d points: I(q=%.5g, dq=%.4g) = %.8g, Pinhole1D smearing of the same theory gives %.8g" % (
                len(zero_), len(qd), qd[k_], dqd[k_], got[k_], want[k_]), desc))
        else:
            distinct.add(("direct-partly-zero", rep))
    for m in metas[:4]:
        run.sample({k: (v if not isinstance(v, list) or len(v) < 8 else v[:8] + ["..."]) for k, v in m.items()})
    traces = 0
    if cases and not run.proof_broken():
        shards = []
        N = 40
        for i in range(0, len(cases), N):
            shards.append("From Coq Require Import List PrimFloat.\nImport ListNotations.\nFrom SM Require Import Base.Num C03.Model C03.Exec.\n"
                          "Definition cases : list Case := [\n%s\n].\nEval vm_compute in (check_cases %s cases).\n" % (";\n".join(cases[i:i + N]), fhex(1e-12)))
        for si, (rc, vals, err) in enumerate(common.run_coq_shards(shards, run.scratch.sub("coq"), prefix="c03", jobs=12)):
            if rc != 0 or not vals:
                run.add(Finding("corr:C03:coq", "correspondence shard failed: %s" % err[-300:], {"correspondence": "C03.Exec.check_cases", "stderr": err[-1500:]}, no_input=True))
                continue
            traces += min(N, len(cases) - si * N)
            for idx in vals[0]:
                m = metas[si * N + idx]
                run.add(Finding("C03:corr:%s" % m["kind"], "%s weights for data point %d of the %s grid differ from the Coq model" % (m["kind"], m["point"], m["grid"]),
                                {k: v for k, v in m.items()}))
    if ecases and not run.proof_broken():
        stats["default_grids_vs_model"] = len(ecases)
        shards = []
        N = 25
        for i in range(0, len(ecases), N):
            shards.append("From Coq Require Import List PrimFloat.\nImport ListNotations.\nFrom SM Require Import Base.Num C03.Model C03.Exec.\n"
                          "Definition cases : list ECase := [\n%s\n].\nEval vm_compute in (check_ecases %s cases).\n" % (";\n".join(ecases[i:i + N]), fhex(1e-13)))
        for si, (rc, vals, err) in enumerate(common.run_coq_shards(shards, run.scratch.sub("coqe"), prefix="c03e", jobs=12)):
            if rc != 0 or not vals:
                run.add(Finding("corr:C03:coq", "correspondence shard (default grid) failed: %s" % err[-300:], {"correspondence": "C03.Exec.check_ecases", "stderr": err[-1500:]}, no_input=True))
                continue
            traces += min(N, len(ecases) - si * N)
            for idx in vals[0]:
                m = emetas[si * N + idx]
                run.add(Finding("C03:corr:qcalc", "the default q_calc of Pinhole1D on the %s grid differs from the Coq model of pinhole_extend_q / linear_extrapolation / low-q cut" % m["grid"], m))
    run.coverage.update(evaluations=evals, distinct_nontrivial=len(distinct), traces_validated_against_impl=traces, input_distribution=stats)
    run.assumptions += ["erf at the bin edges is a leaf supplied by the harness (scipy.special.erf, as in the implementation)",
                        "coverage is checked with one calculation-grid step of slack at either end"]
    run.finish_args = dict(level="proof",
                           rule="q grids (linear, log, near zero, irregular, 1-2 points; thorough: up to 500 points) x pinhole widths (relative, constant, per-point, wider than q, zero) x slit (L,0), (0,W), (L,W), per-point x user q_calc x 2-D accuracy levels x DirectModel linearity; distinct = distinct (kind, grid, geometry, size)",
                           trusted=["harness/c03.py (oracle and case extraction)", "scipy.special.erf"])
