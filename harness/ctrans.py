"""Fail-closed translator of straight-line C functions (kernel_iq.c helpers) into Gallina terms over an
`Ops T` carrier.  Anything outside the small whitelist below raises Untranslatable: the caller then emits
placeholders equal to the hand-written model and records that the source-text obligations are vacuous in
that run (the behavioural correspondence still decides).

Supported: declarations with or without initialiser (double, const double, arrays of fixed size),
assignments to names, `p->f`, `*p`, `a[k]`; SINCOS(angle*M_PI_180, s, c); if/else with assignments or
returns in both arms; `switch (x) { default: case k: return e; ... }`; return; user-supplied statement
macros (SET_VEC, ORTH_VEC) and expression macros (SCALAR_VEC); expressions with + - * / unary -, unary +,
comparisons, ?:, calls to a whitelisted set of functions, numeric literals from a whitelisted table.
"""
from __future__ import annotations

import re


class Untranslatable(Exception):
    pass


_TOKEN = re.compile(r"\s*(?:(\d+\.\d*(?:[eE][-+]?\d+)?|\.\d+(?:[eE][-+]?\d+)?|\d+(?:[eE][-+]?\d+)?)|([A-Za-z_][A-Za-z0-9_]*)|(->|<=|>=|==|!=|&&|\|\||[-+*/()\[\]{},;=<>?:!]))")


def strip_comments(src):
    # one left-to-right pass, so that `//*x` is a line comment and not the start of a block comment
    return re.sub(r"//[^\n]*|/\*.*?\*/", " ", src, flags=re.S)


def function_text(src, name):
    """Return (param_text, body_text) of the C function `name` (first definition)."""
    src = strip_comments(src)
    for m in re.finditer(r"\b%s\s*\(" % re.escape(name), src):
        i = m.end()
        depth = 1
        while i < len(src) and depth:
            depth += {"(": 1, ")": -1}.get(src[i], 0)
            i += 1
        params = src[m.end():i - 1]
        j = i
        while j < len(src) and src[j].isspace():
            j += 1
        if j < len(src) and src[j] == "{":
            k = j + 1
            depth = 1
            while k < len(src) and depth:
                depth += {"{": 1, "}": -1}.get(src[k], 0)
                k += 1
            return params, src[j + 1:k - 1]
    raise Untranslatable("function %s not found" % name)


def tokenize(text):
    toks = []
    pos = 0
    text = text.rstrip()
    while pos < len(text):
        m = _TOKEN.match(text, pos)
        if not m:
            if text[pos:].strip() == "":
                break
            raise Untranslatable("cannot tokenise at %r" % text[pos:pos + 30])
        if m.group(1) is not None:
            toks.append(("num", m.group(1)))
        elif m.group(2) is not None:
            toks.append(("id", m.group(2)))
        else:
            toks.append(("op", m.group(3)))
        pos = m.end()
    return toks


# expression trees: ("num", text) ("var", name) ("neg", e) ("bin", op, a, b) ("cmp", op, a, b)
# ("ite", c, a, b) ("call", f, [args])

class Parser:
    def __init__(self, toks, stmt_macros=None, expr_macros=None):
        self.t = toks
        self.i = 0
        self.stmt_macros = stmt_macros or {}
        self.expr_macros = expr_macros or {}

    def peek(self, k=0):
        return self.t[self.i + k] if self.i + k < len(self.t) else ("eof", "")

    def next(self):
        tok = self.peek()
        self.i += 1
        return tok

    def expect(self, val):
        tok = self.next()
        if tok[1] != val:
            raise Untranslatable("expected %r, got %r" % (val, tok[1]))

    def at(self, val):
        return self.peek()[1] == val and self.peek()[0] in ("op", "id")

    # ---- expressions ----
    def expr(self):
        c = self.cmp()
        if self.at("?"):
            self.next()
            a = self.expr()
            self.expect(":")
            b = self.expr()
            return ("ite", c, a, b)
        return c

    def cmp(self):
        a = self.sum()
        if self.peek()[0] == "op" and self.peek()[1] in ("<", ">", "<=", ">=", "=="):
            op = self.next()[1]
            b = self.sum()
            return ("cmp", op, a, b)
        return a

    def sum(self):
        a = self.term()
        while self.peek()[0] == "op" and self.peek()[1] in ("+", "-"):
            op = self.next()[1]
            b = self.term()
            a = ("bin", op, a, b)
        return a

    def term(self):
        a = self.unary()
        while self.peek()[0] == "op" and self.peek()[1] in ("*", "/"):
            op = self.next()[1]
            b = self.unary()
            a = ("bin", op, a, b)
        return a

    def unary(self):
        if self.peek() == ("op", "-"):
            self.next()
            return ("neg", self.unary())
        if self.peek() == ("op", "+"):
            self.next()
            return self.unary()
        return self.atom()

    def atom(self):
        kind, val = self.next()
        if kind == "num":
            return ("num", val)
        if kind == "op" and val == "(":
            e = self.expr()
            self.expect(")")
            return e
        if kind == "op" and val == "*":      # *ptr read
            k2, v2 = self.next()
            if k2 != "id":
                raise Untranslatable("deref of non-name")
            return ("var", "*" + v2)
        if kind == "id":
            if self.at("("):
                self.next()
                args = []
                if not self.at(")"):
                    args.append(self.expr())
                    while self.at(","):
                        self.next()
                        args.append(self.expr())
                self.expect(")")
                if val in self.expr_macros:
                    return self.expr_macros[val](args)
                return ("call", val, args)
            if self.at("->"):
                self.next()
                k2, v2 = self.next()
                if k2 != "id":
                    raise Untranslatable("bad field")
                return ("var", val + "->" + v2)
            if self.at("["):
                self.next()
                k2, v2 = self.next()
                if k2 != "num" or not v2.isdigit():
                    raise Untranslatable("non-constant index")
                self.expect("]")
                return ("var", "%s[%s]" % (val, v2))
            return ("var", val)
        raise Untranslatable("unexpected token %r" % val)

    # ---- statements: produce a list of ("assign", lvalue, expr) | ("sincos", e, s, c)
    #      | ("if", cond, [then], [else]) | ("return", e) | ("switch", var, {k: stmts}, default_key) ----
    def lvalue(self):
        kind, val = self.next()
        if kind == "op" and val == "*":
            k2, v2 = self.next()
            if k2 != "id":
                raise Untranslatable("bad lvalue")
            return "*" + v2
        if kind != "id":
            raise Untranslatable("bad lvalue %r" % val)
        if self.at("->"):
            self.next()
            return val + "->" + self.next()[1]
        if self.at("["):
            self.next()
            k2, v2 = self.next()
            if k2 != "num" or not v2.isdigit():
                raise Untranslatable("non-constant index")
            self.expect("]")
            return "%s[%s]" % (val, v2)
        return val

    def block(self):
        """statement or braced list"""
        if self.at("{"):
            self.next()
            out = []
            while not self.at("}"):
                out += self.stmt()
            self.next()
            return out
        return self.stmt()

    def stmt(self):
        kind, val = self.peek()
        if kind == "op" and val == ";":
            self.next()
            return []
        if kind == "op" and val == "{":
            return self.block()
        if kind == "id" and val in ("const", "double", "unsigned", "int"):
            while self.peek()[0] == "id" and self.peek()[1] in ("const", "double", "unsigned", "int"):
                self.next()
            out = []
            while True:
                k, name = self.next()
                if k != "id":
                    raise Untranslatable("bad declaration")
                if self.at("["):
                    self.next(); self.next(); self.expect("]")
                if self.at("="):
                    self.next()
                    out.append(("assign", name, self.expr()))
                if self.at(","):
                    self.next()
                    continue
                self.expect(";")
                return out
        if kind == "id" and val == "return":
            self.next()
            e = self.expr()
            self.expect(";")
            return [("return", e)]
        if kind == "id" and val == "if":
            self.next()
            self.expect("(")
            c = self.expr()
            self.expect(")")
            th = self.block()
            el = []
            if self.at("else"):
                self.next()
                el = self.block()
            return [("if", c, th, el)]
        if kind == "id" and val == "switch":
            self.next()
            self.expect("(")
            v = self.expr()
            self.expect(")")
            self.expect("{")
            cases = {}
            labels = []
            while not self.at("}"):
                if self.at("default"):
                    self.next(); self.expect(":")
                    labels.append("default")
                elif self.at("case"):
                    self.next()
                    k, n = self.next()
                    if k != "num" or not n.isdigit():
                        raise Untranslatable("case label")
                    self.expect(":")
                    labels.append(int(n))
                else:
                    body = self.stmt()
                    if not labels:
                        raise Untranslatable("statement before first case")
                    if len(body) != 1 or body[0][0] != "return":
                        raise Untranslatable("switch arm must be a single return")
                    for lab in labels:
                        cases[lab] = body
                    labels = []
            self.next()
            if labels:
                raise Untranslatable("empty trailing case")
            return [("switch", v, cases)]
        if kind == "id" and val == "SINCOS":
            self.next()
            self.expect("(")
            e = self.expr()
            self.expect(",")
            s = self.next()[1]
            self.expect(",")
            c = self.next()[1]
            self.expect(")")
            self.expect(";")
            return [("sincos", e, s, c)]
        if kind == "id" and val in self.stmt_macros and self.peek(1) == ("op", "("):
            self.next()
            self.next()
            args = []
            if not self.at(")"):
                args.append(self.expr())
                while self.at(","):
                    self.next()
                    args.append(self.expr())
            self.expect(")")
            if self.at(";"):
                self.next()
            return self.stmt_macros[val](args)
        lv = self.lvalue()
        self.expect("=")
        e = self.expr()
        self.expect(";")
        return [("assign", lv, e)]

    def program(self):
        out = []
        while self.peek()[0] != "eof":
            out += self.stmt()
        return out


def parse_function(src, name, stmt_macros=None, expr_macros=None):
    params, body = function_text(src, name)
    prog = Parser(tokenize(body), stmt_macros, expr_macros).program()
    pnames = []
    for p in params.split(","):
        p = p.strip()
        if not p:
            continue
        m = re.search(r"(\*?)\s*([A-Za-z_][A-Za-z0-9_]*)\s*(\[\d*\])?$", p)
        if not m:
            raise Untranslatable("parameter %r" % p)
        pnames.append(m.group(2))
    return pnames, prog


# ---------------------------------------------------------------------------------------------
# symbolic execution of the statement list into one expression per output

def subst(e, env, inputs):
    k = e[0]
    if k == "num":
        return e
    if k == "var":
        n = e[1]
        if n in env:
            return env[n]
        if n in inputs:
            return ("in", inputs[n])
        raise Untranslatable("read of unknown or uninitialised variable %s" % n)
    if k == "neg":
        return ("neg", subst(e[1], env, inputs))
    if k in ("bin", "cmp"):
        return (k, e[1], subst(e[2], env, inputs), subst(e[3], env, inputs))
    if k == "ite":
        return ("ite", subst(e[1], env, inputs), subst(e[2], env, inputs), subst(e[3], env, inputs))
    if k == "call":
        return ("call", e[1], [subst(a, env, inputs) for a in e[2]])
    if k == "in":
        return e
    raise Untranslatable("expression kind %s" % k)


def execute(prog, inputs, angles, env=None):
    """Symbolically run a statement list.  inputs: {c-lvalue: coq text}; angles: {c angle name: coq cs-record
    text} for SINCOS(name*M_PI_180, s, c).  Returns (env, retval) with every value a closed tree over
    ("in", coqtext) leaves."""
    env = dict(env or {})
    ret = None
    for st in prog:
        if ret is not None:
            raise Untranslatable("statement after return")
        if st[0] == "assign":
            env[st[1]] = subst(st[2], env, inputs)
        elif st[0] == "sincos":
            e = st[1]
            if not (e[0] == "bin" and e[1] == "*" and e[2][0] == "var" and e[3] == ("var", "M_PI_180")
                    and e[2][1] in angles and e[2][1] not in env):
                raise Untranslatable("SINCOS argument is not <angle>*M_PI_180")
            a = angles[e[2][1]]
            env[st[2]] = ("in", "(s_ %s)" % a)
            env[st[3]] = ("in", "(c_ %s)" % a)
        elif st[0] == "if":
            c = subst(st[1], env, inputs)
            e1, r1 = execute(st[2], inputs, angles, env)
            e2, r2 = execute(st[3], inputs, angles, env)
            if (r1 is None) != (r2 is None):
                raise Untranslatable("return in one arm only")
            if r1 is not None:
                ret = ("ite", c, r1, r2)
            for k in set(e1) | set(e2):
                v1, v2 = e1.get(k, env.get(k)), e2.get(k, env.get(k))
                if v1 is None or v2 is None:
                    raise Untranslatable("variable %s assigned in one arm only" % k)
                env[k] = v1 if v1 == v2 else ("ite", c, v1, v2)
        elif st[0] == "switch":
            v = subst(st[1], env, inputs)
            cases = st[2]
            if "default" not in cases:
                raise Untranslatable("switch without default")
            arms = {}
            for lab, body in cases.items():
                _, r = execute(body, inputs, angles, env)
                arms[lab] = r
            ret = ("switch", v, arms)
        elif st[0] == "return":
            ret = subst(st[1], env, inputs)
        else:
            raise Untranslatable("statement %s" % st[0])
    return env, ret


# ---------------------------------------------------------------------------------------------
# printing over an `Ops T` named O

FUNCS = {"sqrt": "sqrtT", "fabs": "absv O"}


def coq(e, lits, funcs=None):
    funcs = funcs or FUNCS
    k = e[0]
    if k == "in":
        return e[1]
    if k == "num":
        v = e[1]
        try:
            f = float(v)
        except ValueError:
            raise Untranslatable("literal %s" % v)
        if f == 0.0:
            return "(zero O)"
        if f == 1.0:
            return "(one O)"
        for txt, name in lits.items():
            if not txt.startswith("__") and float(txt) == f:
                return name
        raise Untranslatable("literal %s has no name" % v)
    if k == "neg":
        return "(opp O %s)" % coq(e[1], lits, funcs)
    if k == "bin":
        op = {"+": "add", "-": "sub", "*": "mul", "/": "div"}[e[1]]
        return "(%s O %s %s)" % (op, coq(e[2], lits, funcs), coq(e[3], lits, funcs))
    if k == "cmp":
        nat = lits.get("__nat__", ())
        if e[2][0] == "in" and e[2][1] in nat:
            if not (e[3][0] == "num" and e[3][1].isdigit()):
                raise Untranslatable("comparison of a counter with a non-literal")
            fn = {"<": "Nat.ltb", "<=": "Nat.leb", "==": "Nat.eqb"}.get(e[1])
            if fn is None:
                raise Untranslatable("comparison %s on a counter" % e[1])
            return "(%s %s %s%%nat)" % (fn, e[2][1], e[3][1])
        a, b = coq(e[2], lits, funcs), coq(e[3], lits, funcs)
        return {"<": "(ltb O %s %s)" % (a, b), ">": "(ltb O %s %s)" % (b, a),
                "<=": "(leb O %s %s)" % (a, b), ">=": "(leb O %s %s)" % (b, a),
                "==": "(eqb O %s %s)" % (a, b)}[e[1]]
    if k == "ite":
        return "(if %s then %s else %s)" % (coq(e[1], lits, funcs), coq(e[2], lits, funcs), coq(e[3], lits, funcs))
    if k == "call":
        if e[1] not in funcs:
            raise Untranslatable("function %s" % e[1])
        return "(%s %s)" % (funcs[e[1]], " ".join(coq(a, lits, funcs) for a in e[2]))
    if k == "switch":
        # scrutinee must be a nat-typed input
        v = e[1]
        if v[0] != "in":
            raise Untranslatable("switch on a computed value")
        arms = e[2]
        nums = sorted(x for x in arms if x != "default")
        s = "(match %s with " % v[1]
        for n in nums:
            s += "| %d%%nat => %s " % (n, coq(arms[n], lits, funcs))
        s += "| _ => %s end)" % coq(arms["default"], lits, funcs)
        return s
    raise Untranslatable("cannot print %s" % k)


# ---------------------------------------------------------------------------------------------
# inlining of small helper functions (kernel_header.c: SET_VEC, ORTH_VEC, SCALAR_VEC, clip, ...)

def _rename_expr(e, ren):
    k = e[0]
    if k == "var":
        n = e[1]
        base, sep, idx = n.partition("[")
        if base in ren:
            r = ren[base]
            if isinstance(r, tuple):         # scalar parameter bound to an expression
                if sep:
                    raise Untranslatable("indexing a scalar argument")
                return r
            return ("var", r + sep + idx)
        return e
    if k == "num" or k == "in":
        return e
    if k == "neg":
        return ("neg", _rename_expr(e[1], ren))
    if k in ("bin", "cmp"):
        return (k, e[1], _rename_expr(e[2], ren), _rename_expr(e[3], ren))
    if k == "ite":
        return ("ite", _rename_expr(e[1], ren), _rename_expr(e[2], ren), _rename_expr(e[3], ren))
    if k == "call":
        return ("call", e[1], [_rename_expr(a, ren) for a in e[2]])
    raise Untranslatable("rename %s" % k)


def _rename_lv(lv, ren):
    base, sep, idx = lv.partition("[")
    if base in ren:
        r = ren[base]
        if isinstance(r, tuple):
            raise Untranslatable("assignment to a scalar argument")
        return r + sep + idx
    return lv


class Inliner:
    """Turns simple C helper functions into statement / expression macros of the Parser: array parameters are
    bound by name, scalar parameters by expression, locals get fresh names."""
    def __init__(self, src):
        self.src = src
        self.counter = 0
        self.stmt_macros = {}
        self.expr_macros = {}

    def add(self, name):
        pn, prog = Parser(tokenize(function_text(self.src, name)[1]), self.stmt_macros, self.expr_macros).program(), None
        prog = pn
        params = []
        for p in function_text(self.src, name)[0].split(","):
            p = p.strip()
            m = re.search(r"(\*?)\s*([A-Za-z_][A-Za-z0-9_]*)\s*(\[\d*\])?$", p)
            if not m:
                raise Untranslatable("parameter %r of %s" % (p, name))
            params.append((m.group(2), bool(m.group(1) or m.group(3))))
        is_expr = len(prog) == 1 and prog[0][0] == "return"

        def bind(args):
            if len(args) != len(params):
                raise Untranslatable("%s called with %d arguments" % (name, len(args)))
            ren = {}
            for (pname, is_ptr), a in zip(params, args):
                if is_ptr:
                    if a[0] != "var":
                        raise Untranslatable("array argument of %s is not a name" % name)
                    ren[pname] = a[1]
                else:
                    ren[pname] = a
            return ren

        if is_expr:
            body = prog[0][1]
            self.expr_macros[name] = lambda args: _rename_expr(body, bind(args))
        else:
            def expand(args):
                ren = bind(args)
                self.counter += 1
                out = []
                for st in prog:
                    if st[0] != "assign":
                        raise Untranslatable("helper %s has a %s statement" % (name, st[0]))
                    lv = st[1]
                    base = lv.partition("[")[0]
                    if base not in ren:        # a local of the helper
                        ren[base] = "%s__%s_%d" % (base, name, self.counter)
                    out.append(("assign", _rename_lv(lv, ren), _rename_expr(st[2], ren)))
                return out
            self.stmt_macros[name] = expand
        return self
