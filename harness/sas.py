"""Access to the implementation under test (sasmodels in /repo) through its
public entry points, plus small helpers shared by several checks."""
from __future__ import annotations

import itertools
import math
import os
import sys

import numpy as np

from . import common

if common.REPO not in sys.path:
    sys.path.insert(0, common.REPO)


def load(name, dtype="double", platform="dll"):
    from sasmodels.core import load_model
    return load_model(name, dtype=dtype, platform=platform)


def compiled_model_names():
    """Names of builtin models with C source (the '61 compiled models')."""
    from sasmodels.core import list_models, load_model_info
    out = []
    for n in list_models():
        info = load_model_info(n)
        if not callable(info.Iq):
            out.append(n)
    return out


def kernel_parameters(info):
    """call_parameters after scale/background, truncated to npars."""
    p = info.parameters
    return p.call_parameters[2:2 + p.npars]


def raw_sums(kernel, nq):
    """Decode kernel.result after a call: dict with norm, form, shell, rad, f2, f1."""
    info = kernel.info
    nf = 2 if (info.have_Fq and kernel.dim == "1d") else 1
    r = np.asarray(kernel.result, dtype="d")
    n = nf * nq
    f2 = r[0:n:nf].copy()
    f1 = r[1:n:nf].copy() if nf == 2 else np.zeros(0)
    return dict(norm=float(r[n]), form=float(r[n + 1]), shell=float(r[n + 2]), rad=float(r[n + 3]),
                f2=f2, f1=f1, nf=nf)


def leaf_eval(kernel, point_values, jitter, mode, nq, scalars=None):
    """Evaluate the model's own single-particle functions at one mesh point.

    point_values: {param_name: value} for every non-orientation kernel parameter.
    jitter: {orientation_name: jitter angle}; the view angles come from *scalars*.
    Returns (valid, proj, comps) with comps = [1, Vf, Vs, Re, F2.., F1..].

    The point is presented to the kernel as a degenerate mesh: every size
    parameter as (v, [v], [1.0]) (nominal == point, so the result does not depend
    on which parameters are given a loop), a non-zero jitter angle as the
    two-point distribution ([j, j], [0.5, 0.5]) which always receives a loop.
    """
    from sasmodels.details import make_kernel_args
    info = kernel.info
    mesh = []
    for p in info.parameters.call_parameters:
        if p.name in ("scale",):
            mesh.append((1.0, [1.0], [1.0]))
        elif p.name == "background":
            mesh.append((0.0, [0.0], [1.0]))
        elif p.type == "orientation" and kernel.dim == "2d":
            view = scalars[p.name]
            j = jitter.get(p.name, 0.0)
            if j != 0.0:
                mesh.append((view, np.array([j, j]), np.array([0.5, 0.5])))
            else:
                mesh.append((view, [0.0], [1.0]))
        else:
            v = point_values.get(p.name, scalars[p.name] if scalars and p.name in scalars else p.default)
            mesh.append((v, [v], [1.0]))
    call_details, values, is_magnetic = make_kernel_args(kernel, mesh)
    kernel.Fq(call_details, values, 0.0, is_magnetic, mode)
    s = raw_sums(kernel, nq)
    if not (s["norm"] > 0.0):
        return False, 0.0, [0.0] * (4 + nq * s["nf"])
    proj = s["norm"]
    comps = [1.0, s["form"] / proj, s["shell"] / proj, s["rad"] / proj]
    comps += [float(x) / proj for x in s["f2"]]
    comps += [float(x) / proj for x in s["f1"]]
    return True, proj, comps


def fsum_prod(ws):
    w = 1.0
    for x in ws:
        w *= x
    return w
