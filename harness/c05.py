"""C05 — orientation and angular jitter follow the documented rotation convention."""
from __future__ import annotations

import itertools
import math
import os
import random

import numpy as np

from . import common, sas
from .common import Finding, fhex, flist, cbool, coq_list

REL_TOL = 1e-12

PROBE_ABC = '''
from numpy import inf
name = "verif_probe_abc"
title = "C05 probe returning the particle-frame q"
description = "Iqabc = qa | qb | qc selected by sel"
category = "shape:parallelepiped"
parameters = [
    ["sel", "", 0.0, [0, 3], "", "which component to return"],
    ["v1", "Ang", 10.0, [0, inf], "volume", "size parameter the probe ignores (dispersity on it must not matter)"],
    ["v2", "Ang", 20.0, [0, inf], "volume", ""],
    ["v3", "Ang", 30.0, [0, inf], "volume", ""],
    ["theta", "degrees", 0, [-360, 360], "orientation", ""],
    ["phi", "degrees", 0, [-360, 360], "orientation", ""],
    ["psi", "degrees", 0, [-360, 360], "orientation", ""],
]
form_volume = "return 1.0;"
Iq = "return q;"
Iqabc = "return sel < 0.5 ? qa : sel < 1.5 ? qb : qc;"
'''
PROBE_AC = '''
from numpy import inf
name = "verif_probe_ac"
title = "C05 probe returning (qab, qc)"
description = "Iqac = qab | qc selected by sel"
category = "shape:cylinder"
parameters = [
    ["sel", "", 0.0, [0, 3], "", "which component to return"],
    ["v1", "Ang", 10.0, [0, inf], "volume", "size parameter the probe ignores"],
    ["v2", "Ang", 20.0, [0, inf], "volume", ""],
    ["v3", "Ang", 30.0, [0, inf], "volume", ""],
    ["theta", "degrees", 0, [-360, 360], "orientation", ""],
    ["phi", "degrees", 0, [-360, 360], "orientation", ""],
]
form_volume = "return 1.0;"
Iq = "return q;"
Iqac = "return sel < 0.5 ? qab : qc;"
'''


def Rx(a):
    c, s = math.cos(math.radians(a)), math.sin(math.radians(a))
    return np.array([[1, 0, 0], [0, c, -s], [0, s, c]])


def Ry(a):
    c, s = math.cos(math.radians(a)), math.sin(math.radians(a))
    return np.array([[c, 0, s], [0, 1, 0], [-s, 0, c]])


def Rz(a):
    c, s = math.cos(math.radians(a)), math.sin(math.radians(a))
    return np.array([[c, -s, 0], [s, c, 0], [0, 0, 1]])


def doc_rotation(theta, phi, psi, dtheta, dphi, dpsi):
    """R = Rz(phi) Ry(theta) Rz(psi) Rx(dphi) Ry(dtheta) Rz(dpsi), as in orientation.rst"""
    return Rz(phi) @ Ry(theta) @ Rz(psi) @ Rx(dphi) @ Ry(dtheta) @ Rz(dpsi)


def csf(angle_deg):
    x = angle_deg * (math.pi / 180.0)       # theta*M_PI_180 as in the kernel
    return "(CS %s %s)" % (fhex(math.cos(x)), fhex(math.sin(x)))


def angle(rng):
    # (view angles close to the ends of the declared range [-360, 360] included: the jitter is a deviation FROM the
    #  view angle and is not confined to that range shifted by it)
    return rng.choice([0.0, 90.0, 180.0, -90.0, 270.0, rng.uniform(-360, 360), rng.uniform(-90, 90), rng.uniform(0, 180),
                       rng.uniform(325, 360), rng.uniform(-360, -325)])



def _translate_projection(src):
    """The weight of one mesh point under the default (equirectangular, generate.PROJECTION == 1) projection: the
    APPLY_PROJECTION() macro of kernel_iq.c read as three assignments; cos(dtheta*M_PI_180) is the cosine of the jitter
    latitude (c_ dtheta)."""
    import ast
    import re
    from . import ctrans
    gsrc = open(os.path.join(common.REPO, "sasmodels", "generate.py")).read()
    dflt = [n for n in ast.parse(gsrc).body if isinstance(n, ast.Assign) and [ast.unparse(t) for t in n.targets] == ["PROJECTION"]]
    if len(dflt) != 1 or ast.unparse(dflt[0].value) != "1" or 'source.append("#define PROJECTION %d"%PROJECTION)' not in gsrc.replace(" % ", "%"):
        raise ctrans.Untranslatable("generate.PROJECTION is not 1 by default")
    text = ctrans.strip_comments(src)
    m = re.search(r"#if\s+PROJECTION\s*==\s*1\s*\n(.*?)#elif\s+PROJECTION\s*==\s*2", text, re.S)
    if not m:
        raise ctrans.Untranslatable("PROJECTION == 1 block not found")
    blk = m.group(1).replace("\\\n", " ")
    mm = re.match(r"\s*#define\s+APPLY_PROJECTION\(\)\s+do\s*\{(.*)\}\s*while\s*\(0\)\s*$", blk, re.S)
    if not mm:
        raise ctrans.Untranslatable("APPLY_PROJECTION() is not a do { ... } while (0) macro")
    stmts = [x.strip() for x in mm.group(1).split(";") if x.strip()]
    if len(stmts) != 3 or re.sub(r"\s+", "", stmts[0]) != "dtheta=local_values.table.theta" or re.sub(r"\s+", "", stmts[1]) != "dphi=local_values.table.phi":
        raise ctrans.Untranslatable("APPLY_PROJECTION() statements %s" % stmts)
    lhs, _, rhs = stmts[2].partition("=")
    if lhs.strip() != "weight":
        raise ctrans.Untranslatable("APPLY_PROJECTION() third statement %s" % stmts[2])
    P = ctrans.Parser(ctrans.tokenize(rhs + ";"))
    e = P.expr()
    if P.peek() != ("op", ";"):
        raise ctrans.Untranslatable("trailing tokens in %s" % rhs)

    def sub(x):
        if x[0] == "call" and x[1] == "cos" and len(x[2]) == 1 and x[2][0] in (("bin", "*", ("var", "dtheta"), ("var", "M_PI_180")), ("bin", "*", ("var", "M_PI_180"), ("var", "dtheta"))):
            return ("in", "(c_ dtheta)")
        if x[0] == "var":
            if x[1] == "weight0":
                return ("in", "weight0")
            raise ctrans.Untranslatable("variable %s in the projection weight" % x[1])
        if x[0] == "num":
            return x
        if x[0] == "neg":
            return ("neg", sub(x[1]))
        if x[0] in ("bin", "cmp"):
            return (x[0], x[1], sub(x[2]), sub(x[3]))
        if x[0] == "ite":
            return ("ite", sub(x[1]), sub(x[2]), sub(x[3]))
        if x[0] == "call":
            return ("call", x[1], [sub(a) for a in x[2]])
        raise ctrans.Untranslatable("expression kind %s" % x[0])
    return "  Definition code_projection_weight (dtheta : cs (T:=T)) (weight0 : T) : T := %s." % ctrans.coq(sub(e), {})


def gen():
    """Regenerate Gen/C05_code.v from the text of kernel_iq.c: qac_rotation, qabc_rotation, qac_apply, qabc_apply
    translated statement by statement (harness/ctrans.py, fail-closed).  When a function leaves the translator's
    whitelist the file says so (translated := false), placeholders equal to the model keep the dependants
    compiling and the behavioural tie alone decides."""
    from . import ctrans
    hdr = ["(* GENERATED by harness/c05.py from sasmodels/kernel_iq.c (qac_rotation, qabc_rotation, qac_apply, qabc_apply). *)",
           "From Coq Require Import List.", "From SM Require Import Base.Num C05.Model.", ""]
    body = []
    note = None
    try:
        src = open(os.path.join(common.REPO, "sasmodels", "kernel_iq.c")).read()
        ang4 = dict(theta="theta", phi="phi", dtheta="dtheta", dphi="dphi")
        ang6 = dict(ang4, psi="psi", dpsi="dpsi")
        pn, prog = ctrans.parse_function(src, "qac_rotation")
        if pn != ["rotation", "theta", "phi", "dtheta", "dphi"]:
            raise ctrans.Untranslatable("qac_rotation signature %s" % pn)
        env, ret = ctrans.execute(prog, {}, ang4)
        body.append("  Definition code_qac_rotation (theta phi dtheta dphi : cs (T:=T)) : T * T :=\n    (%s,\n     %s)." % (
            ctrans.coq(env["rotation->R31"], {}), ctrans.coq(env["rotation->R32"], {})))
        pn, prog = ctrans.parse_function(src, "qabc_rotation")
        if pn != ["rotation", "theta", "phi", "psi", "dtheta", "dphi", "dpsi"]:
            raise ctrans.Untranslatable("qabc_rotation signature %s" % pn)
        env, ret = ctrans.execute(prog, {}, ang6)
        body.append("  Definition code_qabc_rotation (theta phi psi dtheta dphi dpsi : cs (T:=T)) : qabc_rot (T:=T) :=\n    QABC " +
                    "\n      ".join(ctrans.coq(env["rotation->R%s" % ij], {}) for ij in ("11", "12", "21", "22", "31", "32")) + ".")
        pn, prog = ctrans.parse_function(src, "qac_apply")
        if pn != ["rotation", "qx", "qy", "qab_out", "qc_out"]:
            raise ctrans.Untranslatable("qac_apply signature %s" % pn)
        env, ret = ctrans.execute(prog, {"rotation->R31": "(fst r)", "rotation->R32": "(snd r)", "qx": "qx", "qy": "qy"}, {})
        body.append("  Definition code_qac_apply (r : T * T) (qx qy : T) : T * T :=\n    (%s,\n     %s)." % (
            ctrans.coq(env["*qab_out"], {}), ctrans.coq(env["*qc_out"], {})))
        pn, prog = ctrans.parse_function(src, "qabc_apply")
        if pn != ["rotation", "qx", "qy", "qa_out", "qb_out", "qc_out"]:
            raise ctrans.Untranslatable("qabc_apply signature %s" % pn)
        ins = {"rotation->R%s" % ij: "(r%s r)" % ij for ij in ("11", "12", "21", "22", "31", "32")}
        ins.update(qx="qx", qy="qy")
        env, ret = ctrans.execute(prog, ins, {})
        body.append("  Definition code_qabc_apply (r : qabc_rot (T:=T)) (qx qy : T) : vec3 (T:=T) :=\n    V3 %s\n       %s\n       %s." % tuple(
            ctrans.coq(env["*q%s_out" % a], {}) for a in "abc"))
        body.append(_translate_projection(src))
    except (ctrans.Untranslatable, OSError, KeyError) as exc:
        note = "%s: %s" % (type(exc).__name__, exc)
        body = ["  Definition code_projection_weight (dtheta : cs (T:=T)) (weight0 : T) : T := mul O (absv O (c_ dtheta)) weight0.","  Definition code_qac_rotation (theta phi dtheta dphi : cs (T:=T)) : T * T := qac_rotation O theta phi dtheta dphi.",
                "  Definition code_qabc_rotation (theta phi psi dtheta dphi dpsi : cs (T:=T)) : qabc_rot (T:=T) := qabc_rotation O theta phi psi dtheta dphi dpsi.",
                "  Definition code_qac_apply (r : T * T) (qx qy : T) : T * T :=\n    let m := qac_apply O r qx qy in ((if ltb O (zero O) (fst m) then sqrtT (fst m) else (zero O)), snd m).",
                "  Definition code_qabc_apply (r : qabc_rot (T:=T)) (qx qy : T) : vec3 (T:=T) := qabc_apply O r qx qy."]
    lines = hdr + ["Definition translated : bool := %s." % ("true" if note is None else "false")]
    if note:
        lines.append("(* not translated: %s *)" % note.replace("*)", "* )"))
    lines += ["", "Section Code.", "  Context {T : Type} (O : Ops T).", "  Variable sqrtT : T -> T.", ""] + body + ["End Code.", ""]
    common.write_if_changed(os.path.join(common.THEORIES, "Gen", "C05_code.v"), "\n".join(lines))
    return note


def main(run):
    from sasmodels.core import load_model
    from sasmodels.direct_model import call_kernel, get_mesh
    from sasmodels.details import make_kernel_args
    rng = random.Random(run.seed * 7 + 5)
    thorough = run.tier == "thorough"
    note = []
    run.prove(["C05/Property.v"], gen=lambda: note.append(gen()))
    if note and note[0]:
        run.notes.append("kernel_iq.c rotation functions not translated (%s): the source-text obligations C05_code_* are vacuous in this run, the behavioural tie decides" % note[0])
    else:
        run.notes.append("kernel_iq.c qac_rotation/qabc_rotation/qac_apply/qabc_apply translated from the current source (Gen/C05_code.v) and proved equal to the model (C05_code_*)")
    pdir = run.scratch.sub("probes")
    paths = {}
    # variants with a vector parameter declared ahead of the orientation block: the kernel finds the view angles
    # through ParameterTable.theta_offset, which has to count every element of the vector
    vec_line = '    ["seg[3]", "Ang", 7.0, [0, inf], "volume", "vector parameter ahead of the angles (ignored)"],\n'
    def with_vec(txt, name):
        return txt.replace('name = "%s"' % name, 'name = "%s_vec"' % name).replace('    ["v2",', vec_line + '    ["v2",')
    for nm, txt in (("verif_probe_abc", PROBE_ABC), ("verif_probe_ac", PROBE_AC),
                    ("verif_probe_abc_vec", with_vec(PROBE_ABC, "verif_probe_abc")), ("verif_probe_ac_vec", with_vec(PROBE_AC, "verif_probe_ac"))):
        paths[nm] = os.path.join(pdir, nm + ".py")
        open(paths[nm], "w").write(txt)
    models = {nm: load_model(p, dtype="double", platform="dll") for nm, p in paths.items()}
    ncase = 60 if not thorough else 800
    cases, metas = [], []
    stats = dict(sym=0, triaxial=0, jitter_dims={0: 0, 1: 0, 2: 0, 3: 0}, special_angles=0, quadrants={}, mesh_points=0)
    evals = 0
    distinct = set()
    for ci in range(ncase):
        sym = rng.random() < 0.4
        nm = ("verif_probe_ac" if sym else "verif_probe_abc") + ("_vec" if ci % 3 == 1 else "")
        stats["vector_before_angles"] = stats.get("vector_before_angles", 0) + int(ci % 3 == 1)
        model = models[nm]
        info = model.info
        names = ["theta", "phi"] if sym else ["theta", "phi", "psi"]
        view = {n: angle(rng) for n in names}
        if any(v in (0.0, 90.0, 180.0, -90.0, 270.0) for v in view.values()):
            stats["special_angles"] += 1
        qx = rng.choice([-1, 1]) * rng.uniform(0.001, 0.5)
        qy = rng.choice([-1, 1]) * rng.uniform(0.001, 0.5)
        if rng.random() < 0.1:
            qx = 0.0
        quad = "%s%s" % ("+" if qx >= 0 else "-", "+" if qy >= 0 else "-")
        stats["quadrants"][quad] = stats["quadrants"].get(quad, 0) + 1
        pars = dict(view)
        pars.update(scale=1.0, background=0.0)
        jnames = rng.sample(names, rng.choice([0, 1, 1, 2, len(names), len(names)]))
        api = rng.random() < 0.3      # jitter through the keyword interface (symmetric), else a hand-made asymmetric mesh
        # combined size + angle dispersity: the probe ignores its size parameters, so the value must not change;
        # every fifth case fills all five dispersity loops of the kernel (three sizes + two angles) and leaves the
        # remaining angle at a non-zero view value without jitter
        sizes = []
        if ci % 5 == 4:
            sizes = ["v1", "v2", "v3"]
            jnames = ["theta", "phi"]
            for n_ in names:
                if n_ not in jnames and view[n_] == 0.0:
                    view[n_] = rng.uniform(10, 170); pars[n_] = view[n_]
            stats["five_loops"] = stats.get("five_loops", 0) + 1
        elif rng.random() < 0.3:
            sizes = rng.sample(["v1", "v2", "v3"], rng.randint(1, 2))
        for sn in sizes:
            pars[sn + "_pd"] = rng.uniform(0.05, 0.3); pars[sn + "_pd_n"] = rng.choice([2, 3]); pars[sn + "_pd_type"] = "gaussian"
        custom = {}
        for jn in jnames:
            if api:
                pars[jn + "_pd"] = rng.uniform(1, 40)
                pars[jn + "_pd_n"] = rng.choice([2, 3, 5, 8])
                pars[jn + "_pd_type"] = rng.choice(["gaussian", "rectangle", "uniform"])
                pars[jn + "_pd_nsigma"] = rng.choice([3.0, 2.0, 1.0])
            else:
                # (a hand-made ONE-point jitter away from zero cannot arise through the interface and only gets a loop
                #  slot while slots are free: not generated together with size dispersity)
                n = rng.choice([1, 2, 3, 4]) if not sizes else rng.choice([2, 3])
                # (a third of the hand-made meshes reach beyond +-90 degrees, where the cosine of the deviation is negative
                #  and the weight is its ABSOLUTE value)
                span_ = 70 if rng.random() < 0.67 else 160
                custom[jn] = (np.array([rng.uniform(-span_, span_) for _ in range(n)]), np.array([rng.uniform(0.1, 1.0) for _ in range(n)]))
        stats["jitter_dims"][len(jnames)] += 1
        stats["sym" if sym else "triaxial"] += 1
        stats["api_mesh" if api else "custom_mesh"] = stats.get("api_mesh" if api else "custom_mesh", 0) + 1
        q = [np.array([qx]), np.array([qy])]
        kernel = model.make_kernel(q)
        nsel = 2 if sym else 3
        got = []
        mesh0 = get_mesh(info, dict(pars, sel=0.0), dim="2d")
        cp = info.parameters.call_parameters
        for sel in range(nsel):
            if api:
                got.append(float(call_kernel(kernel, dict(pars, sel=float(sel)), cutoff=0.0)[0]))
            else:
                mesh = []
                for p, m in zip(cp, mesh0):
                    if p.name == "sel":
                        mesh.append((float(sel), [float(sel)], [1.0]))
                    elif p.name in custom:
                        mesh.append((m[0], custom[p.name][0], custom[p.name][1]))
                    else:
                        mesh.append(m)
                call_details, values, is_magnetic = make_kernel_args(kernel, mesh)
                got.append(float(kernel(call_details, values, 0.0, is_magnetic)[0]))
            evals += 1
        # jitter distributions built by the interface are centred on zero whatever the view angle
        if api:
            for p, m in zip(cp, mesh0):
                if p.name in jnames and len(m[1]) > 1 and abs(float(np.mean(m[1]))) > 1e-9:
                    run.add(Finding("C05:jitter-centre", "jitter distribution of %s is centred on %.6g, not on zero (view angle %.6g)" % (p.name, float(np.mean(m[1])), view[p.name]), dict(pars=pars)))
        # ... and they are the documented distribution of the DEVIATION around zero (n points across +-nsigma*width for
            # gaussian and rectangle - the latter kept within sqrt(3) width - and across +-width for uniform), whatever the view angle
            for p, m in zip(cp, mesh0):
                if p.name in jnames:
                    wd_, n_, ns_, ty_ = pars[p.name + "_pd"], pars[p.name + "_pd_n"], pars[p.name + "_pd_nsigma"], pars[p.name + "_pd_type"]
                    half_ = wd_ if ty_ == "uniform" else ns_ * wd_
                    xs_ = np.linspace(-half_, half_, n_)
                    if ty_ == "rectangle":        # the n-point grid over +-nsigma*width, kept where |x| <= sqrt(3) width
                        xs_ = xs_[np.abs(xs_) <= wd_ * math.sqrt(3.0)]
                    ws_ = np.exp(-xs_ ** 2 / (2 * wd_ ** 2)) if ty_ == "gaussian" else np.ones(len(xs_))
                    ws_ = ws_ / ws_.sum()
                    mv_, mw_ = np.asarray(m[1], "d"), np.asarray(m[2], "d")
                    if len(mv_) != len(xs_) or not np.allclose(mv_, xs_, rtol=1e-12, atol=1e-12) or not np.allclose(mw_ / mw_.sum(), ws_, rtol=1e-10, atol=0):
                        run.add(Finding("C05:jitter-mesh", "jitter of %s (%s, width %.4g, %d points, %g sigma) at view angle %.6g: the mesh is %s, the distribution of the deviation is %s" % (
                            p.name, ty_, wd_, n_, ns_, view[p.name], np.round(mv_, 4).tolist(), np.round(xs_, 4).tolist()), dict(pars=pars, parameter=p.name)))
        byname = {p.name: (custom[p.name] if p.name in custom else (np.asarray(m[1], "d"), np.asarray(m[2], "d"))) for p, m in zip(cp, mesh0)}
        jit = [byname[n] for n in names]
        points = []
        for idx in itertools.product(*[range(len(v)) for v, _ in jit]):
            ang = [float(jit[k][0][i]) for k, i in enumerate(idx)]
            w = 1.0
            for k, i in enumerate(idx):
                w *= float(jit[k][1][i])
            if sym:
                ang.append(0.0)
            points.append((ang, w))
        kernel.release()
        stats["mesh_points"] += len(points)
        # model-free oracle: the documented matrices in numpy
        num = np.zeros(nsel); den = 0.0
        for ang, w in points:
            R = doc_rotation(view["theta"], view["phi"], view.get("psi", 0.0), ang[0], ang[1], ang[2])
            qabc = R.T @ np.array([qx, qy, 0.0])
            pw = abs(math.cos(math.radians(ang[0]))) * w
            comp = np.array([math.hypot(qabc[0], qabc[1]), qabc[2]]) if sym else qabc
            num += pw * comp; den += pw
        if den == 0.0:
            stats["empty_mesh_skipped"] = stats.get("empty_mesh_skipped", 0) + 1
            continue
        oracle = num / den
        desc = dict(probe=nm, view=view, pars=pars, qx=qx, qy=qy, kernel=got, documented=list(map(float, oracle)))
        qn = abs(qx) + abs(qy)
        if any(abs(a - b) > 1e-11 * qn for a, b in zip(got, oracle)):
            run.add(Finding("C05:rotation:%s" % ("sym" if sym else "triaxial"),
                            "%s at view %s, jitter %s, q=(%.4g,%.4g): kernel %s, documented convention %s" % (
                                nm, view, {k: v for k, v in pars.items() if "_pd" in k}, qx, qy, got, list(map(float, oracle))), desc))
            continue
        distinct.add((sym, tuple(sorted(view.items())), tuple(jnames), quad))
        vcs = "(%s, %s, %s)" % (csf(view["theta"]), csf(view["phi"]), csf(view.get("psi", 0.0)))
        mesh_c = coq_list(["(%s, %s, %s, %s)" % (csf(a[0]), csf(a[1]), csf(a[2]), fhex(w)) for a, w in points], "jpoint")
        cases.append("(MkCase %s %s %s %s %s %s)" % (cbool(sym), vcs, mesh_c, fhex(qx), fhex(qy), flist(got)))
        metas.append(desc)
        run.sample(dict(probe=nm, view=view, jitter={k: v for k, v in pars.items() if "_pd" in k}, q=[qx, qy], kernel=got))
    # invariances straight from the property text, on the real kernel
    for _ in range(10 if not thorough else 100):
        nm = "verif_probe_abc"
        model = models[nm]
        view = dict(theta=angle(rng), phi=angle(rng), psi=angle(rng))
        alpha = rng.uniform(-180, 180)
        qx, qy = rng.uniform(-0.3, 0.3), rng.uniform(-0.3, 0.3)
        ca, sa = math.cos(math.radians(alpha)), math.sin(math.radians(alpha))
        k1 = model.make_kernel([np.array([qx, -qx]), np.array([qy, -qy])])
        k2 = model.make_kernel([np.array([ca * qx - sa * qy]), np.array([sa * qx + ca * qy])])
        for sel in range(3):
            a = call_kernel(k1, dict(view, sel=float(sel), scale=1.0, background=0.0), cutoff=0.0)
            b = call_kernel(k2, dict(view, phi=view["phi"] + alpha, sel=float(sel), scale=1.0, background=0.0), cutoff=0.0)
            evals += 2
            if abs(a[0] - b[0]) > 1e-11 or abs(a[0] + a[1]) > 1e-14:
                run.add(Finding("C05:invariance", "co-rotation / parity fails at view %s alpha %.5g q=(%.4g,%.4g): %s vs %s" % (view, alpha, qx, qy, list(a), list(b)),
                                dict(view=view, alpha=alpha, qx=qx, qy=qy)))
        k1.release(); k2.release()
    # the detector point a pixel stands for is the same through the data / resolution layer: oriented models evaluated on
    # data that carries (vanishing) per-pixel widths equal the kernel at the pixels themselves
    from sasmodels import direct_model as _dm
    from sasmodels.core import load_model as _lm
    stats["through_resolution_layer"] = 0
    for rname in ("cylinder", "parallelepiped"):
        rmodel = _lm(rname)
        for rep in range(2 if not thorough else 8):
            npx = 12
            qx_ = np.array([rng.choice([-1, 1]) * rng.uniform(0.02, 0.25) for _ in range(npx)])
            qy_ = np.array([rng.choice([-1, 1]) * rng.uniform(0.02, 0.25) for _ in range(npx)])
            view = dict(theta=rng.uniform(10, 80), phi=rng.uniform(-170, 170))
            if rname == "parallelepiped":
                view["psi"] = rng.uniform(-170, 170)
            kr = rmodel.make_kernel([qx_, qy_])
            try:
                want = np.asarray(call_kernel(kr, dict(view, scale=1.0, background=0.0), cutoff=0.0), "d")
            finally:
                kr.release()
            got = np.asarray(_dm.Iqxy(rname, qx_, qy_, dqx=np.zeros(npx), dqy=np.zeros(npx), scale=1.0, background=0.0, **view), "d")
            evals += 2; stats["through_resolution_layer"] += 1
            if got.shape != want.shape or not np.allclose(got, want, rtol=1e-6, atol=0):
                j = int(np.argmax(np.abs(got / want - 1))) if got.shape == want.shape else 0
                run.add(Finding("C05:resolution-layer:%s" % rname, "%s at view %s: the pixel (%.4g, %.4g) evaluated through Iqxy(..., dqx=0, dqy=0) gives %.8g, the kernel at that detector point %.8g" % (
                    rname, view, qx_[j], qy_[j], got[j] if got.shape == want.shape else float("nan"), want[j]), dict(model=rname, view=view, qx=qx_.tolist(), qy=qy_.tolist())))
            else:
                distinct.add(("resolution-layer", rname, rep))
    traces = 0
    if cases and not run.proof_broken():
        shards = []
        N = 60
        for i in range(0, len(cases), N):
            shards.append("From Coq Require Import List PrimFloat.\nImport ListNotations.\nFrom SM Require Import Base.Num C05.Model C05.Exec.\n"
                          "Definition cases : list Case := [\n%s\n].\nEval vm_compute in (check_cases %s cases).\n" % (";\n".join(cases[i:i + N]), fhex(REL_TOL)))
        for si, (rc, vals, err) in enumerate(common.run_coq_shards(shards, run.scratch.sub("coq"), prefix="c05", jobs=8)):
            if rc != 0 or not vals:
                run.add(Finding("corr:C05:coq", "correspondence shard failed: %s" % err[-300:], {"correspondence": "C05.Exec.check_cases", "stderr": err[-1500:]}, no_input=True))
                continue
            n = min(N, len(cases) - si * N)
            traces += n
            for idx in vals[0]:
                m = metas[si * N + idx]
                run.add(Finding("C05:corr", "probe %s: kernel output %s differs from the Coq rotation/jitter model" % (m["probe"], m["kernel"]), m))
    run.coverage.update(evaluations=evals, distinct_nontrivial=len(distinct), traces_validated_against_impl=traces, input_distribution=stats)
    run.assumptions += ["cos/sin of each angle are computed by the harness with the same expression as the kernel (angle*(pi/180), libm)",
                        "the per-model binding of (qa,qb,qc) to the model's own Iqabc arguments is exercised on real models by the C12 check (particle-frame shim)"]
    run.finish_args = dict(level="proof",
                           rule="probe plug-ins returning qa|qb|qc (triaxial) and qab|qc (symmetric) through the public 2-D kernel: view angles incl. 0/90/180/270, jitter meshes in 0..3 angles with gaussian/rectangle/uniform weights, all four quadrants; co-rotation and parity on the kernel; distinct = distinct (shape class, view, jittered set, quadrant)",
                           trusted=["harness/c05.py (probe plug-ins, numpy oracle with the documented matrices)"])
