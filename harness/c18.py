"""C18 — building a model is atomic under concurrent first use and crashes.

Real processes run `load_model + call_kernel` against one cache directory with a
scripted compiler (the CC environment variable, which kerneldll reads at import)
that writes the library in two halves and blocks between steps, so the harness
decides the interleaving and the kill points.  Every schedule is also run in
the Coq model (C18.Model.run Rename) and the observations are compared.
"""
from __future__ import annotations

import itertools
import json
import os
import random
import shutil
import signal
import subprocess
import sys
import time

from . import common
from .common import Finding, nlist, coq_list

FAKECC = r'''#!%(py)s
import os, shutil, subprocess, sys, time
ctrl, tag = os.environ["FAKECC_CTRL"], os.environ["FAKECC_TAG"]
args = sys.argv[1:]
i = args.index("-o")
target = args[i + 1]
real = os.path.join(ctrl, tag + ".real.so")
open(os.path.join(ctrl, tag + ".ccpid"), "w").write(str(os.getpid()))
args2 = list(args); args2[i + 1] = real
def at(k):
    open(os.path.join(ctrl, "%%s.at.%%d" %% (tag, k)), "w").write(target)
    go = os.path.join(ctrl, "%%s.go.%%d" %% (tag, k))
    while not os.path.exists(go):
        time.sleep(0.003)
at(0)                                   # nothing written yet
rc = subprocess.call([%(cc)r] + args2)
if rc != 0:
    sys.exit(rc)
data = open(real, "rb").read()
half = len(data) // 2
try:
    os.unlink(target)                   # like ld: the output is removed and created afresh, never rewritten in place
except OSError:
    pass
with open(target, "wb") as f:
    f.write(data[:half]); f.flush(); os.fsync(f.fileno())
    at(1)                               # first half written
    f.write(data[half:]); f.flush(); os.fsync(f.fileno())
    at(2)                               # fully written, compiler still running
os.chmod(target, 0o755)
sys.exit(0)
'''

MODEL = '''
name = "verif_c18"
title = "C18 probe"
description = "a*q + b"
category = "shape:sphere"
parameters = [["a", "", 2.0, [-10, 10], "", ""], ["b", "", 0.5, [-10, 10], "", ""]]
Iq = "return a*q + b;"
'''

HOOK = r'''
# --- observation of how a name in the cache directory comes to exist (audit events of this interpreter): a library
# --- name must be created by rename, never opened for writing in place (a copy is not atomic)
import json as _json, os as _os, sys as _sys
def _verif_audit(ev, args):
    try:
        if ev == "open" and isinstance(args[0], (str, bytes)) and isinstance(args[2], int) and args[2] & (_os.O_WRONLY | _os.O_RDWR):
            path = _os.path.abspath(_os.fsdecode(args[0]))
            cache = _os.path.abspath(_os.environ.get("SAS_DLL_PATH", "/nonexistent"))
            if _os.path.dirname(path) == cache:
                with open(_os.path.join(_os.environ["FAKECC_CTRL"], _os.environ.get("FAKECC_TAG", "x") + ".fsops"), "a") as f:
                    f.write(_json.dumps(dict(pid=_os.getpid(), op="open-for-write", path=path)) + "\n")
        if ev == "os.mkdir" and _os.environ.get("FAKECC_PAUSE_MKDIR") and isinstance(args[0], (str, bytes)):
            path = _os.path.abspath(_os.fsdecode(args[0]))
            if path == _os.path.abspath(_os.environ.get("SAS_DLL_PATH", "/nonexistent")):
                import time as _time
                ctrl, tag = _os.environ["FAKECC_CTRL"], _os.environ.get("FAKECC_TAG", "x")
                open(_os.path.join(ctrl, tag + ".at.mkdir"), "w").write(path)
                while not _os.path.exists(_os.path.join(ctrl, tag + ".go.mkdir")):
                    _time.sleep(0.003)
    except Exception:
        pass
_sys.addaudithook(_verif_audit)
'''

WORKER = HOOK + r'''
import json, sys
import numpy as np
from sasmodels.core import load_model
from sasmodels.direct_model import call_kernel
m = load_model(sys.argv[1], dtype=(sys.argv[2] if len(sys.argv) > 2 else "double"), platform="dll")
k = m.make_kernel([np.array([0.1, 0.2, 0.4])])
print(json.dumps([float(x) for x in call_kernel(k, dict(a=3.0, b=0.25, scale=1.0, background=0.0))]))
'''
EXPECT = [0.55, 0.85, 1.45]

# A long-lived parent (a GUI, a fit server) that has already loaded SOME compiled model - so sasmodels.kerneldll is
# imported - and then forks one worker per request; the workers load the not-yet-compiled probe model.
FORKSERVER = HOOK + r'''
import json, os, sys, time
import numpy as np
ctrl = os.environ["FAKECC_CTRL"]
os.environ["FAKECC_TAG"] = "pre"
from sasmodels.core import load_model
from sasmodels.direct_model import call_kernel
load_model(sys.argv[2], dtype="double", platform="dll")
open(os.path.join(ctrl, "server.ready"), "w").write("ok")
kids, seen = {}, set()
while True:
    for fn in sorted(os.listdir(ctrl)):
        if fn.startswith("fork.") and fn not in seen:
            seen.add(fn)
            tag = fn[5:]
            pid = os.fork()
            if pid == 0:
                os.setsid()
                os.environ["FAKECC_TAG"] = tag
                rc, out, err = 0, "", ""
                try:
                    m = load_model(sys.argv[1], dtype="double", platform="dll")
                    k = m.make_kernel([np.array([0.1, 0.2, 0.4])])
                    out = json.dumps([float(x) for x in call_kernel(k, dict(a=3.0, b=0.25, scale=1.0, background=0.0))])
                except BaseException as exc:
                    rc, err = 1, repr(exc)
                with open(os.path.join(ctrl, tag + ".out"), "w") as f:
                    json.dump(dict(out=out, err=err), f)
                os._exit(rc)
            kids[pid] = tag
            open(os.path.join(ctrl, tag + ".pid"), "w").write(str(pid))
    for pid in list(kids):
        r, st = os.waitpid(pid, os.WNOHANG)
        if r:
            rc = -os.WTERMSIG(st) if os.WIFSIGNALED(st) else os.WEXITSTATUS(st)
            open(os.path.join(ctrl, kids[pid] + ".exit"), "w").write(str(rc))
            del kids[pid]
    if os.path.exists(os.path.join(ctrl, "server.quit")) and not kids:
        break
    time.sleep(0.003)
'''
PRE_MODEL = MODEL.replace('verif_c18', 'verif_c18_pre').replace('a*q + b', 'a*q - b')


class ForkedChild:
    """The part of the Popen interface the driver uses, for a worker forked by the server."""
    def __init__(self, ctrl, tag, pid):
        self.ctrl, self.tag, self.pid, self.returncode = ctrl, tag, pid, None

    def poll(self):
        if self.returncode is None:
            path = os.path.join(self.ctrl, self.tag + ".exit")
            if os.path.exists(path):
                txt = open(path).read().strip()
                if txt:
                    self.returncode = int(txt)
        return self.returncode

    def wait(self, timeout=60):
        t0 = time.time()
        while self.poll() is None and time.time() - t0 < timeout:
            time.sleep(0.003)
        return self.returncode

    def communicate(self):
        self.wait()
        try:
            d = json.load(open(os.path.join(self.ctrl, self.tag + ".out")))
        except Exception:  # noqa
            d = dict(out="", err="(worker died without a result)")
        return d["out"], d["err"]


class Proc:
    def __init__(self, tag):
        self.tag = tag
        self.popen = None
        self.stage = None      # None = not started; 0,1,2 = paused in compiler; 'done'
        self.hit = None
        self.result = None


class World:
    def __init__(self, root, idx, fork=False, make_cache=True):
        self.fork = fork
        self.pause_mkdir = not make_cache
        self.server = None
        self.dir = os.path.join(root, "w%d" % idx)
        self.cache = os.path.join(self.dir, "cache")
        self.ctrl = os.path.join(self.dir, "ctrl")
        os.makedirs(self.ctrl)
        if make_cache:
            os.makedirs(self.cache)
        else:
            os.makedirs(self.dir, exist_ok=True)      # the cache directory itself does not exist yet
        self.model_path = os.path.join(self.dir, "verif_c18.py")
        open(self.model_path, "w").write(MODEL)
        self.worker = os.path.join(self.dir, "worker.py")
        open(self.worker, "w").write(WORKER)
        self.fakecc = os.path.join(self.dir, "fakecc.py")
        open(self.fakecc, "w").write(FAKECC % dict(py=common.PY, cc=shutil.which("cc") or "cc"))
        os.chmod(self.fakecc, 0o755)
        self.procs = {}
        self.outputs_seen = set()
        self.output_of = {}
        # every other world: the temporary directory (where the generated C file goes) on ANOTHER filesystem than
        # the cache - a rename between the two is then impossible and anything "moved" across is copied
        self.tmp = None
        if idx % 2 == 1 and os.path.isdir("/dev/shm") and os.access("/dev/shm", os.W_OK) and os.stat("/dev/shm").st_dev != os.stat(self.dir).st_dev:
            self.tmp = "/dev/shm/verif_c18_%d_%d" % (os.getpid(), idx)
            shutil.rmtree(self.tmp, ignore_errors=True)
            os.makedirs(self.tmp)

    def cleanup(self):
        shutil.rmtree(self.dir, ignore_errors=True)
        if self.tmp:
            shutil.rmtree(self.tmp, ignore_errors=True)

    def inplace_writes(self, fname):
        """audit records of the workers: opens for writing of the FINAL library name"""
        out = []
        for fn in sorted(os.listdir(self.ctrl)):
            if fn.endswith(".fsops"):
                for line in open(os.path.join(self.ctrl, fn)):
                    try:
                        d = json.loads(line)
                    except ValueError:
                        continue
                    if os.path.basename(d["path"]) == fname:
                        out.append(dict(d, worker=fn[:-6]))
        return out

    def env(self, tag, scripted=True):
        e = dict(os.environ)
        e.update(PYTHONPATH=common.REPO, SAS_DLL_PATH=self.cache, FAKECC_CTRL=self.ctrl, FAKECC_TAG=tag,
                 PYTHONHASHSEED="0", SAS_OPENCL="none")
        if self.tmp:
            e["TMPDIR"] = self.tmp
        if self.pause_mkdir and scripted:
            e["FAKECC_PAUSE_MKDIR"] = "1"
        if scripted:
            e["CC"] = self.fakecc
        else:
            e.pop("CC", None)
        return e

    def start_server(self):
        pre = os.path.join(self.dir, "verif_c18_pre.py")
        open(pre, "w").write(PRE_MODEL)
        spath = os.path.join(self.dir, "forkserver.py")
        open(spath, "w").write(FORKSERVER)
        for k in (0, 1, 2):       # the parent's own build runs straight through
            open(os.path.join(self.ctrl, "pre.go.%d" % k), "w").write("go")
        self.server = subprocess.Popen([common.PY, spath, self.model_path, pre], env=self.env("pre", True),
                                       stdout=subprocess.PIPE, stderr=subprocess.PIPE, text=True, start_new_session=True, cwd=self.dir)
        t0 = time.time()
        while not os.path.exists(os.path.join(self.ctrl, "server.ready")):
            if self.server.poll() is not None or time.time() - t0 > 120:
                raise RuntimeError("fork server did not start: %s" % (self.server.stderr.read()[-500:] if self.server.poll() is not None else "timeout"))
            time.sleep(0.01)

    def launch(self, tag, scripted=True, dtype="double"):
        if dtype != "double":
            p = Proc(tag)
            p.dtype = dtype
            p.popen = subprocess.Popen([common.PY, self.worker, self.model_path, dtype], env=self.env(tag, scripted),
                                       stdout=subprocess.PIPE, stderr=subprocess.PIPE, text=True,
                                       start_new_session=True, cwd=self.dir)
            self.procs[tag] = p
            return p
        if self.fork and scripted:
            if self.server is None:
                self.start_server()
            p = Proc(tag)
            open(os.path.join(self.ctrl, "fork." + tag), "w").write("go")
            pidf = os.path.join(self.ctrl, tag + ".pid")
            t0 = time.time()
            while not (os.path.exists(pidf) and open(pidf).read().strip()):
                if time.time() - t0 > 60:
                    raise RuntimeError("fork server did not fork %s" % tag)
                time.sleep(0.003)
            p.popen = ForkedChild(self.ctrl, tag, int(open(pidf).read()))
            self.procs[tag] = p
            return p
        p = Proc(tag)
        p.popen = subprocess.Popen([common.PY, self.worker, self.model_path], env=self.env(tag, scripted),
                                   stdout=subprocess.PIPE, stderr=subprocess.PIPE, text=True,
                                   start_new_session=True, cwd=self.dir)
        self.procs[tag] = p
        return p

    def wait_stage_or_exit(self, p, k, timeout=60):
        t0 = time.time()
        at = os.path.join(self.ctrl, "%s.at.%d" % (p.tag, k))
        while time.time() - t0 < timeout:
            if os.path.exists(at):
                self.outputs_seen.add(open(at).read())
                self.output_of[p.tag] = open(at).read()
                p.stage = k
                return "stage"
            if p.popen.poll() is not None:
                self.collect(p)
                return "exit"
            time.sleep(0.003)
        raise RuntimeError("timeout waiting for %s stage %d" % (p.tag, k))

    def collect(self, p):
        out, err = p.popen.communicate()
        rc = p.popen.returncode
        ok = False
        vals = None
        if rc == 0:
            try:
                vals = json.loads(out.strip().splitlines()[-1])
                tol = 1e-12 if getattr(p, "dtype", "double") == "double" else 1e-5
                ok = len(vals) == len(EXPECT) and all(abs(a - b) < tol for a, b in zip(vals, EXPECT))
            except Exception:  # noqa
                ok = False
        p.stage = "done"
        p.result = dict(rc=rc, ok=ok, values=vals, stderr=err[-300:])

    def release(self, p, k):
        open(os.path.join(self.ctrl, "%s.go.%d" % (p.tag, k)), "w").write("go")

    def final_state(self, final_name, reference):
        """0 absent, 1 partial, 2 complete for the file under the final cache name."""
        path = os.path.join(self.cache, final_name)
        if not os.path.exists(path):
            return 0
        data = open(path, "rb").read()
        if reference and data in reference:
            return 2
        return 1

    def reference(self):
        out = []
        for fn in os.listdir(self.ctrl):
            if fn.endswith(".real.so"):
                try:
                    out.append(open(os.path.join(self.ctrl, fn), "rb").read())
                except OSError:
                    pass
        return out

    def fail_build(self, p, kind, timeout=40):
        """Make the paused build of process p FAIL (the builder unwinds through its clean-up code) instead of
        destroying the builder: 'compiler' kills only the compiler subprocess, 'sigint' sends Ctrl-C to the
        builder's process group."""
        try:
            if kind == "compiler":
                os.kill(int(open(os.path.join(self.ctrl, p.tag + ".ccpid")).read()), signal.SIGKILL)
            else:
                os.killpg(p.popen.pid, signal.SIGINT)
        except Exception:  # noqa
            pass
        t0 = time.time()
        while p.popen.poll() is None and time.time() - t0 < timeout:
            time.sleep(0.005)
        if p.popen.poll() is None:
            os.killpg(p.popen.pid, signal.SIGKILL)
        self.collect(p)

    def kill_all(self):
        for p in self.procs.values():
            if p.popen is not None and p.popen.poll() is None:
                try:
                    os.killpg(p.popen.pid, signal.SIGKILL)
                except Exception:  # noqa
                    pass
                p.popen.wait()
        if self.server is not None and self.server.poll() is None:
            open(os.path.join(self.ctrl, "server.quit"), "w").write("q")
            try:
                self.server.wait(timeout=5)
            except Exception:  # noqa
                os.killpg(self.server.pid, signal.SIGKILL); self.server.wait()


import threading
_FINAL_NAME_LOCK = threading.Lock()


def final_name(model_path):
    """Basename of the cache entry the current tree uses for the probe model.  (The worlds run in threads of this
    process and the library's plug-in loader keeps process-wide bookkeeping while a module is being loaded: one at a
    time.)"""
    from sasmodels import generate, kerneldll
    from sasmodels.core import load_model_info
    import numpy as np
    with _FINAL_NAME_LOCK:
        info = load_model_info(model_path)
        source = generate.make_source(info)["dll"]
        return os.path.basename(kerneldll.dll_path(info.id + "_" + generate.tag_source(source), np.dtype("d")))


def run_schedule(root, idx, sched, nproc, kill_kind="sigkill", fork=False):
    """Execute one schedule with real processes.  Returns observation dict."""
    w = World(root, idx, fork=fork)
    fname = final_name(w.model_path)
    model_sched = []      # the same history in the model's finer steps
    trace = []            # observed state of the final name after each model step
    obs_loaded = {}
    try:
        for pid in sched:
            tag = "p%d" % pid
            p = w.procs.get(tag)
            if p is None:
                p = w.launch(tag)
                what = w.wait_stage_or_exit(p, 0)
                ref = w.reference()
                st = w.final_state(fname, ref)
                if what == "exit":      # lookup hit (or failure): lookup + load
                    model_sched += [pid, pid]
                    trace += [st, st]
                    obs_loaded[pid] = 2 if p.result["ok"] else 1
                else:
                    model_sched += [pid]
                    trace += [st]
            elif p.stage in (0, 1):
                k = p.stage
                w.release(p, k)
                w.wait_stage_or_exit(p, k + 1)
                model_sched += [pid]
                trace += [w.final_state(fname, w.reference())]
            elif p.stage == 2:
                w.release(p, 2)
                t0 = time.time()
                while p.popen.poll() is None and time.time() - t0 < 60:
                    time.sleep(0.003)
                w.collect(p)
                st = w.final_state(fname, w.reference())
                model_sched += [pid, pid]
                trace += [st, st]
                obs_loaded[pid] = 2 if p.result["ok"] else 1
            else:
                continue
        # crash: every process still paused is killed where it stands
        killed = [p.tag for p in w.procs.values() if p.stage in (0, 1, 2)]
        aborted = []
        if kill_kind != "sigkill":
            for p in list(w.procs.values()):
                if p.stage in (0, 1, 2):
                    aborted.append(int(p.tag[1:]))
                    w.fail_build(p, kill_kind)
        w.kill_all()
        ref = w.reference()
        after_kill = w.final_state(fname, ref)
        # recovery: a fresh, unscripted process must succeed
        r = w.launch("recover", scripted=False)
        t0 = time.time()
        while r.popen.poll() is None and time.time() - t0 < 120:
            time.sleep(0.005)
        w.collect(r)
        listing = sorted(os.listdir(w.cache))
        outputs = sorted(os.path.basename(x) for x in w.outputs_seen)
        results = {t: p.result for t, p in w.procs.items() if p.result is not None}
        return dict(sched=list(sched), model_sched=model_sched, trace=trace, loaded=obs_loaded, killed=killed, kill_kind=kill_kind, aborted=aborted,
                    after_kill=after_kill, recover_ok=bool(r.result and r.result["ok"]), recover=r.result,
                    listing=listing, compiler_outputs=outputs, final_name=fname, results=results, forked_workers=fork,
                    output_names={t: os.path.basename(v) for t, v in w.output_of.items()},
                    inplace_writes=w.inplace_writes(fname), tmp_other_filesystem=bool(w.tmp))
    finally:
        w.kill_all()
        w.cleanup()


def run_mixed(root, idx, order):
    """Two processes load the SAME uncached model at DIFFERENT precisions ('d' = double, 's' = single), their build
    steps interleaved as in [order] (a list of 'd'/'s': each occurrence lets that builder take its next step).
    Every process must obtain correct values, and fresh loads at both precisions must succeed afterwards."""
    w = World(root, idx)
    dt = {"d": "double", "s": "single"}
    try:
        for who in order:
            tag = "m" + who
            p = w.procs.get(tag)
            if p is None:
                p = w.launch(tag, dtype=dt[who]) if who == "s" else w.launch(tag)
                w.wait_stage_or_exit(p, 0)
            elif p.stage in (0, 1):
                k = p.stage
                w.release(p, k)
                w.wait_stage_or_exit(p, k + 1)
            elif p.stage == 2:
                w.release(p, 2)
                t0 = time.time()
                while p.popen.poll() is None and time.time() - t0 < 60:
                    time.sleep(0.003)
                w.collect(p)
        # let everybody finish
        for p in list(w.procs.values()):
            while p.stage in (0, 1, 2):
                k = p.stage
                w.release(p, k)
                if k < 2:
                    w.wait_stage_or_exit(p, k + 1)
                else:
                    t0 = time.time()
                    while p.popen.poll() is None and time.time() - t0 < 60:
                        time.sleep(0.003)
                    w.collect(p)
        results = {t: p.result for t, p in w.procs.items()}
        after = {}
        for who in "ds":
            r = w.launch("after" + who, scripted=False, dtype=dt[who]) if who == "s" else w.launch("after" + who, scripted=False)
            t0 = time.time()
            while r.popen.poll() is None and time.time() - t0 < 120:
                time.sleep(0.005)
            w.collect(r)
            after[who] = r.result
        return dict(order="".join(order), results=results, after=after, listing=sorted(os.listdir(w.cache)))
    finally:
        w.kill_all()
        w.cleanup()


class Untranslatable(Exception):
    pass


def _translate_make_dll():
    """kerneldll.make_dll of the current tree, read as a build PROTOCOL (fail-closed Python-ast walk): where the compiler
    writes, how the result gets its final name, and what the clean-up clause does.  Returns (protocol, publish_on_unwind)."""
    import ast
    tree = ast.parse(open(os.path.join(common.REPO, "sasmodels", "kerneldll.py")).read())
    fn = next((n for n in tree.body if isinstance(n, ast.FunctionDef) and n.name == "make_dll"), None)
    if fn is None:
        raise Untranslatable("make_dll not found")
    guard = next((n for n in fn.body if isinstance(n, ast.If) and ast.unparse(n.test) == "not os.path.exists(dll)"), None)
    if guard is None:
        raise Untranslatable("no 'if not os.path.exists(dll)' around the build")
    calls = [n for n in ast.walk(guard) if isinstance(n, ast.Call) and ast.unparse(n.func) == "compile_model"]
    if len(calls) != 1:
        raise Untranslatable("%d calls of compile_model" % len(calls))
    kw = {k.arg: ast.unparse(k.value) for k in calls[0].keywords}
    if calls[0].args or set(kw) != {"source", "output"}:
        raise Untranslatable("compile_model is not called as compile_model(source=..., output=...)")
    out = kw["output"]
    if out == "dll":
        return "InPlace", False
    tries = [n for n in ast.walk(guard) if isinstance(n, ast.Try) and any(c is calls[0] for b in n.body for c in ast.walk(b))]
    if len(tries) != 1:
        raise Untranslatable("the compiler call is not inside one try statement")
    tr = tries[0]
    body = [ast.unparse(b) for b in tr.body]
    if body != ["compile_model(source=%s, output=%s)" % (kw["source"], out), "os.replace(%s, dll)" % out]:
        raise Untranslatable("the try body is not [compile to the temporary; os.replace(temporary, dll)]: %s" % body)
    if tr.handlers or tr.orelse:
        raise Untranslatable("the build has except / else clauses")
    fin = [ast.unparse(b) for b in tr.finalbody]
    if fin == ["if os.path.exists(%s):\n    os.unlink(%s)" % (out, out)]:
        unwind = False
    elif any("replace" in f or "rename" in f or "move" in f for f in fin):
        unwind = True
    else:
        raise Untranslatable("unexpected clean-up clause: %s" % fin)
    # the temporary: next to the final name (same directory, hence same filesystem: the rename is atomic), one per builder
    assigns = {ast.unparse(n.targets[0]): ast.unparse(n.value) for n in ast.walk(guard) if isinstance(n, ast.Assign) and len(n.targets) == 1}
    if assigns.get("(base, ext)", assigns.get("base, ext")) != "splitext(dll)":
        raise Untranslatable("the temporary name is not derived from the final name")
    if assigns.get(out) != "'%s_%d_%s%s' % (base, os.getpid(), uuid.uuid4().hex[:8], ext)":
        raise Untranslatable("the temporary name is not <final>_<pid>_<uuid><ext>: %s" % assigns.get(out))
    return "Rename", unwind


def gen():
    """Regenerate Gen/C18_code.v from the text of kerneldll.make_dll."""
    lines = ["(* GENERATED by harness/c18.py from sasmodels/kerneldll.py (make_dll read as a build protocol) *)",
             "From SM Require Import C18.Model.", ""]
    note = None
    try:
        proto, unwind = _translate_make_dll()
    except (Untranslatable, OSError, SyntaxError) as exc:
        note = "%s: %s" % (type(exc).__name__, exc)
        proto, unwind = "Rename", False
    lines.append("Definition translated : bool := %s." % ("true" if note is None else "false"))
    if note:
        lines.append("(* not translated: %s *)" % note.replace("*)", "* )"))
    lines += ["(* where the compiler writes and how the result gets its final name *)",
              "Definition code_protocol : protocol := %s." % proto,
              "(* does the clean-up clause give the temporary the final name? *)",
              "Definition code_publish_on_unwind : bool := %s." % ("true" if unwind else "false"), ""]
    common.write_if_changed(os.path.join(common.THEORIES, "Gen", "C18_code.v"), "\n".join(lines))
    return note


def run_missing_dir(root, idx, nproc=2):
    """Concurrent first use when the cache DIRECTORY does not exist yet: every builder is held just before it creates
    the directory (audit event os.mkdir), then they are let go one after the other - so all but the first find the
    directory already made by somebody else.  Every process must obtain correct values and a later load must succeed."""
    w = World(root, idx, make_cache=False)
    try:
        procs = []
        for k in range(nproc):
            p = w.launch("d%d" % k)
            procs.append(p)
            t0 = time.time()
            while not os.path.exists(os.path.join(w.ctrl, p.tag + ".at.mkdir")) and p.popen.poll() is None and time.time() - t0 < 90:
                time.sleep(0.003)
        held = [p.tag for p in procs if os.path.exists(os.path.join(w.ctrl, p.tag + ".at.mkdir"))]
        for p in reversed(procs):          # the last to arrive creates the directory first
            open(os.path.join(w.ctrl, p.tag + ".go.mkdir"), "w").write("go")
            t0 = time.time()
            while p.popen.poll() is None and not os.path.exists(os.path.join(w.ctrl, "%s.at.0" % p.tag)) and time.time() - t0 < 90:
                time.sleep(0.003)
        for p in procs:                    # then everybody runs to completion
            for k in (0, 1, 2):
                w.release(p, k)
        for p in procs:
            t0 = time.time()
            while p.popen.poll() is None and time.time() - t0 < 120:
                time.sleep(0.005)
            w.collect(p)
        r = w.launch("after", scripted=False)
        t0 = time.time()
        while r.popen.poll() is None and time.time() - t0 < 120:
            time.sleep(0.005)
        w.collect(r)
        return dict(processes=nproc, held_before_mkdir=held, results={p.tag: p.result for p in procs}, after=r.result,
                    listing=sorted(os.listdir(w.cache)) if os.path.isdir(w.cache) else None)
    finally:
        w.kill_all()
        w.cleanup()


def all_schedules(nproc, steps=4):
    base = []
    for p in range(1, nproc + 1):
        base += [p] * steps
    return sorted(set(itertools.permutations(base)))


def main(run):
    rng = random.Random(run.seed * 613 + 18)
    thorough = run.tier == "thorough"
    note = []
    run.prove(["C18/Property.v"], gen=lambda: note.append(gen()))
    if note and note[0]:
        run.notes.append("make_dll not translated (%s): the source-text obligations C18_code_* are vacuous in this run, the behavioural tie decides" % note[0])
    else:
        run.notes.append("make_dll read as a build protocol from the current kerneldll.py (Gen/C18_code.v): compile to <final>_<pid>_<uuid>, os.replace, clean-up unlinks; C18_code_publish_safe / C18_code_unwind_safe are the safety theorems about THAT protocol")
    root = run.scratch.sub("c18")
    scheds = []
    # corpus first: the two histories that break in-place compilation
    scheds.append(((1, 1, 2, 1, 1, 2, 2, 2), 2))      # P2 looks up while P1 has written half
    scheds.append(((1, 1), 1))                          # P1 killed after the first half
    scheds.append(((1,), 1))                            # killed before any output
    scheds.append(((1, 1, 1), 1))                       # killed after the full output, before publish
    scheds.append(((1, 1, 1, 1), 1))                    # complete run
    two = all_schedules(2)
    if thorough:
        scheds += [(s, 2) for s in two]
        three = []
        for _ in range(24):
            b = [1] * 4 + [2] * 4 + [3] * 4
            rng.shuffle(b)
            three.append((tuple(b[:rng.randint(4, 12)]), 3))
        scheds += three
        for _ in range(6):
            n = rng.choice([4, 6, 8, 16])
            b = [p for p in range(1, n + 1) for _ in range(4)]
            rng.shuffle(b)
            scheds.append((tuple(b[:rng.randint(n, 3 * n)]), n))
    else:
        pick = rng.sample(two, 5)
        scheds += [(s, 2) for s in pick]
        scheds += [(tuple(s[:rng.randint(2, 6)]), 2) for s in rng.sample(two, 3)]   # prefixes = kill points
        b = [1] * 4 + [2] * 4 + [3] * 4
        rng.shuffle(b)
        scheds.append((tuple(b[:9]), 3))
    obs = []
    # how the builders that are still paused at the end of a schedule die: destroyed (SIGKILL of the whole
    # process group), or their build FAILS - the compiler alone is killed, or the group gets Ctrl-C - so that
    # the builder unwinds through its clean-up code
    kinds = ["sigkill"] * len(scheds)
    extra = [((1, 1), 1, "compiler"), ((1, 1), 1, "sigint"), ((1, 1, 1), 1, "compiler"), ((1,), 1, "sigint"),
             ((1, 1, 2, 2), 2, "compiler"), ((1, 2, 1, 2, 2), 2, "sigint")]
    if thorough:
        for s_, n_ in list(scheds)[5:45]:
            extra.append((tuple(s_[:rng.randint(2, max(2, len(s_) - 1))]), n_, rng.choice(["compiler", "sigint"])))
    for s_, n_, k_ in extra:
        scheds.append((s_, n_)); kinds.append(k_)
    # the same protocol with workers FORKED from one parent that has already loaded another compiled model
    # (module-level state of kerneldll is then shared by the builders)
    forked = [((1, 2, 1, 2, 1, 1, 2, 2), 2), ((1, 2, 2, 1, 2, 2, 1, 1), 2), ((1, 1, 2, 2, 1), 2)]
    if thorough:
        forked += [(s_, 2) for s_ in rng.sample(two, 12)]
    nfork0 = len(scheds)
    for s_, n_ in forked:
        scheds.append((s_, n_)); kinds.append("sigkill")
    # run several worlds in parallel threads (each world has its own processes)
    from concurrent.futures import ThreadPoolExecutor
    with ThreadPoolExecutor(max_workers=6) as ex:
        futs = [ex.submit(run_schedule, root, i, s, n, kinds[i], i >= nfork0) for i, (s, n) in enumerate(scheds)]
        for f in futs:
            obs.append(f.result())
    distinct = set()
    # concurrent first use at two precisions of one model
    mixed_orders = ["dsdsdsds", "ddsdsss", "sddsdds"] + (["sdsdsd", "dssddsds", "ssdddsd", "dsssddd"] if thorough else [])
    with ThreadPoolExecutor(max_workers=4) as ex:
        mixed = list(ex.map(lambda a: run_mixed(root, 1000 + a[0], list(a[1])), enumerate(mixed_orders)))
    for mo in mixed:
        bad = {t: r for t, r in mo["results"].items() if not (r and r["ok"])}
        badafter = {t: r for t, r in mo["after"].items() if not (r and r["ok"])}
        if bad or badafter:
            run.add(Finding("C18:mixed-precision", "double and single precision builds of one model interleaved as %s: %s did not obtain correct values%s" % (
                mo["order"], sorted(bad) or "nobody", ("; later loads failing: %s" % sorted(badafter)) if badafter else ""), dict(mo)))
        else:
            distinct.add(("mixed", mo["order"]))
    # concurrent first use with no cache directory yet
    missing = []
    for k_, n_ in enumerate([2, 3] if not thorough else [2, 2, 3, 4]):
        missing.append(run_missing_dir(root, 2000 + k_, n_))
    for md in missing:
        badm = {t: r for t, r in md["results"].items() if not (r and r["ok"])}
        if badm or not (md["after"] and md["after"]["ok"]):
            run.add(Finding("C18:missing-cache-dir", "%d processes loading the model while the cache directory does not exist yet (each held just before creating it): %s did not obtain a working kernel (%s)%s" % (
                md["processes"], sorted(badm) or "nobody", "; ".join("%s: %s" % (t, (r or {}).get("stderr", "")[-160:].replace("\n", " ")) for t, r in badm.items()),
                "" if (md["after"] and md["after"]["ok"]) else "; a later load fails too"), dict(md)))
        else:
            distinct.add(("missing-dir", md["processes"]))
    stats = dict(schedules=len(obs), processes=sum(len(set(o["sched"])) for o in obs), kills=sum(len(o["killed"]) for o in obs),
                 kill_stages={}, lookup_hits=0, mixed_precision_schedules=len(mixed), missing_cache_dir_worlds=len(missing),
                 held_before_mkdir=sum(len(md["held_before_mkdir"]) for md in missing))
    for o in obs:
        distinct.add((tuple(o["sched"]), o["kill_kind"], o["forked_workers"]))
        stats["forked_worker_schedules"] = stats.get("forked_worker_schedules", 0) + int(o["forked_workers"])
        desc = dict(o)
        # model-free oracle: the property itself
        if 1 in o["trace"] or o["after_kill"] == 1:
            run.add(Finding("C18:partial-under-final-name", "schedule %s: a partially written library was visible under the final cache name %s" % (o["sched"], o["final_name"]), desc))
        for pid, c in o["loaded"].items():
            if c != 2:
                run.add(Finding("C18:bad-load", "schedule %s: process %d did not obtain a working kernel (%s)" % (o["sched"], pid, o["results"].get("p%d" % pid)), desc))
        if not o["recover_ok"]:
            run.add(Finding("C18:no-recovery", "schedule %s with kills %s: the next load failed (%s)" % (o["sched"], o["killed"], o["recover"]), desc))
        # hypothesis of C18_distinct_names_safe, checked on the real run: different builders compile to different names
        outs_ = [v for t, v in sorted(o["output_names"].items()) if t != "pre"]
        if len(set(outs_)) != len(outs_):
            run.add(Finding("C18:temp-name-shared", "schedule %s%s: two builders were given the same temporary output name %s (C18_shared_name_refuted: the protocol is then unsafe)" % (
                o["sched"], " with forked workers" if o["forked_workers"] else "", sorted(x for x in set(outs_) if outs_.count(x) > 1)), desc))
        stats["tmp_on_other_filesystem"] = stats.get("tmp_on_other_filesystem", 0) + int(o.get("tmp_other_filesystem", False))
        if o.get("inplace_writes"):
            run.add(Finding("C18:publish-writes-in-place", "schedule %s (temporary directory %s): the final cache name %s was opened for WRITING by %s - it is filled in place (a copy), not created by a rename: a loader arriving meanwhile, or a kill, sees a partial library" % (
                o["sched"], "on another filesystem than the cache" if o.get("tmp_other_filesystem") else "on the cache's filesystem", o["final_name"],
                sorted({x["worker"] for x in o["inplace_writes"]})), desc))
        if o["final_name"] in o["compiler_outputs"]:
            run.add(Finding("C18:compiles-in-place", "schedule %s: the compiler was told to write directly to the final cache name" % (o["sched"],), desc))
        if len(run.coverage["samples"]) < 5:
            run.sample(dict(schedule=o["sched"], model_schedule=o["model_sched"], final_name_trace=o["trace"], loaded=o["loaded"], killed=o["killed"], recovered=o["recover_ok"]))
    # correspondence with the Coq model
    traces = 0
    if not run.proof_broken():
        body = ";\n".join("(%s, %s, %s)" % (nlist(o["model_sched"]), nlist(o["trace"]),
                                             coq_list(["(%d%%nat, %d%%nat)" % (p, c) for p, c in sorted(o["loaded"].items())], "(nat * nat)"))
                          for o in obs)
        text = ("From Coq Require Import List Arith.\nImport ListNotations.\nFrom SM Require Import C18.Model C18.Exec.\n"
                "Definition cases : list (list nat * list nat * list (nat * nat)) := [\n%s\n].\n"
                "Eval vm_compute in (check_cases cases).\n" % body)
        rc, vals, err = common.run_coq_shards([text], run.scratch.sub("coq"), prefix="c18")[0]
        if rc != 0 or not vals:
            run.add(Finding("corr:C18:coq", "correspondence failed to evaluate: %s" % err[-300:], {"correspondence": "C18.Exec.check_cases", "stderr": err[-1500:]}, no_input=True))
        else:
            traces = len(obs)
            for i in vals[0]:
                o = obs[i]
                run.add(Finding("C18:corr", "schedule %s: observed history differs from the rename-protocol model (final-name trace %s, loads %s)" % (o["sched"], o["trace"], o["loaded"]), dict(o)))
    for o in obs:
        stats["kill_stages"][o["kill_kind"]] = stats["kill_stages"].get(o["kill_kind"], 0) + len(o["killed"])
    unw = [o for o in obs if o["kill_kind"] != "sigkill"]
    if unw and not run.proof_broken():
        body = ";\n".join("(%s, %s, %d%%nat)" % (nlist(o["model_sched"]), nlist(o["aborted"]), o["after_kill"]) for o in unw)
        text = ("From Coq Require Import List Arith.\nImport ListNotations.\nFrom SM Require Import C18.Model C18.Exec.\n"
                "Eval vm_compute in (check_unwinds [\n%s\n]).\n" % body)
        rc, vals, err = common.run_coq_shards([text], run.scratch.sub("coqu"), prefix="c18u")[0]
        if rc != 0 or not vals:
            run.add(Finding("corr:C18:coq", "unwinding correspondence failed to evaluate: %s" % err[-300:], {"correspondence": "C18.Exec.check_unwinds", "stderr": err[-1500:]}, no_input=True))
        else:
            for i in vals[0]:
                o = unw[i]
                run.add(Finding("C18:corr-unwind", "schedule %s followed by failing builds (%s) of %s: the final cache name holds %s, the model (clean-up removes the temporary) says otherwise" % (
                    o["sched"], o["kill_kind"], o["aborted"], {0: "nothing", 1: "a PARTIAL library", 2: "a complete library"}[o["after_kill"]]), dict(o)))
    run.coverage.update(evaluations=len(obs), distinct_nontrivial=len(distinct), traces_validated_against_impl=traces,
                        input_distribution=stats, exhaustive=bool(thorough))
    run.assumptions += ["POSIX rename (os.replace) is atomic and dlopen of a complete ELF file succeeds",
                        "the compiler is scripted through the CC environment variable; the real cc produces the library bytes"]
    run.finish_args = dict(level="proof",
                           rule="schedules over real processes: steps {lookup, compiler writes first half, writes rest, compiler exit+publish+load}; every prefix ends in SIGKILL of the paused builders followed by a fresh load; quick: corpus + sampled 2- and 3-process interleavings; thorough: all 70 two-process interleavings + sampled 3..16-process ones",
                           trusted=["harness/c18.py (scripted compiler, process driver)"])
