"""C10 — every calling interface yields the same theory; unknown parameters are refused."""
from __future__ import annotations

import math
import os
import random
import sys
import types

import numpy as np

from . import common, sas, c01
from .common import Finding, fhex, coq_list, cbool

SUFFIX = [("_pd_nsigma", "nsigmas"), ("_pd_n", "npts"), ("_pd_type", "type"), ("_pd", "width")]
QUICK = ["sphere", "cylinder", "core_shell_sphere", "ellipsoid", "hardsphere", "core_multi_shell", "parallelepiped",
         "lamellar", "onion", "stickyhardsphere", "power_law", "rpa", "fuzzy_sphere"]


# ---------------------------------------------------------------- stub bumps.parameter
def install_bumps_stub():
    if "bumps.parameter" in sys.modules and not getattr(sys.modules["bumps.parameter"], "_verif_stub", False):
        return False

    class Parameter(object):
        def __init__(self, value, name=None, limits=None):
            self.value, self.name, self.limits = value, name, limits

        @classmethod
        def default(cls, value, **kw):
            return value if isinstance(value, Parameter) else cls(value, **kw)

    class Reference(object):
        def __init__(self, obj, attr, name=None):
            self.obj, self.attr, self.name = obj, attr, name

    b = types.ModuleType("bumps"); bp = types.ModuleType("bumps.parameter")
    bp.Parameter, bp.Reference, bp._verif_stub = Parameter, Reference, True
    b.parameter = bp
    sys.modules["bumps"], sys.modules["bumps.parameter"] = b, bp
    return True


def cstr(s):
    return '"%s"' % str(s).replace('"', '""')


def dotted(key):
    """name_pd_n -> (name, npts); anything else -> (key, None)"""
    for suf, fld in SUFFIX:
        if key.endswith(suf) and len(key) > len(suf):
            return key[:-len(suf)], fld
    return key, None


def misspell(rng, name):
    k = rng.random()
    if k < 0.25 and len(name) > 1:
        i = rng.randrange(len(name)); return name[:i] + name[i + 1:]
    if k < 0.5:
        i = rng.randrange(len(name) + 1); return name[:i] + rng.choice("abcxyz_") + name[i:]
    if k < 0.7:
        return name.upper() if name.upper() != name else name + "x"
    if k < 0.85:
        return name + rng.choice(["_pd_sigma", "_pdn", "_width", "_pd_npts", "_pd_nsigmas", "_npts", ".width"])
    i = rng.randrange(len(name)); c = rng.choice("qzjk")
    return name[:i] + c + name[i + 1:]


def table_of(info):
    return [(p.name, bool(p.polydisperse)) for p in info.parameters.call_parameters]


def coq_table(tab):
    return coq_list(["(%s, %s)" % (cstr(n), cbool(b)) for n, b in tab], "par")


def set_sasview(M, pars):
    for k, v in pars.items():
        n, f = dotted(k)
        M.setParam(n if f is None else "%s.%s" % (n, f), v)


def refuses(fn, *exc):
    try:
        fn()
        return False
    except exc:
        return True


def rel(a, b):
    a, b = np.asarray(a, float), np.asarray(b, float)
    if a.shape != b.shape:
        return float("inf")
    if not (np.all(np.isfinite(a)) and np.all(np.isfinite(b))):
        return 0.0 if np.array_equal(np.isnan(a), np.isnan(b)) and np.allclose(a[np.isfinite(a)], b[np.isfinite(b)], rtol=1e-12, atol=0) else float("inf")
    return float(np.max(np.abs(a - b) / (np.abs(b) + 1e-300))) if a.size else 0.0



class Untranslatable(Exception):
    pass


def _translate_get_mesh():
    """direct_model.get_mesh / _pop_par_weights of the current tree: which keys each call parameter consumes (plain
    and dispersible) and that anything left over is refused.  Fail-closed Python-ast walk."""
    import ast
    tree = ast.parse(open(os.path.join(common.REPO, "sasmodels", "direct_model.py")).read())
    fns = {n.name: n for n in tree.body if isinstance(n, ast.FunctionDef)}
    if "get_mesh" not in fns or "_pop_par_weights" not in fns:
        raise Untranslatable("get_mesh / _pop_par_weights not found")

    def pops(stmts):
        out = []
        for st in stmts:
            for node in ast.walk(st):
                if isinstance(node, ast.Call) and ast.unparse(node.func) == "values.pop":
                    k = node.args[0]
                    if ast.unparse(k) == "parameter.name":
                        out.append("")
                    elif isinstance(k, ast.BinOp) and isinstance(k.op, ast.Add) and ast.unparse(k.left) == "parameter.name" \
                            and isinstance(k.right, ast.Constant) and isinstance(k.right.value, str):
                        out.append(k.right.value)
                    else:
                        raise Untranslatable("values.pop(%s)" % ast.unparse(k))
                    if len(node.args) != 2:
                        raise Untranslatable("values.pop without a default: a missing key would raise")
        return out
    fn = fns["_pop_par_weights"]
    body = [st for st in fn.body if not (isinstance(st, ast.Expr) and isinstance(st.value, ast.Constant))]
    plain, disp = [], None
    for st in body:
        if isinstance(st, ast.If) and ast.unparse(st.test) == "parameter.polydisperse":
            disp = pops(st.body)
            if pops(st.orelse):
                raise Untranslatable("keys consumed for a non-dispersible parameter")
        elif isinstance(st, ast.If):
            raise Untranslatable("unexpected branch in _pop_par_weights: %s" % ast.unparse(st.test))
        else:
            plain += pops([st])
    if disp is None:
        raise Untranslatable("no polydisperse branch")
    # get_mesh: one _pop_par_weights per call parameter on a COPY of the dictionary, then the leftover test
    gm = fns["get_mesh"]
    txt = ast.unparse(gm)
    if "values = values.copy()" not in txt:
        raise Untranslatable("get_mesh no longer copies the caller's dictionary")
    if "for p in parameters.call_parameters" not in txt or "_pop_par_weights(p, values" not in txt:
        raise Untranslatable("get_mesh does not pop every call parameter")
    refuses = any(isinstance(st, ast.If) and ast.unparse(st.test) == "values" and len(st.body) == 1 and isinstance(st.body[0], ast.Raise)
                  for st in gm.body)
    if not refuses:
        raise Untranslatable("get_mesh has no 'if values: raise' after popping")
    return plain, disp


def _translate_selection():
    """the 1-D point selection of DataMixin._interpret_data (direct_model.py), evaluated symbolically (harness/nptrans.py)
    once for each combination of 'the data has a mask' / 'the data has intensities': returns {(has_mask, has_y): expr}."""
    import ast
    from . import nptrans
    tree = ast.parse(open(os.path.join(common.REPO, "sasmodels", "direct_model.py")).read())
    fn = None
    for n in ast.walk(tree):
        if isinstance(n, ast.FunctionDef) and n.name == "_interpret_data":
            fn = n
    if fn is None:
        raise Untranslatable("_interpret_data not found")
    br = [n for n in ast.walk(fn) if isinstance(n, ast.If) and ast.unparse(n.test) == "self.data_type == 'Iq'"]
    if len(br) != 1:
        raise Untranslatable("%d branches for data_type == 'Iq'" % len(br))
    body = br[0].body
    k = next((i for i, b in enumerate(body) if isinstance(b, ast.If) and ast.unparse(b.test) == "getattr(data, 'dx', None) is not None"), None)
    if k is None:
        raise Untranslatable("the resolution dispatch does not follow the selection")
    sel = body[:k]
    txt = [ast.unparse(b) for b in sel]
    if "mask = getattr(data, 'mask', None)" not in txt:
        raise Untranslatable("the mask is not read with getattr(data, 'mask', None)")
    for b in body[k:]:
        if any(isinstance(n, ast.Name) and isinstance(n.ctx, ast.Store) and n.id == "index" for n in ast.walk(b)):
            raise Untranslatable("index is changed after the selection")
    out = {}
    try:
        for has_mask in (False, True):
            for has_y in (False, True):
                ev = nptrans.Evaluator({"data.x": ("i",), "data.qmin": (), "data.qmax": (), "mask": ("i",), "data.y": ("i",), "data.dy": ("i",)},
                                       leaf_calls={"np.isnan": "ynan"})
                ev.bool_leaves = {"ynan"}
                ev.assume = {"mask is not None": has_mask, "data.y is not None": has_y}
                for st in sel:
                    t = ast.unparse(st)
                    if t == "mask = getattr(data, 'mask', None)":
                        continue
                    if isinstance(st, ast.If):
                        # only the statements that touch `index` matter here (Iq / dIq are the data at the selected points)
                        inner = [b for b in (st.body if ev.truth(st.test) else st.orelse)
                                 if any(isinstance(n, ast.Name) and n.id == "index" and isinstance(n.ctx, ast.Store) for n in ast.walk(b))]
                        ev.run(inner)
                    else:
                        ev.stmt(st)
                r = ev.env.get("index")
                if r is None or r.axes != ("i",):
                    raise Untranslatable("index is not one flag per data point")
                if "ynan" in ev.leaf_args and ev.leaf_args["ynan"][1] != ("el", "data.y", ()):
                    raise Untranslatable("np.isnan is applied to something else than data.y")
                out[(has_mask, has_y)] = r.e
    except nptrans.Untranslatable as exc:
        raise Untranslatable(str(exc))
    return out


def gen_selection():
    from . import nptrans
    lines = ["(* GENERATED by harness/c10.py from sasmodels/direct_model.py (DataMixin._interpret_data: which 1-D data points get a theory value) *)",
             "From Coq Require Import List Bool.", "From SM Require Import Base.Num.", ""]
    note = None
    try:
        t = _translate_selection()

        def pr(e):
            # `mask == 0` is printed as the negation of the boolean "this point is masked"
            def sub(x):
                if x == ("cmp", "==", ("el", "mask", ()), ("num", "0.0")):
                    return ("not", ("el", "masked", ()))
                if isinstance(x, tuple):
                    return tuple(sub(y) for y in x)
                return x
            return nptrans.coq(sub(e), {("data.x", ()): "x", ("data.qmin", ()): "qmin", ("data.qmax", ()): "qmax", ("masked", ()): "masked", ("ynan", ()): "ynan"}, {})
        body = "if has_mask then (if has_y then %s else %s) else (if has_y then %s else %s)" % (pr(t[(True, True)]), pr(t[(True, False)]), pr(t[(False, True)]), pr(t[(False, False)]))
    except (Untranslatable, nptrans.Untranslatable, OSError, SyntaxError) as exc:
        note = "%s: %s" % (type(exc).__name__, exc)
        body = "leb O qmin x && leb O x qmax && (negb has_mask || negb masked) && (negb has_y || negb ynan)"
    lines.append("Definition selection_translated : bool := %s." % ("true" if note is None else "false"))
    if note:
        lines.append("(* not translated: %s *)" % note.replace("*)", "* )"))
    lines += ["Definition code_keep1d {T : Type} (O : Ops T) (qmin qmax x : T) (has_mask masked has_y ynan : bool) : bool :=", "  %s." % body, ""]
    common.write_if_changed(os.path.join(common.THEORIES, "Gen", "C10_select.v"), "\n".join(lines))
    return note


SELECT_NOTE = [None]


def gen():
    """Regenerate Gen/C10_code.v (get_mesh, _pop_par_weights) and Gen/C10_select.v (_interpret_data) from direct_model.py."""
    SELECT_NOTE[0] = gen_selection()
    return _gen_names()


def _gen_names():
    lines = ["(* GENERATED by harness/c10.py from sasmodels/direct_model.py: the keys _pop_par_weights consumes for one call parameter *)",
             "From Coq Require Import String List Bool.", "Import ListNotations.", "From SM Require Import C10.Model.", "Local Open Scope string_scope.", ""]
    note = None
    try:
        plain, disp = _translate_get_mesh()
    except (Untranslatable, OSError, SyntaxError) as exc:
        note = "%s: %s" % (type(exc).__name__, exc)
        plain, disp = None, None
    lines.append("Definition translated : bool := %s." % ("true" if note is None else "false"))
    if note:
        lines.append("(* not translated: %s *)" % note.replace("*)", "* )"))
    lines.append("")
    if plain is None:
        lines.append("Definition code_accepted_for (p : par) : list string := accepted_for p.")
    else:
        q = lambda l: "[" + "; ".join(('n ++ "%s"' % x) if x else "n" for x in l) + "]"
        lines.append("Definition code_accepted_for (p : par) : list string :=\n  let n := fst p in if snd p then %s else %s." % (q(plain + disp), q(plain)))
    lines.append("")
    common.write_if_changed(os.path.join(common.THEORIES, "Gen", "C10_code.v"), "\n".join(lines))
    return note


def main(run):
    install_bumps_stub()
    from sasmodels import bumps_model, direct_model, sasview_model, core, weights
    from sasmodels.data import empty_data1D, empty_data2D, Data1D, Data2D
    from sasmodels.direct_model import call_kernel, call_Fq, DirectModel
    rng = random.Random(run.seed * 101 + 10)
    thorough = run.tier == "thorough"
    note = []
    run.prove(["C10/Property.v"], gen=lambda: note.append(gen()))
    if SELECT_NOTE[0]:
        run.notes.append("the 1-D point selection of _interpret_data not translated (%s): C10_code_selection is vacuous in this run, the selection correspondence decides" % SELECT_NOTE[0])
    else:
        run.notes.append("the 1-D point selection of DataMixin._interpret_data translated from the current direct_model.py (Gen/C10_select.v, symbolic numpy evaluation per combination of mask / intensities present) and proved equal to the model (C10_code_selection)")
    if note and note[0]:
        run.notes.append("get_mesh / _pop_par_weights not translated (%s): the source-text obligation C10_code_accepted is vacuous in this run, the behavioural tie decides" % note[0])
    else:
        run.notes.append("the keys consumed by direct_model._pop_par_weights and the leftover test of get_mesh translated from the current direct_model.py (Gen/C10_code.v; C10_code_accepted)")
    names = sas.compiled_model_names() if thorough else [n for n in QUICK]
    if thorough:
        names = list(core.list_models())
    stats = dict(models=0, name_cases=0, name_cases_invalid=0, setparam_cases=0, agree_cases=0, agree_2d=0, agree_resolution=0,
                 multiplicity=0, structure_factor=0, array_distribution=0, selection_cases=0, selected_fraction=[], misspelt_kinds={})
    evals, distinct = 0, set()
    name_cases, name_meta, set_cases, set_meta, sel_cases, sel_meta = [], [], [], [], [], []
    TOL = 1e-12

    for name in names:
        info = core.load_model_info(name)
        model = sas.load(name)
        stats["models"] += 1
        pt = info.parameters
        tab = table_of(info)
        tabnames = [n for n, _ in tab]
        control = info.control if hasattr(info, "control") else None
        Mcls = sasview_model._make_standard_model(name)
        mult_info = Mcls.multiplicity_info
        q1 = np.array([0.004, 0.02, 0.09, 0.31])
        kern = model.make_kernel([q1])
        data1 = empty_data1D(q1, resolution=0.0)
        calc1 = DirectModel(data1, model)
        is_sf = bool(info.structure_factor)

        # ------------------------------------------------------------ (a) name resolution
        for t in range(6 if not thorough else 14):
            base = c01.base_pars(info, rng)
            keys = {}
            for k in rng.sample(sorted(base), min(len(base), rng.randint(0, 4))):
                keys[k] = base[k]
            pdn = [n for n, b in tab if b]
            for n in rng.sample(pdn, min(len(pdn), rng.randint(0, 2))):
                for suf, val in rng.sample([("_pd", 0.1), ("_pd_n", 5), ("_pd_nsigma", 2.5), ("_pd_type", "gaussian")], rng.randint(1, 4)):
                    keys[n + suf] = val
            kind = "valid"
            if t % 2 == 1:
                r = rng.random()
                plain = [n for n, b in tab if not b]
                if t == 3:
                    # corpus: an undefined name whose VALUE is None (or NaN) is as undefined as any other
                    kind = "foreign"; keys[rng.choice(["raduis", "radius_bogus", "sld_pd", "len"])] = rng.choice([None, None, float("nan")])
                elif t == 1 and pdn:
                    # corpus (every run, every model): a dispersity keyword that merely BEGINS like a known one
                    kind = "misspelt"; keys[pdn[0] + ["_pd_nsigmas", "_pd_width", "_pd_types", "_pd_npts"][len(name) % 4]] = 1.0
                elif r < 0.35 and plain:
                    kind = "suffix-on-plain"; keys[rng.choice(plain) + rng.choice(["_pd", "_pd_n", "_pd_nsigma", "_pd_type"])] = 0.1
                elif r < 0.5:
                    kind = "foreign"; keys[rng.choice(["radius_bogus", "len", "sld_core_x", "q", "cutoff", "volfraction2", "pd", "_pd", ""])] = 1.0
                else:
                    kind = "misspelt"; keys[misspell(rng, rng.choice(tabnames + [n + "_pd" for n in pdn] + [n + "_pd_n" for n in pdn]))] = 1.0
            stats["misspelt_kinds"][kind] = stats["misspelt_kinds"].get(kind, 0) + 1
            expect_unknown = [k for k in keys if k not in tabnames and not (dotted(k)[1] and dotted(k)[0] in pdn)]
            # the oracle (independent of Coq): refused iff some key is unknown
            want_ok = not expect_unknown
            impl = {}
            impl["call_kernel"] = not refuses(lambda: call_kernel(kern, dict(keys), cutoff=1e-5), TypeError)
            impl["DirectModel"] = not refuses(lambda: calc1(**keys), TypeError)
            impl["bumps"] = not refuses(lambda: bumps_model.Model(model, **keys), TypeError)
            if t % 3 == 0 or not want_ok:
                impl["Iq"] = not refuses(lambda: direct_model.Iq(name, q1[:2], **keys), TypeError)
            evals += len(impl)
            desc = dict(model=name, keys={k: v for k, v in keys.items()}, unknown=expect_unknown, accepted=impl)
            for iface, ok in impl.items():
                if ok != want_ok:
                    run.add(Finding("C10:names:%s:%s" % (iface, name), "%s: %s %s the call with keys %s (unknown: %s)" % (
                        name, iface, "accepts" if ok else "refuses", sorted(keys), expect_unknown), desc))
            stats["name_cases"] += 1
            stats["name_cases_invalid"] += int(not want_ok)
            name_cases.append("(MkName %s %s %s)" % (coq_table(tab), coq_list([cstr(k) for k in keys], "string"), cbool(impl["call_kernel"])))
            name_meta.append(desc)
            # SasviewModel: every key separately through setParam
            mult = None
            if mult_info.number > 1:
                mult = rng.randint(1, mult_info.number)
            M = Mcls(mult) if mult is not None else Mcls()
            vis = [(n, b) for n, b in tab if n in M.params]
            for k, v in keys.items():
                n, f = dotted(k)
                ok = not refuses(lambda: M.setParam(n if f is None else "%s.%s" % (n, f), v), ValueError)
                vnames = [a for a, _ in vis]
                want = (n in vnames and f is None) or (f is not None and (n, True) in vis)
                if "." in k:      # a literal dot in a misspelt key: setParam splits it itself
                    toks = k.split(".")
                    want = len(toks) == 2 and (toks[0], True) in vis and toks[1] in ("width", "npts", "nsigmas", "type")
                    n, f = (toks[0], toks[1]) if len(toks) == 2 else (k, None)
                evals += 1
                d2 = dict(model=name, multiplicity=mult, key=k, setParam=(n if f is None else "%s.%s" % (n, f)), accepted=ok)
                if ok != want:
                    run.add(Finding("C10:names:setParam:%s" % name, "%s (multiplicity %s): setParam(%r) %s" % (name, mult, d2["setParam"], "accepted" if ok else "refused"), d2))
                stats["setparam_cases"] += 1
                set_cases.append("(MkSet %s %s %s %s)" % (coq_table(vis), cstr(n), ("(Some %s)" % cstr(f)) if f is not None else "None", cbool(ok)))
                set_meta.append(d2)

        # ------------------------------------------------------------ (b) the interfaces agree
        oriented = any(p.type == "orientation" for p in pt.call_parameters)
        for rep in range(3 if not thorough else 6):
            pars = c01.base_pars(info, rng)
            mult = None
            if mult_info.number > 1:
                mult = rng.randint(1, mult_info.number)
                # the smallest multiplicity the control parameter allows - zero shells for core_multi_shell / onion - is a
                # multiplicity like any other (first repetition of every multiplicity model)
                ctl_ = [p for p in pt.call_parameters if p.name == mult_info.control]
                if rep == 0 and ctl_ and ctl_[0].limits[0] <= 0:
                    mult = 0
                    stats["multiplicity_zero"] = stats.get("multiplicity_zero", 0) + 1
                stats["multiplicity"] += 1
                hidden = info.get_hidden_parameters(mult)
                pars = {k: v for k, v in pars.items() if k not in hidden}
                pars[mult_info.control] = float(mult)
            if not is_sf:
                pars["scale"] = rng.choice([1.0, rng.uniform(0.1, 2)]); pars["background"] = rng.choice([0.0, rng.uniform(0.001, 0.5)])
            else:
                stats["structure_factor"] += 1
            dim2 = rep % 3 == 2
            pdn = [n for n in c01.dispersible(pt, "2d" if dim2 else "1d") if n in pars]
            # also set dispersity on orientation parameters in 1-D: must be ignored by every interface alike
            if oriented and not dim2 and rng.random() < 0.5:
                pdn = pdn + [p.name for p in pt.call_parameters if p.type == "orientation"]
            for n in rng.sample(sorted(set(pdn)), min(len(set(pdn)), rng.randint(0, 2))):
                p = [x for x in pt.call_parameters if x.name == n][0]
                pars[n + "_pd"] = rng.uniform(0.05, 0.25) if p.relative_pd else rng.uniform(3, 15)
                pars[n + "_pd_n"] = rng.choice([3, 5, 8, 1, 0])      # 0 or 1 point with a non-zero width: the single central value (0 for an angle)
                if rng.random() < 0.5:
                    pars[n + "_pd_nsigma"] = rng.choice([2.0, 3.0])
                if rng.random() < 0.5:
                    pars[n + "_pd_type"] = rng.choice(["gaussian", "rectangle", "schulz" if p.relative_pd else "gaussian", "lognormal" if p.relative_pd else "uniform"])
            # 2-D, oriented: one angle carries a width but only one (or no) point - the jitter distribution degenerates to
            # its centre, which for an angle is 0, not the view angle
            if dim2 and oriented:
                an_ = rng.choice([p.name for p in pt.call_parameters if p.type == "orientation"])
                pars[an_] = rng.uniform(20, 70)
                pars[an_ + "_pd"] = rng.uniform(5, 20); pars[an_ + "_pd_n"] = rng.choice([0, 1]); pars.pop(an_ + "_pd_type", None)
                stats["one_point_jitter"] = stats.get("one_point_jitter", 0) + 1
            # 2-D, magnetic: a magnetic SLD and a polarisation state, on oriented and un-oriented models alike (the
            # magnetic parameters are call parameters of every interface; in 1-D they are ignored by all of them)
            msld = [p.name for p in pt.call_parameters if p.type == "sld" and p.length == 1 and (p.name + "_M0") in [c.name for c in pt.call_parameters]]
            # (pure-Python models refuse magnetism with NotImplementedError through every interface: not generated)
            if dim2 and msld and mult is None and not callable(info.Iq) and rng.random() < 0.7:
                m_ = rng.choice(msld)
                pars[m_ + "_M0"] = rng.choice([-1, 1]) * rng.uniform(0.5, 4.0)
                pars[m_ + "_mtheta"] = rng.uniform(10, 170); pars[m_ + "_mphi"] = rng.uniform(0, 180)
                pars["up_frac_i"] = rng.uniform(0, 1); pars["up_frac_f"] = rng.uniform(0, 1); pars["up_theta"] = rng.uniform(0, 180)
                stats["magnetic_2d"] = stats.get("magnetic_2d", 0) + 1
            sv_pars = {k: v for k, v in pars.items() if k != mult_info.control}
            desc = dict(model=name, pars=pars, multiplicity=mult, dim="2d" if dim2 else "1d")
            try:
                M = Mcls(mult) if mult is not None else Mcls()
                set_sasview(M, sv_pars)
                if dim2:
                    data = empty_data2D(np.linspace(-0.11, 0.13, 5), resolution=0.0)
                    calc = DirectModel(data, model)
                    A = calc(**pars)
                    idx = calc.index
                    B = direct_model.Iqxy(name, data.qx_data[idx], data.qy_data[idx], **pars)
                    C = M.evalDistribution([data.qx_data[idx], data.qy_data[idx]])
                    C2 = M.calculate_Iq(data.qx_data[idx], data.qy_data[idx])[0]
                    D = bumps_model.Experiment(data, bumps_model.Model(model, **pars)).theory()
                    stats["agree_2d"] += 1
                else:
                    A = calc1(**pars)
                    B = direct_model.Iq(name, q1, **pars)
                    C = M.evalDistribution(q1)
                    C2 = M.calculate_Iq(q1)[0]
                    D = bumps_model.Experiment(data1, bumps_model.Model(model, **pars)).theory()
                evals += 5
            except Exception as exc:  # noqa
                run.add(Finding("C10:agree:error:%s" % name, "%s: an interface raised %r for %s" % (name, exc, pars), desc))
                continue
            stats["agree_cases"] += 1
            worst = max(rel(B, A), rel(C, A), rel(C2, A), rel(D, A))
            if worst > TOL:
                which = [n for n, v in (("Iq/Iqxy", B), ("SasviewModel.evalDistribution", C), ("SasviewModel.calculate_Iq", C2), ("bumps Experiment.theory", D)) if rel(v, A) > TOL]
                run.add(Finding("C10:agree:%s" % name, "%s (%s, multiplicity %s): %s differ(s) from DirectModel by up to %.3g (relative) for %s" % (
                    name, desc["dim"], mult, ", ".join(which), worst, pars),
                    dict(desc, DirectModel=np.asarray(A).tolist(), Iq=np.asarray(B).tolist(), sasview=np.asarray(C).tolist(), bumps=np.asarray(D).tolist())))
            elif np.all(np.isfinite(A)):
                distinct.add((name, rep))
            # mono=True (the rarely passed switch of call_kernel/get_mesh): the same as leaving every dispersity key out
            if not dim2 and worst <= TOL:
                try:
                    plain = {k: v for k, v in pars.items() if "_pd" not in k}
                    Em = call_kernel(kern, dict(pars), cutoff=0.0, mono=True)
                    Es = calc1(**plain)
                    evals += 2
                    stats["mono_switch"] = stats.get("mono_switch", 0) + 1
                    if rel(Em, Es) > TOL:
                        run.add(Finding("C10:agree-mono:%s" % name, "%s: call_kernel(mono=True) with dispersity keys present gives %s, the calculator without those keys gives %s" % (
                            name, np.asarray(Em).tolist()[:3], np.asarray(Es).tolist()[:3]), dict(desc, plain=plain)))
                except Exception as exc:  # noqa
                    run.add(Finding("C10:agree:error:%s" % name, "%s: call_kernel(mono=True) raised %r" % (name, exc), desc))
            # the same objects edited in place (a GUI or fit changes values between evaluations and keeps the
            # dispersity settings): new values of every size parameter, same widths / counts / types
            if not dim2 and worst <= TOL:
                pars2 = dict(pars)
                for p in pt.call_parameters:
                    if p.name in pars2 and p.type == "volume" and p.length == 1 and isinstance(pars2[p.name], float) and pars2[p.name] > 0 and p.name != mult_info.control:
                        pars2[p.name] = float(min(max(pars2[p.name] * rng.uniform(1.2, 1.7), p.limits[0]), p.limits[1]))
                try:
                    for k, v in pars2.items():
                        if k in sv_pars and not k.endswith(("_pd", "_pd_n", "_pd_nsigma", "_pd_type")) and v != pars[k]:
                            M.setParam(k, v)
                    A2 = calc1(**pars2)
                    C3 = M.evalDistribution(q1)
                    evals += 2
                    stats["edited_in_place"] = stats.get("edited_in_place", 0) + 1
                    if rel(C3, A2) > TOL:
                        run.add(Finding("C10:agree-edited:%s" % name, "%s: after changing values on the SAME SasviewModel object (dispersity settings kept) it differs from DirectModel by %.3g (relative); first evaluated at %s, then at %s" % (
                            name, rel(C3, A2), {k: pars[k] for k in pars2 if pars2[k] != pars[k]}, {k: pars2[k] for k in pars2 if pars2[k] != pars[k]}),
                            dict(desc, edited=pars2, DirectModel=np.asarray(A2).tolist(), sasview=np.asarray(C3).tolist())))
                except Exception as exc:  # noqa
                    run.add(Finding("C10:agree:error:%s" % name, "%s: an interface raised %r after an in-place edit" % (name, exc), desc))
            # then, still on the same long-lived objects, a parameter set whose whole distribution lies outside the
            # limits (an empty mesh): every interface returns the same thing (the background), whatever was
            # evaluated before
            if not dim2 and worst <= TOL and rep < 2:
                cand = [p for p in pt.call_parameters if p.name in pars and p.type == "volume" and p.length == 1 and p.limits[0] == 0.0
                        and p.name in c01.dispersible(pt, "1d") and p.name != mult_info.control]
                if cand:
                    p = rng.choice(cand)
                    pars3 = {k: v for k, v in pars.items() if not k.startswith(p.name + "_pd")}
                    pars3[p.name] = -abs(float(pars[p.name])) - 1.0
                    pars3[p.name + "_pd"] = 0.1; pars3[p.name + "_pd_n"] = 7
                    try:
                        A3 = calc1(**pars3)
                        B3 = direct_model.Iq(name, q1, **pars3)
                        D3 = bumps_model.Experiment(data1, bumps_model.Model(model, **pars3)).theory()
                        evals += 3
                        stats["empty_after_use"] = stats.get("empty_after_use", 0) + 1
                        bgv = pars3.get("background", 0.0)
                        if rel(A3, B3) > TOL or rel(D3, B3) > TOL or not np.allclose(B3, bgv, rtol=1e-12, atol=1e-300):
                            run.add(Finding("C10:agree-empty:%s" % name, "%s: with %s entirely outside its limits (empty mesh) a reused DirectModel gives %s, Iq() %s, bumps %s; background is %r" % (
                                name, p.name, np.asarray(A3).tolist()[:3], np.asarray(B3).tolist()[:3], np.asarray(D3).tolist()[:3], bgv),
                                dict(desc, then=pars3, DirectModel=np.asarray(A3).tolist(), Iq=np.asarray(B3).tolist())))
                    except Exception as exc:  # noqa
                        run.add(Finding("C10:agree:error:%s" % name, "%s: an interface raised %r for an empty distribution" % (name, exc), dict(desc, then=pars3)))
            if len(run.coverage["samples"]) < 6:
                run.sample(dict(model=name, multiplicity=mult, dim=desc["dim"], pars={k: pars[k] for k in list(pars)[:8]}))
            # resolution-bearing data: DirectModel, Iq and bumps (the SasView object has no resolution)
            if not dim2 and rep == 0:
                for kind in ("pinhole", "slit"):
                    try:
                        if kind == "pinhole":
                            d = empty_data1D(q1, resolution=0.07)
                            A = DirectModel(d, model)(**pars)
                            B = direct_model.Iq(name, q1, dq=0.07 * q1, **pars)
                        else:
                            d = Data1D(x=q1.copy()); d.dx = None; d.dxl = np.full(len(q1), 0.05); d.dxw = np.full(len(q1), 0.002)
                            A = DirectModel(d, model)(**pars)
                            B = direct_model.Iq(name, q1, ql=0.05, qw=0.002, **pars)
                        D = bumps_model.Experiment(d, bumps_model.Model(model, **pars)).theory()
                    except Exception as exc:  # noqa
                        run.add(Finding("C10:agree:error:%s" % name, "%s (%s data): an interface raised %r" % (name, kind, exc), dict(desc, data=kind)))
                        continue
                    evals += 3
                    stats["agree_resolution"] += 1
                    if max(rel(B, A), rel(D, A)) > TOL:
                        run.add(Finding("C10:agree-res:%s" % name, "%s with %s resolution: Iq %s / bumps %s differ from DirectModel %s" % (name, kind, B, D, A), dict(desc, data=kind)))

        # ------------------------------------------------------------ (c) hidden scale/background of structure factors and array distributions
        if is_sf:
            M = Mcls()
            pars = c01.base_pars(info, rng)
            set_sasview(M, pars)
            C = M.evalDistribution(q1)
            A = calc1(scale=1.0, background=0.0, **pars)
            evals += 2
            if rel(C, A) > TOL:
                run.add(Finding("C10:hidden:%s" % name, "%s: SasView object (hidden scale/background) gives %s, direct calculator with scale=1, background=0 gives %s" % (name, C, A), dict(model=name, pars=pars)))
            for hid in ("scale", "background"):
                if not refuses(lambda: M.setParam(hid, 2.0), ValueError):
                    run.add(Finding("C10:hidden-set:%s" % name, "%s: setParam(%r) accepted although the parameter is hidden for structure factors" % (name, hid), dict(model=name)))
        vol = [p for p in pt.call_parameters if p.type == "volume" and p.polydisperse and p.name in c01.dispersible(calc1.model.info.parameters, "1d")]
        if vol and not is_sf and mult_info.number <= 1 and info.have_Fq is not None:
            p = rng.choice(vol)
            pars = c01.base_pars(info, rng)
            n = rng.randint(2, 5)
            vals = np.array(sorted(pars[p.name] * rng.uniform(0.7, 1.3) for _ in range(n)))
            vals = np.clip(vals, p.limits[0], p.limits[1])
            wts = np.array([rng.uniform(0.2, 2) for _ in range(n)])
            scale, bg = rng.uniform(0.2, 2), rng.uniform(0, 0.1)
            M = Mcls()
            set_sasview(M, dict(pars, scale=scale, background=bg))
            disp = weights.ArrayDispersion()
            disp.set_weights(vals, wts)
            M.set_dispersion(p.name, disp)
            C = M.evalDistribution(q1)
            num = np.zeros(len(q1)); den = 0.0
            for v, w in zip(vals, wts):
                F = call_Fq(kern, dict(pars, **{p.name: float(v)}), cutoff=0.0)
                # a point the model declares invalid (e.g. capped_cylinder with radius > radius_cap) takes no part in
                # the average: the kernel reports a total weight of zero for it
                if getattr(kern, "result", None) is not None and not (sas.raw_sums(kern, len(q1))["norm"] > 0):
                    stats["array_invalid_points"] = stats.get("array_invalid_points", 0) + 1
                    continue
                num += w * np.asarray(F[1]); den += w * F[3]
            want = scale * num / den + bg if den else np.full(len(q1), bg)
            evals += 1 + n
            stats["array_distribution"] += 1
            if rel(C, want) > 1e-10:
                run.add(Finding("C10:array:%s" % name, "%s: array distribution on %s gives %s, the weighted average of monodisperse evaluations gives %s" % (name, p.name, C, want),
                                dict(model=name, pars=pars, parameter=p.name, values=vals.tolist(), weights=wts.tolist())))
        kern.release()

        # ------------------------------------------------------------ (d) masks, q limits and NaN data select the points
        for rep in range(2 if not thorough else 4):
            two_d = rep % 2 == 1
            pars = c01.base_pars(info, rng)
            if two_d:
                ax = np.array(sorted(rng.uniform(-0.2, 0.2) for _ in range(4)) + [0.0])
                d = empty_data2D(ax, resolution=0.0)
                npt = len(d.qx_data)
                d.mask = np.array([rng.random() < 0.25 for _ in range(npt)])
                d.data = np.array([float("nan") if rng.random() < 0.2 else rng.uniform(1, 2) for _ in range(npt)]) if rng.random() < 0.7 else None
                d.err_data = np.ones(npt) if d.data is not None else None
                qv = np.sqrt(d.qx_data ** 2 + d.qy_data ** 2)
                srt = np.sort(qv)
                d.qmin, d.qmax = float(srt[rng.randint(0, 4)]), float(srt[-rng.randint(1, 5)])
                xs, ys, mask, dat = d.qx_data, d.qy_data, d.mask, d.data
            else:
                npt = rng.randint(4, 9)
                x = np.array(sorted(rng.uniform(0.002, 0.3) for _ in range(npt)))
                y = np.array([float("nan") if rng.random() < 0.2 else rng.uniform(1, 2) for _ in range(npt)]) if rng.random() < 0.7 else None
                d = Data1D(x=x, y=y, dy=(np.ones(npt) if y is not None else None))
                d.dx = None
                d.mask = np.array([rng.random() < 0.25 for _ in range(npt)]) if rng.random() < 0.8 else None
                d.qmin, d.qmax = float(x[rng.randint(0, 2)]), float(x[-rng.randint(1, 3)])
                if rep == 0:
                    # corpus (every model, every run): a NaN intensity inside [qmin, qmax] that the user's mask does NOT
                    # flag, next to a masked finite point - both are left out
                    y = np.array([rng.uniform(1, 2) for _ in range(npt)]); y[npt // 2] = float("nan")
                    d = Data1D(x=x, y=y, dy=np.ones(npt)); d.dx = None
                    d.mask = np.zeros(npt, dtype=bool); d.mask[1] = True
                    d.qmin, d.qmax = float(x[0]), float(x[-1])
                xs, ys, mask, dat = x, np.zeros(npt), d.mask, y
            # independent oracle: point by point
            want_idx = []
            for i in range(npt):
                qi = math.sqrt(xs[i] * xs[i] + ys[i] * ys[i]) if two_d else xs[i]
                if d.qmin <= qi <= d.qmax and (mask is None or not mask[i]) and (dat is None or not math.isnan(dat[i])):
                    want_idx.append(i)
            try:
                calc = DirectModel(d, model)
                got_idx = np.flatnonzero(calc.index).tolist()
                th = calc(**pars) if want_idx else np.array([])
                ex = bumps_model.Experiment(d, bumps_model.Model(model, **pars))
                thb = ex.theory() if want_idx else np.array([])
                if want_idx:
                    kk = model.make_kernel([xs[want_idx], ys[want_idx]] if two_d else [xs[want_idx]])
                    ref = call_kernel(kk, dict(pars), cutoff=1e-5)      # the kernel at exactly the selected points, in order
                    kk.release()
                else:
                    ref = np.array([])
            except Exception as exc:  # noqa
                run.add(Finding("C10:select:error:%s" % name, "%s: %r for selection data" % (name, exc), dict(model=name, two_d=two_d, qmin=d.qmin, qmax=d.qmax)))
                continue
            evals += 3
            stats["selection_cases"] += 1
            stats["selected_fraction"].append(round(len(want_idx) / npt, 2))
            desc = dict(model=name, two_d=two_d, x=xs.tolist(), y=ys.tolist(), mask=None if mask is None else [bool(m) for m in mask],
                        data=None if dat is None else [None if math.isnan(v) else v for v in dat], qmin=d.qmin, qmax=d.qmax, expected=want_idx, index=got_idx)
            if got_idx != want_idx:
                run.add(Finding("C10:select:index:%s" % ("2d" if two_d else "1d"), "%s: data object selects points %s, the mask/limits/NaN rule selects %s" % (name, got_idx, want_idx), desc))
            elif len(th) != len(want_idx) or len(thb) != len(want_idx) or rel(th, ref) > TOL or rel(thb, ref) > TOL:
                run.add(Finding("C10:select:theory:%s" % ("2d" if two_d else "1d"), "%s: theory returned for the selected points (%s / bumps %s) is not the theory at those q values in order (%s)" % (name, th, thb, ref), desc))
            elif want_idx and ex.Iq is not None and not np.array_equal(ex.Iq, dat[want_idx]):
                run.add(Finding("C10:select:data:%s" % ("2d" if two_d else "1d"), "%s: data kept for fitting %s is not data[selected] %s" % (name, ex.Iq, dat[want_idx]), desc))
            else:
                distinct.add((name, "sel", rep))
            pts = ["(MkPt %s %s %s %s)" % (fhex(xs[i]), fhex(ys[i]), cbool(bool(mask[i]) if mask is not None else False),
                                           "None" if dat is None else "(Some %s)" % fhex(dat[i])) for i in range(npt)]
            sel_cases.append("(MkSel %s %s %s %s %s)" % (cbool(two_d), fhex(d.qmin), fhex(d.qmax), coq_list(pts, "pt"), coq_list(["%d%%nat" % i for i in got_idx], "nat")))
            sel_meta.append(desc)

    # ---------------------------------------------------------------- Coq model on the same cases
    traces = 0
    if not run.proof_broken():
        hdr = ("From Coq Require Import String List Bool PrimFloat.\nImport ListNotations.\nFrom SM Require Import C10.Model C10.Exec.\nOpen Scope string_scope.\n")
        shards, owners = [], []
        for kind, cs, metas, ty, fn, n in (("names", name_cases, name_meta, "NameCase", "check_names", 40), ("set", set_cases, set_meta, "SetCase", "check_sets", 60),
                                           ("sel", sel_cases, sel_meta, "SelCase", "check_sel", 60)):
            for i in range(0, len(cs), n):
                shards.append(hdr + "Definition cases : list %s := [\n%s\n].\nEval vm_compute in (%s cases).\n" % (ty, ";\n".join(cs[i:i + n]), fn))
                owners.append((kind, metas[i:i + n]))
        for (kind, metas), (rc, vals, err) in zip(owners, common.run_coq_shards(shards, run.scratch.sub("coq"), prefix="c10", jobs=8)):
            if rc != 0 or not vals:
                run.add(Finding("corr:C10:coq", "correspondence shard (%s) failed: %s" % (kind, err[-300:]), {"correspondence": "C10.Exec", "stderr": err[-1500:]}, no_input=True))
                continue
            traces += len(metas)
            for idx in vals[0]:
                m = metas[idx]
                if kind == "names":
                    run.add(Finding("C10:corr:names", "%s: get_mesh %s keys %s; the Coq model of name resolution decides otherwise" % (m["model"], "accepts" if m["accepted"]["call_kernel"] else "refuses", sorted(m["keys"])), m))
                elif kind == "set":
                    run.add(Finding("C10:corr:setParam", "%s: setParam(%r) %s; the Coq model decides otherwise" % (m["model"], m["setParam"], "accepted" if m["accepted"] else "refused"), m))
                else:
                    run.add(Finding("C10:corr:select", "%s: data object selects %s; the Coq model selects other points" % (m["model"], m["index"]), m))
    fr = stats.pop("selected_fraction")
    stats["selected_fraction_mean"] = round(float(np.mean(fr)), 3) if fr else None
    stats["selected_none"] = sum(1 for f in fr if f == 0)
    run.coverage.update(evaluations=evals, distinct_nontrivial=len(distinct), traces_validated_against_impl=traces, input_distribution=stats)
    run.assumptions += ["bumps is not installed: a stub bumps.parameter (Parameter.default, .value, .limits; Reference) is installed by the harness before sasmodels.bumps_model is imported",
                        "the interfaces are compared at relative tolerance 1e-12 with DirectModel as reference; resolution-bearing data is compared between DirectModel, Iq and the bumps wrapper only (the SasView object has no resolution)",
                        "the kernel evaluation itself is not modelled here (C01); C10's theorems cover name resolution, the two naming schemes and the selection of points"]
    run.finish_args = dict(level="proof",
                           rule="models x key sets (valid, suffix on non-dispersible, foreign, misspelt by one edit / wrong suffix) through call_kernel, DirectModel, Iq, bumps Model and setParam; models x random parameter/dispersity settings in both naming schemes x multiplicity x 1-D/2-D/pinhole/slit data through the four interfaces; random masks/q limits/NaN data; distinct = distinct (model, setting) with all interfaces agreeing on finite values",
                           trusted=["harness/c10.py (stub bumps.parameter, translation between the naming schemes, point-by-point selection oracle)"])
