(* C11/Property.v — the property theorems and nothing else. *)
From Coq Require Import List Arith String.
Import ListNotations.
From SM Require Import Base.Num Base.Mesh Base.Sums C01.Model C11.Model C11.Proofs.

(* Whatever sequence of other evaluations an object has been through (different
   parameter sets, meshes, cutoffs, q vectors - anything that fits in Args), the
   same request returns what it returns on a fresh object: for every carrier,
   hence bit-identically in binary64. *)
Theorem C11_history_independent :
  forall (T : Type) (O : Ops T) (h : list (Args (T:=T))) (a : Args) buf0 fresh,
  wf a -> call O a (run_history O h buf0) = call O a fresh.
Proof. exact @history_independent. Qed.
Print Assumptions C11_history_independent.

Theorem C11_call_Fq_args_unchanged :
  forall (V : Type) (pars : pdict V), fst (call_Fq_entry V pars) = pars.
Proof. exact call_Fq_args_unchanged. Qed.
Print Assumptions C11_call_Fq_args_unchanged.

(* the entry point before the repair removed a key from the caller's dictionary *)
Theorem C11_call_Fq_old_refuted :
  forall (V : Type) (v : V), exists pars, fst (call_Fq_entry_old V pars) <> pars.
Proof. exact call_Fq_old_refuted. Qed.
Print Assumptions C11_call_Fq_old_refuted.

(* the model above gives a compiled kernel no memory of its own: a call is a function of its arguments and of the
   buffers it overwrites.  What could falsify that silently is a C variable with static storage that is not const
   (a memo of the last solution, a lazily filled table): the C sources the builtin models are compiled from are
   scanned on every run (Gen/C11_statics.v) and there is none *)
From SM Require Import Gen.C11_statics.
Theorem C11_code_no_static_state : statics_scanned = true -> code_mutable_statics = [] /\ 0 < code_files_scanned.
Proof. intros Ht. try solve [vm_compute in Ht; discriminate Ht]. all: split; [reflexivity | vm_compute; repeat constructor]. Qed.
Print Assumptions C11_code_no_static_state.
(* ... and the Python counterpart: in the modules between a request and its numbers (sesans, resolution, resolution2d,
   weights, kernelpy, kerneldll, kernel, product, mixture, details, direct_model) there is no module-level container
   that starts empty or has a lower-case name, no global statement and no cache decorator *)
Theorem C11_code_no_module_state : statics_scanned = true -> code_python_module_state = [].
Proof. intros Ht. try solve [vm_compute in Ht; discriminate Ht]. all: reflexivity. Qed.
Print Assumptions C11_code_no_module_state.
