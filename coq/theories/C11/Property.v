(* C11/Property.v — the property theorems and nothing else. *)
From Coq Require Import List Arith String.
Import ListNotations.
From SM Require Import Base.Num Base.Mesh Base.Sums C01.Model C11.Model C11.Proofs.

(* Whatever sequence of other evaluations an object has been through (different
   parameter sets, meshes, cutoffs, q vectors - anything that fits in Args), the
   same request returns what it returns on a fresh object: for every carrier,
   hence bit-identically in binary64. *)
Theorem C11_history_independent :
  forall (T : Type) (O : Ops T) (h : list (Args (T:=T))) (a : Args) buf0 fresh,
  wf a -> call O a (run_history O h buf0) = call O a fresh.
Proof. exact @history_independent. Qed.
Print Assumptions C11_history_independent.

Theorem C11_call_Fq_args_unchanged :
  forall (V : Type) (pars : pdict V), fst (call_Fq_entry V pars) = pars.
Proof. exact call_Fq_args_unchanged. Qed.
Print Assumptions C11_call_Fq_args_unchanged.

(* the entry point before the repair removed a key from the caller's dictionary *)
Theorem C11_call_Fq_old_refuted :
  forall (V : Type) (v : V), exists pars, fst (call_Fq_entry_old V pars) <> pars.
Proof. exact call_Fq_old_refuted. Qed.
Print Assumptions C11_call_Fq_old_refuted.
