From Coq Require Import List Arith Bool String Lia.
Import ListNotations.
From SM Require Import Base.Num Base.Mesh Base.Sums C01.Model C01.Proofs C11.Model.

Section P.
  Context {T : Type} (O : Ops T).

  Lemma call_independent (a : Args (T:=T)) buf buf' : wf a -> call O a buf = call O a buf'.
  Proof.
    intros [Hpos Hcov]. unfold call. apply map_ext. intros c.
    rewrite !loop_chunk_independent by auto. reflexivity.
  Qed.

  (* the result of a call after ANY history equals the result of the same call
     on a fresh object, for every number type (so bit-for-bit in binary64) *)
  Theorem history_independent (h : list (Args (T:=T))) (a : Args) buf0 fresh :
    wf a -> call O a (run_history O h buf0) = call O a fresh.
  Proof. intros. apply call_independent; auto. Qed.
End P.

Section D.
  Variable V : Type.
  Lemma call_Fq_args_unchanged (pars : pdict V) : fst (call_Fq_entry V pars) = pars.
  Proof. unfold call_Fq_entry. destruct (pop V pars "radius_effective_mode"). reflexivity. Qed.

  Lemma call_Fq_old_refuted (v : V) :
    exists pars, fst (call_Fq_entry_old V pars) <> pars.
  Proof.
    exists [("radius_effective_mode"%string, v)]. unfold call_Fq_entry_old. simpl. discriminate.
  Qed.
End D.
