(* C11/Model.v — a kernel object as a state machine.
   The only state a compiled kernel keeps between calls is its result buffer
   (one slot per accumulated component).  A call runs C01's restartable loop on
   WHATEVER the buffer holds; a history is a sequence of calls with arbitrary
   arguments on the same object.  The caller's parameter dictionary is modelled
   as an association list that entry points may only read or copy. *)
From Coq Require Import List Arith Bool String.
Import ListNotations.
From SM Require Import Base.Num Base.Mesh Base.Sums C01.Model.

Section Kernel.
  Context {T : Type} (O : Ops T).

  Record Args := MkArgs {
    a_cutoff : T;
    a_ks : list nat; a_ns : list nat;           (* loop table *)
    a_wt : nat -> nat -> T;                      (* weights *)
    a_leaf : env -> Leaf (T:=T);                 (* model + parameter values + q *)
    a_parts : list (nat * nat);                  (* kernel invocations made by the driver *)
    a_ncomp : nat
  }.

  Definition buffer := list T.

  (* DllKernel._call_kernel: every component slot is updated by the loop *)
  Definition call (a : Args) (buf : buffer) : buffer :=
    map (fun c => loop_component O (a_cutoff a) (a_ks a) (a_ns a) (a_wt a) (a_leaf a) c (a_parts a)
                                 (nth c buf (zero O)))
        (seq 0 (a_ncomp a)).

  Definition run_history (h : list Args) (buf : buffer) : buffer := fold_left (fun b a => call a b) h buf.

  (* the driver always starts at 0 and covers the whole mesh *)
  Definition wf (a : Args) : Prop :=
    Forall (fun n => 0 < n) (a_ns a) /\ covers 0 (prod (a_ns a)) (a_parts a).
End Kernel.

(* ---- caller-visible dictionaries ---- *)
Section Dict.
  Variable V : Type.
  Definition pdict := list (string * V).
  Fixpoint pop (d : pdict) (k : string) : pdict * option V :=
    match d with
    | [] => ([], None)
    | (k', v) :: r => if String.eqb k' k then (r, Some v)
                      else let (r', o) := pop r k in ((k', v) :: r', o)
    end.
  (* direct_model.call_Fq after the C11 repair: work on a copy.
     Returns (what the caller's dictionary holds afterwards, mode read) *)
  Definition call_Fq_entry (pars : pdict) : pdict * option V :=
    let copy := pars in
    let (_, mode) := pop copy "radius_effective_mode" in
    (pars, mode).
  (* before the repair: pop on the caller's own dictionary *)
  Definition call_Fq_entry_old (pars : pdict) : pdict * option V := pop pars "radius_effective_mode".
End Dict.
