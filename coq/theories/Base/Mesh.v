(* Base/Mesh.v — the restartable nested loop of kernel_iq.c as an odometer.
   Generic in the accumulator type: nothing here needs arithmetic on T, so the
   results hold for IEEE binary64 accumulators exactly as for reals.
   Slot 0 is the innermost loop (stride 1), as in details.make_details. *)
From Coq Require Import List Arith Lia PeanoNat.
Import ListNotations.

Fixpoint prod (ns : list nat) : nat :=
  match ns with [] => 1 | n :: r => n * prod r end.

(* i_k = (s / stride_k) mod n_k, stride_k = n_0*...*n_{k-1}   (PD_INIT) *)
Fixpoint decode (ns : list nat) (s : nat) : list nat :=
  match ns with
  | [] => []
  | n :: r => (s mod n) :: decode r (s / n)
  end.

(* ++i_k; if (i_k == n_k) { i_k = 0; carry to the next loop }   (PD_CLOSE)
   None = the outermost loop ran off its end. *)
Fixpoint incr (ns idx : list nat) : option (list nat) :=
  match ns, idx with
  | n :: r, i :: ir =>
      if S i <? n then Some (S i :: ir)
      else match incr r ir with
           | Some ir' => Some (0 :: ir')
           | None => None
           end
  | _, _ => None
  end.

Section Loop.
  Variable St : Type.
  Variable body : list nat -> St -> St.

  (* The C control flow: run the body, ++step, leave every loop when
     step >= pd_stop, else advance the odometer; fuel bounds the recursion and
     is always chosen >= the number of iterations. *)
  Fixpoint cloop (fuel : nat) (ns idx : list nat) (step stop : nat) (st : St) : St :=
    match fuel with
    | 0 => st
    | S f =>
        let st' := body idx st in
        let step' := S step in
        if stop <=? step' then st'
        else match incr ns idx with
             | Some idx' => cloop f ns idx' step' stop st'
             | None => st'
             end
    end.

  (* one kernel invocation: <model>_Iq(pd_start, pd_stop) on a given state.
     [reset] is the zeroing performed when pd_start == 0. *)
  Variable reset : St -> St.
  Definition invoke (ns : list nat) (start stop : nat) (st : St) : St :=
    let st0 := if start =? 0 then reset st else st in
    cloop (stop - start) ns (decode ns start) start stop st0.

  Definition run_chunks (ns : list nat) (parts : list (nat * nat)) (st : St) : St :=
    fold_left (fun s p => invoke ns (fst p) (snd p) s) parts st.

  (* the specification of a run: visit steps a, a+1, ..., b-1 in order *)
  Definition steps (ns : list nat) (a k : nat) (st : St) : St :=
    fold_left (fun s t => body (decode ns t) s) (seq a k) st.
End Loop.

(* kerneldll: for start in range(0, num_eval, step) *)
Fixpoint chunks_from (fuel start total size : nat) : list (nat * nat) :=
  match fuel with
  | 0 => []
  | S f => if total <=? start then []
           else (start, Nat.min (start + size) total) :: chunks_from f (start + size) total size
  end.
Definition chunks (total size : nat) : list (nat * nat) := chunks_from total 0 total size.

(* ---------------------------------------------------------------- proofs *)

Lemma prod_pos ns : Forall (fun n => 0 < n) ns -> 0 < prod ns.
Proof. induction 1; simpl; nia. Qed.

Lemma decode_length ns s : length (decode ns s) = length ns.
Proof. revert s; induction ns; simpl; intros; auto. Qed.

Lemma incr_decode ns : Forall (fun n => 0 < n) ns -> forall s,
  S s < prod ns -> incr ns (decode ns s) = Some (decode ns (S s)).
Proof.
  induction 1 as [|n r Hn Hr IH]; intros s Hs.
  - simpl in Hs. lia.
  - cbn [decode incr prod] in *.
    destruct (Nat.ltb_spec (S (s mod n)) n) as [Hlt|Hge].
    + (* no carry *)
      assert (Hm : S s mod n = S (s mod n)).
      { symmetry. apply (Nat.mod_unique (S s) n (s / n)); [lia|].
        pose proof (Nat.div_mod s n ltac:(lia)). lia. }
      assert (Hd : S s / n = s / n).
      { symmetry. apply (Nat.div_unique (S s) n (s / n) (S (s mod n))); [lia|].
        pose proof (Nat.div_mod s n ltac:(lia)). lia. }
      rewrite Hm, Hd. reflexivity.
    + (* carry *)
      pose proof (Nat.mod_upper_bound s n ltac:(lia)) as Hub.
      assert (Hsm : s mod n = n - 1) by lia.
      pose proof (Nat.div_mod s n ltac:(lia)) as Hdm.
      assert (Hm : S s mod n = 0).
      { symmetry. apply (Nat.mod_unique (S s) n (S (s / n))); [lia|]. nia. }
      assert (Hd : S s / n = S (s / n)).
      { symmetry. apply (Nat.div_unique (S s) n (S (s / n)) 0); [lia|]. nia. }
      rewrite Hm, Hd.
      assert (Hlt' : S (s / n) < prod r).
      { destruct (Nat.lt_ge_cases (S (s / n)) (prod r)) as [|Hc]; auto. exfalso. nia. }
      rewrite (IH _ Hlt'). reflexivity.
Qed.

Section LoopFacts.
  Variable St : Type.
  Variable body : list nat -> St -> St.
  Variable reset : St -> St.

  Lemma steps_app ns a k1 k2 st :
    steps St body ns a (k1 + k2) st = steps St body ns (a + k1) k2 (steps St body ns a k1 st).
  Proof. unfold steps. rewrite seq_app, fold_left_app. reflexivity. Qed.

  (* the C control flow visits exactly steps start..stop-1 (at least one) *)
  Lemma cloop_steps ns : Forall (fun n => 0 < n) ns -> forall k start st,
    0 < k -> start + k <= prod ns ->
    cloop St body k ns (decode ns start) start (start + k) st = steps St body ns start k st.
  Proof.
    intros Hns. induction k as [|k IH]; intros start st Hk Hb; [lia|].
    cbn [cloop]. destruct (Nat.leb_spec (start + S k) (S start)) as [Hle|Hgt].
    - assert (k = 0) by lia. subst k. reflexivity.
    - rewrite incr_decode by (auto; lia).
      replace (start + S k) with (S start + k) by lia.
      rewrite IH by lia. unfold steps. cbn [seq fold_left]. reflexivity.
  Qed.

  Lemma invoke_steps ns start stop st : Forall (fun n => 0 < n) ns ->
    start < stop -> stop <= prod ns ->
    invoke St body reset ns start stop st =
    steps St body ns start (stop - start) (if start =? 0 then reset st else st).
  Proof.
    intros Hns Hlt Hle. unfold invoke.
    replace stop with (start + (stop - start)) at 2 by lia.
    apply cloop_steps; auto; lia.
  Qed.

  (* consecutive, non-empty parts covering [a, b) *)
  Inductive covers : nat -> nat -> list (nat * nat) -> Prop :=
  | cov_nil a : covers a a []
  | cov_cons a m b parts : a < m -> covers m b parts -> covers a b ((a, m) :: parts).

  Lemma covers_le a b parts : covers a b parts -> a <= b.
  Proof. induction 1; lia. Qed.

  Lemma run_chunks_from ns : Forall (fun n => 0 < n) ns -> forall parts a b st,
    covers a b parts -> 0 < a -> b <= prod ns ->
    run_chunks St body reset ns parts st = steps St body ns a (b - a) st.
  Proof.
    intros Hns. induction parts as [|[s e] parts IH]; intros a b st Hc Ha Hb.
    - inversion Hc; subst. rewrite Nat.sub_diag. reflexivity.
    - inversion Hc as [|a' m' b' parts' Hlt Hcov]; subst.
      pose proof (covers_le _ _ _ Hcov).
      unfold run_chunks in *. cbn [fold_left fst snd].
      rewrite (IH e b) by (auto; lia).
      rewrite invoke_steps by (auto; lia).
      destruct (Nat.eqb_spec s 0); [lia|].
      replace (b - s) with ((e - s) + (b - e)) by lia.
      rewrite steps_app. replace (s + (e - s)) with e by lia. reflexivity.
  Qed.

  (* Chunk independence: any consecutive partition of [0,N) gives the result
     of the single sweep, and the previous content of the state is irrelevant
     beyond what [reset] keeps. *)
  Theorem run_chunks_independent ns parts st : Forall (fun n => 0 < n) ns ->
    covers 0 (prod ns) parts ->
    run_chunks St body reset ns parts st = steps St body ns 0 (prod ns) (reset st).
  Proof.
    intros Hns Hc. pose proof (prod_pos _ Hns) as Hp.
    inversion Hc as [|a' m b' parts0 Hlt Hcov]; subst; [lia|].
    unfold run_chunks. cbn [fold_left fst snd].
    pose proof (covers_le _ _ _ Hcov).
    rewrite invoke_steps by (auto; lia). cbn [Nat.eqb].
    pose proof (run_chunks_from ns Hns parts0 m (prod ns)) as Hr.
    unfold run_chunks in Hr. rewrite Hr by (auto; lia).
    rewrite (steps_app ns 0 (m - 0) (prod ns - m)) at 1 || idtac.
    replace (steps St body ns 0 (prod ns) (reset st))
      with (steps St body ns 0 ((m - 0) + (prod ns - m)) (reset st))
      by (f_equal; lia).
    rewrite steps_app. replace (0 + (m - 0)) with m by lia. reflexivity.
  Qed.
End LoopFacts.

(* the 100-step driver of kerneldll produces a covering partition *)
Lemma chunks_from_covers size : 0 < size -> forall fuel start total,
  total - start <= fuel -> start <= total ->
  covers start total (chunks_from fuel start total size).
Proof.
  intros Hs. induction fuel as [|f IH]; intros start total Hf Hle.
  - assert (start = total) by lia. subst. constructor.
  - cbn [chunks_from]. destruct (Nat.leb_spec total start).
    + assert (start = total) by lia. subst. constructor.
    + constructor; [lia|].
      destruct (Nat.le_ge_cases (start + size) total).
      * rewrite Nat.min_l by lia. apply IH; lia.
      * rewrite Nat.min_r by lia.
        replace (chunks_from f (start + size) total size) with (@nil (nat*nat)).
        { constructor. }
        destruct f; cbn [chunks_from]; auto.
        destruct (Nat.leb_spec total (start + size)); auto; lia.
Qed.

Lemma chunks_cover total size : 0 < size -> covers 0 total (chunks total size).
Proof. intros. apply chunks_from_covers; lia. Qed.
