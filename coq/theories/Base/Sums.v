(* Base/Sums.v — finite sums over a commutative monoid, nested sums keyed by
   parameter number, and their invariance under reordering of the loops
   (finite Fubini).  Axiom-free. *)
From Coq Require Import List Arith Lia PeanoNat Permutation.
Import ListNotations.
From SM Require Import Base.Mesh.

Section Sums.
  Variable M : Type.
  Variable mzero : M.
  Variable madd : M -> M -> M.
  Hypothesis madd_comm : forall a b, madd a b = madd b a.
  Hypothesis madd_assoc : forall a b c, madd a (madd b c) = madd (madd a b) c.
  Hypothesis madd_0_l : forall a, madd mzero a = a.

  Lemma madd_0_r a : madd a mzero = a.
  Proof. rewrite madd_comm. apply madd_0_l. Qed.

  Fixpoint bsum (n : nat) (f : nat -> M) : M :=
    match n with 0 => mzero | S k => madd (bsum k f) (f k) end.

  Lemma bsum_ext n f g : (forall i, i < n -> f i = g i) -> bsum n f = bsum n g.
  Proof. induction n; simpl; intros H; auto. rewrite IHn, H by auto. reflexivity. Qed.

  Lemma bsum_zero n : bsum n (fun _ => mzero) = mzero.
  Proof. induction n; simpl; auto. rewrite IHn. apply madd_0_l. Qed.

  Lemma bsum_add n f g : bsum n (fun i => madd (f i) (g i)) = madd (bsum n f) (bsum n g).
  Proof.
    induction n; simpl. { symmetry; apply madd_0_l. }
    rewrite IHn.
    rewrite <- (madd_assoc (bsum n f) (bsum n g)).
    rewrite <- (madd_assoc (bsum n f) (f n)). f_equal.
    rewrite (madd_assoc (bsum n g)), (madd_comm (bsum n g) (f n)), <- madd_assoc.
    reflexivity.
  Qed.

  Lemma bsum_swap n m (f : nat -> nat -> M) :
    bsum n (fun i => bsum m (fun j => f i j)) = bsum m (fun j => bsum n (fun i => f i j)).
  Proof.
    induction n; simpl. { symmetry; apply bsum_zero. }
    rewrite IHn. symmetry. apply bsum_add.
  Qed.

  (* the accumulating loop is the sum *)
  Lemma fold_seq_bsum (h : nat -> M) n acc :
    fold_left (fun a t => madd a (h t)) (seq 0 n) acc = madd acc (bsum n h).
  Proof.
    induction n. { simpl. symmetry; apply madd_0_r. }
    rewrite seq_S, fold_left_app, IHn. simpl. symmetry; apply madd_assoc.
  Qed.

  Lemma bsum_shift n m h : bsum (n + m) h = madd (bsum n h) (bsum m (fun j => h (n + j))).
  Proof.
    induction m. { rewrite Nat.add_0_r. simpl. symmetry; apply madd_0_r. }
    rewrite Nat.add_succ_r. simpl. rewrite IHm. symmetry; apply madd_assoc.
  Qed.

  (* a flat index over n*m splits into m blocks of n *)
  Lemma bsum_mul n m h :
    bsum (n * m) h = bsum m (fun j => bsum n (fun i => h (i + n * j))).
  Proof.
    induction m. { rewrite Nat.mul_0_r. reflexivity. }
    replace (n * S m) with (n * m + n) by lia. rewrite bsum_shift, IHm. simpl.
    f_equal. apply bsum_ext. intros. f_equal. lia.
  Qed.

  (* ---- sum over the index box in slot order (slot 0 innermost) ---- *)
  Fixpoint boxsum (ns : list nat) (g : list nat -> M) : M :=
    match ns with
    | [] => g []
    | n :: r => boxsum r (fun ir => bsum n (fun i => g (i :: ir)))
    end.

  Lemma boxsum_ext ns g g' : (forall idx, g idx = g' idx) -> boxsum ns g = boxsum ns g'.
  Proof.
    revert g g'. induction ns; simpl; intros; auto.
    apply IHns. intros. apply bsum_ext. auto.
  Qed.

  Lemma flat_is_box ns : Forall (fun n => 0 < n) ns -> forall g,
    bsum (prod ns) (fun s => g (decode ns s)) = boxsum ns g.
  Proof.
    induction 1 as [|n r Hn Hr IH]; intros g.
    - simpl. apply madd_0_l.
    - cbn [prod decode boxsum]. rewrite bsum_mul.
      rewrite <- (IH (fun ir => bsum n (fun i => g (i :: ir)))).
      apply bsum_ext. intros j Hj. apply bsum_ext. intros i Hi.
      assert (Hm : (i + n * j) mod n = i).
      { symmetry. apply (Nat.mod_unique _ n j); lia. }
      assert (Hd : (i + n * j) / n = j).
      { symmetry. apply (Nat.div_unique _ n j i); lia. }
      rewrite Hm, Hd. reflexivity.
  Qed.

  (* ---- keyed nested sums ---- *)
  Definition env := nat -> nat.
  Definition upd (e : env) (k v : nat) : env := fun x => if x =? k then v else e x.
  Definition fext (f : env -> M) := forall e e', (forall x, e x = e' x) -> f e = f e'.

  (* first dimension outermost: the sum as the property writes it *)
  Fixpoint nsum (dims : list (nat * nat)) (f : env -> M) (e : env) : M :=
    match dims with
    | [] => f e
    | (k, n) :: ds => bsum n (fun i => nsum ds f (upd e k i))
    end.

  (* first dimension innermost: the order in which the C loops nest *)
  Fixpoint nsumI (dims : list (nat * nat)) (f : env -> M) (e : env) : M :=
    match dims with
    | [] => f e
    | (k, n) :: ds => nsumI ds (fun e' => bsum n (fun i => f (upd e' k i))) e
    end.

  Lemma nsum_env_ext dims f : fext f -> forall e e', (forall x, e x = e' x) ->
    nsum dims f e = nsum dims f e'.
  Proof.
    intros Hf. induction dims as [|[k n] ds IH]; simpl; intros e e' H; auto.
    apply bsum_ext. intros. apply IH. intros x. unfold upd. destruct (x =? k); auto.
  Qed.

  Lemma nsumI_snoc ds k n : forall f e,
    nsumI (ds ++ [(k, n)]) f e = bsum n (fun j => nsumI ds f (upd e k j)).
  Proof.
    induction ds as [|[k' n'] ds IH]; intros f e; simpl; auto.
  Qed.

  Lemma nsumI_rev dims f e : nsumI (rev dims) f e = nsum dims f e.
  Proof.
    revert e. induction dims as [|[k n] ds IH]; intros e; simpl; auto.
    rewrite nsumI_snoc. apply bsum_ext. intros. apply IH.
  Qed.

  Lemma upd_comm e k1 k2 i j x : k1 <> k2 ->
    upd (upd e k1 i) k2 j x = upd (upd e k2 j) k1 i x.
  Proof.
    unfold upd. intros. destruct (Nat.eqb_spec x k2), (Nat.eqb_spec x k1); auto. lia.
  Qed.

  Theorem nsum_perm dims dims' f : Permutation dims dims' -> NoDup (map fst dims) ->
    fext f -> forall e, nsum dims f e = nsum dims' f e.
  Proof.
    intros Hp. induction Hp as [| [k n] l l' Hp IH | [k1 n1] [k2 n2] l | l l' l'' H1 IH1 H2 IH2];
      intros Hnd Hf e.
    - reflexivity.
    - simpl in *. inversion Hnd; subst. apply bsum_ext. intros. apply IH; auto.
    - simpl in *. inversion Hnd as [|? ? Hnotin Hnd']; subst.
      assert (k2 <> k1) by (intros ->; apply Hnotin; left; reflexivity).
      rewrite bsum_swap. apply bsum_ext; intros i Hi. apply bsum_ext; intros j Hj.
      apply nsum_env_ext; auto. intros x. apply upd_comm; auto.
    - rewrite IH1 by auto. apply IH2; auto.
      eapply Permutation_NoDup; [apply Permutation_map; exact H1 | exact Hnd].
  Qed.

  Lemma nsum_one k ds f e : fext f -> e k = 0 -> nsum ((k, 1) :: ds) f e = nsum ds f e.
  Proof.
    intros Hf Hk. simpl. rewrite madd_0_l. apply nsum_env_ext; auto.
    intros x. unfold upd. destruct (Nat.eqb_spec x k); subst; auto.
  Qed.

  (* length-one dimensions whose index is already 0 can be dropped *)
  Lemma nsum_drop_trivial triv ds f e : fext f ->
    Forall (fun d => snd d = 1 /\ e (fst d) = 0) triv ->
    nsum (triv ++ ds) f e = nsum ds f e.
  Proof.
    intros Hf. induction 1 as [|[k n] t [Hn Hk] Ht IH]; simpl in *; auto.
    subst n. simpl. rewrite madd_0_l. rewrite <- IH.
    apply nsum_env_ext; auto. intros x. unfold upd. destruct (Nat.eqb_spec x k); subst; auto.
  Qed.

  (* ---- binding slot indices to parameters ---- *)
  Fixpoint bind (ks idx : list nat) (e : env) : env :=
    match ks, idx with
    | k :: ks', i :: idx' => upd (bind ks' idx' e) k i
    | _, _ => e
    end.

  Lemma box_is_nsumI ks : forall ns f e, length ks = length ns ->
    boxsum ns (fun idx => f (bind ks idx e)) = nsumI (combine ks ns) f e.
  Proof.
    induction ks as [|k ks IH]; intros [|n ns] f e Hlen; simpl in *; try lia; auto.
    rewrite <- (IH ns (fun e' => bsum n (fun i => f (upd e' k i))) e) by lia.
    reflexivity.
  Qed.

  (* The loop nest over the slots equals the sum over the full parameter mesh
     in table order [dims], provided the slots carry every non-trivial
     dimension. *)
  Theorem box_is_mesh_sum ks ns triv dims f e :
    length ks = length ns -> Forall (fun n => 0 < n) ns ->
    NoDup (map fst dims) -> Permutation dims (triv ++ rev (combine ks ns)) ->
    Forall (fun d => snd d = 1 /\ e (fst d) = 0) triv -> fext f ->
    bsum (prod ns) (fun s => f (bind ks (decode ns s) e)) = nsum dims f e.
  Proof.
    intros Hlen Hpos Hnd Hperm Htriv Hf.
    rewrite (flat_is_box ns Hpos (fun idx => f (bind ks idx e))).
    rewrite box_is_nsumI by auto.
    rewrite <- (rev_involutive (combine ks ns)) at 1. rewrite nsumI_rev.
    rewrite (nsum_perm _ _ f Hperm Hnd Hf e).
    symmetry. apply nsum_drop_trivial; auto.
  Qed.
End Sums.
