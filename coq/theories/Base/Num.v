(* Base/Num.v — number carriers.
   One record of operations; every numerical model is a function of an [Ops T].
   It is instantiated at R (theorems) and at PrimFloat binary64 (execution by
   vm_compute for the correspondence checks).  No proofs about rounding. *)
From Coq Require Import Reals List Bool PrimFloat.
Import ListNotations.

Record Ops (T : Type) := MkOps {
  zero : T; one : T;
  add : T -> T -> T; sub : T -> T -> T; mul : T -> T -> T; div : T -> T -> T;
  opp : T -> T; absv : T -> T;
  ltb : T -> T -> bool; leb : T -> T -> bool; eqb : T -> T -> bool
}.
Arguments zero {T}. Arguments one {T}. Arguments add {T}. Arguments sub {T}.
Arguments mul {T}. Arguments div {T}. Arguments opp {T}. Arguments absv {T}.
Arguments ltb {T}. Arguments leb {T}. Arguments eqb {T}.

(* ---- binary64 ---- *)
Definition FOps : Ops float := {|
  zero := 0%float; one := 1%float;
  add := PrimFloat.add; sub := PrimFloat.sub; mul := PrimFloat.mul; div := PrimFloat.div;
  opp := PrimFloat.opp; absv := PrimFloat.abs;
  ltb := PrimFloat.ltb; leb := PrimFloat.leb; eqb := PrimFloat.eqb |}.

(* ---- reals ---- *)
Definition Rltb (x y : R) : bool := if Rlt_dec x y then true else false.
Definition Rleb (x y : R) : bool := if Rle_dec x y then true else false.
Definition Reqb (x y : R) : bool := if Req_EM_T x y then true else false.
Definition ROps : Ops R := {|
  zero := 0%R; one := 1%R;
  add := Rplus; sub := Rminus; mul := Rmult; div := Rdiv;
  opp := Ropp; absv := Rabs;
  ltb := Rltb; leb := Rleb; eqb := Reqb |}.

Lemma Rltb_true x y : Rltb x y = true <-> (x < y)%R.
Proof. unfold Rltb; destruct (Rlt_dec x y); split; intros; auto; try discriminate; contradiction. Qed.
Lemma Rltb_false x y : Rltb x y = false <-> (y <= x)%R.
Proof. unfold Rltb; destruct (Rlt_dec x y); split; intros; auto; try discriminate.
  - exfalso; apply (Rlt_irrefl x); eapply Rlt_le_trans; eauto.
  - apply Rnot_lt_le; auto. Qed.
Lemma Rleb_true x y : Rleb x y = true <-> (x <= y)%R.
Proof. unfold Rleb; destruct (Rle_dec x y); split; intros; auto; try discriminate; contradiction. Qed.
Lemma Reqb_true x y : Reqb x y = true <-> x = y.
Proof. unfold Reqb; destruct (Req_EM_T x y); split; intros; auto; try discriminate; contradiction. Qed.

(* ---- float comparison helpers used by the case files ---- *)
Definition fmax (a b : float) : float := if PrimFloat.ltb a b then b else a.
(* |x-y| <= rel*scale + abs_tol ; NaN on either side fails unless both NaN *)
Definition is_nanb (x : float) : bool := negb (PrimFloat.eqb x x).
Definition closeb (rel abs_tol scale x y : float) : bool :=
  if is_nanb x then is_nanb y else
  if PrimFloat.eqb x y then true else
  PrimFloat.leb (PrimFloat.abs (PrimFloat.sub x y))
                (PrimFloat.add (PrimFloat.mul rel scale) abs_tol).
Fixpoint all_close (rel abs_tol : float) (sc xs ys : list float) : bool :=
  match sc, xs, ys with
  | [], [], [] => true
  | s :: sc', x :: xs', y :: ys' => closeb rel abs_tol s x y && all_close rel abs_tol sc' xs' ys'
  | _, _, _ => false
  end.

(* indices of [false] entries *)
Fixpoint failing_from (i : nat) (l : list bool) : list nat :=
  match l with [] => [] | b :: r => if b then failing_from (S i) r else i :: failing_from (S i) r end.
Definition failing (l : list bool) : list nat := failing_from 0 l.
