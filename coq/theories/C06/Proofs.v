From Coq Require Import List Bool Reals Lra Lia.
Import ListNotations.
From SM Require Import Base.Num C06.Model.
Open Scope R_scope.

Notation v3R := (v3 (T:=R)).

(* ---- the polarisation frame is orthonormal ---- *)
Lemma frame_orthonormal ct st cp sp : ct * ct + st * st = 1 -> cp * cp + sp * sp = 1 ->
  let P := Pvec ROps ct st cp sp in let e1 := perpy ROps ct st cp sp in let e2 := perpz ROps ct st cp sp in
  dot ROps P P = 1 /\ dot ROps e1 e1 = 1 /\ dot ROps e2 e2 = 1 /\
  dot ROps P e1 = 0 /\ dot ROps P e2 = 0 /\ dot ROps e1 e2 = 0.
Proof.
  intros Ht Hp. unfold Pvec, perpy, perpz, dot. cbn [add mul sub opp zero ROps x1 x2 x3].
  split; [|split; [|split; [|split; [|split]]]].
  - replace (st * cp * (st * cp) + st * sp * (st * sp) + ct * ct) with (st * st * (cp * cp + sp * sp) + ct * ct) by ring.
    rewrite Hp. lra.
  - replace (- sp * - sp + cp * cp + 0 * 0) with (cp * cp + sp * sp) by ring. exact Hp.
  - replace (- ct * cp * (- ct * cp) + - ct * sp * (- ct * sp) + st * st) with (ct * ct * (cp * cp + sp * sp) + st * st) by ring.
    rewrite Hp. lra.
  - ring.
  - replace (st * cp * (- ct * cp) + st * sp * (- ct * sp) + ct * st) with (ct * st * (1 - (cp * cp + sp * sp))) by ring.
    rewrite Hp. ring.
  - ring.
Qed.

(* ---- the Halpern-Johnson vector is perpendicular to q and drops exactly the parallel part ---- *)
Lemma orth_vec_perp (M q : v3R) : dot ROps q q <> 0 -> dot ROps (orth_vec ROps M q) q = 0.
Proof.
  intros H. destruct M as [a1 a2 a3], q as [b1 b2 b3]. unfold orth_vec, dot in *. cbn [add mul sub div ROps x1 x2 x3] in *. field. exact H.
Qed.

Lemma orth_vec_unit (M q : v3R) : dot ROps q q = 1 ->
  orth_vec ROps M q = V (x1 M - dot ROps M q * x1 q) (x2 M - dot ROps M q * x2 q) (x3 M - dot ROps M q * x3 q).
Proof.
  intros H. unfold orth_vec. rewrite H. cbn [div sub mul ROps]. unfold Rdiv. rewrite Rinv_1. f_equal; ring.
Qed.

(* ---- the channel weights ---- *)
Definition clipR (x : R) : R := clip ROps x 0 1.
Lemma clip_range x : 0 <= clipR x <= 1.
Proof.
  unfold clipR, clip. cbn [ltb ROps].
  destruct (Rltb x 0) eqn:E1; [lra|]. apply Rltb_false in E1.
  destruct (Rltb 1 x) eqn:E2; [lra|]. apply Rltb_false in E2. lra.
Qed.

Theorem spin_weights_formula i f :
  let ic := clipR i in let fc := clipR f in
  let n := Rmax fc (1 - fc) in
  spin_weights ROps (1/2) i f =
  [ (1 - ic) * (1 - fc) / n; (1 - ic) * fc / n; ic * (1 - fc) / n; ic * fc / n; (1 - ic) * fc / n; ic * (1 - fc) / n ].
Proof.
  intros ic fc n. unfold spin_weights.
  cbn [ltb sub mul div one zero ROps].
  change (clip ROps i 0 1) with ic. change (clip ROps f 0 1) with fc.
  assert (Hn : (if Rltb fc (1/2) then 1 - fc else fc) = n).
  { unfold n. destruct (Rltb fc (1/2)) eqn:E.
    - apply Rltb_true in E. rewrite Rmax_right; lra.
    - apply Rltb_false in E. rewrite Rmax_left; lra. }
  rewrite Hn. reflexivity.
Qed.

(* ---- the loop is the weighted sum of the cross sections ---- *)
Section Channels.
  Variable I : list R -> R.
  Variables qx qy ct st cp sp : R.
  Variable slds : list (R * v3R).
  Let eff xs := map (fun sm => mag_sld ROps sqrt xs qx qy ct st cp sp (fst sm) (snd sm)) slds.

  (* every weight is either exactly zero or above the 1e-8 threshold *)
  Definition clean (w : list R) : Prop := forall xs, (xs < 6)%nat -> nth xs w 0 = 0 \/ 1e-8 < nth xs w 0.

  Theorem magnetic_F2_sum w : 1e-16 < qx * qx + qy * qy -> clean w ->
    magnetic_F2 ROps sqrt 1e-8 1e-16 I w qx qy ct st cp sp slds =
    nth 0 w 0 * I (eff 0%nat) + nth 1 w 0 * I (eff 1%nat) + nth 2 w 0 * I (eff 2%nat) +
    nth 3 w 0 * I (eff 3%nat) + nth 4 w 0 * I (eff 4%nat) + nth 5 w 0 * I (eff 5%nat).
  Proof.
    intros Hq Hc. unfold magnetic_F2. cbn [ltb add mul zero ROps].
    replace (Rltb 1e-16 (qx * qx + qy * qy)) with true by (symmetry; apply Rltb_true; exact Hq).
    cbn [fold_left].
    assert (Hstep : forall acc xs, (xs < 6)%nat ->
              (if Rltb 1e-8 (nth xs w 0) then acc + nth xs w 0 * I (eff xs) else acc) = acc + nth xs w 0 * I (eff xs)).
    { intros acc xs Hx. destruct (Hc xs Hx) as [H0|Hgt].
      - rewrite H0. destruct (Rltb 1e-8 0); ring.
      - replace (Rltb 1e-8 (nth xs w 0)) with true by (symmetry; apply Rltb_true; exact Hgt). reflexivity. }
    fold (eff 0%nat) (eff 1%nat) (eff 2%nat) (eff 3%nat) (eff 4%nat) (eff 5%nat).
    rewrite !Hstep by lia. ring.
  Qed.

  (* with the spin weights of the instrument and a scattering function that is
     even under reversing the sign of every SLD, this is the property's form *)
  Hypothesis I_even : forall l, I (map Ropp l) = I l.

  Lemma eff4_neg5 : eff 4%nat = map Ropp (eff 5%nat).
  Proof. unfold eff. rewrite map_map. apply map_ext. intros [s M]. unfold mag_sld. reflexivity. Qed.

  Theorem magnetic_F2_property i f :
    1e-16 < qx * qx + qy * qy -> clean (spin_weights ROps (1/2) i f) ->
    let w := spin_weights ROps (1/2) i f in
    magnetic_F2 ROps sqrt 1e-8 1e-16 I w qx qy ct st cp sp slds =
    nth 0 w 0 * I (eff 0%nat) + nth 3 w 0 * I (eff 3%nat) +
    (nth 1 w 0 + nth 2 w 0) * (I (eff 1%nat) + I (eff 5%nat)).
  Proof.
    intros Hq Hc w. rewrite magnetic_F2_sum by auto. fold w.
    assert (H4 : nth 4 w 0 = nth 1 w 0) by reflexivity.
    assert (H5 : nth 5 w 0 = nth 2 w 0) by reflexivity.
    assert (E12 : eff 2%nat = eff 1%nat) by reflexivity.
    rewrite H4, H5, E12, eff4_neg5, I_even. ring.
  Qed.
End Channels.

Lemma is_magnetic_false (l : list R) : is_magnetic ROps l = false <-> Forall (fun m => m = 0) l.
Proof.
  unfold is_magnetic. induction l as [|m l IH]; simpl.
  - split; auto.
  - cbn [eqb ROps]. destruct (Reqb m 0) eqn:E; simpl.
    + apply Reqb_true in E. rewrite IH. split; intros H; [constructor; auto | inversion H; auto].
    + split; [discriminate|]. intros H; inversion H; subst.
      assert (Reqb 0 0 = true) by (apply Reqb_true; auto). congruence.
Qed.
