(* C06/Model.v — polarised magnetic scattering in kernel_iq.c:
   set_spin_weights, mag_sld (Halpern-Johnson projection, polarisation frame)
   and the per-q loop over the six cross-section terms with the 1e-8 weight
   threshold and the q=0 guard; details.convert_magnetism. *)
From Coq Require Import List Bool.
Import ListNotations.
From SM Require Import Base.Num.

Section Model.
  Context {T : Type} (O : Ops T).
  Variable sqrtT : T -> T.
  Notation "x + y" := (add O x y).
  Notation "x * y" := (mul O x y).
  Notation "x - y" := (sub O x y).
  Notation "x / y" := (div O x y).
  Notation "- x" := (opp O x).

  Definition clip (x lo hi : T) : T := if ltb O x lo then lo else if ltb O hi x then hi else x.

  (* weights: dd, du(real), ud(real), uu, du(imag), ud(imag) *)
  Variable half : T.
  Definition spin_weights (in_spin out_spin : T) : list T :=
    let i := clip in_spin (zero O) (one O) in
    let f := clip out_spin (zero O) (one O) in
    let norm := if ltb O f half then one O - f else f in
    let dd := (one O - i) * (one O - f) / norm in
    let du := (one O - i) * f / norm in
    let ud := i * (one O - f) / norm in
    let uu := i * f / norm in
    [dd; du; ud; uu; du; ud].

  Record v3 := V { x1 : T; x2 : T; x3 : T }.
  Definition dot (a b : v3) : T := x1 a * x1 b + x2 a * x2 b + x3 a * x3 b.
  (* ORTH_VEC: a - b (a.b)/(b.b) *)
  Definition orth_vec (a b : v3) : v3 :=
    let s := dot a b / dot b b in V (x1 a - s * x1 b) (x2 a - s * x2 b) (x3 a - s * x3 b).

  (* polarisation frame from cos/sin of up_theta, up_phi *)
  Definition Pvec (ct st cp sp : T) : v3 := V (st * cp) (st * sp) ct.
  Definition perpy (ct st cp sp : T) : v3 := V (- sp) cp (zero O).
  Definition perpz (ct st cp sp : T) : v3 := V (- ct * cp) (- ct * sp) st.

  Definition mag_sld (xs : nat) (qx qy ct st cp sp sld : T) (M : v3) : T :=
    let qn := sqrtT (qx * qx + qy * qy) in
    let qv := V (qx / qn) (qy / qn) (zero O) in
    let Mp := orth_vec M qv in
    match xs with
    | 0 => sld - dot (Pvec ct st cp sp) Mp
    | 1 => dot (perpy ct st cp sp) Mp
    | 2 => dot (perpy ct st cp sp) Mp
    | 3 => sld + dot (Pvec ct st cp sp) Mp
    | 4 => - dot (perpz ct st cp sp) Mp
    | _ => dot (perpz ct st cp sp) Mp
    end.

  (* the magnetic branch of the per-q loop.  [I] is the model's own scattering
     as a function of its SLDs (everything else fixed); [slds] pairs each
     nuclear SLD with its magnetisation vector (mx,my,mz). *)
  Variable eps8 eps16 : T.      (* 1e-8 and 1e-16 *)
  Definition magnetic_F2 (I : list T -> T) (w : list T) (qx qy ct st cp sp : T) (slds : list (T * v3)) : T :=
    if ltb O eps16 (qx * qx + qy * qy) then
      fold_left (fun acc xs =>
                   let wx := nth xs w (zero O) in
                   if ltb O eps8 wx
                   then acc + wx * I (map (fun sm => mag_sld xs qx qy ct st cp sp (fst sm) (snd sm)) slds)
                   else acc)
                [0; 1; 2; 3; 4; 5] (zero O)
    else zero O.

  (* details.convert_magnetism: (M0, sin/cos mtheta, sin/cos mphi) -> (mx,my,mz) *)
  Definition mag_to_xyz (M0 ct st cp sp : T) : v3 := V (M0 * st * cp) (M0 * st * sp) (M0 * ct).
  Definition is_magnetic (M0s : list T) : bool := existsb (fun m => negb (eqb O m (zero O))) M0s.
End Model.
