(* C06/Translated.v — set_spin_weights and mag_sld as regenerated from the text of kernel_iq.c (with the
   vector helpers and clip of kernel_header.c inlined; Gen/C06_code.v) are the model's, over the reals, for
   all arguments and all six cross-section indices (and beyond). *)
From Coq Require Import List Reals Arith Lra.
Import ListNotations.
From SM Require Import Base.Num C06.Model C06.Proofs Gen.C06_code.
Open Scope R_scope.

Ltac unfold_c06 := unfold code_spin_weights, code_mag_sld, spin_weights, mag_sld, clip, orth_vec, dot, Pvec, perpy, perpz;
  cbn [add mul sub div opp zero one ltb ROps x1 x2 x3].

Theorem code_spin_weights_is_model i f :
  code_spin_weights ROps (1/2) i f = spin_weights ROps (1/2) i f.
Proof.
  unfold_c06.
  destruct (Rltb i 0); destruct (Rltb 1 i); destruct (Rltb f 0); destruct (Rltb 1 f);
    repeat match goal with |- context [if ?b then _ else _] => destruct b end;
    repeat (f_equal; try reflexivity; try ring).
Qed.

Theorem code_mag_sld_is_model xs qx qy ct st cp sp sld mx my mz :
  code_mag_sld ROps sqrt xs qx qy ct st cp sp sld mx my mz =
  mag_sld ROps sqrt xs qx qy ct st cp sp sld (V mx my mz).
Proof.
  unfold_c06.
  set (qn := sqrt (qx * qx + qy * qy)).
  destruct xs as [|[|[|[|[|[|xs]]]]]]; cbn [Nat.ltb Nat.leb Nat.eqb]; try reflexivity; try ring.
Qed.

(* the documented channel weights, stated on the translated code *)
Theorem code_spin_weights_formula i f :
  let ic := clipR i in let fc := clipR f in let n := Rmax fc (1 - fc) in
  code_spin_weights ROps (1/2) i f =
  [ (1 - ic) * (1 - fc) / n; (1 - ic) * fc / n; ic * (1 - fc) / n; ic * fc / n; (1 - ic) * fc / n; ic * (1 - fc) / n ].
Proof. intros. rewrite code_spin_weights_is_model. apply spin_weights_formula. Qed.
