(* C06/Property.v — the property theorems and nothing else. *)
From Coq Require Import List Reals.
Import ListNotations.
From SM Require Import Base.Num C06.Model C06.Proofs Gen.C06_code C06.Translated.
Open Scope R_scope.

(* channel weights: (1-i)(1-f), (1-i)f, i(1-f), i f over max(f,1-f), for up-fractions clipped to [0,1] *)
Theorem C06_weights : forall i f,
  let ic := clipR i in let fc := clipR f in let n := Rmax fc (1 - fc) in
  spin_weights ROps (1/2) i f =
  [ (1 - ic) * (1 - fc) / n; (1 - ic) * fc / n; ic * (1 - fc) / n; ic * fc / n; (1 - ic) * fc / n; ic * (1 - fc) / n ].
Proof. exact spin_weights_formula. Qed.
Print Assumptions C06_weights.

(* P, e1, e2 form an orthonormal frame for every polarisation direction *)
Theorem C06_frame : forall ct st cp sp, ct * ct + st * st = 1 -> cp * cp + sp * sp = 1 ->
  let P := Pvec ROps ct st cp sp in let e1 := perpy ROps ct st cp sp in let e2 := perpz ROps ct st cp sp in
  dot ROps P P = 1 /\ dot ROps e1 e1 = 1 /\ dot ROps e2 e2 = 1 /\
  dot ROps P e1 = 0 /\ dot ROps P e2 = 0 /\ dot ROps e1 e2 = 0.
Proof. exact frame_orthonormal. Qed.
Print Assumptions C06_frame.

(* Mperp = M - qhat (qhat.M) is perpendicular to q *)
Theorem C06_mperp : forall (M q : v3 (T:=R)), dot ROps q q = 1 ->
  orth_vec ROps M q = V (x1 M - dot ROps M q * x1 q) (x2 M - dot ROps M q * x2 q) (x3 M - dot ROps M q * x3 q)
  /\ dot ROps (orth_vec ROps M q) q = 0.
Proof. intros M q H. split; [apply orth_vec_unit; auto | apply orth_vec_perp; rewrite H; apply R1_neq_R0]. Qed.
Print Assumptions C06_mperp.

(* the per-q loop is the weighted sum of the six cross-section terms, for every
   scattering function I of the SLDs, any number of magnetic SLDs ... *)
Theorem C06_channel_sum : forall (I : list R -> R) qx qy ct st cp sp (slds : list (R * v3 (T:=R))) w,
  1e-16 < qx * qx + qy * qy -> clean w ->
  let eff xs := map (fun sm => mag_sld ROps sqrt xs qx qy ct st cp sp (fst sm) (snd sm)) slds in
  magnetic_F2 ROps sqrt 1e-8 1e-16 I w qx qy ct st cp sp slds =
  nth 0 w 0 * I (eff 0%nat) + nth 1 w 0 * I (eff 1%nat) + nth 2 w 0 * I (eff 2%nat) +
  nth 3 w 0 * I (eff 3%nat) + nth 4 w 0 * I (eff 4%nat) + nth 5 w 0 * I (eff 5%nat).
Proof. exact magnetic_F2_sum. Qed.
Print Assumptions C06_channel_sum.

(* ... and, for I even under reversal of all SLDs, it is
   w_dd I(rho - P.Mperp) + w_uu I(rho + P.Mperp) + (w_du + w_ud) [I(e1.Mperp) + I(e2.Mperp)] *)
Theorem C06_property_form : forall (I : list R -> R) qx qy ct st cp sp (slds : list (R * v3 (T:=R))),
  (forall l, I (map Ropp l) = I l) -> forall i f,
  1e-16 < qx * qx + qy * qy -> clean (spin_weights ROps (1/2) i f) ->
  let w := spin_weights ROps (1/2) i f in
  let eff xs := map (fun sm => mag_sld ROps sqrt xs qx qy ct st cp sp (fst sm) (snd sm)) slds in
  magnetic_F2 ROps sqrt 1e-8 1e-16 I w qx qy ct st cp sp slds =
  nth 0 w 0 * I (eff 0%nat) + nth 3 w 0 * I (eff 3%nat) +
  (nth 1 w 0 + nth 2 w 0) * (I (eff 1%nat) + I (eff 5%nat)).
Proof. intros. apply magnetic_F2_property; auto. Qed.
Print Assumptions C06_property_form.

(* the non-magnetic kernel is selected exactly when every magnitude is zero *)
Theorem C06_zero_M : forall l : list R, is_magnetic ROps l = false <-> Forall (fun m => m = 0) l.
Proof. exact is_magnetic_false. Qed.
Print Assumptions C06_zero_M.

(* ---- the same statements about the TEXT of kernel_iq.c / kernel_header.c ----
   Gen/C06_code.v is regenerated on every run from the current sources by harness/ctrans.py (set_spin_weights and
   mag_sld, with SET_VEC / SCALAR_VEC / ORTH_VEC / clip inlined); these theorems are re-proved against it. *)
Theorem C06_code_weights : forall i f,
  let ic := clipR i in let fc := clipR f in let n := Rmax fc (1 - fc) in
  code_spin_weights ROps (1/2) i f =
  [ (1 - ic) * (1 - fc) / n; (1 - ic) * fc / n; ic * (1 - fc) / n; ic * fc / n; (1 - ic) * fc / n; ic * (1 - fc) / n ].
Proof. exact code_spin_weights_formula. Qed.
Print Assumptions C06_code_weights.

Theorem C06_code_is_model : forall xs i f qx qy ct st cp sp sld mx my mz,
  code_spin_weights ROps (1/2) i f = spin_weights ROps (1/2) i f /\
  code_mag_sld ROps sqrt xs qx qy ct st cp sp sld mx my mz = mag_sld ROps sqrt xs qx qy ct st cp sp sld (V mx my mz).
Proof. intros. split; [apply code_spin_weights_is_model | apply code_mag_sld_is_model]. Qed.
Print Assumptions C06_code_is_model.
