(* C06/Exec.v — binary64 evaluation of the magnetic loop for an SLD-probe model *)
From Coq Require Import List PrimFloat Bool.
Import ListNotations.
From SM Require Import Base.Num C06.Model.

(* the probe's scattering function of its three SLDs (same expression as its C source) *)
Definition probe (q dlin : float) (s : list float) : float :=
  let s1 := nth 0 s 0%float in let s2 := nth 1 s 0%float in let s3 := nth 2 s 0%float in
  let d13 := PrimFloat.sub s1 s3 in let d23 := PrimFloat.sub s2 s3 in
  PrimFloat.add (PrimFloat.add (PrimFloat.add
     (PrimFloat.mul (PrimFloat.mul (PrimFloat.add 1%float q) d13) d13)
     (PrimFloat.mul (PrimFloat.mul 2%float d23) d13))
     (PrimFloat.mul (PrimFloat.mul 0x1p-1%float s2) s2))
     (PrimFloat.mul dlin s1).

Record Case := MkCase {
  g_in : float; g_out : float;
  g_up : float * float * float * float;         (* cos,sin up_theta ; cos,sin up_phi *)
  g_slds : list (float * (float * float * float * float * float));  (* sld, (M0, cos mtheta, sin mtheta, cos mphi, sin mphi) *)
  g_dlin : float; g_qx : float; g_qy : float;
  g_scale : float; g_expect : float
}.

Definition model (c : Case) : float :=
  let '(ct, st, cp, sp) := g_up c in
  let w := spin_weights FOps 0x1p-1%float (g_in c) (g_out c) in
  let slds := map (fun '(s, (m0, a, b, cph, sph)) => (s, mag_to_xyz FOps m0 a b cph sph)) (g_slds c) in
  let q := PrimFloat.sqrt (PrimFloat.add (PrimFloat.mul (g_qx c) (g_qx c)) (PrimFloat.mul (g_qy c) (g_qy c))) in
  magnetic_F2 FOps PrimFloat.sqrt 0x1.5798ee2308c3ap-27%float 0x1.cd2b297d889bcp-54%float (probe q (g_dlin c)) w (g_qx c) (g_qy c) ct st cp sp slds.

Definition check_cases (rel : float) (l : list Case) : list nat :=
  failing (map (fun c => closeb rel 0x1p-1000%float (g_scale c) (model c) (g_expect c)) l).
