(* C13/Model.v — the dimension calculus: unit labels to length exponents. *)
From Coq Require Import String List ZArith Bool.
Import ListNotations.
Open Scope string_scope.

Inductive dim := Length (e : Z) | Sld | Angle | Dimensionless | Other.

Definition unit_dim (u : string) : dim :=
  if String.eqb u "Ang" then Length 1 else
  if String.eqb u "Ang^2" then Length 2 else
  if String.eqb u "Ang^3" then Length 3 else
  if String.eqb u "1/Ang" then Length (-1) else
  if String.eqb u "1/Ang^2" then Length (-2) else
  if String.eqb u "1/Ang^3" then Length (-3) else
  if String.eqb u "1e-6/Ang^2" then Sld else
  if String.eqb u "degrees" || String.eqb u "degree" then Angle else
  if String.eqb u "" || String.eqb u "None" || String.eqb u "none" then Dimensionless else Other.

Definition recognised (d : dim) : bool := match d with Other => false | _ => true end.

(* a model is inside the property's quantifier when every unit is recognised *)
Definition in_scope (units : list string) : bool := forallb (fun u => recognised (unit_dim u)) units.
