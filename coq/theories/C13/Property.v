(* C13/Property.v — the property theorems and nothing else. *)
From Coq Require Import String List Reals Bool.
Import ListNotations.
From SM Require Import C13.Model C13.Proofs Gen.C13_units.

(* if the leaves are homogeneous of the declared degrees, every averaged output
   scales as the property says, for every mesh *)
Theorem C13_average_homogeneous : forall lam scale (l : list pt), lam <> 0%R -> sVs l <> 0%R -> sW l <> 0%R ->
  (scale * sF (map (rescale lam) l) / sVs (map (rescale lam) l) = lam ^ 3 * (scale * sF l / sVs l) /\
   sR (map (rescale lam) l) / sW (map (rescale lam) l) = lam * (sR l / sW l) /\
   sVf (map (rescale lam) l) / sW (map (rescale lam) l) = lam ^ 3 * (sVf l / sW l) /\
   sVs (map (rescale lam) l) / sW (map (rescale lam) l) = lam ^ 3 * (sVs l / sW l))%R.
Proof. exact average_homogeneous. Qed.
Print Assumptions C13_average_homogeneous.

Theorem C13_sld_quadratic : forall mu scale (l : list pt), sVs l <> 0%R ->
  (scale * sF (map (rescale_sld mu) l) / sVs (map (rescale_sld mu) l) = mu ^ 2 * (scale * sF l / sVs l))%R.
Proof. exact sld_quadratic. Qed.
Print Assumptions C13_sld_quadratic.

(* over the regenerated unit tables: the classification of every shape model is
   decided (in scope or excluded), i.e. every unit string is either recognised or
   puts the model outside the quantifier; the number of models in scope is positive *)
Theorem C13_units_classified :
  forallb (fun mu => in_scope (snd mu) || negb (in_scope (snd mu))) shape_units
  && (0 <? length (filter (fun mu => in_scope (snd mu)) shape_units))%nat = true.
Proof. vm_compute. reflexivity. Qed.
Print Assumptions C13_units_classified.
