From Coq Require Import List Reals Lra.
Import ListNotations.
Open Scope R_scope.

(* a mesh point after scaling: (weight, F^2, V_form, V_shell, R_eff) *)
Definition pt := (R * R * R * R * R)%type.
Fixpoint sF (l : list pt) : R := match l with [] => 0 | (w, f, _, _, _) :: r => w * f + sF r end.
Fixpoint sVs (l : list pt) : R := match l with [] => 0 | (w, _, _, vs, _) :: r => w * vs + sVs r end.
Fixpoint sVf (l : list pt) : R := match l with [] => 0 | (w, _, vf, _, _) :: r => w * vf + sVf r end.
Fixpoint sR (l : list pt) : R := match l with [] => 0 | (w, _, _, _, re) :: r => w * re + sR r end.
Fixpoint sW (l : list pt) : R := match l with [] => 0 | (w, _, _, _, _) :: r => w + sW r end.

(* the same mesh with every length multiplied by lam: the leaves are homogeneous
   (F^2 of degree 6, volumes 3, R_eff 1) and the weights do not change
   (relative-width distributions scale with their centre) *)
Definition rescale (lam : R) (p : pt) : pt :=
  let '(w, f, vf, vs, re) := p in (w, lam ^ 6 * f, lam ^ 3 * vf, lam ^ 3 * vs, lam * re).

Lemma sums_rescale lam l :
  sF (map (rescale lam) l) = lam ^ 6 * sF l /\ sVs (map (rescale lam) l) = lam ^ 3 * sVs l /\
  sVf (map (rescale lam) l) = lam ^ 3 * sVf l /\ sR (map (rescale lam) l) = lam * sR l /\ sW (map (rescale lam) l) = sW l.
Proof.
  induction l as [|[[[[w f] vf] vs] re] l IH]; simpl.
  - repeat split; ring.
  - destruct IH as [H1 [H2 [H3 [H4 H5]]]]. rewrite H1, H2, H3, H4, H5. repeat split; ring.
Qed.

(* I - background = scale * sum(w F^2)/sum(w V_shell) scales as lam^3;
   <R_eff> scales as lam, <V> as lam^3 *)
Theorem average_homogeneous lam scale l : lam <> 0 -> sVs l <> 0 -> sW l <> 0 ->
  scale * sF (map (rescale lam) l) / sVs (map (rescale lam) l) = lam ^ 3 * (scale * sF l / sVs l) /\
  sR (map (rescale lam) l) / sW (map (rescale lam) l) = lam * (sR l / sW l) /\
  sVf (map (rescale lam) l) / sW (map (rescale lam) l) = lam ^ 3 * (sVf l / sW l) /\
  sVs (map (rescale lam) l) / sW (map (rescale lam) l) = lam ^ 3 * (sVs l / sW l).
Proof.
  intros Hl Hv Hw. destruct (sums_rescale lam l) as [H1 [H2 [H3 [H4 H5]]]].
  rewrite H1, H2, H3, H4, H5. repeat split; field; auto.
Qed.

(* multiplying every SLD by mu multiplies F^2 by mu^2 at every mesh point *)
Definition rescale_sld (mu : R) (p : pt) : pt := let '(w, f, vf, vs, re) := p in (w, mu ^ 2 * f, vf, vs, re).
Lemma sums_rescale_sld mu l :
  sF (map (rescale_sld mu) l) = mu ^ 2 * sF l /\ sVs (map (rescale_sld mu) l) = sVs l.
Proof.
  induction l as [|[[[[w f] vf] vs] re] l IH]; simpl; [split; ring|].
  destruct IH as [H1 H2]. rewrite H1, H2. split; ring.
Qed.

Theorem sld_quadratic mu scale l : sVs l <> 0 ->
  scale * sF (map (rescale_sld mu) l) / sVs (map (rescale_sld mu) l) = mu ^ 2 * (scale * sF l / sVs l).
Proof.
  intros Hv. destruct (sums_rescale_sld mu l) as [H1 H2]. rewrite H1, H2. field. auto.
Qed.
