From Coq Require Import List PrimFloat Bool.
Import ListNotations.
From SM Require Import Base.Num C02.Model.

Definition sqrt3f : float := PrimFloat.sqrt 3%float.
Definition tinyf : float := 0x1.5798ee2308c3ap-27%float.   (* 1e-8 *)

Definition dist_of (k : nat) : dist :=
  match k with 0 => Gaussian | 1 => Uniform | 2 => Rectangle | 3 => Lognormal | 4 => Schulz | _ => Boltzmann end.

(* pass A: the value grids *)
Definition values_f (k : nat) (relative : bool) (center width nsig : float) (npts : nat) (lb ub : float) : list float :=
  values FOps sqrt3f tinyf (dist_of k) relative center width nsig npts lb ub.

(* pass B: arguments of exp and the divisor, given the leaves the harness computed from pass A *)
Definition args_f (k : nat) (relative : bool) (center0 width : float) (x lnx lnR : list float) (lnc lnz lgz : float)
  : list float * list float :=
  let '(center, sigma) := resolve FOps relative width center0 in
  match dist_of k with
  | Gaussian => (map (gaussian_arg FOps center sigma) x, map (fun _ => 1%float) x)
  | Boltzmann => (map (boltzmann_arg FOps center sigma) x, map (fun _ => 1%float) x)
  | Lognormal => let sig := lognormal_sig FOps center sigma in
                 (map (fun l => lognormal_arg FOps 0x1p-1%float l lnc sig) lnx, map (fun xi => PrimFloat.mul xi sig) x)
  | Schulz => let z := schulz_z FOps center sigma in
              (map (fun '(xi, lR) => schulz_arg FOps z lnz lR (PrimFloat.div xi center) lnc lgz) (combine x lnR), map (fun _ => 1%float) x)
  | _ => (map (fun _ => 0%float) x, map (fun _ => 1%float) x)
  end.
