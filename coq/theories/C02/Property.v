(* C02/Property.v — the property theorems and nothing else. *)
From Coq Require Import List Reals Sorted Lra.
Import ListNotations.
From SM Require Import Base.Num C02.Model C02.Proofs C02.Density Gen.C02_bodies C02.Translated C03.Model C03.Proofs.
Open Scope R_scope.

(* values are strictly increasing for every distribution type, centre, width > 0,
   n-sigma > 0, point count >= 2 and limits *)
Theorem C02_increasing : forall d center sigma nsig npts lb ub, 0 < sigma -> 0 < nsig -> (2 <= npts)%nat ->
  StronglySorted Rlt (grid ROps (sqrt 3) 1e-8 d center sigma nsig npts lb ub).
Proof. exact grid_sorted. Qed.
Print Assumptions C02_increasing.

(* ... lie inside the hard limits (lognormal/Schulz: inside the limits raised to 1e-8) ... *)
Theorem C02_in_limits : forall d center sigma nsig npts lb ub x,
  In x (grid ROps (sqrt 3) 1e-8 d center sigma nsig npts lb ub) ->
  lb <= x <= ub \/ (1e-8 <= x /\ (d = Lognormal \/ d = Schulz)).
Proof. exact grid_in_limits. Qed.
Print Assumptions C02_in_limits.

(* ... and inside the distribution's own support *)
Theorem C02_support_positive : forall d center sigma nsig npts lb ub x, (d = Lognormal \/ d = Schulz) ->
  In x (grid ROps (sqrt 3) 1e-8 d center sigma nsig npts lb ub) -> 0 < x.
Proof. exact grid_support. Qed.
Print Assumptions C02_support_positive.
Theorem C02_support_rectangle : forall center sigma nsig npts lb ub x,
  In x (grid ROps (sqrt 3) 1e-8 Rectangle center sigma nsig npts lb ub) -> Rabs (x - center) <= Rabs sigma * sqrt 3.
Proof. exact rectangle_support. Qed.
Print Assumptions C02_support_rectangle.
Theorem C02_support_uniform : forall center sigma npts lb ub x, 0 < sigma -> (2 <= npts)%nat ->
  In x (grid ROps (sqrt 3) 1e-8 Uniform center sigma 0 npts lb ub) -> center - sigma <= x <= center + sigma.
Proof. exact uniform_support. Qed.
Print Assumptions C02_support_uniform.

(* weights after normalisation: non-negative, unit sum *)
Theorem C02_normalised : forall l, Forall (fun x => 0 <= x) l -> 0 < sumL ROps l ->
  Forall (fun x => 0 <= x) (map (fun x => x / sumL ROps l) l) /\ sumL ROps (map (fun x => x / sumL ROps l) l) = 1.
Proof. intros l H Hp. split; [apply normalised_nonneg; auto | apply normalised_sum1; lra]. Qed.
Print Assumptions C02_normalised.

(* the formulas in the code are the documented densities *)
Theorem C02_gaussian : forall c s x, s <> 0 ->
  exp (gaussian_arg ROps c s x) = exp (- (1/2) * ((x - c) / s) * ((x - c) / s)).
Proof. exact gaussian_density. Qed.
Print Assumptions C02_gaussian.
Theorem C02_lognormal_median_centre : forall c s x, 0 < x -> 0 < s ->
  exp (lognormal_arg ROps (1/2) (ln x) (ln c) s) / (x * s) = sqrt (2 * PI) * lognormal_pdf c s x.
Proof. exact lognormal_density. Qed.
Print Assumptions C02_lognormal_median_centre.
Theorem C02_schulz : forall z R c lgz, 0 < z -> 0 < R -> 0 < c ->
  exp (schulz_arg ROps z (ln z) (ln R) R (ln c) lgz) = Rpower z z * Rpower R (z - 1) * exp (- (R * z)) / (c * exp lgz).
Proof. exact schulz_density. Qed.
Print Assumptions C02_schulz.
Theorem C02_schulz_width : forall c sigma, 0 < c -> sigma <> 0 -> c / sqrt (schulz_z ROps c sigma) = Rabs sigma.
Proof. exact schulz_width. Qed.
Print Assumptions C02_schulz_width.

(* zero width or fewer than two points: the single central value; width relative / absolute *)
Theorem C02_degenerate : forall d relative center width nsig npts lb ub,
  (snd (resolve ROps relative width center) = 0 \/ (npts < 2)%nat) ->
  let c := fst (resolve ROps relative width center) in
  lb <= c <= ub -> values ROps (sqrt 3) 1e-8 d relative center width nsig npts lb ub = [c].
Proof. exact degenerate. Qed.
Print Assumptions C02_degenerate.
Theorem C02_width_convention : forall width center,
  resolve ROps true width center = (center, width * center) /\ resolve ROps false width center = (0, width).
Proof. intros; split; reflexivity. Qed.
Print Assumptions C02_width_convention.

(* The tie by regeneration: Gen/C02_bodies.v holds the grid constructions, masks and density formulas of the six
   _weights methods as they are written in the current weights.py (translated term by term on every run).
   They are the model's grids and formulas - so every theorem above speaks about the text of the code. *)
Theorem C02_code_grids : forall d c s nsig npts lb ub,
  gen_grid d c s nsig npts lb ub = grid ROps (sqrt 3) 1e-8 d c s nsig npts lb ub.
Proof. exact code_grid_is_model. Qed.
Print Assumptions C02_code_grids.
Theorem C02_code_formulas : forall (lgam : R -> R) d x c s lb ub, s <> 0 -> c <> 0 ->
  gen_px lgam d x c s lb ub = model_px lgam d c s x.
Proof. exact code_px_is_model. Qed.
Print Assumptions C02_code_formulas.

(* ... and so are the centre / width resolution, the degenerate case and the grid-with-limits helper of the base
   class (Dispersion.get_weights, Dispersion._linspace), translated from the same file: the whole value grid that
   get_weights returns, assembled from translated pieces only, is the model's [values]. *)
Theorem C02_code_values : forall d relative center0 width nsig npts lb ub,
  (let '(c, s) := gen_resolve relative width center0 in
   if gen_degenerate s npts then fst (gen_degenerate_result c lb ub) else gen_grid d c s nsig npts lb ub) =
  values ROps (sqrt 3) 1e-8 d relative center0 width nsig npts lb ub.
Proof. exact code_values_is_model. Qed.
Print Assumptions C02_code_values.
Theorem C02_code_linspace : forall c s nsig npts lb ub, gen_lin c s nsig npts lb ub = lin ROps c s nsig npts lb ub.
Proof. exact code_lin_is_model. Qed.
Print Assumptions C02_code_linspace.

(* what every calculator receives is normalised: the module-level get_weights of the current weights.py returns
   w / sum(w) (Gen/C02_public.v: the return expression evaluated symbolically), so the weights it hands out are
   non-negative and sum to one whenever the raw densities are non-negative with a positive sum *)
From SM Require Import Gen.C02_public.
Theorem C02_code_returned_weights : public_translated = true -> forall w,
  code_returned_weights w = map (fun x => x / sumL ROps w) w.
Proof.
  intros Ht. try solve [vm_compute in Ht; discriminate Ht].
  all: intros w; unfold code_returned_weights; cbv zeta; rewrite map_id; reflexivity.
Qed.
Print Assumptions C02_code_returned_weights.
Theorem C02_code_normalised : public_translated = true -> forall w, Forall (fun x => 0 <= x) w -> 0 < sumL ROps w ->
  Forall (fun x => 0 <= x) (code_returned_weights w) /\ sumL ROps (code_returned_weights w) = 1.
Proof. intros Ht w H Hp. rewrite (C02_code_returned_weights Ht w). exact (C02_normalised w H Hp). Qed.
Print Assumptions C02_code_normalised.
