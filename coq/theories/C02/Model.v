(* C02/Model.v — weights.py: value grids and the arguments of the density
   formulas, exactly as written in the six _weights methods.  exp, log and
   lgamma are leaves applied by the harness. *)
From Coq Require Import List Bool Arith.
Import ListNotations.
From SM Require Import Base.Num.

Section Model.
  Context {T : Type} (O : Ops T).
  Variable sqrt3 : T.            (* sqrt(3.0) *)
  Variable tiny : T.             (* 1e-8 *)
  Notation "x + y" := (add O x y).
  Notation "x * y" := (mul O x y).
  Notation "x - y" := (sub O x y).
  Notation "x / y" := (div O x y).
  Notation "- x" := (opp O x).

  Definition ofnat (n : nat) : T := fold_left (fun a _ => a + one O) (seq 0 n) (zero O).

  (* numpy.linspace(a, b, n): a + i*step, the last point forced to b *)
  Definition linspace (a b : T) (n : nat) : list T :=
    match n with
    | 0 => []
    | 1 => [a]
    | _ => let step := (b - a) / ofnat (n - 1) in
           map (fun i => if i =? n - 1 then b else a + ofnat i * step) (seq 0 n)
    end.

  Definition inlimits (lb ub : T) (l : list T) : list T :=
    filter (fun x => leb O lb x && leb O x ub) l.
  Definition maxT (a b : T) : T := if ltb O a b then b else a.

  (* Dispersion.get_weights: width relative to the centre for size parameters,
     absolute and centred on zero for angles *)
  Definition resolve (relative : bool) (width center : T) : T * T :=     (* (center', sigma) *)
    ((if relative then center else zero O), (if relative then width * center else width)).

  Inductive dist := Gaussian | Uniform | Rectangle | Lognormal | Schulz | Boltzmann.

  (* Dispersion._linspace *)
  Definition lin (center sigma nsig : T) (npts : nat) (lb ub : T) : list T :=
    inlimits lb ub (map (fun d => center + d) (linspace (- nsig * sigma) (nsig * sigma) npts)).

  Definition grid (d : dist) (center sigma nsig : T) (npts : nat) (lb ub : T) : list T :=
    match d with
    | Gaussian | Boltzmann => lin center sigma nsig npts lb ub
    | Uniform => inlimits lb ub (linspace (center - sigma) (center + sigma) npts)
    | Rectangle => filter (fun x => leb O (absv O (x - center)) (absv O sigma * sqrt3)) (lin center sigma nsig npts lb ub)
    | Lognormal | Schulz => lin center sigma nsig npts (maxT lb tiny) (maxT ub tiny)
    end.

  (* the whole of get_weights up to the density: degenerate case first *)
  Definition values (d : dist) (relative : bool) (center0 width nsig : T) (npts : nat) (lb ub : T) : list T :=
    let '(center, sigma) := resolve relative width center0 in
    if eqb O sigma (zero O) || (npts <? 2) then (if leb O lb center && leb O center ub then [center] else [])
    else grid d center sigma nsig npts lb ub.

  (* ---- arguments of exp, as written in the code ---- *)
  Definition two : T := one O + one O.
  Definition gaussian_arg (center sigma x : T) : T := (x - center) * (x - center) / (- two * sigma * sigma).
  Definition boltzmann_arg (center sigma x : T) : T := - absv O (x - center) / absv O sigma.
  (* lognormal: exp(-0.5*((ln x - ln c)/sig)^2)/(x*sig), sig = |sigma/center| *)
  Variable halfT : T.
  Definition lognormal_sig (center sigma : T) : T := absv O (sigma / center).
  Definition lognormal_arg (lnx lnc sig : T) : T := - halfT * (((lnx - lnc) / sig) * ((lnx - lnc) / sig)).
  (* schulz: z ln z + (z-1) ln R - R z - ln c - lgamma z,  R = x/c, z = (c/sigma)^2 *)
  Definition schulz_z (center sigma : T) : T := (center / sigma) * (center / sigma).
  Definition schulz_arg (z lnz lnR R lnc lgz : T) : T := z * lnz + (z - one O) * lnR - R * z - lnc - lgz.
End Model.
