(* C02/Translated.v — the formulas regenerated from weights.py (Gen/C02_bodies.v) are the model's. *)
From Coq Require Import Reals List Bool Lra.
Import ListNotations.
From SM Require Import Base.Num C02.Model C02.Density Gen.C02_bodies.
Open Scope R_scope.

Section T.
  Variable lgam : R -> R.

  Definition gen_px (d : dist) (x c s lb ub : R) : R :=
    match d with
    | Gaussian => gen_px_gaussian x c s lb ub
    | Uniform => gen_px_uniform x c s lb ub
    | Rectangle => gen_px_rectangle x c s lb ub
    | Lognormal => gen_px_lognormal x c s lb ub
    | Schulz => gen_px_schulz lgam x c s lb ub
    | Boltzmann => gen_px_boltzmann x c s lb ub
    end.
  Definition gen_grid (d : dist) (c s nsig : R) (npts : nat) (lb ub : R) : list R :=
    match d with
    | Gaussian => gen_grid_gaussian c s nsig npts lb ub
    | Uniform => gen_grid_uniform c s nsig npts lb ub
    | Rectangle => gen_grid_rectangle c s nsig npts lb ub
    | Lognormal => gen_grid_lognormal c s nsig npts lb ub
    | Schulz => gen_grid_schulz c s nsig npts lb ub
    | Boltzmann => gen_grid_boltzmann c s nsig npts lb ub
    end.

  Lemma maxT_Rmax a b : maxT ROps a b = Rmax a b.
  Proof.
    unfold maxT, Rmax. cbn [ltb ROps]. destruct (Rltb a b) eqn:E.
    - apply Rltb_true in E. destruct (Rle_dec a b); [reflexivity|lra].
    - apply Rltb_false in E. destruct (Rle_dec a b); [lra|reflexivity].
  Qed.
  Lemma tiny_eq : 1e-8 = 1 / 100000000.
  Proof. lra. Qed.

  (* density formulas: the text of weights.py equals the model's formula wherever the latter is defined *)
  Theorem code_px_is_model d x c s lb ub : s <> 0 -> c <> 0 ->
    gen_px d x c s lb ub = model_px lgam d c s x.
  Proof.
    intros Hs Hc.
    assert (Hsc : Rabs (s / c) <> 0) by (apply Rabs_no_R0; unfold Rdiv; apply Rmult_integral_contrapositive_currified; [exact Hs|apply Rinv_neq_0_compat; exact Hc]).
    destruct d; unfold gen_px, model_px,
      gen_px_gaussian, gen_px_uniform, gen_px_rectangle, gen_px_lognormal, gen_px_schulz, gen_px_boltzmann,
      gaussian_arg, boltzmann_arg, lognormal_arg, lognormal_sig, schulz_arg, schulz_z, two;
      cbn [add sub mul div opp one absv ROps]; try reflexivity.
    (* what is left differs from the model only by how a square or a product is written *)
    all: try (replace ((c / s) ^ 2) with (c / s * (c / s)) by ring).
    all: try reflexivity.
    all: repeat (f_equal; try reflexivity).
    all: try (field; assumption).
    all: try ring.
  Qed.

  (* grids and masks *)
  Theorem code_grid_is_model d c s nsig npts lb ub :
    gen_grid d c s nsig npts lb ub = grid ROps (sqrt 3) 1e-8 d c s nsig npts lb ub.
  Proof.
    destruct d; unfold gen_grid, grid,
      gen_grid_gaussian, gen_grid_uniform, gen_grid_rectangle, gen_grid_lognormal, gen_grid_schulz, gen_grid_boltzmann, inlimits;
      cbn [add sub mul div opp one absv leb ROps]; rewrite ?maxT_Rmax, ?tiny_eq; reflexivity.
  Qed.

  (* Dispersion.get_weights: width convention and degenerate case; Dispersion._linspace *)
  Theorem code_resolve_is_model relative width center :
    gen_resolve relative width center = resolve ROps relative width center.
  Proof. destruct relative; reflexivity. Qed.
  Theorem code_lin_is_model c s nsig npts lb ub : gen_lin c s nsig npts lb ub = lin ROps c s nsig npts lb ub.
  Proof.
    unfold gen_lin, lin, inlimits. cbn [add sub mul opp leb ROps].
    replace ((- nsig) * s) with (- nsig * s) by ring. reflexivity.
  Qed.
  (* the whole value grid of get_weights, assembled from the translated pieces, is the model's [values] *)
  Theorem code_values_is_model d relative center0 width nsig npts lb ub :
    (let '(c, s) := gen_resolve relative width center0 in
     if gen_degenerate s npts then fst (gen_degenerate_result c lb ub) else gen_grid d c s nsig npts lb ub) =
    values ROps (sqrt 3) 1e-8 d relative center0 width nsig npts lb ub.
  Proof.
    unfold values. rewrite code_resolve_is_model. destruct (resolve ROps relative width center0) as [c s].
    unfold gen_degenerate, gen_degenerate_result. cbn [eqb leb zero ROps].
    destruct (Reqb s 0 || (npts <? 2)%nat).
    - destruct (Rleb lb c && Rleb c ub); reflexivity.
    - apply code_grid_is_model.
  Qed.
End T.
