From Coq Require Import List Bool Arith Reals Lra Lia Sorted.
Import ListNotations.
From SM Require Import Base.Num C02.Model C03.Model C03.Proofs.
Open Scope R_scope.

Lemma ofnat_INR n : ofnat ROps n = INR n.
Proof.
  unfold ofnat. cbn [add one zero ROps].
  assert (H : forall l a, fold_left (fun x (_ : nat) => x + 1) l a = a + INR (length l)).
  { induction l as [|y l IH]; intros a; simpl length; [simpl; ring|]. simpl fold_left. rewrite IH, S_INR. ring. }
  rewrite H, seq_length. ring.
Qed.

Lemma nth_map_lt {A B} (f : A -> B) l j d d' : (j < length l)%nat -> nth j (map f l) d = f (nth j l d').
Proof. revert j; induction l as [|a l IH]; intros [|j] H; simpl in *; try lia; auto. apply IH; lia. Qed.

(* ---- linspace is strictly increasing and ends exactly at b ---- *)
Lemma linspace_nth a b n i : (2 <= n)%nat -> (i < n)%nat ->
  nth i (linspace ROps a b n) 0 = if (i =? n - 1)%nat then b else a + INR i * ((b - a) / INR (n - 1)).
Proof.
  intros Hn Hi. unfold linspace. destruct n as [|[|n]]; try lia.
  rewrite (nth_map_lt _ _ _ _ 0%nat) by (rewrite seq_length; lia).
  rewrite seq_nth by lia. cbn [add mul sub div ROps]. rewrite !ofnat_INR. reflexivity.
Qed.

Lemma linspace_length a b n : length (linspace ROps a b n) = n.
Proof. unfold linspace. destruct n as [|[|n]]; auto. rewrite map_length, seq_length. reflexivity. Qed.

Theorem linspace_increasing a b n i : a < b -> (2 <= n)%nat -> (S i < n)%nat ->
  nth i (linspace ROps a b n) 0 < nth (S i) (linspace ROps a b n) 0.
Proof.
  intros Hab Hn Hi. rewrite !linspace_nth by lia.
  assert (Hd : 0 < INR (n - 1)) by (apply lt_0_INR; lia).
  assert (Hstep : 0 < (b - a) / INR (n - 1)) by (apply Rdiv_lt_0_compat; lra).
  destruct (Nat.eqb_spec i (n - 1)); [lia|].
  destruct (Nat.eqb_spec (S i) (n - 1)) as [E|E].
  - (* last step: a + i*step < b  since i = n-2 *)
    assert (Hi' : INR i = INR (n - 1) - 1) by (rewrite <- E, S_INR; ring).
    rewrite Hi'. replace b with (a + INR (n - 1) * ((b - a) / INR (n - 1))) at 2 by (field; lra).
    nra.
  - rewrite S_INR. nra.
Qed.

(* ---- order and limits survive the shift and the filter ---- *)
Lemma sorted_filter (p : R -> bool) l : StronglySorted Rlt l -> StronglySorted Rlt (filter p l).
Proof.
  induction 1 as [|x l Hs IH Hx]; simpl; [constructor|].
  destruct (p x); auto. constructor; auto.
  apply Forall_forall. intros y Hy. apply filter_In in Hy. rewrite Forall_forall in Hx. apply Hx. tauto.
Qed.

Lemma sorted_map_shift c l : StronglySorted Rlt l -> StronglySorted Rlt (map (fun d => c + d) l).
Proof.
  induction 1 as [|x l Hs IH Hx]; simpl; constructor; auto.
  apply Forall_forall. intros y Hy. apply in_map_iff in Hy. destruct Hy as [d [<- Hd]].
  rewrite Forall_forall in Hx. specialize (Hx d Hd). lra.
Qed.

Lemma nth_increasing_sorted l : (forall i, (S i < length l)%nat -> nth i l 0 < nth (S i) l 0) -> StronglySorted Rlt l.
Proof.
  induction l as [|x l IH]; intros H; [constructor|].
  constructor.
  - apply IH. intros i Hi. apply (H (S i)). simpl; lia.
  - assert (IHs : StronglySorted Rlt l) by (apply IH; intros i Hi; apply (H (S i)); simpl; lia).
    destruct l as [|y l]; [constructor|].
    assert (Hxy : x < y) by (apply (H 0%nat); simpl; lia).
    constructor; auto. inversion IHs as [|? ? _ Hy]; subst.
    eapply Forall_impl; [|exact Hy]. intros z Hz. simpl in Hz. lra.
Qed.

Theorem linspace_sorted a b n : a < b -> (2 <= n)%nat -> StronglySorted Rlt (linspace ROps a b n).
Proof.
  intros Hab Hn. apply nth_increasing_sorted. intros i Hi. rewrite linspace_length in Hi.
  apply linspace_increasing; auto.
Qed.

Theorem lin_sorted center sigma nsig npts lb ub : 0 < nsig * sigma -> (2 <= npts)%nat ->
  StronglySorted Rlt (lin ROps center sigma nsig npts lb ub).
Proof.
  intros Hs Hn. unfold lin, inlimits. apply sorted_filter.
  apply (sorted_map_shift center). apply linspace_sorted; auto. cbn [opp mul ROps]. lra.
Qed.

Theorem lin_in_limits center sigma nsig npts lb ub x :
  In x (lin ROps center sigma nsig npts lb ub) -> lb <= x <= ub.
Proof.
  unfold lin, inlimits. intros H. apply filter_In in H. destruct H as [_ H].
  apply andb_true_iff in H. destruct H as [H1 H2]. cbn [leb ROps] in *.
  apply Rleb_true in H1, H2. lra.
Qed.

(* all six grids: strictly increasing, inside the limits (and inside the support) *)
Theorem grid_sorted d center sigma nsig npts lb ub : 0 < sigma -> 0 < nsig -> (2 <= npts)%nat ->
  StronglySorted Rlt (grid ROps (sqrt 3) 1e-8 d center sigma nsig npts lb ub).
Proof.
  intros Hs Hn Hp. assert (0 < nsig * sigma) by nra.
  destruct d; unfold grid; try (apply lin_sorted; auto).
  - unfold inlimits. apply sorted_filter. apply linspace_sorted; auto. cbn [add sub ROps]. lra.
  - apply sorted_filter. apply lin_sorted; auto.
Qed.

Theorem grid_in_limits d center sigma nsig npts lb ub x :
  In x (grid ROps (sqrt 3) 1e-8 d center sigma nsig npts lb ub) -> lb <= x <= ub \/ (1e-8 <= x /\ (d = Lognormal \/ d = Schulz)).
Proof.
  destruct d; unfold grid; intros H.
  - left. eapply lin_in_limits; eauto.
  - left. unfold inlimits in H. apply filter_In in H. destruct H as [_ H].
    apply andb_true_iff in H. destruct H as [H1 H2]. cbn [leb ROps] in *. apply Rleb_true in H1, H2. lra.
  - left. apply filter_In in H. destruct H as [H _]. eapply lin_in_limits; eauto.
  - apply lin_in_limits in H. unfold maxT in H. cbn [ltb ROps] in H.
    destruct (Rltb lb 1e-8) eqn:E1, (Rltb ub 1e-8) eqn:E2;
      try apply Rltb_true in E1; try apply Rltb_true in E2; try apply Rltb_false in E1; try apply Rltb_false in E2;
      try (left; lra); right; split; auto; lra.
  - apply lin_in_limits in H. unfold maxT in H. cbn [ltb ROps] in H.
    destruct (Rltb lb 1e-8) eqn:E1, (Rltb ub 1e-8) eqn:E2;
      try apply Rltb_true in E1; try apply Rltb_true in E2; try apply Rltb_false in E1; try apply Rltb_false in E2;
      try (left; lra); right; split; auto; lra.
  - left. eapply lin_in_limits; eauto.
Qed.

(* lognormal and Schulz values are strictly positive (inside the support) *)
Theorem grid_support d center sigma nsig npts lb ub x : (d = Lognormal \/ d = Schulz) ->
  In x (grid ROps (sqrt 3) 1e-8 d center sigma nsig npts lb ub) -> 0 < x.
Proof.
  intros Hd H. assert (Hx : 1e-8 <= x).
  { destruct Hd; subst d; unfold grid in H; apply lin_in_limits in H; unfold maxT in H; cbn [ltb ROps] in H;
      destruct (Rltb lb 1e-8) eqn:E1; try apply Rltb_false in E1; lra. }
  lra.
Qed.

(* rectangle: half-width sqrt(3) sigma *)
Theorem rectangle_support center sigma nsig npts lb ub x :
  In x (grid ROps (sqrt 3) 1e-8 Rectangle center sigma nsig npts lb ub) -> Rabs (x - center) <= Rabs sigma * sqrt 3.
Proof.
  unfold grid. intros H. apply filter_In in H. destruct H as [_ H]. cbn [leb absv sub mul ROps] in H.
  apply Rleb_true in H. exact H.
Qed.

(* uniform: half-width sigma *)
Theorem uniform_support center sigma npts lb ub x : 0 < sigma -> (2 <= npts)%nat ->
  In x (grid ROps (sqrt 3) 1e-8 Uniform center sigma 0 npts lb ub) -> center - sigma <= x <= center + sigma.
Proof.
  intros Hs Hn H. unfold grid, inlimits in H. apply filter_In in H. destruct H as [H _].
  apply In_nth with (d := 0) in H. destruct H as [i [Hi Hx]]. rewrite linspace_length in Hi.
  rewrite linspace_nth in Hx by lia. cbn [add sub ROps] in Hx.
  assert (Hd : 0 < INR (npts - 1)) by (apply lt_0_INR; lia).
  destruct (Nat.eqb_spec i (npts - 1)); [lra|].
  assert (Hi2 : 0 <= INR i <= INR (npts - 1)) by (split; [apply pos_INR | apply le_INR; lia]).
  subst x. replace (center + sigma - (center - sigma)) with (2 * sigma) by ring.
  assert (Hq : 0 <= INR i * (2 * sigma / INR (npts - 1)) <= 2 * sigma).
  { split.
    - apply Rmult_le_pos; [lra|]. apply Rlt_le, Rdiv_lt_0_compat; lra.
    - replace (2 * sigma) with (INR (npts - 1) * (2 * sigma / INR (npts - 1))) at 2 by (field; lra).
      apply Rmult_le_compat_r; [apply Rlt_le, Rdiv_lt_0_compat; lra | lra]. }
  lra.
Qed.

(* ---- degenerate case and the two width conventions ---- *)
Theorem degenerate d relative center width nsig npts lb ub :
  (snd (resolve ROps relative width center) = 0 \/ (npts < 2)%nat) ->
  let c := fst (resolve ROps relative width center) in
  lb <= c <= ub -> values ROps (sqrt 3) 1e-8 d relative center width nsig npts lb ub = [c].
Proof.
  intros H c Hc. unfold values. destruct (resolve ROps relative width center) as [c' s] eqn:E. simpl in *. subst c.
  assert (Hb : eqb ROps s (zero ROps) || (npts <? 2)%nat = true).
  { destruct H as [->|H]; [cbn [eqb zero ROps]; replace (Reqb 0 0) with true by (symmetry; apply Reqb_true; auto); auto|].
    apply orb_true_iff. right. apply Nat.ltb_lt. auto. }
  cbn [eqb zero ROps] in Hb. rewrite Hb. replace (Rleb lb c') with true by (symmetry; apply Rleb_true; lra).
  replace (Rleb c' ub) with true by (symmetry; apply Rleb_true; lra). reflexivity.
Qed.

Theorem resolve_relative width center : resolve ROps true width center = (center, width * center).
Proof. reflexivity. Qed.
Theorem resolve_absolute width center : resolve ROps false width center = (0, width).
Proof. reflexivity. Qed.

(* ---- the density formulas are the documented ones ---- *)
Theorem gaussian_density c s x : s <> 0 ->
  exp (gaussian_arg ROps c s x) = exp (- (1/2) * ((x - c) / s) * ((x - c) / s)).
Proof. intros Hs. f_equal. unfold gaussian_arg, two. cbn [add mul sub div opp one ROps]. field. auto. Qed.

Theorem boltzmann_density c s x : exp (boltzmann_arg ROps c s x) = exp (- Rabs (x - c) / Rabs s).
Proof. reflexivity. Qed.

(* lognormal with median = centre: w = sqrt(2 pi) * pdf(x; mu = ln c, s), including the 1/x Jacobian *)
Definition lognormal_pdf (c s x : R) : R := / (x * s * sqrt (2 * PI)) * exp (- (ln x - ln c) * (ln x - ln c) / (2 * s * s)).
Theorem lognormal_density c s x : 0 < x -> 0 < s ->
  exp (lognormal_arg ROps (1/2) (ln x) (ln c) s) / (x * s) = sqrt (2 * PI) * lognormal_pdf c s x.
Proof.
  intros Hx Hs. unfold lognormal_arg, lognormal_pdf. cbn [mul sub div opp ROps].
  assert (Hp : 0 < sqrt (2 * PI)) by (apply sqrt_lt_R0; pose proof PI_RGT_0; lra).
  replace (- (1 / 2) * ((ln x - ln c) / s * ((ln x - ln c) / s))) with (- (ln x - ln c) * (ln x - ln c) / (2 * s * s)) by (field; lra).
  field. repeat split; lra.
Qed.

(* Schulz: exp(z ln z + (z-1) ln R - R z - ln c - lnGamma z) = z^z R^(z-1) e^(-R z) / (c Gamma z) *)
Theorem schulz_density z R c lgz : 0 < z -> 0 < R -> 0 < c ->
  exp (schulz_arg ROps z (ln z) (ln R) R (ln c) lgz) =
  Rpower z z * Rpower R (z - 1) * exp (- (R * z)) / (c * exp lgz).
Proof.
  intros Hz HR Hc. unfold schulz_arg, Rpower. cbn [add mul sub one ROps].
  replace (z * ln z + (z - 1) * ln R - R * z - ln c - lgz) with ((z * ln z) + ((z - 1) * ln R) + (- (R * z)) + (- ln c) + (- lgz)) by ring.
  rewrite !exp_plus, (exp_Ropp (ln c)), exp_ln by auto. rewrite (exp_Ropp lgz).
  field. split; [apply Rgt_not_eq, exp_pos | lra].
Qed.

(* with z = (c/sigma)^2 the Schulz distribution has mean c and standard deviation |sigma| = c / sqrt z *)
Theorem schulz_width c sigma : 0 < c -> sigma <> 0 -> c / sqrt (schulz_z ROps c sigma) = Rabs sigma.
Proof.
  intros Hc Hs. unfold schulz_z. cbn [mul div ROps].
  replace (c / sigma * (c / sigma)) with ((c / Rabs sigma) * (c / Rabs sigma)).
  - assert (Ha : 0 < Rabs sigma) by (apply Rabs_pos_lt; auto).
    rewrite sqrt_square by (apply Rlt_le, Rdiv_lt_0_compat; lra). field. split; lra.
  - unfold Rdiv. replace (c * / Rabs sigma * (c * / Rabs sigma)) with (c * c * (/ Rabs sigma * / Rabs sigma)) by ring.
    replace (c * / sigma * (c * / sigma)) with (c * c * (/ sigma * / sigma)) by ring. f_equal.
    rewrite <- !Rinv_mult. f_equal. rewrite <- Rabs_mult. apply Rabs_pos_eq. nra.
Qed.
