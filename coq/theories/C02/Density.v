(* C02/Density.v — the density formula of each distribution as the model writes it over the reals
   (the arguments of exp are those of C02/Model.v; exp, ln and log-gamma are real functions here). *)
From Coq Require Import Reals List Bool.
From SM Require Import Base.Num C02.Model.
Open Scope R_scope.

Definition model_px (lgam : R -> R) (d : dist) (c s x : R) : R :=
  match d with
  | Gaussian => exp (gaussian_arg ROps c s x)
  | Boltzmann => exp (boltzmann_arg ROps c s x)
  | Lognormal => exp (lognormal_arg ROps (1/2) (ln x) (ln c) (lognormal_sig ROps c s)) / (x * lognormal_sig ROps c s)
  | Schulz => let z := schulz_z ROps c s in exp (schulz_arg ROps z (ln z) (ln (x / c)) (x / c) (ln c) (lgam z))
  | Uniform | Rectangle => 1
  end.
