(* C07/Model.v — product.py: the index arithmetic of ProductKernel.__init__ over
   the combined value vector, the value vectors handed to P and S, and the
   final combination. *)
From Coq Require Import List Arith Bool.
Import ListNotations.
From SM Require Import Base.Num.

Section Model.
  Context {T : Type} (O : Ops T).

  Definition slice (v : list T) (a b : nat) : list T := firstn (b - a) (skipn a v).
  Definition b2n (b : bool) : nat := if b then 1 else 0.

  (* ---- ProductKernel.__init__ (NUM_COMMON_PARS = 2, 4 spin values + 3 per magnetic SLD) ---- *)
  Record Layout := MkLayout {
    p_lo : nat; p_hi : nat;           (* _p_value_slice *)
    er_index : nat;
    s_lo : nat; s_hi : nat;           (* _s_value_slice *)
    beta_mode_index : nat;            (* 0 = absent *)
    er_mode_index : nat;              (* 0 = absent *)
    mag_lo : nat; mag_hi : nat        (* _magentic_slice *)
  }.
  Definition layout (p_npars s_npars : nat) (volfrac_in_p have_beta have_er : bool) (nmag : nat) : Layout :=
    let first_p := 2 in
    let last_p := p_npars + 2 in
    let first_s := last_p + 2 - b2n volfrac_in_p in
    let last_s := first_s + s_npars - 2 in
    let first_mag := last_s + b2n have_beta + b2n have_er in
    let mag_pars := 3 * nmag in
    MkLayout first_p last_p last_p first_s last_s
             (if have_beta then last_s else 0)
             (if have_er then last_s + b2n have_beta else 0)
             first_mag (first_mag + (if 0 <? mag_pars then mag_pars + 4 else 0)).

  (* ---- the combined vector as make_kernel_args lays it out from the combined table:
     scale, background, P parameters, S.radius_effective, [S.volfraction unless P has one],
     remaining S parameters, [structure_factor_mode], [radius_effective_mode],
     [4 spin values + magnetic triples of P], weights ---- *)
  Definition combined (scale bg : T) (P : list T) (er : T) (volfrac_s : option T) (Srest : list T)
             (beta_mode er_mode : option T) (mag weights : list T) : list T :=
    [scale; bg] ++ P ++ [er] ++ (match volfrac_s with Some v => [v] | None => [] end) ++ Srest
    ++ (match beta_mode with Some b => [b] | None => [] end)
    ++ (match er_mode with Some m => [m] | None => [] end) ++ mag ++ weights.

  (* ---- the vectors given to the two kernels (before padding) ---- *)
  Definition p_values (L : Layout) (nvalues nw : nat) (v : list T) : list T :=
    [one O; zero O] ++ slice v (p_lo L) (p_hi L) ++ slice v (mag_lo L) (mag_hi L) ++ slice v nvalues (nvalues + 2 * nw).
  (* S: scale 1, background 0, radius_effective, volfraction slot, rest, weights;
     then the radius slot is overwritten by P's R_eff when a mode is selected and
     the volfraction slot by volfraction * volume ratio *)
  Definition s_values (L : Layout) (nvalues nw : nat) (v : list T) (er_mode_pos : bool) (reff volfrac ratio : T) : list T :=
    [one O; zero O; (if er_mode_pos then reff else nth (er_index L) v (zero O)); mul O volfrac ratio]
    ++ slice v (s_lo L) (s_hi L) ++ slice v nvalues (nvalues + 2 * nw).

  (* ---- final combination, one q value ---- *)
  Definition combine (scale bg volfrac : T) (volfrac_in_p beta : bool) (F Fsq S shell : T) : T :=
    let PS := if beta then add O Fsq (mul O (mul O F F) (sub O S (one O))) else mul O Fsq S in
    let cs := div O scale shell in
    let cs := if volfrac_in_p then cs else mul O cs volfrac in
    add O (mul O cs PS) bg.
End Model.
