From Coq Require Import List PrimFloat Bool.
Import ListNotations.
From SM Require Import Base.Num C07.Model.

Record Case := MkCase {
  h_scale : float; h_bg : float; h_volfrac : float; h_in_p : bool; h_beta : bool;
  h_F : list float; h_Fsq : list float; h_S : list float; h_shell : float;
  h_expect : list float
}.
Definition check_case (rel : float) (c : Case) : list nat :=
  let n := length (h_expect c) in
  failing (map (fun j =>
     let F := nth j (h_F c) 0%float in let Fsq := nth j (h_Fsq c) nan in let S := nth j (h_S c) nan in
     let m := combine FOps (h_scale c) (h_bg c) (h_volfrac c) (h_in_p c) (h_beta c) F Fsq S (h_shell c) in
     let sc := combine FOps (PrimFloat.abs (h_scale c)) (PrimFloat.abs (h_bg c)) (PrimFloat.abs (h_volfrac c)) (h_in_p c) (h_beta c)
                       (PrimFloat.abs F) (PrimFloat.abs Fsq) (PrimFloat.add (PrimFloat.abs S) 2%float) (PrimFloat.abs (h_shell c)) in
     closeb rel 0x1p-1000%float sc m (nth j (h_expect c) nan)) (seq 0 n)).
Definition check_cases (rel : float) (l : list Case) : list (list nat) := map (check_case rel) l.
