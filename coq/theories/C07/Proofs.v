From Coq Require Import List Arith Bool Lia Reals Lra.
Import ListNotations.
From SM Require Import Base.Num C07.Model.

Section Slices.
  Context {T : Type} (O : Ops T).

  Lemma slice_mid (a b c : list T) i j : i = length a -> j = length a + length b -> slice (a ++ b ++ c) i j = b.
  Proof.
    intros -> ->. unfold slice. rewrite skipn_app, skipn_all, Nat.sub_diag. simpl.
    replace (length a + length b - length a) with (length b) by lia.
    rewrite firstn_app, firstn_all, Nat.sub_diag. simpl. apply app_nil_r.
  Qed.
  Lemma nth_mid (a : list T) x c i d : i = length a -> nth i (a ++ x :: c) d = x.
  Proof. intros ->. rewrite app_nth2 by lia. rewrite Nat.sub_diag. reflexivity. Qed.

  Definition olen {A} (o : option A) : nat := match o with Some _ => 1 | None => 0 end.
  Definition olist {A} (o : option A) : list A := match o with Some v => [v] | None => [] end.
  Definition isSome {A} (o : option A) : bool := match o with Some _ => true | None => false end.

  (* For every size of P and S, with or without volfraction in P, beta mode,
     R_eff mode and magnetic block: the index arithmetic picks exactly the
     documented pieces of the combined vector. *)
  Theorem layout_slices scale bg (P : list T) er volfrac_s Srest beta_mode er_mode mag weights nmag :
    length mag = (if 0 <? 3 * nmag then 3 * nmag + 4 else 0) ->
    let s_npars := 2 + length Srest in
    let L := layout (length P) s_npars (negb (isSome volfrac_s)) (isSome beta_mode) (isSome er_mode) nmag in
    let v := combined scale bg P er volfrac_s Srest beta_mode er_mode mag weights in
    slice v (p_lo L) (p_hi L) = P /\
    nth (er_index L) v (zero O) = er /\
    slice v (s_lo L) (s_hi L) = Srest /\
    (forall b, beta_mode = Some b -> nth (beta_mode_index L) v (zero O) = b) /\
    (forall m, er_mode = Some m -> nth (er_mode_index L) v (zero O) = m) /\
    slice v (mag_lo L) (mag_hi L) = mag /\
    (forall vf, volfrac_s = Some vf -> nth (length P + 2 + 1) v (zero O) = vf).
  Proof.
    intros Hmag s_npars L v. unfold v, combined, L, layout, s_npars. cbn [p_lo p_hi er_index s_lo s_hi beta_mode_index er_mode_index mag_lo mag_hi].
    fold (olist volfrac_s) (olist beta_mode) (olist er_mode).
    assert (Hv : length (olist volfrac_s) = olen volfrac_s) by (destruct volfrac_s; reflexivity).
    assert (Hb : length (olist beta_mode) = olen beta_mode) by (destruct beta_mode; reflexivity).
    assert (He : length (olist er_mode) = olen er_mode) by (destruct er_mode; reflexivity).
    assert (Hvb : b2n (negb (isSome volfrac_s)) = 1 - olen volfrac_s) by (destruct volfrac_s; reflexivity).
    assert (Hbb : b2n (isSome beta_mode) = olen beta_mode) by (destruct beta_mode; reflexivity).
    assert (Heb : b2n (isSome er_mode) = olen er_mode) by (destruct er_mode; reflexivity).
    assert (Hvle : olen volfrac_s <= 1) by (destruct volfrac_s; simpl; lia).
    repeat split.
    - apply (slice_mid [scale; bg] P); simpl; lia.
    - replace ([scale; bg] ++ P ++ [er] ++ olist volfrac_s ++ Srest ++ olist beta_mode ++ olist er_mode ++ mag ++ weights)
        with (([scale; bg] ++ P) ++ er :: (olist volfrac_s ++ Srest ++ olist beta_mode ++ olist er_mode ++ mag ++ weights))
        by (rewrite <- !app_assoc; reflexivity).
      apply nth_mid. rewrite app_length. simpl. lia.
    - replace ([scale; bg] ++ P ++ [er] ++ olist volfrac_s ++ Srest ++ olist beta_mode ++ olist er_mode ++ mag ++ weights)
        with (([scale; bg] ++ P ++ [er] ++ olist volfrac_s) ++ Srest ++ (olist beta_mode ++ olist er_mode ++ mag ++ weights))
        by (rewrite <- !app_assoc; reflexivity).
      apply slice_mid; rewrite !app_length; simpl length; rewrite ?Hv, ?Hvb; lia.
    - intros b ->. cbn [isSome olist].
      replace ([scale; bg] ++ P ++ [er] ++ olist volfrac_s ++ Srest ++ [b] ++ olist er_mode ++ mag ++ weights)
        with (([scale; bg] ++ P ++ [er] ++ olist volfrac_s ++ Srest) ++ b :: (olist er_mode ++ mag ++ weights))
        by (rewrite <- !app_assoc; reflexivity).
      apply nth_mid. rewrite !app_length. simpl length. rewrite ?Hv, ?Hvb. lia.
    - intros m ->. cbn [isSome olist].
      replace ([scale; bg] ++ P ++ [er] ++ olist volfrac_s ++ Srest ++ olist beta_mode ++ [m] ++ mag ++ weights)
        with (([scale; bg] ++ P ++ [er] ++ olist volfrac_s ++ Srest ++ olist beta_mode) ++ m :: (mag ++ weights))
        by (rewrite <- !app_assoc; reflexivity).
      apply nth_mid. rewrite !app_length. simpl length. rewrite ?Hv, ?Hvb, ?Hb, ?Hbb. lia.
    - replace ([scale; bg] ++ P ++ [er] ++ olist volfrac_s ++ Srest ++ olist beta_mode ++ olist er_mode ++ mag ++ weights)
        with (([scale; bg] ++ P ++ [er] ++ olist volfrac_s ++ Srest ++ olist beta_mode ++ olist er_mode) ++ mag ++ weights)
        by (rewrite <- !app_assoc; reflexivity).
      apply slice_mid; rewrite !app_length; simpl length; rewrite ?Hv, ?Hvb, ?Hb, ?Hbb, ?He, ?Heb, ?Hmag; try lia;
        destruct (0 <? 3 * nmag); lia.
    - intros vf ->. cbn [isSome olist].
      replace ([scale; bg] ++ P ++ [er] ++ [vf] ++ Srest ++ olist beta_mode ++ olist er_mode ++ mag ++ weights)
        with (([scale; bg] ++ P ++ [er]) ++ vf :: (Srest ++ olist beta_mode ++ olist er_mode ++ mag ++ weights))
        by (rewrite <- !app_assoc; reflexivity).
      apply nth_mid. rewrite !app_length. simpl. lia.
  Qed.
End Slices.

Section Formula.
  Open Scope R_scope.
  (* scale * (volfraction / <V_shell>) * <F^2> * S + background *)
  Theorem combine_plain scale bg volfrac F Fsq S shell : shell <> 0 ->
    combine ROps scale bg volfrac false false F Fsq S shell = scale * (volfrac / shell) * Fsq * S + bg.
  Proof. intros. unfold combine. cbn [add mul sub div one ROps]. field. auto. Qed.
  (* scale * (volfraction / <V_shell>) * (<F^2> + <F>^2 (S - 1)) + background *)
  Theorem combine_beta scale bg volfrac F Fsq S shell : shell <> 0 ->
    combine ROps scale bg volfrac false true F Fsq S shell = scale * (volfrac / shell) * (Fsq + F * F * (S - 1)) + bg.
  Proof. intros. unfold combine. cbn [add mul sub div one ROps]. field. auto. Qed.
  (* the explicit volfraction factor is omitted when P owns volfraction *)
  Theorem combine_owner scale bg volfrac beta F Fsq S shell : shell <> 0 ->
    combine ROps scale bg volfrac true beta F Fsq S shell =
    scale / shell * (if beta then Fsq + F * F * (S - 1) else Fsq * S) + bg.
  Proof. intros. unfold combine. cbn [add mul sub div one ROps]. destruct beta; field; auto. Qed.
End Formula.
