(* C07/Property.v — the property theorems and nothing else. *)
From Coq Require Import List Arith Reals ZArith.
Import ListNotations.
From SM Require Import Base.Num C07.Model C07.Proofs Gen.C07_code C07.Translated.

(* For every parameter count of P and S, with or without volfraction in P,
   with or without beta mode, R_eff mode and magnetic block: the index
   arithmetic of ProductKernel picks exactly the documented pieces. *)
Theorem C07_layout_slices :
  forall (T : Type) (O : Ops T) scale bg (P : list T) er volfrac_s Srest beta_mode er_mode mag weights nmag,
  length mag = (if 0 <? 3 * nmag then 3 * nmag + 4 else 0) ->
  let s_npars := 2 + length Srest in
  let L := layout (length P) s_npars (negb (isSome volfrac_s)) (isSome beta_mode) (isSome er_mode) nmag in
  let v := combined scale bg P er volfrac_s Srest beta_mode er_mode mag weights in
  slice v (p_lo L) (p_hi L) = P /\
  nth (er_index L) v (zero O) = er /\
  slice v (s_lo L) (s_hi L) = Srest /\
  (forall b, beta_mode = Some b -> nth (beta_mode_index L) v (zero O) = b) /\
  (forall m, er_mode = Some m -> nth (er_mode_index L) v (zero O) = m) /\
  slice v (mag_lo L) (mag_hi L) = mag /\
  (forall vf, volfrac_s = Some vf -> nth (length P + 2 + 1) v (zero O) = vf).
Proof. exact @layout_slices. Qed.
Print Assumptions C07_layout_slices.

Theorem C07_formula : forall scale bg volfrac F Fsq S shell, shell <> 0%R ->
  combine ROps scale bg volfrac false false F Fsq S shell = (scale * (volfrac / shell) * Fsq * S + bg)%R.
Proof. exact combine_plain. Qed.
Print Assumptions C07_formula.

Theorem C07_formula_beta : forall scale bg volfrac F Fsq S shell, shell <> 0%R ->
  combine ROps scale bg volfrac false true F Fsq S shell = (scale * (volfrac / shell) * (Fsq + F * F * (S - 1)) + bg)%R.
Proof. exact combine_beta. Qed.
Print Assumptions C07_formula_beta.

Theorem C07_volfraction_owner : forall scale bg volfrac beta F Fsq S shell, shell <> 0%R ->
  combine ROps scale bg volfrac true beta F Fsq S shell =
  (scale / shell * (if beta then Fsq + F * F * (S - 1) else Fsq * S) + bg)%R.
Proof. exact combine_owner. Qed.
Print Assumptions C07_volfraction_owner.

(* ---- the index arithmetic as it is WRITTEN in product.py ----
   Gen/C07_code.v is regenerated on every run from the text of ProductKernel.__init__ (Python-ast translation of
   its integer assignments, Python integers = Z); for every parameter count, flag combination and number of
   magnetic SLDs it yields the model's layout - which C07_layout_slices shows to pick the documented pieces - and
   the documented slices of the lengths/offsets table. *)
Theorem C07_code_layout : translated = true ->
  forall (p_npars s_npars nmag : nat) (volfrac_in_p have_beta have_er : bool), (2 <= s_npars)%nat ->
  code_layout (Z.of_nat p_npars) (Z.of_nat s_npars) volfrac_in_p have_beta have_er (Z.of_nat nmag) =
  (layoutZ (layout p_npars s_npars volfrac_in_p have_beta have_er nmag)
   ++ [0; Z.of_nat p_npars; Z.of_nat p_npars; Z.of_nat (p_npars + s_npars - b2n volfrac_in_p)%nat; Z.of_nat (2 + s_npars)%nat])%Z.
Proof. exact code_layout_is_model. Qed.
Print Assumptions C07_code_layout.

(* the three formula theorems above are about the CODE's combination: the tail of ProductKernel.Iq translated from the
   current product.py on every run equals the model's combine for every number type and both flags *)
From SM Require Import Gen.C07_combine.
Theorem C07_code_combine : forall (T : Type) (O : Ops T) scale bg volfrac vp beta F Fsq S shell, combine_translated = true ->
  code_combine O scale bg volfrac vp beta F Fsq S shell = combine O scale bg volfrac vp beta F Fsq S shell.
Proof. exact code_combine_is_model. Qed.
Print Assumptions C07_code_combine.
Theorem C07_code_formula : forall scale bg volfrac beta F Fsq S shell, combine_translated = true -> shell <> 0%R ->
  code_combine ROps scale bg volfrac false beta F Fsq S shell =
  (scale * (volfrac / shell) * (if beta then Fsq + F * F * (S - 1) else Fsq * S) + bg)%R.
Proof.
  intros scale bg volfrac beta F Fsq S shell Ht Hs. rewrite (code_combine_is_model R ROps _ _ _ _ _ _ _ _ _ Ht).
  destruct beta; [rewrite combine_beta by exact Hs; reflexivity | rewrite combine_plain by exact Hs; ring].
Qed.
Print Assumptions C07_code_formula.
