(* C07/Translated.v — the index arithmetic of ProductKernel.__init__ as regenerated from the text of product.py
   (Gen/C07_code.v, Python integers = Z) is the model's layout, for every parameter count of P and S (S has at
   least its two leading parameters radius_effective and volfraction), every combination of the three flags and
   every number of magnetic SLDs; the slices into the lengths/offsets table are the documented ones. *)
From Coq Require Import ZArith List Bool Arith Lia.
Import ListNotations.
From SM Require Import Base.Num C07.Model Gen.C07_code Gen.C07_combine.

Definition layoutZ (L : Layout) : list Z :=
  map Z.of_nat [p_lo L; p_hi L; er_index L; s_lo L; s_hi L; beta_mode_index L; er_mode_index L; mag_lo L; mag_hi L].

Theorem code_layout_is_model : translated = true ->
  forall (p_npars s_npars nmag : nat) (volfrac_in_p have_beta have_er : bool), (2 <= s_npars)%nat ->
  code_layout (Z.of_nat p_npars) (Z.of_nat s_npars) volfrac_in_p have_beta have_er (Z.of_nat nmag) =
  (layoutZ (layout p_npars s_npars volfrac_in_p have_beta have_er nmag)
   ++ [0; Z.of_nat p_npars;                                                   (* P's rows of the lengths/offsets table *)
       Z.of_nat p_npars; Z.of_nat (p_npars + s_npars - b2n volfrac_in_p)%nat;    (* S's rows: one fewer when P owns volfraction *)
       Z.of_nat (2 + s_npars)%nat])%Z.                                            (* S's distributions start after its values *)
Proof.
  (* untranslatable source: the premise is false, the goal is closed and the later sentences are no-ops *)
  intros Ht. try solve [vm_compute in Ht; discriminate Ht].
  all: clear Ht; intros p s n vf hb he Hs.
  all: unfold code_layout, layoutZ, layout, b2z, b2n; cbn [map app p_lo p_hi er_index s_lo s_hi beta_mode_index er_mode_index mag_lo mag_hi].
  all: destruct vf, hb, he; destruct (Nat.ltb_spec 0 (3 * n)); destruct (Z.eqb_spec (3 * Z.of_nat n) 0);
    cbn [negb]; try lia; repeat (f_equal; try lia).
Qed.

(* the final combination as it is WRITTEN in ProductKernel.Iq (Gen/C07_combine.v: the statements from PS to
   final_result evaluated symbolically for each value of the two flags) is the model's, for every number type *)
Theorem code_combine_is_model (T : Type) (O : Ops T) scale bg volfrac vp beta F Fsq S shell : combine_translated = true ->
  code_combine O scale bg volfrac vp beta F Fsq S shell = combine O scale bg volfrac vp beta F Fsq S shell.
Proof.
  intros Ht. try solve [vm_compute in Ht; discriminate Ht].
  all: unfold code_combine, combine; destruct vp, beta; reflexivity.
Qed.
