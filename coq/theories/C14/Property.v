(* C14/Property.v — the property theorems and nothing else. *)
From Coq Require Import List Reals.
Import ListNotations.
From SM Require Import Base.Num C01.Model C14.Proofs.
Open Scope R_scope.

Theorem C14_cauchy_schwarz : forall l, Forall (fun p : pt => let '(w, _, _) := p in 0 <= w) l ->
  swF l * swF l <= sw l * swFF l.
Proof. exact cauchy_schwarz. Qed.
Print Assumptions C14_cauchy_schwarz.

Theorem C14_mean_amplitude_bound : forall l, Forall (fun p : pt => let '(w, f, f2) := p in 0 <= w /\ f * f <= f2) l -> 0 < sw l ->
  0 <= (swF l / sw l) * (swF l / sw l) <= swF2 l / sw l.
Proof. exact mean_amplitude_bound. Qed.
Print Assumptions C14_mean_amplitude_bound.

Theorem C14_intensity_uses_reported : forall scale bg (s : Sums (T:=R)),
  intensity ROps scale bg s = map (fun x => scale / o_shell (normalise ROps s) * x + bg) (o_f2 (normalise ROps s)).
Proof. exact intensity_uses_reported. Qed.
Print Assumptions C14_intensity_uses_reported.

(* the equality clauses: a constant amplitude over the mesh (monodisperse, spherically symmetric) gives
   (sum w F)^2 = (sum w)(sum w F^2); amplitudes within eps of one value (q -> 0) give a gap of at most eps^2 *)
Theorem C14_equality_when_constant : forall c l,
  Forall (fun p : pt => let '(w, f, _) := p in 0 <= w /\ f = c) l -> swF l * swF l = sw l * swFF l.
Proof. exact equality_when_constant. Qed.
Print Assumptions C14_equality_when_constant.

Theorem C14_gap_bound : forall c eps l,
  Forall (fun p : pt => let '(w, f, _) := p in 0 <= w /\ Rabs (f - c) <= eps) l -> 0 < sw l ->
  0 <= swFF l / sw l - (swF l / sw l) * (swF l / sw l) <= eps * eps.
Proof. exact gap_bound. Qed.
Print Assumptions C14_gap_bound.
