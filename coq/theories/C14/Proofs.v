(* C14/Proofs.v — amplitude bookkeeping: <F>^2 <= <F^2> for every weighted mesh *)
From Coq Require Import List Reals Lra Lia.
Import ListNotations.
From SM Require Import Base.Num C01.Model.
Open Scope R_scope.

(* a mesh point: weight, amplitude F, and the model's F^2 at that point *)
Definition pt := (R * R * R)%type.
Fixpoint sw (l : list pt) : R := match l with [] => 0 | (w, _, _) :: r => w + sw r end.
Fixpoint swF (l : list pt) : R := match l with [] => 0 | (w, f, _) :: r => w * f + swF r end.
Fixpoint swFF (l : list pt) : R := match l with [] => 0 | (w, f, _) :: r => w * (f * f) + swFF r end.
Fixpoint swF2 (l : list pt) : R := match l with [] => 0 | (w, _, f2) :: r => w * f2 + swF2 r end.

Lemma sums_nonneg l : Forall (fun p => let '(w, _, _) := p in 0 <= w) l -> 0 <= sw l /\ 0 <= swFF l.
Proof.
  induction 1 as [|[[w f] f2] l Hw _ IH]; simpl; [lra|]. destruct IH. split; [lra|]. nra.
Qed.

(* discrete Cauchy-Schwarz: (sum w F)^2 <= (sum w)(sum w F^2) *)
Theorem cauchy_schwarz l : Forall (fun p => let '(w, _, _) := p in 0 <= w) l ->
  swF l * swF l <= sw l * swFF l.
Proof.
  induction 1 as [|[[w f] f2] l Hw Hl IH]; simpl; [lra|].
  destruct (sums_nonneg l Hl) as [HA HC].
  set (A := sw l) in *. set (B := swF l) in *. set (C := swFF l) in *.
  (* key: A f^2 - 2 f B + C >= 0 *)
  assert (Hkey : 0 <= A * (f * f) - 2 * f * B + C).
  { destruct (Req_dec A 0) as [HA0|HA0].
    - assert (HB : B = 0).
      { rewrite HA0 in IH. destruct (Rtotal_order B 0) as [Hn|[Hz|Hp]]; auto; exfalso; nra. }
      rewrite HA0, HB. lra.
    - assert (HAp : 0 < A) by lra.
      assert (H1 : 0 <= A * (A * (f * f) - 2 * f * B + C)).
      { replace (A * (A * (f * f) - 2 * f * B + C)) with ((A * f - B) * (A * f - B) + (A * C - B * B)) by ring.
        pose proof (Rle_0_sqr (A * f - B)) as Hs. unfold Rsqr in Hs. lra. }
      apply Rmult_le_reg_l with A; auto. rewrite Rmult_0_r. exact H1. }
  nra.
Qed.

(* with the model's own F^2 at least F*F at every mesh point (itself an
   orientation average), the dispersity averages satisfy 0 <= <F>^2 <= <F^2> *)
Theorem mean_amplitude_bound l : Forall (fun p => let '(w, f, f2) := p in 0 <= w /\ f * f <= f2) l -> 0 < sw l ->
  0 <= (swF l / sw l) * (swF l / sw l) <= swF2 l / sw l.
Proof.
  intros H Hp. split; [nra|].
  assert (Hw : Forall (fun p => let '(w, _, _) := p in 0 <= w) l).
  { eapply Forall_impl; [|exact H]. intros [[w f] f2] [Hw _]. exact Hw. }
  assert (Hle : swFF l <= swF2 l).
  { clear Hp Hw. induction H as [|[[w f] f2] l [Hw Hf] _ IH]; simpl; [lra|]. nra. }
  pose proof (cauchy_schwarz l Hw) as Hcs.
  assert (Hinv : 0 < / sw l) by (apply Rinv_0_lt_compat; auto).
  unfold Rdiv.
  replace (swF l * / sw l * (swF l * / sw l)) with ((swF l * swF l) * (/ sw l * / sw l)) by ring.
  assert (swF l * swF l * (/ sw l * / sw l) <= sw l * swFF l * (/ sw l * / sw l)).
  { apply Rmult_le_compat_r; [nra|auto]. }
  replace (sw l * swFF l * (/ sw l * / sw l)) with (swFF l * / sw l) in H0 by (field; lra).
  assert (swFF l * / sw l <= swF2 l * / sw l) by (apply Rmult_le_compat_r; lra).
  lra.
Qed.

(* the intensity is built from the very tuple Fq reports *)
Theorem intensity_uses_reported scale bg (s : Sums (T:=R)) :
  intensity ROps scale bg s =
  map (fun x => scale / o_shell (normalise ROps s) * x + bg) (o_f2 (normalise ROps s)).
Proof. reflexivity. Qed.
