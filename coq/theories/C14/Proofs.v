(* C14/Proofs.v — amplitude bookkeeping: <F>^2 <= <F^2> for every weighted mesh *)
From Coq Require Import List Reals Lra Lia.
Import ListNotations.
From SM Require Import Base.Num C01.Model.
Open Scope R_scope.

(* a mesh point: weight, amplitude F, and the model's F^2 at that point *)
Definition pt := (R * R * R)%type.
Fixpoint sw (l : list pt) : R := match l with [] => 0 | (w, _, _) :: r => w + sw r end.
Fixpoint swF (l : list pt) : R := match l with [] => 0 | (w, f, _) :: r => w * f + swF r end.
Fixpoint swFF (l : list pt) : R := match l with [] => 0 | (w, f, _) :: r => w * (f * f) + swFF r end.
Fixpoint swF2 (l : list pt) : R := match l with [] => 0 | (w, _, f2) :: r => w * f2 + swF2 r end.

Lemma sums_nonneg l : Forall (fun p => let '(w, _, _) := p in 0 <= w) l -> 0 <= sw l /\ 0 <= swFF l.
Proof.
  induction 1 as [|[[w f] f2] l Hw _ IH]; simpl; [lra|]. destruct IH. split; [lra|]. nra.
Qed.

(* discrete Cauchy-Schwarz: (sum w F)^2 <= (sum w)(sum w F^2) *)
Theorem cauchy_schwarz l : Forall (fun p => let '(w, _, _) := p in 0 <= w) l ->
  swF l * swF l <= sw l * swFF l.
Proof.
  induction 1 as [|[[w f] f2] l Hw Hl IH]; simpl; [lra|].
  destruct (sums_nonneg l Hl) as [HA HC].
  set (A := sw l) in *. set (B := swF l) in *. set (C := swFF l) in *.
  (* key: A f^2 - 2 f B + C >= 0 *)
  assert (Hkey : 0 <= A * (f * f) - 2 * f * B + C).
  { destruct (Req_dec A 0) as [HA0|HA0].
    - assert (HB : B = 0).
      { rewrite HA0 in IH. destruct (Rtotal_order B 0) as [Hn|[Hz|Hp]]; auto; exfalso; nra. }
      rewrite HA0, HB. lra.
    - assert (HAp : 0 < A) by lra.
      assert (H1 : 0 <= A * (A * (f * f) - 2 * f * B + C)).
      { replace (A * (A * (f * f) - 2 * f * B + C)) with ((A * f - B) * (A * f - B) + (A * C - B * B)) by ring.
        pose proof (Rle_0_sqr (A * f - B)) as Hs. unfold Rsqr in Hs. lra. }
      apply Rmult_le_reg_l with A; auto. rewrite Rmult_0_r. exact H1. }
  nra.
Qed.

(* with the model's own F^2 at least F*F at every mesh point (itself an
   orientation average), the dispersity averages satisfy 0 <= <F>^2 <= <F^2> *)
Theorem mean_amplitude_bound l : Forall (fun p => let '(w, f, f2) := p in 0 <= w /\ f * f <= f2) l -> 0 < sw l ->
  0 <= (swF l / sw l) * (swF l / sw l) <= swF2 l / sw l.
Proof.
  intros H Hp. split; [nra|].
  assert (Hw : Forall (fun p => let '(w, _, _) := p in 0 <= w) l).
  { eapply Forall_impl; [|exact H]. intros [[w f] f2] [Hw _]. exact Hw. }
  assert (Hle : swFF l <= swF2 l).
  { clear Hp Hw. induction H as [|[[w f] f2] l [Hw Hf] _ IH]; simpl; [lra|]. nra. }
  pose proof (cauchy_schwarz l Hw) as Hcs.
  assert (Hinv : 0 < / sw l) by (apply Rinv_0_lt_compat; auto).
  unfold Rdiv.
  replace (swF l * / sw l * (swF l * / sw l)) with ((swF l * swF l) * (/ sw l * / sw l)) by ring.
  assert (swF l * swF l * (/ sw l * / sw l) <= sw l * swFF l * (/ sw l * / sw l)).
  { apply Rmult_le_compat_r; [nra|auto]. }
  replace (sw l * swFF l * (/ sw l * / sw l)) with (swFF l * / sw l) in H0 by (field; lra).
  assert (swFF l * / sw l <= swF2 l * / sw l) by (apply Rmult_le_compat_r; lra).
  lra.
Qed.

(* the intensity is built from the very tuple Fq reports *)
Theorem intensity_uses_reported scale bg (s : Sums (T:=R)) :
  intensity ROps scale bg s =
  map (fun x => scale / o_shell (normalise ROps s) * x + bg) (o_f2 (normalise ROps s)).
Proof. reflexivity. Qed.

(* ---- the equality clauses ----
   If the amplitude takes one value at every point of the mesh (a monodisperse, spherically symmetric particle: the
   orientation quadrature samples the same number everywhere) the inequality is an equality; if it stays within eps
   of one value (q -> 0: every amplitude tends to the contrast times the volume) the gap <F^2> - <F>^2 is at most
   eps^2. *)
Definition shift (c : R) (l : list pt) : list pt := map (fun p => let '(w, f, f2) := p in (w, f - c, f2)) l.
Lemma sw_shift c l : sw (shift c l) = sw l.
Proof. induction l as [|[[w f] f2] l IH]; simpl; [reflexivity|]. rewrite IH. reflexivity. Qed.
Lemma swF_shift c l : swF l = swF (shift c l) + c * sw l.
Proof. induction l as [|[[w f] f2] l IH]; simpl; [ring|]. rewrite IH. ring. Qed.
Lemma swFF_shift c l : swFF l = swFF (shift c l) + 2 * c * swF (shift c l) + c * c * sw l.
Proof. induction l as [|[[w f] f2] l IH]; simpl; [ring|]. rewrite IH. ring. Qed.
Lemma gap_shift c l : sw l * swFF l - swF l * swF l = sw l * swFF (shift c l) - swF (shift c l) * swF (shift c l).
Proof. rewrite (swF_shift c l), (swFF_shift c l). ring. Qed.

Lemma swFF_small eps l : Forall (fun p => let '(w, f, _) := p in 0 <= w /\ Rabs f <= eps) l -> swFF l <= eps * eps * sw l.
Proof.
  induction 1 as [|[[w f] f2] l [Hw Hf] _ IH]; simpl; [lra|].
  assert (Hff : f * f <= eps * eps).
  { assert (He : 0 <= eps) by (eapply Rle_trans; [apply Rabs_pos | exact Hf]).
    replace (f * f) with (Rabs f * Rabs f) by (rewrite <- Rabs_mult; apply Rabs_pos_eq; nra).
    apply Rmult_le_compat; auto using Rabs_pos. }
  nra.
Qed.

Theorem gap_bound c eps l :
  Forall (fun p => let '(w, f, _) := p in 0 <= w /\ Rabs (f - c) <= eps) l -> 0 < sw l ->
  0 <= swFF l / sw l - (swF l / sw l) * (swF l / sw l) <= eps * eps.
Proof.
  intros H Hp.
  assert (Hw : Forall (fun p => let '(w, _, _) := p in 0 <= w) l).
  { eapply Forall_impl; [|exact H]. intros [[w f] f2] [Hw _]. exact Hw. }
  assert (Hs : Forall (fun p => let '(w, f, _) := p in 0 <= w /\ Rabs f <= eps) (shift c l)).
  { unfold shift. rewrite Forall_map. eapply Forall_impl; [|exact H]. intros [[w f] f2] Hx. exact Hx. }
  pose proof (cauchy_schwarz l Hw) as Hcs.
  pose proof (swFF_small eps (shift c l) Hs) as Hsm. rewrite sw_shift in Hsm.
  pose proof (gap_shift c l) as Hg.
  assert (Hgap : sw l * swFF l - swF l * swF l <= eps * eps * (sw l * sw l)).
  { rewrite Hg. pose proof (Rle_0_sqr (swF (shift c l))) as Hq. unfold Rsqr in Hq. nra. }
  assert (Hinv : 0 < / sw l) by (apply Rinv_0_lt_compat; auto).
  replace (swFF l / sw l - swF l / sw l * (swF l / sw l)) with ((sw l * swFF l - swF l * swF l) * (/ sw l * / sw l)) by (field; lra).
  assert (Hpos : 0 < / sw l * / sw l) by nra.
  split.
  - apply Rmult_le_pos; lra.
  - apply Rle_trans with (eps * eps * (sw l * sw l) * (/ sw l * / sw l)).
    + apply Rmult_le_compat_r; lra.
    + right. field. lra.
Qed.

Theorem equality_when_constant c l :
  Forall (fun p => let '(w, f, _) := p in 0 <= w /\ f = c) l -> swF l * swF l = sw l * swFF l.
Proof.
  intros H.
  assert (H0 : Forall (fun p => let '(w, f, _) := p in 0 <= w /\ Rabs (f - c) <= 0) l).
  { eapply Forall_impl; [|exact H]. intros [[w f] f2] [Hw Hf]. split; auto. subst. rewrite Rminus_diag_eq, Rabs_R0 by reflexivity. lra. }
  assert (Hw : Forall (fun p => let '(w, _, _) := p in 0 <= w) l).
  { eapply Forall_impl; [|exact H]. intros [[w f] f2] [Hw _]. exact Hw. }
  pose proof (cauchy_schwarz l Hw) as Hcs.
  assert (Hs : Forall (fun p => let '(w, f, _) := p in 0 <= w /\ Rabs f <= 0) (shift c l)).
  { unfold shift. rewrite Forall_map. eapply Forall_impl; [|exact H0]. intros [[w f] f2] Hx. exact Hx. }
  pose proof (swFF_small 0 (shift c l) Hs) as Hsm.
  pose proof (gap_shift c l) as Hg.
  pose proof (Rle_0_sqr (swF (shift c l))) as Hq. unfold Rsqr in Hq.
  destruct (sums_nonneg l Hw) as [HA _].
  assert (swFF (shift c l) <= 0) by lra.
  nra.
Qed.
