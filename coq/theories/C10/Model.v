(* C10/Model.v — parameter name resolution of the calling interfaces and the
   selection of data points. *)
From Coq Require Import String List Bool.
Import ListNotations.
Open Scope string_scope.

Definition memb (x : string) (l : list string) : bool := existsb (String.eqb x) l.

(* a call parameter: name and whether it accepts a distribution *)
Definition par := (string * bool)%type.

(* direct_model._pop_par_weights: the names get_mesh consumes for one parameter *)
Definition accepted_for (p : par) : list string :=
  let n := fst p in
  if snd p then [n; n ++ "_pd"; n ++ "_pd_n"; n ++ "_pd_nsigma"; n ++ "_pd_type"] else [n].
Definition accepted (table : list par) : list string := flat_map accepted_for table.

(* get_mesh: pop what each parameter accepts, refuse the call if anything is left *)
Definition leftover (table : list par) (keys : list string) : list string :=
  filter (fun k => negb (memb k (accepted table))) keys.
Definition get_mesh_ok (table : list par) (keys : list string) : bool :=
  match leftover table keys with [] => true | _ => false end.

(* SasviewModel.setParam: 'name' must be a parameter, 'name.field' a field of a dispersible parameter *)
Definition fields : list string := ["npts"; "nsigmas"; "width"; "type"].
Definition setparam_ok (table : list par) (name : string) (field : option string) : bool :=
  match field with
  | None => existsb (fun p => String.eqb (fst p) name) table
  | Some f => existsb (fun p => String.eqb (fst p) name && snd p) table && memb f fields
  end.

(* the two naming schemes for dispersity settings *)
Definition to_underscore (field : string) : string :=
  if String.eqb field "width" then "_pd" else if String.eqb field "npts" then "_pd_n"
  else if String.eqb field "nsigmas" then "_pd_nsigma" else if String.eqb field "type" then "_pd_type" else "".
Definition to_field (suffix : string) : string :=
  if String.eqb suffix "_pd" then "width" else if String.eqb suffix "_pd_n" then "npts"
  else if String.eqb suffix "_pd_nsigma" then "nsigmas" else if String.eqb suffix "_pd_type" then "type" else "".

(* DataMixin._interpret_data: the points for which theory is returned *)
Section Select.
  Variable A : Type.
  Variable keep : A -> bool.      (* inside [qmin,qmax], not masked, data not NaN *)
  Definition select (l : list A) : list A := filter keep l.
End Select.
