(* C10/Select.v — which 1-D data points get a theory value (DataMixin._interpret_data): those inside [qmin, qmax] that
   the mask (when the data has one) does not exclude and whose intensity (when the data has intensities) is a number -
   each condition on its own, none suspended by another. *)
From Coq Require Import List Bool.
Import ListNotations.
From SM Require Import Base.Num C10.Model.

Definition keep1d_model {T : Type} (O : Ops T) (qmin qmax x : T) (has_mask masked has_y ynan : bool) : bool :=
  leb O qmin x && leb O x qmax && (negb has_mask || negb masked) && (negb has_y || negb ynan).

(* a point with a NaN intensity is never selected, whatever the mask says; a masked point never, whatever its intensity *)
Lemma nan_never_selected {T} (O : Ops T) qmin qmax x has_mask masked :
  keep1d_model O qmin qmax x has_mask masked true true = false.
Proof. unfold keep1d_model. cbn. now rewrite andb_false_r. Qed.
Lemma masked_never_selected {T} (O : Ops T) qmin qmax x has_y ynan :
  keep1d_model O qmin qmax x true true has_y ynan = false.
Proof. unfold keep1d_model. cbn. now rewrite andb_false_r. Qed.
(* a point inside the range that is neither masked nor NaN is selected *)
Lemma good_point_selected {T} (O : Ops T) qmin qmax x has_mask has_y :
  leb O qmin x = true -> leb O x qmax = true -> keep1d_model O qmin qmax x has_mask false has_y false = true.
Proof. intros H1 H2. unfold keep1d_model. rewrite H1, H2. destruct has_mask, has_y; reflexivity. Qed.
