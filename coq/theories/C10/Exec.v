(* C10/Exec.v — executable checkers used by the correspondence harness. *)
From Coq Require Import String List Bool PrimFloat.
Import ListNotations.
From SM Require Import C10.Model.

(* ---- name resolution: indices of the cases where the implementation's
        accept/refuse decision differs from the model's ---- *)
Record NameCase := MkName { nc_table : list par; nc_keys : list string; nc_impl_ok : bool }.
Record SetCase := MkSet { sc_table : list par; sc_name : string; sc_field : option string; sc_impl_ok : bool }.

Fixpoint bad_idx {A} (f : A -> bool) (l : list A) (i : nat) : list nat :=
  match l with [] => [] | x :: t => if f x then bad_idx f t (S i) else i :: bad_idx f t (S i) end.

Definition check_names (cs : list NameCase) : list nat :=
  bad_idx (fun c => Bool.eqb (get_mesh_ok (nc_table c) (nc_keys c)) (nc_impl_ok c)) cs 0.
Definition check_sets (cs : list SetCase) : list nat :=
  bad_idx (fun c => Bool.eqb (setparam_ok (sc_table c) (sc_name c) (sc_field c)) (sc_impl_ok c)) cs 0.

(* ---- selection of data points ---- *)
Record pt := MkPt { px : float; py : float; pmask : bool; pdata : option float }.
Definition notnan (d : option float) : bool := match d with None => true | Some y => PrimFloat.eqb y y end.
(* 1-D: x within [qmin,qmax], mask 0, data not NaN *)
Definition keep1d (qmin qmax : float) (p : pt) : bool :=
  PrimFloat.leb qmin (px p) && PrimFloat.leb (px p) qmax && negb (pmask p) && notnan (pdata p).
(* 2-D: |q| within [qmin,qmax] *)
Definition keep2d (qmin qmax : float) (p : pt) : bool :=
  let q := PrimFloat.sqrt (px p * px p + py p * py p)%float in
  negb (pmask p) && PrimFloat.leb qmin q && PrimFloat.leb q qmax && notnan (pdata p).

Fixpoint number {A} (l : list A) (i : nat) : list (nat * A) :=
  match l with [] => [] | x :: t => (i, x) :: number t (S i) end.
Definition selected (keep : pt -> bool) (l : list pt) : list nat :=
  map fst (select _ (fun ip => keep (snd ip)) (number l 0)).

Record SelCase := MkSel { sel_2d : bool; sel_qmin : float; sel_qmax : float; sel_pts : list pt; sel_impl : list nat }.
Definition eq_natlist (a b : list nat) : bool := if list_eq_dec PeanoNat.Nat.eq_dec a b then true else false.
Definition check_sel (cs : list SelCase) : list nat :=
  bad_idx (fun c => eq_natlist (selected ((if sel_2d c then keep2d else keep1d) (sel_qmin c) (sel_qmax c)) (sel_pts c)) (sel_impl c)) cs 0.
