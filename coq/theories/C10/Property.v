(* C10/Property.v — the property theorems and nothing else. *)
From Coq Require Import String List Bool.
Import ListNotations.
From SM Require Import C10.Model C10.Proofs Gen.C10_code.
Open Scope string_scope.

Theorem C10_unknown_refused_direct : forall table keys k,
  In k keys -> ~ In k (accepted table) -> get_mesh_ok table keys = false.
Proof. exact unknown_refused_direct. Qed.
Print Assumptions C10_unknown_refused_direct.

Theorem C10_known_accepted_direct : forall table keys,
  Forall (fun k => In k (accepted table)) keys -> get_mesh_ok table keys = true.
Proof. exact known_accepted_direct. Qed.
Print Assumptions C10_known_accepted_direct.

Theorem C10_suffix_on_plain_refused : forall n suf,
  suf <> "" -> accepted_for (n, false) = [n] /\ ~ In (n ++ suf) (accepted_for (n, false)).
Proof. exact suffix_on_plain_refused. Qed.
Print Assumptions C10_suffix_on_plain_refused.

Theorem C10_unknown_refused_sasview : forall table name field,
  (forall p, In p table -> fst p <> name) -> setparam_ok table name field = false.
Proof. exact unknown_refused_sasview. Qed.
Print Assumptions C10_unknown_refused_sasview.

Theorem C10_naming_roundtrip : forall f, In f fields -> to_field (to_underscore f) = f.
Proof. exact naming_roundtrip. Qed.
Print Assumptions C10_naming_roundtrip.

Theorem C10_select_is_filter : forall (A : Type) (keep : A -> bool) (l : list A),
  sublist (select A keep l) l /\ (forall x, In x (select A keep l) <-> In x l /\ keep x = true).
Proof. exact @select_is_filter. Qed.
Print Assumptions C10_select_is_filter.

(* the keys direct_model._pop_par_weights consumes, translated from the text of direct_model.py on every run
   (value and, for dispersible parameters, the four dispersity suffixes; get_mesh pops them for every call parameter
   from a copy of the caller's dictionary and raises if anything is left), are the model's [accepted] as a set: the
   refusal theorems above speak about the code *)
Theorem C10_code_accepted : forall table k,
  memb k (flat_map code_accepted_for table) = memb k (accepted table).
Proof. exact code_accepted_same. Qed.
Print Assumptions C10_code_accepted.

(* ---- the selection of 1-D data points, as WRITTEN in DataMixin._interpret_data (Gen/C10_select.v: the statements that
   build `index`, evaluated symbolically for each combination of "the data has a mask" / "has intensities") is the model's:
   inside [qmin, qmax], not masked, not NaN - each condition on its own *)
From SM Require Import Base.Num C10.Select Gen.C10_select.
Theorem C10_code_selection : selection_translated = true -> forall (T : Type) (O : Ops T) qmin qmax x has_mask masked has_y ynan,
  code_keep1d O qmin qmax x has_mask masked has_y ynan = keep1d_model O qmin qmax x has_mask masked has_y ynan.
Proof.
  intros Ht. try solve [vm_compute in Ht; discriminate Ht].
  all: intros T O qmin qmax x has_mask masked has_y ynan; unfold code_keep1d, keep1d_model.
  all: destruct has_mask, masked, has_y, ynan; destruct (leb O qmin x); destruct (leb O x qmax); reflexivity.
Qed.
Print Assumptions C10_code_selection.
Theorem C10_nan_never_selected : forall (T : Type) (O : Ops T) qmin qmax x has_mask masked,
  keep1d_model O qmin qmax x has_mask masked true true = false.
Proof. exact @nan_never_selected. Qed.
Print Assumptions C10_nan_never_selected.
Theorem C10_masked_never_selected : forall (T : Type) (O : Ops T) qmin qmax x has_y ynan,
  keep1d_model O qmin qmax x true true has_y ynan = false.
Proof. exact @masked_never_selected. Qed.
Print Assumptions C10_masked_never_selected.
