From Coq Require Import String List Bool Lia.
Import ListNotations.
From SM Require Import C10.Model.
Open Scope string_scope.

Lemma memb_In x l : memb x l = true <-> In x l.
Proof.
  unfold memb. rewrite existsb_exists. split.
  - intros [y [Hy E]]. apply String.eqb_eq in E. subst; auto.
  - intros H. exists x. split; auto. apply String.eqb_refl.
Qed.

(* a key that is neither a parameter name nor a dispersity suffix of a
   dispersible parameter makes the call fail - whatever else is in the call *)
Theorem unknown_refused_direct table keys k :
  In k keys -> ~ In k (accepted table) -> get_mesh_ok table keys = false.
Proof.
  intros Hk Hn. unfold get_mesh_ok.
  assert (Hin : In k (leftover table keys)).
  { unfold leftover. apply filter_In. split; auto. apply negb_true_iff.
    destruct (memb k (accepted table)) eqn:E; auto. apply memb_In in E. contradiction. }
  destruct (leftover table keys); [contradiction | reflexivity].
Qed.

(* ... and a call using only accepted names is not refused for its names *)
Theorem known_accepted_direct table keys :
  Forall (fun k => In k (accepted table)) keys -> get_mesh_ok table keys = true.
Proof.
  intros H. unfold get_mesh_ok, leftover.
  assert (E : filter (fun k => negb (memb k (accepted table))) keys = []).
  { induction H as [|k l Hk _ IH]; simpl; auto.
    replace (memb k (accepted table)) with true by (symmetry; apply memb_In; auto). simpl. exact IH. }
  rewrite E. reflexivity.
Qed.

(* a dispersity suffix on a non-dispersible parameter is not accepted *)
Theorem suffix_on_plain_refused n suf :
  suf <> "" -> accepted_for (n, false) = [n] /\ ~ In (n ++ suf) (accepted_for (n, false)).
Proof.
  intros Hs. split; [reflexivity|]. simpl. intros [H|[]].
  assert (String.length n = String.length (n ++ suf)) by (rewrite <- H; reflexivity).
  assert (Hl : forall a b, String.length (a ++ b) = String.length a + String.length b).
  { induction a; simpl; intros; auto. }
  rewrite Hl in H0. destruct suf; [congruence|simpl in H0; lia].
Qed.

Lemma existsb_none {A} (f : A -> bool) l : (forall p, In p l -> f p = false) -> existsb f l = false.
Proof.
  induction l as [|p t IH]; simpl; intros H; auto.
  rewrite H by (left; auto). simpl. apply IH. intros q Hq. apply H. right; auto.
Qed.

Theorem unknown_refused_sasview table name field :
  (forall p, In p table -> fst p <> name) -> setparam_ok table name field = false.
Proof.
  intros H. unfold setparam_ok.
  destruct field.
  - rewrite existsb_none; [reflexivity|]. intros p Hp.
    rewrite (proj2 (String.eqb_neq (fst p) name)) by (apply H; auto). reflexivity.
  - apply existsb_none. intros p Hp. apply String.eqb_neq. apply H; auto.
Qed.

(* the two naming schemes correspond one to one *)
Theorem naming_roundtrip f : In f fields -> to_field (to_underscore f) = f.
Proof. unfold fields. simpl. intros [<-|[<-|[<-|[<-|[]]]]]; reflexivity. Qed.

(* selection: exactly the kept points, in the original order *)
Inductive sublist {A} : list A -> list A -> Prop :=
| sl_nil : sublist [] []
| sl_skip x l l' : sublist l l' -> sublist l (x :: l')
| sl_keep x l l' : sublist l l' -> sublist (x :: l) (x :: l').

Theorem select_is_filter {A} (keep : A -> bool) (l : list A) :
  sublist (select A keep l) l /\ (forall x, In x (select A keep l) <-> In x l /\ keep x = true).
Proof.
  split; [|intros x; apply filter_In].
  unfold select. induction l as [|x l IH]; simpl; [constructor|].
  destruct (keep x); [apply sl_keep | apply sl_skip]; auto.
Qed.

(* ---- the keys as they are WRITTEN in direct_model.py (Gen/C10_code.v) are the model's, as sets ---- *)
From SM Require Import Gen.C10_code.
Lemma code_accepted_for_same (p : par) k : memb k (code_accepted_for p) = memb k (accepted_for p).
Proof.
  destruct p as [n d]. unfold code_accepted_for, accepted_for, memb. cbn [fst snd].
  destruct d; cbn [existsb];
    repeat match goal with |- context [String.eqb k ?x] => destruct (String.eqb k x) end; reflexivity.
Qed.
Lemma memb_flat_map (f g : par -> list string) table k :
  (forall p, memb k (f p) = memb k (g p)) -> memb k (flat_map f table) = memb k (flat_map g table).
Proof.
  intros H. induction table as [|p r IH]; [reflexivity|].
  unfold memb in *. cbn [flat_map]. rewrite !existsb_app. rewrite H, IH. reflexivity.
Qed.
Theorem code_accepted_same table k : memb k (flat_map code_accepted_for table) = memb k (accepted table).
Proof. unfold accepted. apply memb_flat_map. intros p. apply code_accepted_for_same. Qed.
