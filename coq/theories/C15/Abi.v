(* C15/Abi.v - kinds of the by-value / by-reference arguments of a compiled kernel.  [KReal p] is the real type of
   precision p: float, double or long double - what conv_double (C15.Model) makes of the word `double`. *)
From SM Require Import C15.Model.
Inductive ckind := KInt32 | KPtr | KReal (p : prec).
