(* C15/Model.v — generate.convert_type as three left-to-right scanners over
   character lists, reproducing Python's leftmost, non-overlapping re.sub for
   the three patterns of generate.py (ASCII input):
     _fix_tgmath_int : f(<int>)  ->  f(<int>.)   for the listed math functions
     _convert_type   : double    ->  float | long double | half   (after the C15
                       repair the delimiters are look-arounds, not consumed)
     _tag_float      : decimal floating literal -> literal + suffix
   Recursion is on explicit fuel (= input length); every step consumes >= 1
   character, so fuel never runs out (proved in Proofs.v). *)
From Coq Require Import List Ascii Bool Arith.
Import ListNotations.
Open Scope char_scope.

Definition str := list ascii.

Definition nat_of (c : ascii) : nat := nat_of_ascii c.
Definition between (lo hi : nat) (c : ascii) : bool := Nat.leb lo (nat_of c) && Nat.leb (nat_of c) hi.
Definition is_digit (c : ascii) : bool := between 48%nat 57%nat c.
Definition is_nz (c : ascii) : bool := between 49%nat 57%nat c.
Definition is_alpha (c : ascii) : bool := between 65%nat 90%nat c || between 97%nat 122%nat c.
Definition is_word (c : ascii) : bool := is_alpha c || is_digit c || Ascii.eqb c "_".
Definition is_space (c : ascii) : bool := (* Python \s on ASCII: space \t \n \v \f \r and FS..US *)
  Ascii.eqb c " " || between 9%nat 13%nat c || between 28%nat 31%nat c.

Fixpoint span (p : ascii -> bool) (s : str) : str * str :=
  match s with
  | c :: r => if p c then let (a, b) := span p r in (c :: a, b) else ([], s)
  | [] => ([], [])
  end.

(* negative lookahead for a word character *)
Definition boundary (s : str) : bool := match s with [] => true | c :: _ => negb (is_word c) end.

Fixpoint last_word (m : str) (dflt : bool) : bool :=
  match m with [] => dflt | [c] => is_word c | _ :: r => last_word r dflt end.

(* ------------------------------------------------------------------ floats *)
(* e or E, optional sign, digits *)
Definition exponent (s : str) : option (str * str) :=
  match s with
  | e :: r =>
      if Ascii.eqb e "e" || Ascii.eqb e "E" then
        let '(sg, r1) := match r with
                         | c :: r' => if Ascii.eqb c "+" || Ascii.eqb c "-" then ([c], r') else ([], r)
                         | [] => ([], r)
                         end in
        let (ds, r2) := span is_digit r1 in
        match ds with [] => None | _ => Some (e :: sg ++ ds, r2) end
      else None
  | [] => None
  end.

(* FLOAT_RE at the current position (the look-behind is checked by the caller):
   returns (matched text, rest) *)
Definition match_float (s : str) : option (str * str) :=
  match s with
  | c :: r =>
      if is_digit c then
        let '(ip, r1) := if Ascii.eqb c "0" then ([c], r)
                         else let (ds, r') := span is_digit r in (c :: ds, r') in
        match r1 with
        | d :: r2 =>
            if Ascii.eqb d "." then
              let (fs, r3) := span is_digit r2 in
              if boundary r3 then Some (ip ++ d :: fs, r3)
              else match exponent r3 with
                   | Some (ex, r4) => if boundary r4 then Some (ip ++ d :: fs ++ ex, r4) else None
                   | None => None
                   end
            else match exponent r1 with
                 | Some (ex, r4) => if boundary r4 then Some (ip ++ ex, r4) else None
                 | None => None
                 end
        | [] => None
        end
      else if Ascii.eqb c "." then
        let (fs, r1) := span is_digit r in
        match fs with
        | [] => None
        | _ => match exponent r1 with
               | Some (ex, r2) => if boundary r2 then Some (c :: fs ++ ex, r2) else None
               | None => if boundary r1 then Some (c :: fs, r1) else None
               end
        end
      else None
  | [] => None
  end.

Fixpoint tag_go (fuel : nat) (flag : str) (prev_word : bool) (s : str) : str :=
  match fuel with
  | 0 => s
  | S f =>
      match s with
      | [] => []
      | c :: r =>
          match (if prev_word then None else match_float s) with
          | Some (m, rest) => m ++ flag ++ tag_go (f - (length m - 1))%nat flag (last_word m false) rest
          | None => c :: tag_go f flag (is_word c) r
          end
      end
  end.
Definition tag_float (flag : str) (s : str) : str := tag_go (length s) flag false s.

(* ------------------------------------------------------------------ double *)
Definition kw_double : str := ["d"; "o"; "u"; "b"; "l"; "e"].
Fixpoint strip_prefix (p s : str) : option str :=
  match p, s with
  | [], _ => Some s
  | a :: p', b :: s' => if Ascii.eqb a b then strip_prefix p' s' else None
  | _, [] => None
  end.

(* optional 2, 4, 8 or 16 then a non-word lookahead: returns (suffix, rest) *)
Definition vec_suffix (s : str) : option (str * str) :=
  match s with
  | c :: r =>
      if (Ascii.eqb c "2" || Ascii.eqb c "4" || Ascii.eqb c "8") && boundary r then Some ([c], r)
      else match s with
           | a :: b :: r' => if Ascii.eqb a "1" && Ascii.eqb b "6" && boundary r' then Some ([a; b], r')
                             else if boundary s then Some ([], s) else None
           | _ => if boundary s then Some ([], s) else None
           end
  | [] => Some ([], [])
  end.

(* optional c, double, optional vector size, non-word lookahead: (prefix, suffix, consumed length, rest) *)
Definition try_double (pre : str) (s0 : str) : option (str * str * nat * str) :=
  match strip_prefix kw_double s0 with
  | Some r => match vec_suffix r with
              | Some (suf, rest) => Some (pre, suf, (length pre + 6 + length suf)%nat, rest)
              | None => None
              end
  | None => None
  end.
Definition match_double (s : str) : option (str * str * nat * str) :=
  match s with
  | c :: r => if Ascii.eqb c "c" then (match try_double [c] r with Some x => Some x | None => try_double [] s end)
              else try_double [] s
  | [] => None
  end.

Fixpoint dbl_go (fuel : nat) (ty : str) (prev_word : bool) (s : str) : str :=
  match fuel with
  | 0 => s
  | S f =>
      match s with
      | [] => []
      | c :: r =>
          match (if prev_word then None else match_double s) with
          | Some (pre, suf, n, rest) => pre ++ ty ++ suf ++ dbl_go (f - (n - 1))%nat ty true rest
          | None => c :: dbl_go f ty (is_word c) r
          end
      end
  end.
Definition conv_double (ty : str) (s : str) : str := dbl_go (length s) ty false s.

(* ------------------------------------------------------------------ tgmath *)
Definition s_ (l : list ascii) : str := l.
Definition tg_names : list str :=
  [ ["s";"i";"n"]; ["c";"o";"s"]; ["t";"a";"n"]; ["a";"s";"i";"n"]; ["a";"c";"o";"s"]; ["a";"t";"a";"n"];
    ["s";"i";"n";"h"]; ["c";"o";"s";"h"]; ["t";"a";"n";"h"]; ["a";"s";"i";"n";"h"]; ["a";"c";"o";"s";"h"]; ["a";"t";"a";"n";"h"];
    ["a";"t";"a";"n";"2"]; ["e";"r";"f"]; ["e";"r";"f";"c"]; ["t";"g";"a";"m";"m";"a"];
    ["e";"x";"p"]; ["e";"x";"p";"2"]; ["e";"x";"p";"1";"0"]; ["e";"x";"p";"m";"1"];
    ["l";"o";"g"]; ["l";"o";"g";"2"]; ["l";"o";"g";"1";"0"]; ["l";"o";"g";"1";"p"];
    ["p";"o";"w"]; ["p";"o";"w";"n"]; ["p";"o";"w";"r"]; ["s";"q";"r";"t"]; ["r";"s";"q";"r";"t"]; ["r";"o";"o";"t";"n"];
    ["f";"a";"b";"s"]; ["f";"m";"a";"x"]; ["f";"m";"i";"n"] ].

Fixpoint str_eqb (a b : str) : bool :=
  match a, b with
  | [], [] => true
  | x :: a', y :: b' => Ascii.eqb x y && str_eqb a' b'
  | _, _ => false
  end.

(* name, spaces, open parenthesis, spaces, optional sign, integer, then lookahead spaces and comma or close:
   returns (text up to and including the integer, rest) *)
Definition opt_sign (s : str) : str * str :=
  match s with
  | c :: r' => if Ascii.eqb c "+" || Ascii.eqb c "-" then ([c], r') else ([], s)
  | [] => ([], s)
  end.
(* 0 | [1-9][0-9]* ; empty = no integer here *)
Definition int_lit (s : str) : str * str :=
  match s with
  | d :: r => if Ascii.eqb d "0" then ([d], r)
              else if is_nz d then let (ds, r') := span is_digit r in (d :: ds, r')
              else ([], s)
  | [] => ([], s)
  end.
Definition match_tgmath (s : str) : option (str * str) :=
  let (w, r0) := span is_word s in
  if existsb (str_eqb w) tg_names then
    let (sp1, r1) := span is_space r0 in
    match r1 with
    | p :: r2 =>
        if Ascii.eqb p "(" then
          let (sp2, r3) := span is_space r2 in
          let (sg, r4) := opt_sign r3 in
          let (ip, r6) := int_lit r4 in
          match ip with
          | [] => None
          | _ => let (_, r7) := span is_space r6 in
                 match r7 with
                 | e :: _ => if Ascii.eqb e "," || Ascii.eqb e ")"
                             then Some (w ++ sp1 ++ p :: sp2 ++ sg ++ ip, r6) else None
                 | [] => None
                 end
          end
        else None
    | [] => None
    end
  else None.

Fixpoint tg_go (fuel : nat) (prev_word : bool) (s : str) : str :=
  match fuel with
  | 0 => s
  | S f =>
      match s with
      | [] => []
      | c :: r =>
          match (if prev_word then None else match_tgmath s) with
          | Some (m, rest) => m ++ "." :: tg_go (f - (length m - 1))%nat (last_word m false) rest
          | None => c :: tg_go f (is_word c) r
          end
      end
  end.
Definition fix_tgmath (s : str) : str := tg_go (length s) false s.

(* ------------------------------------------------------------------ convert_type *)
Inductive prec := P32 | P64 | P128.
Definition ty_float : str := ["f";"l";"o";"a";"t"].
Definition ty_ldouble : str := ["l";"o";"n";"g";" ";"d";"o";"u";"b";"l";"e"].
Definition body (p : prec) (s : str) : str :=
  let s1 := fix_tgmath s in
  match p with
  | P32 => tag_float ["f"] (conv_double ty_float s1)
  | P64 => s1
  | P128 => tag_float ["L"] (conv_double ty_ldouble s1)
  end.
