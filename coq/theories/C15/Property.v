(* C15/Property.v — the property theorems and nothing else.  All statements
   are for ALL input strings; no lexer is assumed. *)
From Coq Require Import List Ascii.
Import ListNotations.
From SM Require Import C15.Model C15.Proofs.

(* What is tagged is a decimal floating literal of the grammar, immediately
   followed by a non-word character or the end of the input. *)
Theorem C15_match_float_sound : forall s m rest,
  match_float s = Some (m, rest) -> FloatLit m /\ boundary rest = true /\ s = m ++ rest.
Proof. exact match_float_sound. Qed.
Print Assumptions C15_match_float_sound.

(* The output of the tagger is the input with the suffix inserted, only after
   such literals, each starting right after a non-word character: every other
   character of the source (identifiers, integers, strings, operators...) is
   unchanged and in place. *)
Theorem C15_tag_float_tagged : forall flag s, Tagged flag false s (tag_float flag s).
Proof. exact tag_float_tagged. Qed.
Print Assumptions C15_tag_float_tagged.

Theorem C15_tag_float_insert_only : forall flag s, InsertOnly flag s (tag_float flag s).
Proof. exact tag_float_insert_only. Qed.
Print Assumptions C15_tag_float_insert_only.

(* The keyword conversion only replaces the letters "double" by the type name,
   only where [c]double[2|4|8|16] is delimited by non-word characters on both
   sides; prefix, vector size and everything else are kept. *)
Theorem C15_conv_double_retyped : forall ty s, Retyped ty false s (conv_double ty s).
Proof. exact conv_double_retyped. Qed.
Print Assumptions C15_conv_double_retyped.

(* Integer promotion only inserts decimal points. *)
Theorem C15_fix_tgmath_insert_only : forall s, InsertOnly ["."%char] s (fix_tgmath s).
Proof. exact fix_tgmath_insert_only. Qed.
Print Assumptions C15_fix_tgmath_insert_only.

(* A double-precision request performs the integer promotion and nothing else. *)
Theorem C15_double_untouched : forall s, body P64 s = fix_tgmath s.
Proof. exact body_P64. Qed.
Print Assumptions C15_double_untouched.
