(* C15/Property.v — the property theorems and nothing else.  All statements
   are for ALL input strings; no lexer is assumed. *)
From Coq Require Import List Ascii.
Import ListNotations.
From SM Require Import C15.Model C15.Proofs C15.Complete.

(* What is tagged is a decimal floating literal of the grammar, immediately
   followed by a non-word character or the end of the input. *)
Theorem C15_match_float_sound : forall s m rest,
  match_float s = Some (m, rest) -> FloatLit m /\ boundary rest = true /\ s = m ++ rest.
Proof. exact match_float_sound. Qed.
Print Assumptions C15_match_float_sound.

(* The output of the tagger is the input with the suffix inserted, only after
   such literals, each starting right after a non-word character: every other
   character of the source (identifiers, integers, strings, operators...) is
   unchanged and in place. *)
Theorem C15_tag_float_tagged : forall flag s, Tagged flag false s (tag_float flag s).
Proof. exact tag_float_tagged. Qed.
Print Assumptions C15_tag_float_tagged.

Theorem C15_tag_float_insert_only : forall flag s, InsertOnly flag s (tag_float flag s).
Proof. exact tag_float_insert_only. Qed.
Print Assumptions C15_tag_float_insert_only.

(* The keyword conversion only replaces the letters "double" by the type name,
   only where [c]double[2|4|8|16] is delimited by non-word characters on both
   sides; prefix, vector size and everything else are kept. *)
Theorem C15_conv_double_retyped : forall ty s, Retyped ty false s (conv_double ty s).
Proof. exact conv_double_retyped. Qed.
Print Assumptions C15_conv_double_retyped.

(* Integer promotion only inserts decimal points. *)
Theorem C15_fix_tgmath_insert_only : forall s, InsertOnly ["."%char] s (fix_tgmath s).
Proof. exact fix_tgmath_insert_only. Qed.
Print Assumptions C15_fix_tgmath_insert_only.

(* A double-precision request performs the integer promotion and nothing else. *)
Theorem C15_double_untouched : forall s, body P64 s = fix_tgmath s.
Proof. exact body_P64. Qed.
Print Assumptions C15_double_untouched.

(* ---- completeness: EVERY floating literal is given the requested precision ----
   The matcher recognises every literal of the grammar that is followed by a non-word character or the end of the
   input (with C15_match_float_sound: exactly those) ... *)
Theorem C15_match_float_complete : forall m t, FloatLit m -> boundary t = true -> match_float (m ++ t) = Some (m, t).
Proof. exact match_float_complete. Qed.
Print Assumptions C15_match_float_complete.

(* ... and for every stream of tokens - floating literals, integers, words (identifiers, keywords), punctuation
   characters incl. white space - in which a literal follows punctuation or starts the text and literals and
   integers are followed by punctuation or end the text, tagging the rendered text yields the same stream with
   every literal carrying the suffix and every other token unchanged. *)
Theorem C15_tag_float_tokens : forall flag ts, Forall wf_tok ts -> sep true ts = true ->
  tag_float flag (render ts) = render (map (tag_tok flag) ts).
Proof. exact tag_float_tokens. Qed.
Print Assumptions C15_tag_float_tokens.

(* the premises are met by ordinary C text:  x1 = 1.5e3*(y + .25) - 7;  *)
Example C15_tokens_example :
  let ts := [Word ["x";"1"]; Punct " "; Punct "="; Punct " "; Lit ["1";".";"5";"e";"3"]; Punct "*"; Punct "(";
             Word ["y"]; Punct " "; Punct "+"; Punct " "; Lit [".";"2";"5"]; Punct ")"; Punct " "; Punct "-"; Punct " ";
             Int ["7"]; Punct ";"]%char in
  sep true ts = true /\
  tag_float ["f"%char] (render ts) =
  ["x";"1";" ";"=";" ";"1";".";"5";"e";"3";"f";"*";"(";"y";" ";"+";" ";".";"2";"5";"f";")";" ";"-";" ";"7";";"]%char.
Proof. vm_compute. split; reflexivity. Qed.

(* "the result does not depend on the precision beyond rounding" presupposes that the caller and the converted
   source agree on the TYPE of what is passed by value (the weight cutoff): the parameter list of the kernel entry
   point (kernel_iq.c, every `double` becoming the real type of the precision) and the ctypes declaration of
   DllModel._load_dll, both read from the current text (Gen/C15_abi.v), agree argument by argument at every precision *)
From SM Require Import C15.Abi Gen.C15_abi.
Theorem C15_code_abi : abi_translated = true -> forall p, code_argtypes p = code_kernel_params p.
Proof. intros Ht. try solve [vm_compute in Ht; discriminate Ht]. all: intros p; destruct p; reflexivity. Qed.
Print Assumptions C15_code_abi.
Theorem C15_code_cutoff_by_value : abi_translated = true -> forall p, In (KReal p) (code_kernel_params p) /\ forall q, In (KReal q) (code_argtypes p) -> q = p.
Proof.
  intros Ht. try solve [vm_compute in Ht; discriminate Ht].
  all: intros p; rewrite (C15_code_abi Ht); split; [destruct p; vm_compute; tauto|].
  all: intros q Hq; destruct p; vm_compute in Hq; repeat (destruct Hq as [Hq|Hq]; [try discriminate Hq; try (injection Hq as <-; reflexivity)|]); try contradiction.
Qed.
Print Assumptions C15_code_cutoff_by_value.
