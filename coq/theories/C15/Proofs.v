(* C15/Proofs.v — what the three scanners can and cannot do, for ALL strings. *)
From Coq Require Import List Ascii Bool Arith Lia.
Import ListNotations.
From SM Require Import C15.Model.
Open Scope char_scope.

Lemma span_split p s a b : span p s = (a, b) -> s = a ++ b.
Proof.
  revert a b. induction s as [|c r IH]; simpl; intros a b H.
  - inversion H; auto.
  - destruct (p c).
    + destruct (span p r) as [a' b'] eqn:E. inversion H; subst. simpl. f_equal. apply IH; auto.
    + inversion H; subst. reflexivity.
Qed.

Lemma span_all p s a b : span p s = (a, b) -> Forall (fun c => p c = true) a.
Proof.
  revert a b. induction s as [|c r IH]; simpl; intros a b H.
  - inversion H; constructor.
  - destruct (p c) eqn:Ep.
    + destruct (span p r) as [a' b'] eqn:E. inversion H; subst. constructor; auto. eapply IH; eauto.
    + inversion H; constructor.
Qed.

(* ---- the grammar of decimal floating literals the tagger recognises ---- *)
Definition digits (l : str) : Prop := Forall (fun c => is_digit c = true) l.
Inductive IntPart : str -> Prop :=
| ip_zero : IntPart ["0"]
| ip_nat c ds : is_digit c = true -> c <> "0" -> digits ds -> IntPart (c :: ds).
Inductive Exponent : str -> Prop :=
| exp_plain e ds : (e = "e" \/ e = "E") -> ds <> [] -> digits ds -> Exponent (e :: ds)
| exp_signed e sg ds : (e = "e" \/ e = "E") -> (sg = "+" \/ sg = "-") -> ds <> [] -> digits ds -> Exponent (e :: sg :: ds).
Inductive FloatLit : str -> Prop :=
| fl_point ip fs : IntPart ip -> digits fs -> FloatLit (ip ++ "." :: fs)
| fl_point_exp ip fs ex : IntPart ip -> digits fs -> Exponent ex -> FloatLit (ip ++ "." :: fs ++ ex)
| fl_exp ip ex : IntPart ip -> Exponent ex -> FloatLit (ip ++ ex)
| fl_frac fs : fs <> [] -> digits fs -> FloatLit ("." :: fs)
| fl_frac_exp fs ex : fs <> [] -> digits fs -> Exponent ex -> FloatLit ("." :: fs ++ ex).

Lemma orb_eqb_cases c a b : Ascii.eqb c a || Ascii.eqb c b = true -> c = a \/ c = b.
Proof. intros H. apply orb_true_iff in H. destruct H as [H|H]; apply Ascii.eqb_eq in H; auto. Qed.

Lemma exponent_sound s ex r : exponent s = Some (ex, r) -> Exponent ex /\ s = ex ++ r.
Proof.
  unfold exponent. destruct s as [|e t]; [discriminate|].
  destruct (Ascii.eqb e "e" || Ascii.eqb e "E") eqn:Ee; [|discriminate].
  apply orb_eqb_cases in Ee.
  destruct t as [|c t'].
  - simpl. discriminate.
  - destruct (Ascii.eqb c "+" || Ascii.eqb c "-") eqn:Es.
    + apply orb_eqb_cases in Es.
      destruct (span is_digit t') as [ds r2] eqn:Esp. destruct ds as [|d ds]; [discriminate|].
      intros H; inversion H; subst. split.
      * simpl. apply exp_signed; auto; [discriminate | eapply span_all; eauto].
      * simpl. f_equal. f_equal. apply span_split in Esp. rewrite Esp. reflexivity.
    + destruct (span is_digit (c :: t')) as [ds r2] eqn:Esp. destruct ds as [|d ds]; [discriminate|].
      intros H; inversion H; subst. split.
      * simpl. apply exp_plain; auto; [discriminate | eapply span_all; eauto].
      * simpl. f_equal. apply span_split in Esp. rewrite Esp. reflexivity.
Qed.

Lemma eqb_false_neq c d : Ascii.eqb c d = false -> c <> d.
Proof. intros H E. subst. rewrite Ascii.eqb_refl in H. discriminate. Qed.

(* soundness of the matcher: what is tagged is a floating literal of the
   grammar, immediately followed by a non-word character or the end *)
Theorem match_float_sound s m rest :
  match_float s = Some (m, rest) -> FloatLit m /\ boundary rest = true /\ s = m ++ rest.
Proof.
  unfold match_float. destruct s as [|c r]; [discriminate|].
  destruct (is_digit c) eqn:Ed.
  - (* integer part first *)
    assert (Hip : forall ip r1, (if Ascii.eqb c "0" then ([c], r) else let (ds, r') := span is_digit r in (c :: ds, r')) = (ip, r1) ->
                  IntPart ip /\ c :: r = ip ++ r1).
    { intros ip r1 H. destruct (Ascii.eqb c "0") eqn:E0.
      - apply Ascii.eqb_eq in E0. inversion H; subst. split; [constructor|reflexivity].
      - destruct (span is_digit r) as [ds r'] eqn:Esp. inversion H; subst. split.
        + apply ip_nat; auto; [apply eqb_false_neq; auto | eapply span_all; eauto].
        + simpl. f_equal. eapply span_split; eauto. }
    destruct (if Ascii.eqb c "0" then ([c], r) else let (ds, r') := span is_digit r in (c :: ds, r')) as [ip r1] eqn:Eip.
    destruct (Hip ip r1 eq_refl) as [HI Hs]. rewrite Hs. clear Hip Eip.
    destruct r1 as [|d r2]; [discriminate|].
    destruct (Ascii.eqb d ".") eqn:Edot.
    + apply Ascii.eqb_eq in Edot; subst d.
      destruct (span is_digit r2) as [fs r3] eqn:Esp.
      pose proof (span_all _ _ _ _ Esp) as Hfs. apply span_split in Esp. subst r2.
      destruct (boundary r3) eqn:Eb.
      * intros H; inversion H; subst. repeat split; auto.
        -- apply fl_point; auto.
        -- rewrite <- app_assoc. reflexivity.
      * destruct (exponent r3) as [[ex r4]|] eqn:Ex; [|discriminate].
        destruct (boundary r4) eqn:Eb4; [|discriminate].
        apply exponent_sound in Ex. destruct Ex as [Hex Hr3]. subst r3.
        intros H; inversion H; subst. repeat split; auto.
        -- apply fl_point_exp; auto.
        -- rewrite <- !app_assoc. simpl. rewrite <- app_assoc. reflexivity.
    + destruct (exponent (d :: r2)) as [[ex r4]|] eqn:Ex; [|discriminate].
      destruct (boundary r4) eqn:Eb4; [|discriminate].
      apply exponent_sound in Ex. destruct Ex as [Hex Hr3]. rewrite Hr3.
      intros H; inversion H; subst. repeat split; auto.
      * apply fl_exp; auto.
      * rewrite <- app_assoc. reflexivity.
  - destruct (Ascii.eqb c ".") eqn:Edot; [|discriminate].
    apply Ascii.eqb_eq in Edot; subst c.
    destruct (span is_digit r) as [fs r1] eqn:Esp.
    pose proof (span_all _ _ _ _ Esp) as Hfs. apply span_split in Esp. subst r.
    destruct fs as [|f0 fs]; [discriminate|].
    destruct (exponent r1) as [[ex r2]|] eqn:Ex.
    + destruct (boundary r2) eqn:Eb; [|discriminate].
      apply exponent_sound in Ex. destruct Ex as [Hex Hr]. subst r1.
      intros H; inversion H; subst. repeat split; auto.
      * apply (fl_frac_exp (f0 :: fs)); auto. discriminate.
      * simpl. rewrite <- app_assoc. reflexivity.
    + destruct (boundary r1) eqn:Eb; [|discriminate].
      intros H; inversion H; subst. repeat split; auto.
      apply (fl_frac (f0 :: fs)); auto. discriminate.
Qed.

Lemma intpart_nonempty ip : IntPart ip -> ip <> [].
Proof. intros H; inversion H; discriminate. Qed.
Lemma floatlit_nonempty m : FloatLit m -> m <> [].
Proof.
  intros H. inversion H as [ip fs Hi|ip fs ex Hi|ip ex Hi| |]; subst;
    try (apply intpart_nonempty in Hi; destruct ip; [congruence|discriminate]); discriminate.
Qed.

(* ---- the tagger only inserts the suffix, only after such literals, and only
        where the literal starts after a non-word character ---- *)
Inductive Tagged (flag : str) : bool -> str -> str -> Prop :=
| tg_nil pw : Tagged flag pw [] []
| tg_keep pw c s o : Tagged flag (is_word c) s o -> Tagged flag pw (c :: s) (c :: o)
| tg_lit m rest o : FloatLit m -> boundary rest = true ->
                    Tagged flag (last_word m false) rest o -> Tagged flag false (m ++ rest) (m ++ flag ++ o).

Lemma tag_go_tagged flag : forall fuel pw s, length s <= fuel -> Tagged flag pw s (tag_go fuel flag pw s).
Proof.
  induction fuel as [fuel IH] using lt_wf_ind. intros pw s Hlen.
  destruct fuel as [|f].
  - destruct s; simpl in *; [constructor|lia].
  - destruct s as [|c r]; [constructor|].
    cbn [tag_go]. destruct pw.
    + apply tg_keep. apply IH; simpl in *; lia.
    + destruct (match_float (c :: r)) as [[m rest]|] eqn:Em.
      * apply match_float_sound in Em. destruct Em as [Hl [Hb Hs]]. rewrite Hs.
        assert (Hm : 1 <= length m) by (pose proof (floatlit_nonempty m Hl); destruct m; [congruence|simpl; lia]).
        assert (length (c :: r) = length m + length rest) by (rewrite Hs, app_length; reflexivity).
        apply tg_lit; auto. apply IH; simpl in *; lia.
      * apply tg_keep. apply IH; simpl in *; lia.
Qed.

Theorem tag_float_tagged flag s : Tagged flag false s (tag_float flag s).
Proof. unfold tag_float. apply tag_go_tagged. lia. Qed.

(* erasing the inserted suffixes gives back the input: every other character is unchanged *)
Inductive InsertOnly (flag : str) : str -> str -> Prop :=
| io_nil : InsertOnly flag [] []
| io_keep c s o : InsertOnly flag s o -> InsertOnly flag (c :: s) (c :: o)
| io_ins s o : InsertOnly flag s o -> InsertOnly flag s (flag ++ o).

Lemma insert_only_app flag m s o : InsertOnly flag s o -> InsertOnly flag (m ++ s) (m ++ o).
Proof. induction m; simpl; auto. intros. apply io_keep. auto. Qed.

Lemma tagged_insert_only flag pw s o : Tagged flag pw s o -> InsertOnly flag s o.
Proof.
  induction 1.
  - constructor.
  - apply io_keep; auto.
  - apply insert_only_app. apply io_ins. auto.
Qed.

Theorem tag_float_insert_only flag s : InsertOnly flag s (tag_float flag s).
Proof. eapply tagged_insert_only. apply tag_float_tagged. Qed.

(* ---- double keyword ---- *)
Lemma strip_prefix_sound p : forall s r, strip_prefix p s = Some r -> s = p ++ r.
Proof.
  induction p as [|a p IH]; simpl; intros s r H.
  - inversion H; auto.
  - destruct s as [|b s']; [discriminate|]. destruct (Ascii.eqb a b) eqn:E; [|discriminate].
    apply Ascii.eqb_eq in E; subst. simpl. f_equal. auto.
Qed.

Definition VecSuffix (suf : str) : Prop := suf = [] \/ suf = ["2"] \/ suf = ["4"] \/ suf = ["8"] \/ suf = ["1"; "6"].

Lemma vec_suffix_sound s suf rest : vec_suffix s = Some (suf, rest) ->
  VecSuffix suf /\ boundary rest = true /\ s = suf ++ rest.
Proof.
  unfold vec_suffix, VecSuffix. destruct s as [|c r].
  - intros H; inversion H; subst. auto.
  - destruct ((Ascii.eqb c "2" || Ascii.eqb c "4" || Ascii.eqb c "8") && boundary r) eqn:E1.
    + apply andb_true_iff in E1. destruct E1 as [Ec Eb].
      intros H; inversion H; subst. repeat split; auto.
      apply orb_true_iff in Ec. destruct Ec as [Ec|Ec].
      * apply orb_eqb_cases in Ec. destruct Ec; subst; auto.
      * apply Ascii.eqb_eq in Ec; subst; auto 6.
    + destruct r as [|b r'].
      * destruct (boundary [c]) eqn:Eb; [|discriminate]. intros H; inversion H; subst. auto.
      * destruct (Ascii.eqb c "1" && Ascii.eqb b "6" && boundary r') eqn:E2.
        -- apply andb_true_iff in E2. destruct E2 as [E2 Eb]. apply andb_true_iff in E2. destruct E2 as [Ea Eb2].
           apply Ascii.eqb_eq in Ea, Eb2. subst. intros H; inversion H; subst. repeat split; auto 6.
        -- destruct (boundary (c :: b :: r')) eqn:Eb; [|discriminate]. intros H; inversion H; subst. auto.
Qed.

Lemma try_double_sound pre0 s0 pre suf n rest :
  try_double pre0 s0 = Some (pre, suf, n, rest) ->
  pre = pre0 /\ VecSuffix suf /\ boundary rest = true /\ s0 = kw_double ++ suf ++ rest /\
  n = length pre0 + 6 + length suf.
Proof.
  unfold try_double. destruct (strip_prefix kw_double s0) as [r|] eqn:Es; [|discriminate].
  destruct (vec_suffix r) as [[suf' rest']|] eqn:Ev; [|discriminate].
  intros H; inversion H; subst. apply strip_prefix_sound in Es. apply vec_suffix_sound in Ev.
  destruct Ev as [Hv [Hb Hr]]. subst. repeat split; auto.
Qed.

Theorem match_double_sound s pre suf n rest :
  match_double s = Some (pre, suf, n, rest) ->
  (pre = [] \/ pre = ["c"]) /\ VecSuffix suf /\ boundary rest = true /\
  s = pre ++ kw_double ++ suf ++ rest /\ n = length pre + 6 + length suf.
Proof.
  unfold match_double. destruct s as [|c r]; [discriminate|].
  destruct (Ascii.eqb c "c") eqn:Ec.
  - apply Ascii.eqb_eq in Ec; subst c.
    destruct (try_double ["c"] r) as [[[[p1 s1] n1] r1]|] eqn:E1.
    + intros H; inversion H; subst. apply try_double_sound in E1. destruct E1 as [-> [Hv [Hb [Hs Hn]]]].
      repeat split; auto. rewrite Hs. reflexivity.
    + intros H. apply try_double_sound in H. destruct H as [-> [Hv [Hb [Hs Hn]]]]. repeat split; auto.
  - intros H. apply try_double_sound in H. destruct H as [-> [Hv [Hb [Hs Hn]]]]. repeat split; auto.
Qed.

(* the converter only replaces the six letters "double" by the type name, and
   only where the keyword (with optional c prefix and vector size) is delimited
   by non-word characters on both sides *)
Inductive Retyped (ty : str) : bool -> str -> str -> Prop :=
| rt_nil pw : Retyped ty pw [] []
| rt_keep pw c s o : Retyped ty (is_word c) s o -> Retyped ty pw (c :: s) (c :: o)
| rt_kw pre suf rest o : (pre = [] \/ pre = ["c"]) -> VecSuffix suf -> boundary rest = true ->
      Retyped ty true rest o ->
      Retyped ty false (pre ++ kw_double ++ suf ++ rest) (pre ++ ty ++ suf ++ o).

Lemma dbl_go_retyped ty : forall fuel pw s, length s <= fuel -> Retyped ty pw s (dbl_go fuel ty pw s).
Proof.
  induction fuel as [fuel IH] using lt_wf_ind. intros pw s Hlen.
  destruct fuel as [|f].
  - destruct s; simpl in *; [constructor|lia].
  - destruct s as [|c r]; [constructor|].
    cbn [dbl_go]. destruct pw.
    + apply rt_keep. apply IH; simpl in *; lia.
    + destruct (match_double (c :: r)) as [[[[pre suf] n] rest]|] eqn:Em.
      * apply match_double_sound in Em. destruct Em as [Hp [Hv [Hb [Hs Hn]]]]. rewrite Hs.
        assert (length (c :: r) = length pre + 6 + length suf + length rest).
        { rewrite Hs, !app_length. simpl. lia. }
        apply rt_kw; auto. apply IH; subst n; simpl in *; lia.
      * apply rt_keep. apply IH; simpl in *; lia.
Qed.

Theorem conv_double_retyped ty s : Retyped ty false s (conv_double ty s).
Proof. unfold conv_double. apply dbl_go_retyped. lia. Qed.

(* ---- integer promotion in math calls ---- *)
Lemma opt_sign_split s sg r : opt_sign s = (sg, r) -> s = sg ++ r.
Proof.
  unfold opt_sign. destruct s as [|c r']; [intros H; inversion H; auto|].
  destruct (Ascii.eqb c "+" || Ascii.eqb c "-"); intros H; inversion H; auto.
Qed.
Lemma int_lit_split s ip r : int_lit s = (ip, r) -> s = ip ++ r.
Proof.
  unfold int_lit. destruct s as [|d r']; [intros H; inversion H; auto|].
  destruct (Ascii.eqb d "0"); [intros H; inversion H; auto|].
  destruct (is_nz d); [|intros H; inversion H; auto].
  destruct (span is_digit r') as [ds r2] eqn:Ed. apply span_split in Ed. intros H; inversion H; subst. reflexivity.
Qed.

Lemma match_tgmath_split s m rest : match_tgmath s = Some (m, rest) -> s = m ++ rest /\ m <> [].
Proof.
  unfold match_tgmath.
  destruct (span is_word s) as [w r0] eqn:E0. apply span_split in E0. subst s.
  destruct (existsb (str_eqb w) tg_names) eqn:Ew; [|discriminate].
  destruct (span is_space r0) as [sp1 r1] eqn:E1. apply span_split in E1. subst r0.
  destruct r1 as [|p r2]; [discriminate|].
  destruct (Ascii.eqb p "(") eqn:Ep; [|discriminate].
  destruct (span is_space r2) as [sp2 r3] eqn:E2. apply span_split in E2. subst r2.
  destruct (opt_sign r3) as [sg r4] eqn:Es. apply opt_sign_split in Es. subst r3.
  destruct (int_lit r4) as [ip r6] eqn:Ei. apply int_lit_split in Ei. subst r4.
  destruct ip as [|i0 ip]; [discriminate|].
  destruct (span is_space r6) as [sp3 r7] eqn:E3.
  destruct r7 as [|e r8]; [discriminate|].
  destruct (Ascii.eqb e "," || Ascii.eqb e ")"); [|discriminate].
  intros H; inversion H; subst. split.
  - rewrite <- !app_assoc. simpl. rewrite <- !app_assoc. reflexivity.
  - destruct w; simpl; [destruct sp1; discriminate | discriminate].
Qed.

Lemma tg_go_insert_only : forall fuel pw s, length s <= fuel -> InsertOnly ["."] s (tg_go fuel pw s).
Proof.
  induction fuel as [fuel IH] using lt_wf_ind. intros pw s Hlen.
  destruct fuel as [|f].
  - destruct s; simpl in *; [constructor|lia].
  - destruct s as [|c r]; [constructor|].
    cbn [tg_go]. destruct pw.
    + apply io_keep. apply IH; simpl in *; lia.
    + destruct (match_tgmath (c :: r)) as [[m rest]|] eqn:Em.
      * apply match_tgmath_split in Em. destruct Em as [Hs Hne]. rewrite Hs.
        assert (Hm : 1 <= length m) by (destruct m; [congruence|simpl; lia]).
        assert (length (c :: r) = length m + length rest) by (rewrite Hs, app_length; reflexivity).
        apply insert_only_app. apply (io_ins ["."]). apply IH; simpl in *; lia.
      * apply io_keep. apply IH; simpl in *; lia.
Qed.

Theorem fix_tgmath_insert_only s : InsertOnly ["."] s (fix_tgmath s).
Proof. unfold fix_tgmath. apply tg_go_insert_only. lia. Qed.

(* double precision: nothing but the integer promotion happens *)
Theorem body_P64 s : body P64 s = fix_tgmath s.
Proof. reflexivity. Qed.
