(* C15/Complete.v — completeness of the literal tagger.
   (1) match_float recognises EVERY literal of the grammar FloatLit that is followed by a non-word character or
       the end (with C15_match_float_sound: exactly those);
   (2) at a position preceded by a non-word character the scanner therefore tags it;
   (3) for every stream of tokens {literal, integer, word, punctuation character} in which a literal follows
       punctuation (or starts the text) and literals and integers are followed by punctuation (or end the text),
       tagging the rendered text equals rendering the stream with every literal tagged and everything else
       unchanged. *)
From Coq Require Import List Ascii Bool Arith Lia.
Import ListNotations.
From SM Require Import C15.Model C15.Proofs.
Open Scope char_scope.

Lemma digit_word c : is_digit c = true -> is_word c = true.
Proof. intros H. unfold is_word. rewrite H. rewrite orb_true_r. reflexivity. Qed.
Lemma digit_not_dot c : is_digit c = true -> Ascii.eqb c "." = false.
Proof.
  intros H. destruct (Ascii.eqb c ".") eqn:E; auto. apply Ascii.eqb_eq in E. subst. discriminate H.
Qed.
Definition no_digit_head (t : str) : Prop := match t with [] => True | c :: _ => is_digit c = false end.
Lemma boundary_no_digit t : boundary t = true -> no_digit_head t.
Proof.
  destruct t as [|c r]; simpl; auto. intros H. destruct (is_digit c) eqn:E; auto.
  apply digit_word in E. rewrite E in H. discriminate.
Qed.
Lemma span_digits ds : forall t, digits ds -> no_digit_head t -> span is_digit (ds ++ t) = (ds, t).
Proof.
  induction ds as [|d r IH]; intros t Hd Ht.
  - destruct t as [|c t']; [reflexivity|]. cbn [app span]. unfold no_digit_head in Ht. rewrite Ht. reflexivity.
  - inversion Hd; subst. cbn [app span]. rewrite H1. rewrite (IH t H2 Ht). reflexivity.
Qed.

Lemma exponent_head ex : Exponent ex -> exists e r, ex = e :: r /\ (e = "e" \/ e = "E").
Proof. intros H; inversion H; subst; eauto. Qed.
Lemma exponent_not_boundary ex t : Exponent ex -> boundary (ex ++ t) = false.
Proof.
  intros H. destruct (exponent_head ex H) as [e [r [E [He|He]]]]; subst; reflexivity.
Qed.
Lemma exponent_no_digit_head ex t : Exponent ex -> no_digit_head (ex ++ t).
Proof. intros H. destruct (exponent_head ex H) as [e [r [E [He|He]]]]; subst; reflexivity. Qed.
Lemma exponent_not_dot ex t : Exponent ex -> exists d r, ex ++ t = d :: r /\ Ascii.eqb d "." = false.
Proof. intros H. destruct (exponent_head ex H) as [e [r [E [He|He]]]]; subst; simpl; eauto. Qed.

Lemma exponent_complete ex t : Exponent ex -> boundary t = true -> exponent (ex ++ t) = Some (ex, t).
Proof.
  intros H Hb. pose proof (boundary_no_digit t Hb) as Hn.
  inversion H as [e ds He Hne Hd | e sg ds He Hs Hne Hd]; subst.
  - destruct ds as [|d0 ds']; [contradiction|]. inversion Hd; subst.
    assert (Ee : Ascii.eqb e "e" || Ascii.eqb e "E" = true) by (destruct He; subst; reflexivity).
    simpl. rewrite Ee.
    assert (Hsg : Ascii.eqb d0 "+" || Ascii.eqb d0 "-" = false).
    { destruct (Ascii.eqb d0 "+") eqn:E1; [apply Ascii.eqb_eq in E1; subst; discriminate|].
      destruct (Ascii.eqb d0 "-") eqn:E2; [apply Ascii.eqb_eq in E2; subst; discriminate|]. reflexivity. }
    rewrite Hsg.
    change (d0 :: ds' ++ t) with ((d0 :: ds') ++ t). rewrite (span_digits (d0 :: ds') t Hd Hn). reflexivity.
  - destruct ds as [|d0 ds']; [contradiction|].
    assert (Ee : Ascii.eqb e "e" || Ascii.eqb e "E" = true) by (destruct He; subst; reflexivity).
    assert (Es : Ascii.eqb sg "+" || Ascii.eqb sg "-" = true) by (destruct Hs; subst; reflexivity).
    simpl. rewrite Ee, Es.
    change (d0 :: ds' ++ t) with ((d0 :: ds') ++ t). rewrite (span_digits (d0 :: ds') t Hd Hn). reflexivity.
Qed.

(* the integer-part step of match_float *)
Lemma intpart_step ip r1 : IntPart ip -> no_digit_head r1 ->
  exists c r, ip ++ r1 = c :: r /\ is_digit c = true /\
    (if Ascii.eqb c "0" then ([c], r) else let (ds, r') := span is_digit r in (c :: ds, r')) = (ip, r1).
Proof.
  intros H Hn. inversion H as [|c ds Hc Hz Hd]; subst.
  - exists "0", r1. repeat split.
  - exists c, (ds ++ r1). repeat split; auto.
    assert (E0 : Ascii.eqb c "0" = false) by (destruct (Ascii.eqb c "0") eqn:E; auto; apply Ascii.eqb_eq in E; contradiction).
    rewrite E0. rewrite (span_digits ds r1 Hd Hn). reflexivity.
Qed.

Theorem match_float_complete m t : FloatLit m -> boundary t = true -> match_float (m ++ t) = Some (m, t).
Proof.
  intros H Hb. pose proof (boundary_no_digit t Hb) as Hn.
  inversion H as [ip fs Hi Hf | ip fs ex Hi Hf Hx | ip ex Hi Hx | fs Hne Hf | fs ex Hne Hf Hx]; subst.
  - (* ip . fs *)
    replace ((ip ++ "." :: fs) ++ t) with (ip ++ "." :: fs ++ t) by (rewrite <- app_assoc; reflexivity).
    destruct (intpart_step ip ("." :: fs ++ t) Hi eq_refl) as [c [r [E [Hc Hs]]]].
    rewrite E. unfold match_float. rewrite Hc, Hs.
    change (Ascii.eqb "." ".") with true. cbv iota.
    rewrite (span_digits fs t Hf Hn). rewrite Hb. reflexivity.
  - (* ip . fs ex *)
    replace ((ip ++ "." :: fs ++ ex) ++ t) with (ip ++ "." :: fs ++ ex ++ t) by (rewrite <- !app_assoc; simpl; rewrite <- app_assoc; reflexivity).
    destruct (intpart_step ip ("." :: fs ++ ex ++ t) Hi eq_refl) as [c [r [E [Hc Hs]]]].
    rewrite E. unfold match_float. rewrite Hc, Hs.
    change (Ascii.eqb "." ".") with true. cbv iota.
    rewrite (span_digits fs (ex ++ t) Hf (exponent_no_digit_head ex t Hx)).
    rewrite (exponent_not_boundary ex t Hx). rewrite (exponent_complete ex t Hx Hb). rewrite Hb. reflexivity.
  - (* ip ex *)
    rewrite <- app_assoc. destruct (intpart_step ip (ex ++ t) Hi (exponent_no_digit_head ex t Hx)) as [c [r [E [Hc Hs]]]].
    rewrite E. unfold match_float. rewrite Hc, Hs.
    destruct (exponent_not_dot ex t Hx) as [d [r2 [E2 Hd]]]. rewrite E2, Hd. rewrite <- E2.
    rewrite (exponent_complete ex t Hx Hb). rewrite Hb. reflexivity.
  - (* . fs *)
    simpl. destruct fs as [|f0 fs']; [contradiction|].
    change (f0 :: fs' ++ t) with ((f0 :: fs') ++ t). rewrite (span_digits (f0 :: fs') t Hf Hn).
    destruct (exponent t) as [[ex r2]|] eqn:Ex.
    + exfalso. apply exponent_sound in Ex. destruct Ex as [Hex Ht]. subst t.
      rewrite (exponent_not_boundary ex r2 Hex) in Hb. discriminate.
    + rewrite Hb. reflexivity.
  - (* . fs ex *)
    simpl. destruct fs as [|f0 fs']; [contradiction|].
    rewrite <- app_assoc.
    change (f0 :: fs' ++ ex ++ t) with ((f0 :: fs') ++ ex ++ t).
    rewrite (span_digits (f0 :: fs') (ex ++ t) Hf (exponent_no_digit_head ex t Hx)).
    rewrite (exponent_complete ex t Hx Hb). rewrite Hb. reflexivity.
Qed.

(* ---------------------------------------------------------------- the scanner at a literal *)
Lemma tag_go_at_literal flag m t fuel : FloatLit m -> boundary t = true -> length (m ++ t) <= fuel ->
  tag_go fuel flag false (m ++ t) = m ++ flag ++ tag_go (fuel - length m) flag (last_word m false) t.
Proof.
  intros Hm Hb Hlen. pose proof (floatlit_nonempty m Hm) as Hne.
  destruct fuel as [|f]; [destruct m; [contradiction | simpl in Hlen; lia]|].
  destruct m as [|c0 m']; [contradiction|].
  change ((c0 :: m') ++ t) with (c0 :: m' ++ t). cbn [tag_go].
  change (c0 :: m' ++ t) with ((c0 :: m') ++ t). rewrite (match_float_complete (c0 :: m') t Hm Hb).
  simpl length. replace (f - (S (length m') - 1)) with (S f - S (length m')) by lia. reflexivity.
Qed.

(* ---------------------------------------------------------------- token streams *)
Inductive tok := Lit (m : str) | Int (d : str) | Word (w : str) | Punct (c : ascii).
Definition tok_str (t : tok) : str := match t with Lit m => m | Int d => d | Word w => w | Punct c => [c] end.
Fixpoint render (ts : list tok) : str := match ts with [] => [] | t :: r => tok_str t ++ render r end.
Definition tag_tok (flag : str) (t : tok) : tok := match t with Lit m => Lit (m ++ flag) | x => x end.

(* well-formed tokens *)
Definition wf_tok (t : tok) : Prop :=
  match t with
  | Lit m => FloatLit m
  | Int d => d <> [] /\ digits d
  | Word w => exists c r, w = c :: r /\ is_word c = true /\ is_digit c = false /\ Forall (fun x => is_word x = true) r
  | Punct c => is_word c = false /\ c <> "."
  end.
Definition next_punct (ts : list tok) : bool := match ts with [] => true | Punct _ :: _ => true | _ => false end.
(* ap = "at the start or just after punctuation" *)
Fixpoint sep (ap : bool) (ts : list tok) : bool :=
  match ts with
  | [] => true
  | Punct _ :: r => sep true r
  | Word _ :: r => sep false r
  | Int _ :: r => next_punct r && sep false r
  | Lit _ :: r => ap && next_punct r && sep false r
  end.

Lemma next_punct_boundary ts : Forall wf_tok ts -> next_punct ts = true -> boundary (render ts) = true.
Proof.
  destruct ts as [|[m|d|w|c] r]; simpl; try discriminate; auto.
  intros H _. inversion H as [|? ? Hc _]; subst. simpl in Hc. destruct Hc as [Hw _]. rewrite Hw. reflexivity.
Qed.
Lemma next_punct_head ts : Forall wf_tok ts -> next_punct ts = true ->
  match render ts with [] => True | c :: _ => is_word c = false /\ c <> "." end.
Proof.
  destruct ts as [|[m|d|w|c] r]; simpl; try discriminate; auto.
  intros H _. inversion H as [|? ? Hc _]; subst. exact Hc.
Qed.

(* a punctuation character is copied whatever the state *)
Lemma tag_go_punct flag c t fuel pw : is_word c = false -> c <> "." -> length (c :: t) <= fuel ->
  tag_go fuel flag pw (c :: t) = c :: tag_go (fuel - 1) flag false t.
Proof.
  intros Hw Hd Hlen. destruct fuel as [|f]; [simpl in Hlen; lia|]. cbn [tag_go].
  assert (Hm : match_float (c :: t) = None).
  { unfold match_float. destruct (is_digit c) eqn:E; [apply digit_word in E; congruence|].
    destruct (Ascii.eqb c ".") eqn:E2; [apply Ascii.eqb_eq in E2; contradiction | reflexivity]. }
  rewrite Hm. destruct pw; rewrite Hw; replace (S f - 1) with f by lia; reflexivity.
Qed.

(* word characters after a word character are copied *)
Lemma tag_go_word_tail flag : forall r t fuel, Forall (fun x => is_word x = true) r -> length (r ++ t) <= fuel ->
  tag_go fuel flag true (r ++ t) = r ++ tag_go (fuel - length r) flag true t.
Proof.
  induction r as [|x r IH]; intros t fuel Hr Hlen.
  - simpl. replace (fuel - 0) with fuel by lia. reflexivity.
  - inversion Hr; subst. destruct fuel as [|f]; [simpl in Hlen; lia|].
    change ((x :: r) ++ t) with (x :: r ++ t). cbn [tag_go]. rewrite H1.
    simpl in Hlen. rewrite (IH t f H2) by lia. simpl length. replace (S f - S (length r)) with (f - length r) by lia. reflexivity.
Qed.
Lemma tag_go_word flag c r t fuel pw : is_word c = true -> is_digit c = false -> Forall (fun x => is_word x = true) r ->
  length ((c :: r) ++ t) <= fuel ->
  tag_go fuel flag pw ((c :: r) ++ t) = (c :: r) ++ tag_go (fuel - length (c :: r)) flag true t.
Proof.
  intros Hw Hd Hr Hlen. destruct fuel as [|f]; [simpl in Hlen; lia|].
  change ((c :: r) ++ t) with (c :: r ++ t). cbn [tag_go].
  assert (Hm : match_float (c :: r ++ t) = None).
  { unfold match_float. rewrite Hd. destruct (Ascii.eqb c ".") eqn:E2; [apply Ascii.eqb_eq in E2; subst; discriminate | reflexivity]. }
  rewrite Hm. simpl in Hlen. destruct pw; rewrite Hw; rewrite (tag_go_word_tail flag r t f Hr) by lia;
    simpl length; replace (S f - S (length r)) with (f - length r) by lia; reflexivity.
Qed.

(* an integer followed by punctuation (or the end) is not a floating literal *)
Lemma match_float_int d t : d <> [] -> digits d ->
  match t with [] => True | c :: _ => is_word c = false /\ c <> "." end -> match_float (d ++ t) = None.
Proof.
  intros Hne Hd Ht. destruct d as [|c ds]; [contradiction|]. inversion Hd; subst.
  assert (Hnd : no_digit_head t).
  { destruct t as [|x t']; simpl; auto. destruct Ht as [Hw _]. destruct (is_digit x) eqn:E; auto. apply digit_word in E. congruence. }
  assert (Hexp : exponent t = None).
  { destruct t as [|x t']; [reflexivity|]. destruct Ht as [Hw _]. unfold exponent.
    destruct (Ascii.eqb x "e" || Ascii.eqb x "E") eqn:E; auto.
    apply orb_eqb_cases in E. destruct E; subst; discriminate. }
  change ((c :: ds) ++ t) with (c :: ds ++ t). unfold match_float. rewrite H1.
  destruct (Ascii.eqb c "0") eqn:E0; cbv iota beta.
  - (* "0" then further digits or t *)
    destruct ds as [|d1 ds'].
    + simpl. destruct t as [|x t']; [reflexivity|]. destruct Ht as [Hw Hdot].
      destruct (Ascii.eqb x ".") eqn:Ex; [apply Ascii.eqb_eq in Ex; contradiction|].
      rewrite Hexp. reflexivity.
    + inversion H2; subst. change ((d1 :: ds') ++ t) with (d1 :: ds' ++ t). cbv iota beta.
      rewrite (digit_not_dot d1 H3). unfold exponent.
      destruct (Ascii.eqb d1 "e" || Ascii.eqb d1 "E") eqn:E; [apply orb_eqb_cases in E; destruct E; subst; discriminate|]. reflexivity.
  - rewrite (span_digits ds t H2 Hnd).
    destruct t as [|x t']; [reflexivity|]. destruct Ht as [Hw Hdot].
    destruct (Ascii.eqb x ".") eqn:Ex; [apply Ascii.eqb_eq in Ex; contradiction|].
    rewrite Hexp. reflexivity.
Qed.
Lemma tag_go_int flag d t fuel pw : d <> [] -> digits d ->
  match t with [] => True | c :: _ => is_word c = false /\ c <> "." end -> length (d ++ t) <= fuel ->
  tag_go fuel flag pw (d ++ t) = d ++ tag_go (fuel - length d) flag true t.
Proof.
  intros Hne Hd Ht Hlen. destruct d as [|c ds]; [contradiction|]. inversion Hd; subst.
  destruct fuel as [|f]; [simpl in Hlen; lia|].
  change ((c :: ds) ++ t) with (c :: ds ++ t). cbn [tag_go].
  change (c :: ds ++ t) with ((c :: ds) ++ t). rewrite (match_float_int (c :: ds) t Hne Hd Ht).
  assert (Hds : Forall (fun x => is_word x = true) ds).
  { rewrite Forall_forall in *. intros x Hx. apply digit_word. apply H2. exact Hx. }
  simpl in Hlen. destruct pw; rewrite (digit_word c H1); rewrite (tag_go_word_tail flag ds t f Hds) by lia;
    simpl length; replace (S f - S (length ds)) with (f - length ds) by lia; reflexivity.
Qed.

Lemma render_map_lit flag m r : render (map (tag_tok flag) (Lit m :: r)) = (m ++ flag) ++ render (map (tag_tok flag) r).
Proof. reflexivity. Qed.

(* the headline *)
Theorem tokens_complete flag : forall ts fuel pw ap,
  (ap = true -> pw = false) -> Forall wf_tok ts -> sep ap ts = true -> length (render ts) <= fuel ->
  tag_go fuel flag pw (render ts) = render (map (tag_tok flag) ts).
Proof.
  induction ts as [|t r IH]; intros fuel pw ap Hap Hwf Hsep Hlen.
  - simpl. destruct fuel; reflexivity.
  - inversion Hwf as [|? ? Ht Hr]; subst. destruct t as [m|d|w|c]; simpl in Hsep.
    + (* literal *)
      apply andb_true_iff in Hsep. destruct Hsep as [Hsep Hs2]. apply andb_true_iff in Hsep. destruct Hsep as [Ha Hnp].
      rewrite (Hap Ha). simpl render.
      rewrite (tag_go_at_literal flag m (render r) fuel Ht (next_punct_boundary r Hr Hnp)) by exact Hlen.
      rewrite (IH (fuel - length m) (last_word m false) false) ; auto; try discriminate.
      * simpl. rewrite <- app_assoc. reflexivity.
      * simpl in Hlen. rewrite app_length in Hlen. lia.
    + (* integer *)
      apply andb_true_iff in Hsep. destruct Hsep as [Hnp Hs2]. destruct Ht as [Hne Hd]. simpl render.
      rewrite (tag_go_int flag d (render r) fuel pw Hne Hd (next_punct_head r Hr Hnp)) by exact Hlen.
      rewrite (IH (fuel - length d) true false); auto; try discriminate.
      simpl in Hlen. rewrite app_length in Hlen. lia.
    + (* word *)
      destruct Ht as [c [w' [Ew [Hw [Hd Hws]]]]]. subst w.
      change (render (Word (c :: w') :: r)) with ((c :: w') ++ render r) in *.
      rewrite (tag_go_word flag c w' (render r) fuel pw Hw Hd Hws) by exact Hlen.
      rewrite (IH (fuel - length (c :: w')) true false); auto; try discriminate.
      simpl in Hlen. rewrite app_length in Hlen. simpl. lia.
    + (* punctuation *)
      destruct Ht as [Hw Hd]. simpl render.
      rewrite (tag_go_punct flag c (render r) fuel pw Hw Hd) by exact Hlen.
      rewrite (IH (fuel - 1) false true); auto.
      simpl in Hlen. lia.
Qed.

Theorem tag_float_tokens flag ts : Forall wf_tok ts -> sep true ts = true ->
  tag_float flag (render ts) = render (map (tag_tok flag) ts).
Proof. intros Hwf Hsep. unfold tag_float. apply (tokens_complete flag ts (length (render ts)) false true); auto. Qed.
