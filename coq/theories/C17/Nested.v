(* C17 - plug-ins built on plug-ins: the dependency bookkeeping of custom/__init__.py
   (load_custom_kernel_module, need_reload, _MODULE_DEPENDS, _MODULE_DEPENDS_STACK, _MODULE_CACHE).

   Modules 0..n form a chain: module i is built on module i+1 (core.reparameterize(path_of(i+1), ..., __file__)),
   module n stands alone; the file of module i is file i.  Loading module i, when it has to be (re)loaded, resets its
   dependency set to {i}, executes its text - which loads module i+1 with i on the stack -, and stamps every
   dependency with its current time.  Whether or not the child had to be reloaded, it hands its whole dependency set to
   the module on top of the stack ([always] = true: the hand-off stands after the reload branch, as in the code).

   Restrictions of this model (stated in DESIGN.md): the chain structure does not change with edits, and C sources
   listed by a module are not separate files here (they are covered by the per-file stamps of C17.Model). *)
From Coq Require Import Arith List Bool Lia.
Import ListNotations.

Record state := { deps : nat -> option (list nat); stamps : nat -> option (list (nat * nat)) }.

Definition init : state := {| deps := fun _ => None; stamps := fun _ => None |}.
Definition get_deps (st : state) (i : nat) : list nat := match deps st i with Some d => d | None => [i] end.
Fixpoint lookup (l : list (nat * nat)) (f : nat) : option nat :=
  match l with [] => None | (g, t) :: r => if Nat.eqb g f then Some t else lookup r f end.
(* cache_times.get(p, -1) < os.path.getmtime(p) *)
Definition stale_file (mt : nat -> nat) (st : state) (i f : nat) : bool :=
  match stamps st i with
  | Some l => match lookup l f with Some t => Nat.ltb t (mt f) | None => true end
  | None => true
  end.
Definition need_reload (mt : nat -> nat) (st : state) (i : nat) : bool := existsb (stale_file mt st i) (get_deps st i).

Definition upd {A} (m : nat -> A) (i : nat) (v : A) : nat -> A := fun j => if Nat.eqb j i then v else m j.
Definition set_deps (st : state) (i : nat) (d : list nat) : state := {| deps := upd (deps st) i (Some d); stamps := stamps st |}.
Definition set_stamps (st : state) (i : nat) (l : list (nat * nat)) : state := {| deps := deps st; stamps := upd (stamps st) i (Some l) |}.
(* [srcs i]: the C source files module i lists (source = [...]); they join its dependencies once its text has run *)
Definition finish0 (mt : nat -> nat) (i : nat) (sc : state) : state :=
  set_stamps sc i (map (fun f => (f, mt f)) (get_deps sc i)).
Definition finish (srcs : nat -> list nat) (mt : nat -> nat) (i : nat) (sb : state) : state :=
  finish0 mt i (set_deps sb i (get_deps sb i ++ srcs i)).
Definition handoff (st : state) (parent : option nat) (i : nat) : state :=
  match parent with Some w => set_deps st w (get_deps st w ++ get_deps st i) | None => st end.

(* [k] = number of modules below module i in the chain *)
Fixpoint load (srcs : nat -> list nat) (always : bool) (mt : nat -> nat) (k i : nat) (parent : option nat) (st : state) {struct k} : state :=
  let reload := need_reload mt st i in
  let st1 := if reload
             then finish srcs mt i (match k with
                                    | 0 => set_deps st i [i]
                                    | S k' => load srcs always mt k' (S i) (Some i) (set_deps st i [i])
                                    end)
             else st in
  if always || reload then handoff st1 parent i else st1.

(* histories: top-level loads of any module of the chain, and edits (a file's time moves forward) *)
Inductive op := Load (i : nat) | Edit (f : nat) (dt : nat) | Restart.
Definition world := (state * (nat -> nat))%type.
Definition step (srcs : nat -> list nat) (always : bool) (n : nat) (w : world) (o : op) : world :=
  match o with
  | Load i => (load srcs always (snd w) (n - i) i None (fst w), snd w)
  | Edit f dt => (fst w, upd (snd w) f (snd w f + S dt))
  | Restart => (init, snd w)                 (* a new process: empty caches, the files as they are *)
  end.
Definition run (srcs : nat -> list nat) (always : bool) (n : nat) (ops : list op) : world := fold_left (step srcs always n) ops (init, fun _ => 0).

(* what the code's need_reload answers for modules 0 and 1 just before every load of a history (correspondence) *)
Fixpoint trace (srcs : nat -> list nat) (always : bool) (n : nat) (w : world) (ops : list op) : list (bool * bool) :=
  match ops with
  | [] => []
  | o :: r => (match o with Load _ => [(need_reload (snd w) (fst w) 0, need_reload (snd w) (fst w) 1)] | _ => [] end)
              ++ trace srcs always n (step srcs always n w o) r
  end.
Definition beqb2 (a b : bool * bool) : bool := Bool.eqb (fst a) (fst b) && Bool.eqb (snd a) (snd b).
Fixpoint list_eqb2 (a b : list (bool * bool)) : bool :=
  match a, b with [], [] => true | x :: a', y :: b' => beqb2 x y && list_eqb2 a' b' | _, _ => false end.
Fixpoint check_from (srcs : nat -> list nat) (always : bool) (k : nat) (cases : list (list op * list (bool * bool))) : list nat :=
  match cases with
  | [] => []
  | (ops, obs) :: r => (if list_eqb2 (trace srcs always 1 (init, fun _ => 0) ops) obs then [] else [k]) ++ check_from srcs always (S k) r
  end.

Section Proofs.
Variable n : nat.
Variable srcs : nat -> list nat.
(* the files module j depends on: the files of the modules j..n and the C sources those modules list *)
Definition Clo (j f : nat) : Prop := j <= f <= n \/ exists m, j <= m <= n /\ In f (srcs m).
Lemma clo_step j f : Clo j f -> f = j \/ In f (srcs j) \/ Clo (S j) f.
Proof.
  intros [H|[m [Hm Hin]]].
  - destruct (Nat.eq_dec f j) as [->|Hne]; [left; reflexivity | right; right; left; lia].
  - destruct (Nat.eq_dec m j) as [->|Hne]; [right; left; exact Hin | right; right; right; exists m; split; [lia|exact Hin]].
Qed.

Definition SelfIn (st : state) : Prop := forall j, In j (get_deps st j).
Definition InvFrom (i : nat) (st : state) : Prop :=
  forall j, i <= j -> stamps st j <> None -> forall f, Clo j f -> In f (get_deps st j).
Definition NotAhead (mt : nat -> nat) (st : state) : Prop :=
  forall j l f t, stamps st j = Some l -> lookup l f = Some t -> t <= mt f.

Lemma upd_same {A} (m : nat -> A) i v : upd m i v i = v.
Proof. unfold upd. rewrite Nat.eqb_refl. reflexivity. Qed.
Lemma upd_other {A} (m : nat -> A) i v j : j <> i -> upd m i v j = m j.
Proof. unfold upd. intros H. apply Nat.eqb_neq in H. rewrite H. reflexivity. Qed.

Lemma get_deps_set_same st i d : get_deps (set_deps st i d) i = d.
Proof. unfold get_deps, set_deps; cbn. rewrite upd_same. reflexivity. Qed.
Lemma get_deps_set_other st i d j : j <> i -> get_deps (set_deps st i d) j = get_deps st j.
Proof. intros H. unfold get_deps, set_deps; cbn. rewrite upd_other by exact H. reflexivity. Qed.
Lemma deps_set_other st i d j : j <> i -> deps (set_deps st i d) j = deps st j.
Proof. intros H. unfold set_deps; cbn. apply upd_other; exact H. Qed.

Lemma lookup_map mt l f : In f l -> lookup (map (fun g => (g, mt g)) l) f = Some (mt f).
Proof.
  induction l as [|g l IH]; cbn; intros H; [contradiction|].
  destruct (Nat.eqb g f) eqn:E.
  - apply Nat.eqb_eq in E. subst g. reflexivity.
  - destruct H as [H|H]; [subst g; rewrite Nat.eqb_refl in E; discriminate|]. apply IH; exact H.
Qed.
Lemma lookup_map_inv mt l f t : lookup (map (fun g => (g, mt g)) l) f = Some t -> t = mt f.
Proof.
  induction l as [|g l IH]; cbn; intros H; [discriminate|].
  destruct (Nat.eqb g f) eqn:E.
  - apply Nat.eqb_eq in E. subst g. congruence.
  - apply IH; exact H.
Qed.

Lemma need_reload_finish mt i sb : need_reload mt (finish0 mt i sb) i = false.
Proof.
  unfold need_reload, finish0. change (get_deps (set_stamps sb i ?l) i) with (get_deps sb i).
  apply not_true_is_false. intros H. apply existsb_exists in H. destruct H as [f [Hin Hs]].
  unfold stale_file, set_stamps in Hs; cbn [stamps] in Hs. rewrite upd_same in Hs.
  rewrite (lookup_map mt _ _ Hin) in Hs. rewrite Nat.ltb_irrefl in Hs. discriminate.
Qed.

Lemma not_reload_stamped mt st i : SelfIn st -> need_reload mt st i = false -> stamps st i <> None.
Proof.
  intros Hs Hn Hnone. unfold need_reload in Hn.
  assert (existsb (stale_file mt st i) (get_deps st i) = true) as Ht.
  { apply existsb_exists. exists i. split; [apply Hs|]. unfold stale_file. rewrite Hnone. reflexivity. }
  congruence.
Qed.

(* what a load of module i leaves behind *)
Definition Spec (mt : nat -> nat) (i : nat) (parent : option nat) (st st' : state) : Prop :=
  SelfIn st' /\ InvFrom i st' /\ NotAhead mt st' /\ need_reload mt st' i = false /\
  (forall j, j < i -> stamps st' j = stamps st j /\ (parent <> Some j -> deps st' j = deps st j)) /\
  (forall w, parent = Some w ->
     (forall f, In f (get_deps st w) -> In f (get_deps st' w)) /\ (forall f, Clo i f -> In f (get_deps st' w))).

(* the hand-off, given what the reload branch (or its absence) established *)
Lemma handoff_spec mt i parent st st1 :
  (forall w, parent = Some w -> w < i) ->
  SelfIn st1 -> InvFrom i st1 -> NotAhead mt st1 -> need_reload mt st1 i = false ->
  (forall j, j < i -> stamps st1 j = stamps st j /\ deps st1 j = deps st j) ->
  Spec mt i parent st (handoff st1 parent i).
Proof.
  intros Hp Hself Hinv Hna Hnr Hframe.
  destruct parent as [w|]; cbn [handoff].
  - assert (w < i) as Hw by (apply Hp; reflexivity).
    assert (w <> i) as Hwi by lia.
    unfold Spec. refine (conj _ (conj _ (conj _ (conj _ (conj _ _))))).
    + intros j. destruct (Nat.eq_dec j w) as [->|Hj].
      * rewrite get_deps_set_same. apply in_or_app. left. apply Hself.
      * rewrite get_deps_set_other by exact Hj. apply Hself.
    + intros j Hij Hst f Hf. rewrite get_deps_set_other by lia. apply (Hinv j Hij Hst f Hf).
    + exact Hna.
    + unfold need_reload. rewrite get_deps_set_other by lia. exact Hnr.
    + intros j Hj. split.
      * cbn. apply Hframe; exact Hj.
      * intros Hne. rewrite deps_set_other by congruence. apply Hframe; exact Hj.
    + intros w' Hw'. injection Hw' as <-. split.
      * intros f Hf. rewrite get_deps_set_same. apply in_or_app. left.
        unfold get_deps in *. destruct (Hframe w Hw) as [_ Hd]. rewrite Hd. exact Hf.
      * intros f Hf. rewrite get_deps_set_same. apply in_or_app. right.
        apply (Hinv i (le_n i)); [|exact Hf]. apply (not_reload_stamped mt); assumption.
  - unfold Spec. refine (conj Hself (conj Hinv (conj Hna (conj Hnr (conj _ _))))).
    + intros j Hj. split; [apply Hframe; exact Hj | intros _; apply Hframe; exact Hj].
    + intros w Hw. discriminate Hw.
Qed.

(* the reload branch, given what the execution of the module's text (the child's load) established *)
Lemma finish_spec mt i st sb :
  SelfIn sb -> InvFrom (S i) sb -> NotAhead mt sb ->
  (forall f, Clo i f -> In f (get_deps sb i)) ->
  (forall j, j < i -> stamps sb j = stamps st j /\ deps sb j = deps st j) ->
  let st1 := finish0 mt i sb in
  SelfIn st1 /\ InvFrom i st1 /\ NotAhead mt st1 /\ need_reload mt st1 i = false /\
  (forall j, j < i -> stamps st1 j = stamps st j /\ deps st1 j = deps st j).
Proof.
  intros Hself Hinv Hna Hcl Hframe st1. refine (conj _ (conj _ (conj _ (conj _ _)))).
  - exact Hself.
  - intros j Hij Hst f Hf. change (get_deps st1 j) with (get_deps sb j).
    destruct (Nat.eq_dec j i) as [->|Hj]; [apply Hcl; exact Hf|].
    apply (Hinv j); [lia| |exact Hf]. unfold st1, finish0, set_stamps in Hst; cbn [stamps] in Hst.
    rewrite upd_other in Hst by exact Hj. exact Hst.
  - intros j l f t Hl Hlk. unfold st1, finish0, set_stamps in Hl; cbn [stamps] in Hl.
    destruct (Nat.eq_dec j i) as [->|Hj].
    + rewrite upd_same in Hl. injection Hl as <-. apply lookup_map_inv in Hlk. lia.
    + rewrite upd_other in Hl by exact Hj. apply (Hna j l f t Hl Hlk).
  - apply need_reload_finish.
  - intros j Hj. unfold st1, finish0, set_stamps; cbn [stamps deps]. rewrite upd_other by lia. apply Hframe; exact Hj.
Qed.

(* the whole reload branch after the module's text has run: its C sources join the dependencies, then the stamps *)
Lemma reload_spec mt i st sb :
  SelfIn sb -> InvFrom (S i) sb -> NotAhead mt sb ->
  In i (get_deps sb i) -> (forall f, Clo (S i) f -> In f (get_deps sb i)) ->
  (forall j, j < i -> stamps sb j = stamps st j /\ deps sb j = deps st j) ->
  let st1 := finish srcs mt i sb in
  SelfIn st1 /\ InvFrom i st1 /\ NotAhead mt st1 /\ need_reload mt st1 i = false /\
  (forall j, j < i -> stamps st1 j = stamps st j /\ deps st1 j = deps st j).
Proof.
  intros Hself Hinv Hna Hi Hcl Hframe. unfold finish. apply finish_spec.
  - intros j. destruct (Nat.eq_dec j i) as [->|Hj].
    + rewrite get_deps_set_same. apply in_or_app. left. apply Hself.
    + rewrite get_deps_set_other by exact Hj. apply Hself.
  - intros j Hij Hst f Hf. rewrite get_deps_set_other by lia. apply (Hinv j Hij Hst f Hf).
  - exact Hna.
  - intros f Hf. rewrite get_deps_set_same. apply in_or_app.
    destruct (clo_step i f Hf) as [->|[Hs|Hc]]; [left; exact Hi | right; exact Hs | left; apply Hcl; exact Hc].
  - intros j Hj. split; [apply Hframe; exact Hj|]. rewrite deps_set_other by lia. apply Hframe; exact Hj.
Qed.

Lemma sa_facts i st : SelfIn st -> InvFrom i st ->
  let sa := set_deps st i [i] in
  SelfIn sa /\ InvFrom (S i) sa /\ In i (get_deps sa i) /\ (forall j, j < i -> stamps sa j = stamps st j /\ deps sa j = deps st j).
Proof.
  intros Hself Hinv sa. refine (conj _ (conj _ (conj _ _))).
  - intros j. destruct (Nat.eq_dec j i) as [->|Hj].
    + unfold sa. rewrite get_deps_set_same. left. reflexivity.
    + unfold sa. rewrite get_deps_set_other by exact Hj. apply Hself.
  - intros j Hij Hst f Hf. unfold sa. rewrite get_deps_set_other by lia. apply (Hinv j); [lia|exact Hst|exact Hf].
  - unfold sa. rewrite get_deps_set_same. left. reflexivity.
  - intros j Hj. split; [reflexivity | apply deps_set_other; lia].
Qed.

Lemma load_spec mt : forall k i parent st,
  i + k = n -> (forall w, parent = Some w -> w < i) ->
  SelfIn st -> InvFrom i st -> NotAhead mt st ->
  Spec mt i parent st (load srcs true mt k i parent st).
Proof.
  induction k as [|k IH]; intros i parent st Hik Hp Hself Hinv Hna.
  - cbn [load orb]. destruct (need_reload mt st i) eqn:Hnr.
    + destruct (sa_facts i st Hself Hinv) as (A1 & A2 & A3 & A4).
      destruct (reload_spec mt i st (set_deps st i [i]) A1 A2 Hna A3) as (H1 & H2 & H3 & H4 & H5).
      * intros f [Hf|[m [Hm _]]]; lia.
      * exact A4.
      * apply handoff_spec; assumption.
    + apply handoff_spec; try assumption. intros j Hj. split; reflexivity.
  - cbn [load orb]. destruct (need_reload mt st i) eqn:Hnr.
    + destruct (sa_facts i st Hself Hinv) as (A1 & A2 & A3 & A4).
      set (sa := set_deps st i [i]) in *.
      assert (Spec mt (S i) (Some i) sa (load srcs true mt k (S i) (Some i) sa)) as Hc.
      { apply IH; [lia | intros w Hw; injection Hw as <-; lia | exact A1 | exact A2 | exact Hna]. }
      destruct Hc as (C1 & C2 & C3 & _ & C5 & C6). destruct (C6 i eq_refl) as [Cmono Ccl].
      destruct (reload_spec mt i st (load srcs true mt k (S i) (Some i) sa) C1 C2 C3) as (H1 & H2 & H3 & H4 & H5).
      * apply Cmono. exact A3.
      * exact Ccl.
      * intros j Hj. destruct (C5 j) as [D1 D2]; [lia|]. destruct (A4 j Hj) as [E1 E2]. split.
        -- rewrite D1. exact E1.
        -- rewrite D2 by (intros Hc; injection Hc as ->; lia). exact E2.
      * apply handoff_spec; assumption.
    + apply handoff_spec; try assumption. intros j Hj. split; reflexivity.
Qed.

(* every state a history of top-level loads and edits reaches keeps the invariants *)
Definition Good (w : world) : Prop := SelfIn (fst w) /\ InvFrom 0 (fst w) /\ NotAhead (snd w) (fst w).

Lemma good_init : Good (init, fun _ => 0).
Proof.
  unfold Good; cbn. repeat split.
  - intros j. left. reflexivity.
  - intros j _ H. contradiction H. reflexivity.
  - intros j l f t H. discriminate H.
Qed.

Lemma good_step w o : (forall i, o = Load i -> i <= n) -> Good w -> Good (step srcs true n w o).
Proof.
  intros Hle (Hs & Hi & Ha). destruct w as [st mt]. cbn in *. destruct o as [i|f dt|]; cbn.
  - assert (i <= n) as Hin by (apply Hle; reflexivity).
    destruct (load_spec mt (n - i) i None st) as (S1 & S2 & S3 & S4 & S5 & _); try assumption.
    + lia.
    + discriminate.
    + intros j Hij. apply Hi. lia.
    + unfold Good; cbn. repeat split; try assumption.
      intros j _ Hst g Hg. destruct (le_lt_dec i j) as [Hge|Hlt].
      * apply (S2 j Hge Hst g Hg).
      * destruct (S5 j Hlt) as [E1 E2]. unfold get_deps. rewrite E2 by discriminate.
        rewrite E1 in Hst. apply (Hi j (Nat.le_0_l j) Hst g Hg).
  - unfold Good; cbn. repeat split; try assumption.
    intros j l g t Hl Hlk. specialize (Ha j l g t Hl Hlk). unfold upd. destruct (Nat.eqb g f) eqn:E.
    + apply Nat.eqb_eq in E. subst g. lia.
    + exact Ha.
  - destruct good_init as (G1 & G2 & G3). unfold Good; cbn. refine (conj G1 (conj G2 _)).
    intros j l g t H. discriminate H.
Qed.

Lemma good_run ops : (forall i, In (Load i) ops -> i <= n) -> Good (run srcs true n ops).
Proof.
  unfold run. generalize good_init. generalize ((init, fun _ : nat => 0) : world).
  induction ops as [|o ops IH]; intros w Hw Hle; cbn [fold_left]; [exact Hw|].
  apply IH.
  - apply good_step; [|exact Hw]. intros i ->. apply Hle. left. reflexivity.
  - intros i Hi. apply Hle. right. exact Hi.
Qed.

(* after ANY history, once module i has been loaded, a later change of ANY file of its chain makes it stale *)
Lemma nested_edit_seen ops i :
  (forall j, In (Load j) ops -> j <= n) -> i <= n ->
  let w := run srcs true n (ops ++ [Load i]) in
  need_reload (snd w) (fst w) i = false /\
  forall mt', (forall f, snd w f <= mt' f) -> (exists f0, Clo i f0 /\ snd w f0 < mt' f0) ->
  need_reload mt' (fst w) i = true.
Proof.
  intros Hle Hi w.
  assert (Good (run srcs true n ops)) as Hg by (apply good_run; exact Hle).
  unfold w, run. rewrite fold_left_app. fold (run srcs true n ops). cbn [fold_left step].
  destruct (run srcs true n ops) as [st mt]. destruct Hg as (Hs & Hinv & Ha). cbn in *.
  destruct (load_spec mt (n - i) i None st) as (S1 & S2 & S3 & S4 & _ & _); try assumption.
  - lia.
  - discriminate.
  - intros j Hij. apply Hinv. lia.
  - split; [exact S4|]. intros mt' Hmono [f0 [Hf0 Hlt]].
    set (st' := load srcs true mt (n - i) i None st) in *.
    assert (stamps st' i <> None) as Hst by (apply (not_reload_stamped mt); assumption).
    unfold need_reload. apply existsb_exists. exists f0. split.
    + apply (S2 i (le_n i) Hst f0 Hf0).
    + unfold stale_file. destruct (stamps st' i) as [l|] eqn:El; [|reflexivity].
      destruct (lookup l f0) as [t|] eqn:Elk; [|reflexivity].
      apply Nat.ltb_lt. specialize (S3 i l f0 t El Elk). lia.
Qed.
End Proofs.

(* with the hand-off inside the reload branch the statement fails: base loaded alone, then the wrapper, then the base
   edited - the wrapper is not stale *)
Lemma nested_inside_refuted :
  let w := run (fun _ => []) false 1 [Load 1; Load 0; Edit 1 0] in need_reload (snd w) (fst w) 0 = false.
Proof. vm_compute. reflexivity. Qed.
(* ... and the same history with the hand-off where the code has it *)
Example nested_example :
  let w := run (fun _ => []) true 1 [Load 1; Load 0; Edit 1 0] in need_reload (snd w) (fst w) 0 = true.
Proof. vm_compute. reflexivity. Qed.
(* ... and with a C source (file 7) listed by the base module: the wrapper, loaded once, sees its edit *)
Example nested_source_example :
  let srcs := fun m => if Nat.eqb m 1 then [7] else [] in
  let w := run srcs true 1 [Load 0; Edit 7 0] in
  need_reload (snd w) (fst w) 0 = true /\ need_reload (snd (run srcs true 1 [Load 0])) (fst (run srcs true 1 [Load 0])) 0 = false.
Proof. vm_compute. split; reflexivity. Qed.
