(* C17/Property.v — the property theorems and nothing else. *)
From Coq Require Import List Arith String.
Import ListNotations.
From SM Require Import C17.Model C17.Proofs C17.Names.

(* After ANY history of edits (each advancing the modification time) to the
   model file, the included C file or the templates, loads at any precision and
   process restarts, the next load - same process or new - evaluates a library
   compiled from the CURRENT texts.  Hypothesis: the tag identifies the source
   (checked on every explored history; CRC32 is not injective in general). *)
Theorem C17_load_current :
  forall (Src : Type) (gen : nat -> nat -> nat -> Src) (tag : Src -> nat),
  (forall a b, tag a = tag b -> a = b) ->
  forall m c t ops bits,
  let s := fst (run Src gen tag (init Src m c t) ops) in
  forall s' out, step Src gen tag s (Load bits) = (s', Some out) ->
  out = gen (txt (fm Src s)) (txt (fc Src s)) (txt (ft Src s)).
Proof. exact load_current. Qed.
Print Assumptions C17_load_current.

(* the invariant behind it: every cached library was built from a source
   carrying its key, cached module/template texts are current whenever their
   recorded time is not older than the files *)
Theorem C17_invariant :
  forall (Src : Type) (gen : nat -> nat -> nat -> Src) (tag : Src -> nat) ops s0,
  Inv Src tag s0 -> Inv Src tag (fst (run Src gen tag s0 ops)).
Proof. intros Src gen tag ops s0. apply inv_run. Qed.
Print Assumptions C17_invariant.

Theorem C17_load_total :
  forall (Src : Type) gen tag (s : st Src) bits, exists out, snd (step Src gen tag s (Load bits)) = Some out.
Proof. exact load_some. Qed.
Print Assumptions C17_load_total.

(* the cache key is recoverable from the file name of the library: libraries of two different
   (model id, source tag) pairs, or of two precisions, never share a name ("two different generated
   sources or precisions never share a cached library") *)
Theorem C17_library_name_injective : forall bits id t id' t' : string,
  String.length t = String.length t' ->
  lib_basename bits id t = lib_basename bits id' t' -> id = id' /\ t = t'.
Proof. exact lib_name_injective. Qed.
Print Assumptions C17_library_name_injective.
Theorem C17_library_name_precision : forall b b' id t id' t' : string,
  In b precisions -> In b' precisions -> lib_basename b id t = lib_basename b' id' t' -> b = b'.
Proof. exact lib_name_precision. Qed.
Print Assumptions C17_library_name_precision.
