(* C17/Property.v — the property theorems and nothing else. *)
From Coq Require Import List Arith String.
Import ListNotations.
From SM Require Import C17.Model C17.Proofs C17.Names.

(* After ANY history of edits to the model file, the included C file or either kernel template - each
   edit advancing the modification time OF THE FILE IT TOUCHES, nothing being assumed about the times of
   different files relative to each other - loads at any precision and process restarts, the next load
   (same process or new) returns the CURRENT definition paired with a library compiled from the CURRENT texts
   (first component: the definition text - parameter table, defaults, limits - which an edit can change without
   changing the generated source; gen is not assumed injective).  Hypothesis: the tag
   identifies the source (checked on every explored history; CRC32 is not injective in general). *)
Theorem C17_load_current :
  forall (Src : Type) (gen : nat -> nat -> nat -> nat -> Src) (tag : Src -> nat),
  (forall a b, tag a = tag b -> a = b) ->
  forall m c h k ops bits,
  advancing Src gen tag true (init Src m c h k) ops = true ->
  let s := fst (run Src gen tag true (init Src m c h k) ops) in
  forall s' out, step Src gen tag true s (Load bits) = (s', Some out) ->
  out = (txt (fm Src s), gen (txt (fm Src s)) (txt (fc Src s)) (txt (fh Src s)) (txt (fk Src s))).
Proof. exact load_current. Qed.
Print Assumptions C17_load_current.

(* the invariant behind it: every cached library was built from a source carrying its key; a cached
   module/template text never carries a stamp later than its file's time and is current whenever the
   stamp equals it *)
Theorem C17_invariant :
  forall (Src : Type) (gen : nat -> nat -> nat -> nat -> Src) (tag : Src -> nat) ops s0,
  Inv Src tag s0 -> advancing Src gen tag true s0 ops = true -> Inv Src tag (fst (run Src gen tag true s0 ops)).
Proof. intros Src gen tag ops s0. apply inv_run. Qed.
Print Assumptions C17_invariant.

Theorem C17_load_total :
  forall (Src : Type) gen tag pf (s : st Src) bits, exists out, snd (step Src gen tag pf s (Load bits)) = Some out.
Proof. exact load_some. Qed.
Print Assumptions C17_load_total.

(* the module cache of the tree before the repair (one "newest" stamp for all dependencies) does not have
   the property: the C file is newer than the model file, the model file is edited (its own time advances
   from 1 to 2) and the next load in the same process still evaluates the old text; with one stamp per
   dependency the same history evaluates the new text *)
Theorem C17_newest_stamp_refuted :
  advancing SrcW genW tagW false witness_init witness_ops = true /\
  let s := fst (run SrcW genW tagW false witness_init witness_ops) in
  snd (step SrcW genW tagW false s (Load 64)) = Some (3, (3, 5, 0, 0)) /\ txt (fm SrcW s) = 4.
Proof. exact newest_stamp_stale. Qed.
Print Assumptions C17_newest_stamp_refuted.
Theorem C17_per_file_stamp_example :
  let s := fst (run SrcW genW tagW true witness_init witness_ops) in
  snd (step SrcW genW tagW true s (Load 64)) = Some (4, (4, 5, 0, 0)).
Proof. exact per_file_stamp_current. Qed.
Print Assumptions C17_per_file_stamp_example.

(* an edit that changes only a default (two definition texts, one generated source): one library, current definition *)
Theorem C17_definition_only_edit_example :
  let s0 := init SrcW (MkFile 6 1) (MkFile 5 1) (MkFile 0 0) (MkFile 0 0) in
  let ops := [Load 64; EditM 46 2] in
  advancing SrcW genD tagW true s0 ops = true /\
  let s := fst (run SrcW genD tagW true s0 ops) in
  snd (step SrcW genD tagW true s (Load 64)) = Some (46, (6, 5, 0, 0)) /\
  List.length (dlls SrcW (fst (step SrcW genD tagW true s (Load 64)))) = 1.
Proof. exact definition_only_edit. Qed.
Print Assumptions C17_definition_only_edit_example.

(* the staleness decisions of the model are those of the CODE: need_reload / load_custom_kernel_module
   (custom/__init__.py) and load_template (generate.py) of the current tree, read on every run (Gen/C17_code.v):
   one stamp per dependency, "stale iff the stamp is earlier than the file's time" for modules and templates alike -
   so C17_load_current, instantiated with the code's own choices, is a statement about them *)
From SM Require Import Gen.C17_code.
Theorem C17_code_decisions : translated = true ->
  code_per_file = true /\
  (forall stamp mtime, code_module_stale stamp mtime = Nat.ltb stamp mtime) /\
  (forall stamp mtime, code_template_stale stamp mtime = Nat.ltb stamp mtime).
Proof. intros Ht. try solve [vm_compute in Ht; discriminate Ht]. all: repeat split; reflexivity. Qed.
Print Assumptions C17_code_decisions.
Theorem C17_code_load_current : translated = true ->
  forall (Src : Type) (gen : nat -> nat -> nat -> nat -> Src) (tag : Src -> nat),
  (forall a b, tag a = tag b -> a = b) ->
  forall m c h k ops bits,
  advancing Src gen tag code_per_file (init Src m c h k) ops = true ->
  let s := fst (run Src gen tag code_per_file (init Src m c h k) ops) in
  forall s' out, step Src gen tag code_per_file s (Load bits) = (s', Some out) ->
  out = (txt (fm Src s), gen (txt (fm Src s)) (txt (fc Src s)) (txt (fh Src s)) (txt (fk Src s))).
Proof. intros Ht. try solve [vm_compute in Ht; discriminate Ht]. all: exact load_current. Qed.
Print Assumptions C17_code_load_current.

(* plug-ins built on plug-ins (C17.Nested: the dependency sets, the stack and the stamps of load_custom_kernel_module
   for a chain of modules 0..n, module i built on module i+1).  The place of the hand-off is READ from the current text
   (code_handoff_always): after ANY history of top-level loads (of any module of the chain) and edits, once module i
   has been loaded it is not stale, and a later change of ANY file it depends on (Nested.Clo: its own file, the file of
   a module it is built on - however long ago and by whichever entry that one was loaded -, or a C source any of them
   lists) makes it stale *)
Require SM.C17.Nested.
Theorem C17_code_nested : translated = true ->
  forall (n : nat) (srcs : nat -> list nat) (ops : list Nested.op) (i : nat),
  (forall j, In (Nested.Load j) ops -> j <= n) -> i <= n ->
  let w := Nested.run srcs code_handoff_always n (ops ++ [Nested.Load i]) in
  Nested.need_reload (snd w) (fst w) i = false /\
  forall mt', (forall f, snd w f <= mt' f) -> (exists f0, Nested.Clo n srcs i f0 /\ snd w f0 < mt' f0) ->
  Nested.need_reload mt' (fst w) i = true.
Proof. intros Ht. try solve [vm_compute in Ht; discriminate Ht]. all: exact Nested.nested_edit_seen. Qed.
Print Assumptions C17_code_nested.
(* with the hand-off inside the reload branch the statement is false (base loaded alone, wrapper loaded, base edited) *)
Theorem C17_nested_inside_refuted :
  let w := Nested.run (fun _ => []) false 1 [Nested.Load 1; Nested.Load 0; Nested.Edit 1 0] in Nested.need_reload (snd w) (fst w) 0 = false.
Proof. exact Nested.nested_inside_refuted. Qed.
Print Assumptions C17_nested_inside_refuted.

(* the cache key is recoverable from the file name of the library: libraries of two different
   (model id, source tag) pairs, or of two precisions, never share a name ("two different generated
   sources or precisions never share a cached library") *)
Theorem C17_library_name_injective : forall bits id t id' t' : string,
  String.length t = String.length t' ->
  lib_basename bits id t = lib_basename bits id' t' -> id = id' /\ t = t'.
Proof. exact lib_name_injective. Qed.
Print Assumptions C17_library_name_injective.
Theorem C17_library_name_precision : forall b b' id t id' t' : string,
  In b precisions -> In b' precisions -> lib_basename b id t = lib_basename b' id' t' -> b = b'.
Proof. exact lib_name_precision. Qed.
Print Assumptions C17_library_name_precision.
