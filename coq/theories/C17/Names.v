(* C17/Names.v — the on-disk name of a compiled library (kerneldll.dll_name / make_dll):
   "sas" ++ bits ++ "_" ++ model id ++ "_" ++ tag(source)  (+ architecture suffix and extension).
   The cache key (id, tag, bits) of C17/Model.v is recoverable from the name: two different
   (id, tag) pairs, or two different precisions, never share a file name. *)
From Coq Require Import String Ascii List Arith Bool Lia.
Import ListNotations.
Open Scope string_scope.

Definition lib_basename (bits id tagstr : string) : string := "sas" ++ bits ++ "_" ++ id ++ "_" ++ tagstr.

Lemma append_cancel_l (s a b : string) : s ++ a = s ++ b -> a = b.
Proof. induction s as [|c s IH]; simpl; intros H; [exact H|]. inversion H. auto. Qed.

Lemma length_append (a b : string) : String.length (a ++ b) = String.length a + String.length b.
Proof. induction a as [|c a IH]; simpl; auto. Qed.

Lemma append_split (a b c d : string) : String.length a = String.length b -> a ++ c = b ++ d -> a = b /\ c = d.
Proof.
  revert b. induction a as [|x a IH]; intros [|y b] Hl H; simpl in *; try discriminate.
  - auto.
  - inversion H; subst. inversion Hl as [Hl']. destruct (IH b Hl' H2) as [-> ->]. auto.
Qed.

Theorem lib_name_injective (bits id t id' t' : string) :
  String.length t = String.length t' ->
  lib_basename bits id t = lib_basename bits id' t' -> id = id' /\ t = t'.
Proof.
  intros Hl H. unfold lib_basename in H.
  apply append_cancel_l in H. apply append_cancel_l in H. apply append_cancel_l in H.
  assert (Hlen : String.length (id ++ "_" ++ t) = String.length (id' ++ "_" ++ t')) by (rewrite H; reflexivity).
  rewrite !length_append in Hlen. simpl in Hlen.
  assert (Hid : String.length id = String.length id') by lia.
  destruct (append_split id id' ("_" ++ t) ("_" ++ t') Hid H) as [-> H2].
  split; [reflexivity|]. simpl in H2. inversion H2. reflexivity.
Qed.

Definition precisions : list string := ["32"; "64"; "128"].
Theorem lib_name_precision (b b' id t id' t' : string) :
  In b precisions -> In b' precisions -> lib_basename b id t = lib_basename b' id' t' -> b = b'.
Proof.
  unfold precisions, lib_basename. simpl.
  intros [<-|[<-|[<-|[]]]] [<-|[<-|[<-|[]]]] H; try reflexivity; simpl in H; inversion H.
Qed.

(* executable check used by the correspondence: observed file names against the model *)
Definition name_ok (c : string * string * string * string * string) : bool :=
  let '(bits, id, t, suffix, observed) := c in String.eqb (lib_basename bits id t ++ suffix) observed.
