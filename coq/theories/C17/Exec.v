From Coq Require Import List Arith Bool.
Import ListNotations.
From SM Require Import Base.Num C17.Model C17.Names.

Definition Src := (nat * nat * nat)%type.
Definition gen (m c t : nat) : Src := (m, c, t).
Definition tag (s : Src) : nat := let '(m, c, t) := s in (m * 41 + c) * 41 + t.  (* injective for ids <= 40; small because nat is unary *)

(* a case: initial texts, history, observed (model id, c id) of every Load in
   order, observed number of libraries in the cache directory at the end *)
Definition Case := (nat * nat * nat * list op * list (nat * nat) * nat)%type.

Fixpoint loads (outs : list (option Src)) : list (nat * nat) :=
  match outs with
  | [] => []
  | Some (m, c, _) :: r => (m, c) :: loads r
  | None :: r => loads r
  end.

Fixpoint pairs_eqb (a b : list (nat * nat)) : bool :=
  match a, b with
  | [], [] => true
  | (x1, x2) :: a', (y1, y2) :: b' => Nat.eqb x1 y1 && Nat.eqb x2 y2 && pairs_eqb a' b'
  | _, _ => false
  end.

Definition check_case (cs : Case) : bool :=
  let '(m, c, t, ops, obs, nlibs) := cs in
  let (s, outs) := run Src gen tag (init Src m c t) ops in
  pairs_eqb (loads outs) obs && Nat.eqb (length (dlls Src s)) nlibs.

Definition check_cases (l : list Case) : list nat := failing (map check_case l).

(* library file names observed in the cache directory against the name model *)
Definition check_names (l : list (String.string * String.string * String.string * String.string * String.string)) : list nat :=
  failing (map name_ok l).
