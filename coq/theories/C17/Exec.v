From Coq Require Import List Arith Bool.
Import ListNotations.
From SM Require Import Base.Num C17.Model C17.Names.

Definition Src := (nat * nat * nat * nat)%type.
(* texts of the model file 20 apart differ only in a parameter default: same generated source *)
Definition gen (m c h k : nat) : Src := (Nat.modulo m 20, c, h, k).
(* injective for ids <= 40; small because nat is unary *)
Definition tag (s : Src) : nat := let '(m, c, h, k) := s in ((m * 41 + c) * 41 + h) * 41 + k.

(* a case: initial files (text, mtime) x 4, history, observed (model, C, header, kernel_iq) text ids of every
   Load in order, observed number of libraries in the cache directory at the end.  The result also says
   whether the history is one the theorem speaks about (every edit advances its file's time). *)
Definition Case := (file * file * file * file * list op * list (nat * nat * nat * nat) * nat)%type.

Fixpoint loads (outs : list (option (nat * Src))) : list (nat * Src) :=
  match outs with
  | [] => []
  | Some x :: r => x :: loads r
  | None :: r => loads r
  end.

(* model: (definition text, (formula constant, C, header, kernel_iq)); observed: (definition text, C, header, kernel_iq)
   where the definition text is decoded from the formula constant and the default the evaluation used *)
Fixpoint quads_eqb (a : list (nat * Src)) (b : list Src) : bool :=
  match a, b with
  | [], [] => true
  | (d, (x1, x2, x3, x4)) :: a', (y1, y2, y3, y4) :: b' =>
      Nat.eqb d y1 && Nat.eqb x1 (Nat.modulo y1 20) && Nat.eqb x2 y2 && Nat.eqb x3 y3 && Nat.eqb x4 y4 && quads_eqb a' b'
  | _, _ => false
  end.

Definition check_case (cs : Case) : bool :=
  let '(m, c, h, k, ops, obs, nlibs) := cs in
  let (s, outs) := run Src gen tag true (init Src m c h k) ops in
  advancing Src gen tag true (init Src m c h k) ops && quads_eqb (loads outs) obs && Nat.eqb (length (dlls Src s)) nlibs.

Definition check_cases (l : list Case) : list nat := failing (map check_case l).

(* library file names observed in the cache directory against the name model *)
Definition check_names (l : list (String.string * String.string * String.string * String.string * String.string)) : list nat :=
  failing (map name_ok l).
