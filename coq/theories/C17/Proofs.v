From Coq Require Import List Arith Bool Lia.
Import ListNotations.
From SM Require Import C17.Model.

Section P.
  Variable Src : Type.
  Variable gen : nat -> nat -> nat -> Src.
  Variable tag : Src -> nat.
  (* the named hypothesis: the tag identifies the source.  CRC32 does not have
     this property on arbitrary text; every run checks it on the sources of
     the histories it explores. *)
  Hypothesis tag_injective : forall a b, tag a = tag b -> a = b.

  Notation st := (st Src).

  Definition Inv (s : st) : Prop :=
    mtime (fm Src s) <= clock Src s /\ mtime (fc Src s) <= clock Src s /\ mtime (ft Src s) <= clock Src s /\
    match mcache Src s with
    | Some (x, time) => time <= clock Src s /\
                        (mtime (fm Src s) <= time -> mtime (fc Src s) <= time -> x = txt (fm Src s))
    | None => True
    end /\
    match tcache Src s with
    | Some (time, x) => time <= clock Src s /\ (mtime (ft Src s) <= time -> x = txt (ft Src s))
    | None => True
    end /\
    Forall (fun kv => tag (snd kv) = fst (fst kv)) (dlls Src s).

  Lemma inv_init m c t : Inv (init Src m c t).
  Proof. unfold Inv, init; simpl. repeat split; auto. Qed.

  Lemma lookup_in k l b : lookup Src k l = Some b -> In (k, b) l.
  Proof.
    induction l as [|[k' s'] l IH]; simpl; [discriminate|].
    destruct ((fst k' =? fst k) && (snd k' =? snd k)) eqn:E.
    - intros H; inversion H; subst. left.
      apply andb_true_iff in E. destruct E as [E1 E2].
      apply Nat.eqb_eq in E1, E2. destruct k, k'; simpl in *; subst; auto.
    - intros H. right. auto.
  Qed.

  (* what a Load evaluates, in terms of the cached values *)
  Lemma load_result (s : st) bits s' out :
    Inv s -> step Src gen tag s (Load bits) = (s', Some out) ->
    out = gen (txt (fm Src s)) (txt (fc Src s)) (txt (ft Src s)).
  Proof.
    intros [Hm [Hc [Ht [Hmc [Htc Hd]]]]] Hstep. unfold step in Hstep.
    set (mc := match mcache Src s with
               | Some (x, time) => if (time <? mtime (fm Src s)) || (time <? mtime (fc Src s))
                                   then (txt (fm Src s), Nat.max (mtime (fm Src s)) (mtime (fc Src s))) else (x, time)
               | None => (txt (fm Src s), Nat.max (mtime (fm Src s)) (mtime (fc Src s))) end) in *.
    set (tc := match tcache Src s with
               | Some (time, x) => if time <? mtime (ft Src s) then (mtime (ft Src s), txt (ft Src s)) else (time, x)
               | None => (mtime (ft Src s), txt (ft Src s)) end) in *.
    assert (Hmt : fst mc = txt (fm Src s)).
    { unfold mc. destruct (mcache Src s) as [[x time]|]; auto.
      destruct ((time <? mtime (fm Src s)) || (time <? mtime (fc Src s))) eqn:E; auto.
      apply orb_false_iff in E. destruct E as [E1 E2]. apply Nat.ltb_ge in E1, E2.
      simpl. destruct Hmc as [_ Hx]. auto. }
    assert (Htt : snd tc = txt (ft Src s)).
    { unfold tc. destruct (tcache Src s) as [[time x]|]; auto.
      destruct (time <? mtime (ft Src s)) eqn:E; auto.
      apply Nat.ltb_ge in E. simpl. destruct Htc as [_ Hx]. auto. }
    rewrite Hmt, Htt in Hstep.
    destruct (lookup Src (tag (gen (txt (fm Src s)) (txt (fc Src s)) (txt (ft Src s))), bits) (dlls Src s)) as [built|] eqn:El.
    - inversion Hstep; subst. apply lookup_in in El.
      rewrite Forall_forall in Hd. specialize (Hd _ El). simpl in Hd.
      apply tag_injective. exact Hd.
    - inversion Hstep; subst. reflexivity.
  Qed.

  Lemma inv_step (s : st) o : Inv s -> Inv (fst (step Src gen tag s o)).
  Proof.
    intros [Hm [Hc [Ht [Hmc [Htc Hd]]]]]. destruct o; simpl.
    - (* EditM *) unfold Inv; simpl. repeat split; auto; try lia.
      + destruct (mcache Src s) as [[x time]|]; auto. destruct Hmc as [H1 H2]. split; [lia|]. intros; lia.
      + destruct (tcache Src s) as [[time x]|]; auto. destruct Htc as [H1 H2]. split; [lia|]. auto.
    - (* EditC *) unfold Inv; simpl. repeat split; auto; try lia.
      + destruct (mcache Src s) as [[x time]|]; auto. destruct Hmc as [H1 H2]. split; [lia|]. intros; lia.
      + destruct (tcache Src s) as [[time x]|]; auto. destruct Htc as [H1 H2]. split; [lia|]. auto.
    - (* EditT *) unfold Inv; simpl. repeat split; auto; try lia.
      + destruct (mcache Src s) as [[x time]|]; auto. destruct Hmc as [H1 H2]. split; [lia|]. auto.
      + destruct (tcache Src s) as [[time x]|]; auto. destruct Htc as [H1 H2]. split; [lia|]. intros; lia.
    - (* Load *)
      set (mc := match mcache Src s with
                 | Some (x, time) => if (time <? mtime (fm Src s)) || (time <? mtime (fc Src s))
                                     then (txt (fm Src s), Nat.max (mtime (fm Src s)) (mtime (fc Src s))) else (x, time)
                 | None => (txt (fm Src s), Nat.max (mtime (fm Src s)) (mtime (fc Src s))) end).
      set (tc := match tcache Src s with
                 | Some (time, x) => if time <? mtime (ft Src s) then (mtime (ft Src s), txt (ft Src s)) else (time, x)
                 | None => (mtime (ft Src s), txt (ft Src s)) end).
      assert (Hmc' : snd mc <= clock Src s /\ (mtime (fm Src s) <= snd mc -> mtime (fc Src s) <= snd mc -> fst mc = txt (fm Src s))).
      { unfold mc. destruct (mcache Src s) as [[x time]|]; simpl; [|split; auto; lia].
        destruct ((time <? mtime (fm Src s)) || (time <? mtime (fc Src s))); simpl; [split; auto; lia|]. exact Hmc. }
      assert (Htc' : fst tc <= clock Src s /\ (mtime (ft Src s) <= fst tc -> snd tc = txt (ft Src s))).
      { unfold tc. destruct (tcache Src s) as [[time x]|]; simpl; [|split; auto].
        destruct (time <? mtime (ft Src s)); simpl; [split; auto|]. exact Htc. }
      destruct (lookup Src _ (dlls Src s)); unfold Inv; simpl;
        repeat split; auto;
        try (destruct mc; simpl in *; tauto); try (destruct tc; simpl in *; tauto);
        try (constructor; auto).
    - (* Fresh *) unfold Inv; simpl. repeat split; auto.
  Qed.

  Lemma inv_run ops : forall s0 : st, Inv s0 -> Inv (fst (run Src gen tag s0 ops)).
  Proof.
    induction ops as [|o r IH]; intros s0 H0; simpl; auto.
    pose proof (inv_step s0 o H0) as H1.
    destruct (step Src gen tag s0 o) as [s1 o1]. simpl in H1.
    specialize (IH s1 H1). destruct (run Src gen tag s1 r). simpl in *. exact IH.
  Qed.

  (* the headline: after ANY history of edits, loads (any precision) and process
     restarts, a load evaluates a library compiled from the current texts *)
  Theorem load_current m c t ops bits :
    let s := fst (run Src gen tag (init Src m c t) ops) in
    forall s' out, step Src gen tag s (Load bits) = (s', Some out) ->
    out = gen (txt (fm Src s)) (txt (fc Src s)) (txt (ft Src s)).
  Proof.
    intros s s' out H. apply (load_result s bits s' out); auto.
    apply inv_run. apply inv_init.
  Qed.

  (* a Load always returns something *)
  Lemma load_some (s : st) bits : exists out, snd (step Src gen tag s (Load bits)) = Some out.
  Proof. unfold step. destruct (lookup Src _ (dlls Src s)); simpl; eauto. Qed.
End P.
