From Coq Require Import List Arith Bool Lia.
Import ListNotations.
From SM Require Import C17.Model.

Section P.
  Variable Src : Type.
  Variable gen : nat -> nat -> nat -> nat -> Src.
  Variable tag : Src -> nat.
  (* the named hypothesis: the tag identifies the source.  CRC32 does not have
     this property on arbitrary text; every run checks it on the sources of
     the histories it explores. *)
  Hypothesis tag_injective : forall a b, tag a = tag b -> a = b.

  Notation st := (st Src).
  Notation step := (step Src gen tag true).
  Notation run := (run Src gen tag true).

  (* a cache entry never carries a stamp later than its file, and when the stamp IS the file's time the
     cached text is the file's text *)
  Definition entry_ok (f : file) (stamp x : nat) : Prop := stamp <= mtime f /\ (stamp = mtime f -> x = txt f).

  Definition Inv (s : st) : Prop :=
    match mcache Src s with
    | Some (x, sm, sc) => entry_ok (fm Src s) sm x /\ sc <= mtime (fc Src s)
    | None => True
    end /\
    match hcache Src s with Some (time, x) => entry_ok (fh Src s) time x | None => True end /\
    match kcache Src s with Some (time, x) => entry_ok (fk Src s) time x | None => True end /\
    Forall (fun kv => tag (snd kv) = fst (fst kv)) (dlls Src s).

  Lemma inv_init m c h k : Inv (init Src m c h k).
  Proof. unfold Inv, init; simpl. repeat split; auto. Qed.

  Lemma lookup_in k l b : lookup Src k l = Some b -> In (k, b) l.
  Proof.
    induction l as [|[k' s'] l IH]; simpl; [discriminate|].
    destruct ((fst k' =? fst k) && (snd k' =? snd k)) eqn:E.
    - intros H; inversion H; subst. left.
      apply andb_true_iff in E. destruct E as [E1 E2].
      apply Nat.eqb_eq in E1, E2. destruct k, k'; simpl in *; subst; auto.
    - intros H. right. auto.
  Qed.

  Lemma template_current cache f :
    match cache with Some (time, x) => entry_ok f time x | None => True end ->
    entry_ok f (fst (template cache f)) (snd (template cache f)) /\ snd (template cache f) = txt f.
  Proof.
    unfold template, entry_ok. destruct cache as [[time x]|]; simpl.
    - intros [H1 H2]. destruct (time <? mtime f) eqn:E; simpl.
      + repeat split; auto.
      + apply Nat.ltb_ge in E. assert (time = mtime f) by lia. repeat split; auto.
    - intros _. repeat split; auto.
  Qed.

  Lemma module_current (s : st) :
    match mcache Src s with
    | Some (x, sm, sc) => entry_ok (fm Src s) sm x /\ sc <= mtime (fc Src s)
    | None => True
    end ->
    let mc := module Src true s in
    entry_ok (fm Src s) (snd (fst mc)) (fst (fst mc)) /\ snd mc <= mtime (fc Src s) /\ fst (fst mc) = txt (fm Src s).
  Proof.
    unfold module, stamps, entry_ok. destruct (mcache Src s) as [[[x sm] sc]|]; simpl.
    - intros [[H1 H2] H3].
      destruct ((sm <? mtime (fm Src s)) || (sc <? mtime (fc Src s))) eqn:E; simpl.
      + repeat split; auto.
      + apply orb_false_iff in E. destruct E as [E1 E2]. apply Nat.ltb_ge in E1, E2.
        assert (sm = mtime (fm Src s)) by lia. repeat split; auto.
    - intros _. repeat split; auto.
  Qed.

  (* what a Load evaluates, in terms of the files *)
  Lemma load_result (s : st) bits s' out :
    Inv s -> step s (Load bits) = (s', Some out) ->
    out = (txt (fm Src s), gen (txt (fm Src s)) (txt (fc Src s)) (txt (fh Src s)) (txt (fk Src s))).
  Proof.
    intros [Hm [Hh [Hk Hd]]] Hstep. unfold Model.step in Hstep.
    destruct (module_current s Hm) as [_ [_ Em]].
    destruct (template_current _ _ Hh) as [_ Eh]. destruct (template_current _ _ Hk) as [_ Ek].
    rewrite Em, Eh, Ek in Hstep.
    destruct (lookup Src (tag (gen (txt (fm Src s)) (txt (fc Src s)) (txt (fh Src s)) (txt (fk Src s))), bits) (dlls Src s)) as [built|] eqn:El.
    - inversion Hstep; subst. apply lookup_in in El.
      rewrite Forall_forall in Hd. specialize (Hd _ El). simpl in Hd.
      f_equal. apply tag_injective. exact Hd.
    - inversion Hstep; subst. reflexivity.
  Qed.

  Lemma entry_edit f stamp x t time : entry_ok f stamp x -> mtime f < time -> entry_ok (MkFile t time) stamp x.
  Proof. unfold entry_ok; simpl. intros [H1 H2] Hlt. split; [lia|]. intros; lia. Qed.

  Lemma inv_step (s : st) o : Inv s -> advances Src s o = true -> Inv (fst (step s o)).
  Proof.
    intros [Hm [Hh [Hk Hd]]] Ha. destruct o; simpl in *; try apply Nat.ltb_lt in Ha.
    - (* EditM *) unfold Inv; simpl. repeat split; auto.
      destruct (mcache Src s) as [[[x sm] sc]|]; auto. destruct Hm as [H1 H2]. split; auto. eapply entry_edit; eauto.
    - (* EditC *) unfold Inv; simpl. repeat split; auto.
      destruct (mcache Src s) as [[[x sm] sc]|]; auto. destruct Hm as [H1 H2]. split; auto. lia.
    - (* EditH *) unfold Inv; simpl. repeat split; auto.
      destruct (hcache Src s) as [[time0 x]|]; auto. eapply entry_edit; eauto.
    - (* EditK *) unfold Inv; simpl. repeat split; auto.
      destruct (kcache Src s) as [[time0 x]|]; auto. eapply entry_edit; eauto.
    - (* Load *)
      destruct (module_current s Hm) as [M1 [M2 _]].
      destruct (template_current _ _ Hh) as [H1 _]. destruct (template_current _ _ Hk) as [K1 _].
      destruct (lookup Src _ (dlls Src s)); unfold Inv; simpl.
      + repeat split; auto.
        * destruct (module Src true s) as [[x sm] sc]; simpl in *. split; auto.
        * destruct (template (hcache Src s) (fh Src s)); simpl in *; auto.
        * destruct (template (kcache Src s) (fk Src s)); simpl in *; auto.
      + repeat split; auto.
        * destruct (module Src true s) as [[x sm] sc]; simpl in *. split; auto.
        * destruct (template (hcache Src s) (fh Src s)); simpl in *; auto.
        * destruct (template (kcache Src s) (fk Src s)); simpl in *; auto.
    - (* Fresh *) unfold Inv; simpl. repeat split; auto.
  Qed.

  Lemma inv_run ops : forall s0 : st, Inv s0 -> advancing Src gen tag true s0 ops = true -> Inv (fst (run s0 ops)).
  Proof.
    induction ops as [|o r IH]; intros s0 H0 Ha; simpl; auto.
    simpl in Ha. apply andb_true_iff in Ha. destruct Ha as [Ha1 Ha2].
    pose proof (inv_step s0 o H0 Ha1) as H1.
    destruct (step s0 o) as [s1 o1] eqn:E. simpl in H1, Ha2.
    specialize (IH s1 H1 Ha2). destruct (run s1 r). simpl in *. exact IH.
  Qed.

  (* the headline: after ANY history of edits (each advancing the time of the file it touches), loads (any
     precision) and process restarts, a load evaluates a library compiled from the current texts *)
  Theorem load_current m c h k ops bits :
    advancing Src gen tag true (init Src m c h k) ops = true ->
    let s := fst (run (init Src m c h k) ops) in
    forall s' out, step s (Load bits) = (s', Some out) ->
    out = (txt (fm Src s), gen (txt (fm Src s)) (txt (fc Src s)) (txt (fh Src s)) (txt (fk Src s))).
  Proof.
    intros Ha s s' out H. apply (load_result s bits s' out); auto.
    apply inv_run; auto. apply inv_init.
  Qed.

  (* a Load always returns something *)
  Lemma load_some pf (s : st) bits : exists out, snd (Model.step Src gen tag pf s (Load bits)) = Some out.
  Proof. unfold Model.step. destruct (lookup Src _ (dlls Src s)); simpl; eauto. Qed.
End P.

(* ---- the single "newest" stamp (the code before the repair) does not have the property ---- *)
Definition SrcW := (nat * nat * nat * nat)%type.
Definition genW (m c h k : nat) : SrcW := (m, c, h, k).
Definition tagW (s : SrcW) : nat := let '(m, c, h, k) := s in ((m * 7 + c) * 7 + h) * 7 + k.
(* the C file is newer (time 9) than the model file (time 1); the model file is edited, its time advancing to 2 *)
Definition witness_init := init SrcW (MkFile 3 1) (MkFile 5 9) (MkFile 0 0) (MkFile 0 0).
Definition witness_ops := [Load 64; EditM 4 2].
Lemma newest_stamp_stale :
  advancing SrcW genW tagW false witness_init witness_ops = true /\
  let s := fst (run SrcW genW tagW false witness_init witness_ops) in
  snd (step SrcW genW tagW false s (Load 64)) = Some (3, (3, 5, 0, 0)) /\ txt (fm SrcW s) = 4.
Proof. vm_compute. repeat split. Qed.
Lemma per_file_stamp_current :
  let s := fst (run SrcW genW tagW true witness_init witness_ops) in
  snd (step SrcW genW tagW true s (Load 64)) = Some (4, (4, 5, 0, 0)).
Proof. vm_compute. reflexivity. Qed.

(* ---- a definition-only edit: two texts of the model file that generate the same source (only a default differs).
   The library is shared, the definition the load returns is the current one ---- *)
Definition genD (m c h k : nat) : SrcW := (Nat.modulo m 20, c, h, k).
Lemma definition_only_edit :
  let s0 := init SrcW (MkFile 6 1) (MkFile 5 1) (MkFile 0 0) (MkFile 0 0) in
  let ops := [Load 64; EditM 46 2] in
  advancing SrcW genD tagW true s0 ops = true /\
  let s := fst (run SrcW genD tagW true s0 ops) in
  snd (step SrcW genD tagW true s (Load 64)) = Some (46, (6, 5, 0, 0)) /\
  length (dlls SrcW (fst (step SrcW genD tagW true s (Load 64)))) = 1.
Proof. vm_compute. repeat split. Qed.

