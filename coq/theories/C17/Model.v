(* C17/Model.v — the compiled-model cache as a state machine.
   Files: the model definition (.py), a C file it includes, and the two kernel templates
   (kernel_header.c, kernel_iq.c).  Every file has its OWN modification time; an edit gives the file
   a new text and a new time (the property's premise is that this time is later than the file's
   previous one - nothing is assumed about the times of different files).
   Caches: in-process module cache with one timestamp per dependency (custom/__init__.py;
   [per_file = false] is the earlier policy of a single "newest" stamp), in-process template cache
   with one entry per template file keyed by its mtime (generate.load_template), on-disk library
   cache keyed by (CRC32 tag of the generated source, precision bits) (kerneldll.make_dll).
   Texts are abstract identifiers; [gen] assembles the kernel source from the four texts; [tag] is
   generate.tag_source. *)
From Coq Require Import List Arith Bool.
Import ListNotations.

Section Model.
  Variable Src : Type.
  Variable gen : nat -> nat -> nat -> nat -> Src.   (* model text, included C text, header text, kernel_iq text *)
  Variable tag : Src -> nat.
  Variable per_file : bool.        (* module cache stamps: true = one per dependency (current code) *)

  Record file := MkFile { txt : nat; mtime : nat }.
  Record st := MkSt {
    fm : file; fc : file; fh : file; fk : file;
    mcache : option (nat * nat * nat);      (* module cache: text loaded, stamp of the .py, stamp of the C file *)
    hcache : option (nat * nat);            (* template cache entry of kernel_header.c: (mtime at load, text) *)
    kcache : option (nat * nat);            (* template cache entry of kernel_iq.c *)
    dlls : list ((nat * nat) * Src)         (* (tag, bits) |-> the source the library was compiled from *)
  }.

  (* an edit gives a file the text [t] and the modification time [time] *)
  Inductive op := EditM (t time : nat) | EditC (t time : nat) | EditH (t time : nat) | EditK (t time : nat)
                | Load (bits : nat) | Fresh.

  Definition init (m c h k : file) : st := MkSt m c h k None None None [].

  Fixpoint lookup (k : nat * nat) (l : list ((nat * nat) * Src)) : option Src :=
    match l with
    | [] => None
    | (k', s) :: r => if (fst k' =? fst k) && (snd k' =? snd k) then Some s else lookup k r
    end.

  (* generate.load_template for one file: reread when not cached or when the file is newer than the entry *)
  Definition template (cache : option (nat * nat)) (f : file) : nat * nat :=
    match cache with
    | Some (time, x) => if time <? mtime f then (mtime f, txt f) else (time, x)
    | None => (mtime f, txt f)
    end.

  (* custom.load_custom_kernel_module: need_reload = any(stamp[p] < getmtime(p) for p in depends) *)
  Definition stamps (s : st) : nat * nat :=
    if per_file then (mtime (fm s), mtime (fc s))
    else let n := Nat.max (mtime (fm s)) (mtime (fc s)) in (n, n).
  Definition module (s : st) : nat * nat * nat :=
    match mcache s with
    | Some (x, sm, sc) =>
        if (sm <? mtime (fm s)) || (sc <? mtime (fc s))
        then (txt (fm s), fst (stamps s), snd (stamps s)) else (x, sm, sc)
    | None => (txt (fm s), fst (stamps s), snd (stamps s))
    end.

  (* the property's premise for one step: an edit advances the modification time OF THAT FILE *)
  Definition advances (s : st) (o : op) : bool :=
    match o with
    | EditM _ time => mtime (fm s) <? time
    | EditC _ time => mtime (fc s) <? time
    | EditH _ time => mtime (fh s) <? time
    | EditK _ time => mtime (fk s) <? time
    | _ => true
    end.

  (* returns the new state and, for Load, what the returned model object is made of: the text of the DEFINITION it
     carries (parameter table, defaults, limits: core.load_model pairs the module's model_info with the library)
     and the source of the library that is evaluated.  Two definition texts may generate the same source
     ([gen] need not be injective): an edit of a default changes the first component only. *)
  Definition step (s : st) (o : op) : st * option (nat * Src) :=
    match o with
    | EditM t time => (MkSt (MkFile t time) (fc s) (fh s) (fk s) (mcache s) (hcache s) (kcache s) (dlls s), None)
    | EditC t time => (MkSt (fm s) (MkFile t time) (fh s) (fk s) (mcache s) (hcache s) (kcache s) (dlls s), None)
    | EditH t time => (MkSt (fm s) (fc s) (MkFile t time) (fk s) (mcache s) (hcache s) (kcache s) (dlls s), None)
    | EditK t time => (MkSt (fm s) (fc s) (fh s) (MkFile t time) (mcache s) (hcache s) (kcache s) (dlls s), None)
    | Fresh => (MkSt (fm s) (fc s) (fh s) (fk s) None None None (dlls s), None)
    | Load bits =>
        let mc := module s in
        let hc := template (hcache s) (fh s) in
        let kc := template (kcache s) (fk s) in
        (* make_source reads the included C file every time *)
        let src := gen (fst (fst mc)) (txt (fc s)) (snd hc) (snd kc) in
        let key := (tag src, bits) in
        match lookup key (dlls s) with
        | Some built => (MkSt (fm s) (fc s) (fh s) (fk s) (Some mc) (Some hc) (Some kc) (dlls s), Some (fst (fst mc), built))
        | None => (MkSt (fm s) (fc s) (fh s) (fk s) (Some mc) (Some hc) (Some kc) ((key, src) :: dlls s), Some (fst (fst mc), src))
        end
    end.

  Fixpoint run (s : st) (ops : list op) : st * list (option (nat * Src)) :=
    match ops with
    | [] => (s, [])
    | o :: r => let (s', out) := step s o in let (s'', outs) := run s' r in (s'', out :: outs)
    end.

  (* every edit of the history advances its file's time *)
  Fixpoint advancing (s : st) (ops : list op) : bool :=
    match ops with
    | [] => true
    | o :: r => advances s o && advancing (fst (step s o)) r
    end.
End Model.
