(* C17/Model.v — the compiled-model cache as a state machine.
   Files: the model definition (.py), a C file it includes, the kernel templates.
   Caches: in-process module cache keyed by dependency mtimes (custom/__init__.py),
   in-process template cache keyed by mtime (generate.load_template), on-disk
   library cache keyed by (CRC32 tag of the generated source, precision bits)
   (kerneldll.make_dll).  Texts are abstract identifiers; [gen] assembles the
   kernel source from the three texts; [tag] is generate.tag_source. *)
From Coq Require Import List Arith Bool.
Import ListNotations.

Section Model.
  Variable Src : Type.
  Variable gen : nat -> nat -> nat -> Src.   (* model text, included C text, template text *)
  Variable tag : Src -> nat.

  Record file := MkFile { txt : nat; mtime : nat }.
  Record st := MkSt {
    clock : nat;
    fm : file; fc : file; ft : file;
    mcache : option (nat * nat);            (* module cache: (text loaded, newest dependency mtime at load) *)
    tcache : option (nat * nat);            (* template cache: (mtime at load, text) *)
    dlls : list ((nat * nat) * Src)         (* (tag, bits) |-> the source the library was compiled from *)
  }.

  Inductive op := EditM (t : nat) | EditC (t : nat) | EditT (t : nat) | Load (bits : nat) | Fresh.

  Definition init (m c t : nat) : st :=
    MkSt 0 (MkFile m 0) (MkFile c 0) (MkFile t 0) None None [].

  Fixpoint lookup (k : nat * nat) (l : list ((nat * nat) * Src)) : option Src :=
    match l with
    | [] => None
    | (k', s) :: r => if (fst k' =? fst k) && (snd k' =? snd k) then Some s else lookup k r
    end.

  (* returns the new state and, for Load, the source of the library that is evaluated *)
  Definition step (s : st) (o : op) : st * option Src :=
    match o with
    | EditM t => let c := S (clock s) in
        (MkSt c (MkFile t c) (fc s) (ft s) (mcache s) (tcache s) (dlls s), None)
    | EditC t => let c := S (clock s) in
        (MkSt c (fm s) (MkFile t c) (ft s) (mcache s) (tcache s) (dlls s), None)
    | EditT t => let c := S (clock s) in
        (MkSt c (fm s) (fc s) (MkFile t c) (mcache s) (tcache s) (dlls s), None)
    | Fresh => (MkSt (clock s) (fm s) (fc s) (ft s) None None (dlls s), None)
    | Load bits =>
        (* need_reload: any(cache_time < getmtime(p) for p in depends) *)
        let mc := match mcache s with
                  | Some (x, time) =>
                      if (time <? mtime (fm s)) || (time <? mtime (fc s))
                      then (txt (fm s), Nat.max (mtime (fm s)) (mtime (fc s)))
                      else (x, time)
                  | None => (txt (fm s), Nat.max (mtime (fm s)) (mtime (fc s)))
                  end in
        (* load_template: filename not in cache or mtime > cached mtime *)
        let tc := match tcache s with
                  | Some (time, x) => if time <? mtime (ft s) then (mtime (ft s), txt (ft s)) else (time, x)
                  | None => (mtime (ft s), txt (ft s))
                  end in
        (* make_source reads the included C file every time *)
        let src := gen (fst mc) (txt (fc s)) (snd tc) in
        let key := (tag src, bits) in
        match lookup key (dlls s) with
        | Some built => (MkSt (clock s) (fm s) (fc s) (ft s) (Some mc) (Some tc) (dlls s), Some built)
        | None => (MkSt (clock s) (fm s) (fc s) (ft s) (Some mc) (Some tc) ((key, src) :: dlls s), Some src)
        end
    end.

  Fixpoint run (s : st) (ops : list op) : st * list (option Src) :=
    match ops with
    | [] => (s, [])
    | o :: r => let (s', out) := step s o in let (s'', outs) := run s' r in (s'', out :: outs)
    end.
End Model.
