(* C12/Model.v — exact checks on Gauss-Legendre tables given as scaled integers:
   node z_i = a_i / D, weight w_i = b_i / D with D = 10^digits.  The arithmetic is
   exact, carried out in Bignums' BigZ (machine-word based) because the moments
   involve integers of several thousand digits. *)
From Coq Require Import ZArith List Bool.
From Bignums Require Import BigZ.
Import ListNotations.

Definition table := list (Z * Z).      (* (a_i, b_i) *)

Section Big.
  Open Scope bigZ_scope.
  Definition toB (t : table) : list (bigZ * bigZ * bigZ) := map (fun '(a, b) => (BigZ.of_Z a, BigZ.of_Z b, 1)) t.

  (* sum_i b_i a_i^k, with the powers carried along *)
  Definition moment_step (tp : list (bigZ * bigZ * bigZ)) : bigZ * list (bigZ * bigZ * bigZ) :=
    (fold_left (fun s '(a, b, p) => s + b * p) tp 0, map (fun '(a, b, p) => (a, b, p * a)) tp).

  (* | S_k / D^(k+1) - (1+(-1)^k)/(k+1) | <= 1/inv_tol, in integers *)
  Definition moment_ok (inv_tol k Dk1 Sk : bigZ) : bool :=
    let exact_num := if BigZ.even k then 2 else 0 in
    BigZ.leb (BigZ.abs (Sk * (k + 1) - exact_num * Dk1) * inv_tol) ((k + 1) * Dk1).

  Fixpoint moments_ok (fuel : nat) (inv_tol D k Dk1 : bigZ) (tp : list (bigZ * bigZ * bigZ)) : bool :=
    match fuel with
    | O => true
    | S f => let '(Sk, tp') := moment_step tp in
             moment_ok inv_tol k Dk1 Sk && moments_ok f inv_tol D (k + 1) (Dk1 * D) tp'
    end.
End Big.

(* every moment k = 0 .. 2n-1 of the table equals int_{-1}^{1} x^k dx to within 1/inv_tol *)
Definition exact_to_degree (inv_tol D : Z) (tab : table) : bool :=
  moments_ok (2 * length tab) (BigZ.of_Z inv_tol) (BigZ.of_Z D) 0%bigZ (BigZ.of_Z D) (toB tab).

Open Scope Z_scope.
Fixpoint increasing (l : list Z) : bool :=
  match l with a :: ((b :: _) as r) => (a <? b) && increasing r | _ => true end.

(* nodes strictly increasing inside (-1,1) and antisymmetric; weights positive
   and symmetric (symmetry to 1/inv_tol: the tables are 15-digit decimals) *)
Definition well_formed (inv_tol D : Z) (tab : table) : bool :=
  let zs := map fst tab in let ws := map snd tab in
  let tol := D / inv_tol in
  increasing zs && forallb (fun a => (- D <? a) && (a <? D)) zs &&
  forallb (fun '(a, a') => Z.abs (a + a') <=? tol) (combine zs (rev zs)) &&
  forallb (fun b => 0 <? b) ws &&
  forallb (fun '(b, b') => Z.abs (b - b') <=? tol) (combine ws (rev ws)).
