(* C12/Property.v — obligations over the Gauss-Legendre tables regenerated
   from /repo/sasmodels/models/lib on every run (finite, exact integer
   arithmetic, by computation). *)
From Coq Require Import ZArith List Bool.
Import ListNotations.
From SM Require Import C12.Model Gen.C12_tables.
Open Scope Z_scope.

(* nodes strictly increasing in (-1,1) and antisymmetric, weights positive and
   symmetric, and for EVERY k < 2n:  | sum_i w_i z_i^k - int_{-1}^{1} x^k dx | <= 1e-13 *)
Theorem C12_gauss20_exact : well_formed (10 ^ 14) D gauss20 && exact_to_degree (10 ^ 13) D gauss20 = true.
Proof. vm_compute. reflexivity. Qed.
Print Assumptions C12_gauss20_exact.

Theorem C12_gauss76_exact : well_formed (10 ^ 14) D gauss76 && exact_to_degree (10 ^ 13) D gauss76 = true.
Proof. vm_compute. reflexivity. Qed.
Print Assumptions C12_gauss76_exact.

(* the 150-point table is only accurate to 1e-10 (its weights sum to 2 - 3.8e-11) *)
Theorem C12_gauss150_exact : well_formed (10 ^ 10) D gauss150 && exact_to_degree (10 ^ 10) D gauss150 = true.
Proof. vm_compute. reflexivity. Qed.
Print Assumptions C12_gauss150_exact.
