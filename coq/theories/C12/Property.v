(* C12/Property.v — obligations over the Gauss-Legendre tables regenerated
   from /repo/sasmodels/models/lib on every run (finite, exact integer
   arithmetic, by computation). *)
From Coq Require Import ZArith List Bool Reals.
From Coquelicot Require Import Coquelicot.
Import ListNotations.
From SM Require Import C12.Model Gen.C12_tables C12.Average.
Open Scope Z_scope.

(* nodes strictly increasing in (-1,1) and antisymmetric, weights positive and
   symmetric, and for EVERY k < 2n:  | sum_i w_i z_i^k - int_{-1}^{1} x^k dx | <= 1e-13 *)
Theorem C12_gauss20_exact : well_formed (10 ^ 14) D gauss20 && exact_to_degree (10 ^ 13) D gauss20 = true.
Proof. vm_compute. reflexivity. Qed.
Print Assumptions C12_gauss20_exact.

Theorem C12_gauss76_exact : well_formed (10 ^ 14) D gauss76 && exact_to_degree (10 ^ 13) D gauss76 = true.
Proof. vm_compute. reflexivity. Qed.
Print Assumptions C12_gauss76_exact.

(* the 150-point table is only accurate to 1e-10 (its weights sum to 2 - 3.8e-11) *)
Theorem C12_gauss150_exact : well_formed (10 ^ 10) D gauss150 && exact_to_degree (10 ^ 10) D gauss150 = true.
Proof. vm_compute. reflexivity. Qed.
Print Assumptions C12_gauss150_exact.

(* tables of other sizes are written on demand by sasmodels.gengauss (set_integration_size / sascomp -ngauss=N);
   two sizes that are not multiples of four, generated with the current code on every run: exactly N points
   (GAUSS_N counts no padding), well formed, and exact for every degree < 2N *)
Theorem C12_gengauss10_exact :
  (Nat.eqb gengauss10_size 10 && Nat.eqb (length gengauss10) 10 && well_formed (10 ^ 13) D gengauss10 && exact_to_degree (10 ^ 13) D gengauss10) = true.
Proof. vm_compute. reflexivity. Qed.
Print Assumptions C12_gengauss10_exact.
Theorem C12_gengauss31_exact :
  (Nat.eqb gengauss31_size 31 && Nat.eqb (length gengauss31) 31 && well_formed (10 ^ 13) D gengauss31 && exact_to_degree (10 ^ 13) D gengauss31) = true.
Proof. vm_compute. reflexivity. Qed.
Print Assumptions C12_gengauss31_exact.

(* ---- the change of variables (Coquelicot's Riemann integral) ----
   h(u) is the particle-frame function as a function of u = cos(alpha), alpha the angle between q and the particle
   axis: h(u) = g(q sqrt(1-u^2), q u) for a shape of revolution, continuous and even in u.  The uniform average
   over all directions of q, (1/2) int_{-1}^{1} h(u) du (the area element of the sphere is du dphi), equals the
   integral int_0^{pi/2} h(cos a) sin a da that the models' Iq/Fq evaluate with their Gauss-Legendre rule, and the
   half-range integral int_0^1 h(u) du the check's reference uses. *)
Theorem C12_average_forms : forall h : R -> R, (forall u, continuous h u) -> (forall u, h (- u)%R = h u) ->
  (RInt h (-1) 1 / 2 = RInt (fun a => h (cos a) * sin a) 0 (PI / 2))%R /\
  (RInt (fun a => h (cos a) * sin a) 0 (PI / 2) = RInt h 0 1)%R.
Proof. intros h Ch He. split; [apply orientational_average_forms; assumption | apply polar_substitution; assumption]. Qed.
Print Assumptions C12_average_forms.
