(* C12/Average.v — the change of variables behind "1-D = orientational average".
   For a particle-frame function that depends on the direction of q only through u = cos(alpha) (alpha the
   angle between q and the particle axis; g(q sin a, q cos a) for a shape of revolution), the uniform average
   over directions is  (1/2) int_{-1}^{1} h(u) du  (Archimedes: the area element of the unit sphere is du dphi).
   The models' Iq/Fq compute  int_0^{pi/2} h(cos a) sin a da  with a Gauss-Legendre rule in a;  the reference
   average of the check uses  int_0^1 h(u) du.  For continuous h, even in u, the three coincide. *)
From Coq Require Import Reals Lra.
From Coquelicot Require Import Coquelicot.
Open Scope R_scope.

Lemma polar_substitution (h : R -> R) : (forall u, continuous h u) ->
  RInt (fun a => h (cos a) * sin a) 0 (PI / 2) = RInt h 0 1.
Proof.
  intros Ch.
  pose proof (RInt_comp (V := R_CompleteNormedModule) h cos (fun a => - sin a) 0 (PI / 2)) as H.
  assert (H1 : forall x, Rmin 0 (PI / 2) <= x <= Rmax 0 (PI / 2) -> continuous h (cos x)) by (intros; apply Ch).
  assert (H2 : forall x, Rmin 0 (PI / 2) <= x <= Rmax 0 (PI / 2) -> is_derive cos x (- sin x) /\ continuous (fun a => - sin a) x).
  { intros x _. split.
    - auto_derive; [exact I | ring].
    - apply (ex_derive_continuous (fun a => - sin a)). auto_derive. exact I. }
  specialize (H H1 H2). rewrite cos_0, cos_PI2 in H.
  assert (Ex : ex_RInt h 0 1) by (apply (ex_RInt_continuous h); intros; apply Ch).
  rewrite <- (opp_RInt_swap h 0 1 Ex) in H.
  assert (Exs : ex_RInt (fun a => h (cos a) * sin a) 0 (PI / 2)).
  { apply (ex_RInt_continuous (fun a => h (cos a) * sin a)). intros z _.
    apply (continuous_mult (fun a => h (cos a)) sin).
    - apply continuous_comp; [|apply Ch]. apply (ex_derive_continuous cos). auto_derive. exact I.
    - apply (ex_derive_continuous sin). auto_derive. exact I. }
  cbv beta in H.
  match type of H with ?lhs = _ =>
    assert (E : lhs = opp (RInt (fun a => h (cos a) * sin a) 0 (PI / 2))) end.
  { rewrite <- (RInt_opp (fun a => h (cos a) * sin a) 0 (PI / 2) Exs).
    apply RInt_ext. intros x _. unfold scal, opp; simpl. unfold mult; simpl. ring. }
  rewrite E in H. unfold opp in H; simpl in H. lra.
Qed.

(* the average over the whole sphere of a function even in u is twice the half-sphere integral *)
Lemma even_half (h : R -> R) : (forall u, continuous h u) -> (forall u, h (- u) = h u) ->
  RInt h (-1) 1 / 2 = RInt h 0 1.
Proof.
  intros Ch Heven.
  assert (Ex : forall a b, ex_RInt h a b) by (intros; apply (ex_RInt_continuous h); intros; apply Ch).
  rewrite <- (RInt_Chasles h (-1) 0 1 (Ex _ _) (Ex _ _)).
  assert (Hneg : RInt h (-1) 0 = RInt h 0 1).
  { pose proof (RInt_comp_lin h (-1) 0 0 1) as Hl.
    replace (-1 * 0 + 0) with 0 in Hl by ring. replace (-1 * 1 + 0) with (-1) in Hl by ring.
    specialize (Hl (Ex _ _)).
    rewrite <- (opp_RInt_swap h (-1) 0 (Ex _ _)) in Hl.
    match type of Hl with ?lhs = _ => assert (E : lhs = opp (RInt h 0 1)) end.
    { rewrite <- (RInt_opp h 0 1 (Ex _ _)). apply RInt_ext. intros x _.
      replace (-1 * x + 0) with (- x) by ring. rewrite Heven. unfold scal, opp; simpl. unfold mult; simpl. ring. }
    rewrite E in Hl. unfold opp in Hl; simpl in Hl. lra. }
  unfold plus; simpl. rewrite Hneg. lra.
Qed.

Theorem orientational_average_forms (h : R -> R) : (forall u, continuous h u) -> (forall u, h (- u) = h u) ->
  RInt h (-1) 1 / 2 = RInt (fun a => h (cos a) * sin a) 0 (PI / 2).
Proof. intros Ch He. rewrite (polar_substitution h Ch). apply even_half; assumption. Qed.
