From Coq Require Import List PrimFloat Bool.
Import ListNotations.
From SM Require Import Base.Num C03.Model.

(* kind 0: pinhole (cdf supplied), kind 1: slit *)
Record Case := MkCase {
  r_kind : nat;
  r_qcalc : list float;
  r_cdf : list float;              (* erf((edge-q)/(sqrt2 sigma)) at the edges, pinhole only *)
  r_q : float; r_a : float; r_b : float;     (* pinhole: sigma, unused ; slit: w (sqrt dimension), l (|q+v| dimension) *)
  r_expect : list float            (* the column of weight_matrix *)
}.

Definition column (c : Case) : list float :=
  match r_kind c with
  | 0 => pinhole_column FOps (r_qcalc c) (r_cdf c) (r_q c) (r_a c) 0x1.4p+1%float 0x1.8p+1%float
  | _ => slit_column FOps PrimFloat.sqrt 0x1p-1%float 2%float (r_qcalc c) (r_q c) (r_a c) (r_b c) 30
  end.

Definition check_case (tol : float) (c : Case) : bool :=
  let m := column c in
  Nat.eqb (length m) (length (r_expect c)) &&
  forallb (fun '(x, y) => closeb 0%float tol 1%float x y) (combine m (r_expect c)).

Definition check_cases (tol : float) (l : list Case) : list nat := failing (map (check_case tol) l).

(* ---- the default pinhole calculation grid: pinhole_extend_q + the low-|q| cut + abs ---- *)
From SM Require Import C02.Model C03.Extend.
Record ECase := MkECase {
  e_q : list float; e_w : list float;      (* data points in increasing q with their widths *)
  e_nlo : float; e_nhi : float;            (* PINHOLE_N_SIGMA *)
  e_minres2 : float;                       (* 2 * MINIMUM_RESOLUTION *)
  e_nlow : nat; e_nhigh : nat;             (* extension counts (ceil of a quotient, computed by the harness) *)
  e_cutoff : float;                        (* MINIMUM_ABSOLUTE_Q * min(q) *)
  e_expect : list float                    (* Pinhole1D(q, w).q_calc *)
}.
Definition extend_model (c : ECase) : list float :=
  positive_cut FOps (e_cutoff c) (pinhole_extend FOps (e_minres2 c) (e_q c) (e_w c) (e_nlo c) (e_nhi c) (e_nlow c) (e_nhigh c)).
Definition check_ecase (tol : float) (c : ECase) : bool :=
  let m := extend_model c in
  Nat.eqb (length m) (length (e_expect c)) &&
  forallb (fun '(x, y) => closeb tol 0%float (PrimFloat.abs y) x y) (combine m (e_expect c)).
Definition check_ecases (tol : float) (l : list ECase) : list nat := failing (map (check_ecase tol) l).
