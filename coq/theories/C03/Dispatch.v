(* C03/Dispatch.v — which 1-D resolution class a data set gets (DataMixin._interpret_data): pinhole smearing as soon as
   ONE selected point has a positive width (points without a width are then smeared with the smallest usable width),
   slit smearing when slit extents are given, otherwise none. *)
From Coq Require Import List Bool Reals Lra.
Import ListNotations.
From SM Require Import Base.Num.

Inductive res_kind := RPinhole | RPerfect | RSlit.

Definition dispatch {T : Type} (O : Ops T) (dx : option (list T)) (has_dxl has_dxw : bool) : res_kind :=
  match dx with
  | Some dq => if existsb (fun w => ltb O (zero O) w) dq then RPinhole else RPerfect
  | None => if has_dxl || has_dxw then RSlit else RPerfect
  end.

Open Scope R_scope.
(* a data set in which some point has a positive width is smeared: its theory is requested over the windows of its
   points (C03_default_grid_covers) instead of at the points alone *)
Theorem positive_width_is_smeared (dq : list R) a b w : In w dq -> 0 < w -> dispatch ROps (Some dq) a b = RPinhole.
Proof.
  intros Hin Hw. unfold dispatch.
  assert (E : existsb (fun w0 => ltb ROps (zero ROps) w0) dq = true).
  { apply existsb_exists. exists w. split; [exact Hin|]. cbn [ltb zero ROps]. unfold Rltb. destruct (Rlt_dec 0 w); [reflexivity|contradiction]. }
  rewrite E. reflexivity.
Qed.
(* ... and only then *)
Theorem unsmeared_means_no_positive_width (dq : list R) a b : dispatch ROps (Some dq) a b = RPerfect -> forall w, In w dq -> w <= 0.
Proof.
  intros H w Hin. unfold dispatch in H.
  destruct (existsb (fun w0 => ltb ROps (zero ROps) w0) dq) eqn:E; [discriminate|].
  destruct (Rle_dec w 0) as [Hle|Hgt]; [exact Hle|].
  exfalso. assert (existsb (fun w0 => ltb ROps (zero ROps) w0) dq = true).
  { apply existsb_exists. exists w. split; [exact Hin|]. cbn [ltb zero ROps]. unfold Rltb. destruct (Rlt_dec 0 w); [reflexivity|lra]. }
  congruence.
Qed.
