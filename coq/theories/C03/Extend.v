(* C03/Extend.v — the default calculation grid of pinhole smearing (resolution.py: pinhole_extend_q,
   linear_extrapolation, and the low-|q| cut and abs of Pinhole1D.__init__), with the coverage and positivity
   statements of the property.  numpy.linspace is C02.Model.linspace; the two extension counts n_low, n_high
   (a ceil of a quotient in the code) are inputs >= 1: the statements hold for every such count. *)
From Coq Require Import List Bool Arith Reals Lra Lia.
Import ListNotations.
From SM Require Import Base.Num C02.Model C02.Proofs.

Section Model.
  Context {T : Type} (O : Ops T).
  Variable minres2 : T.        (* 2 * MINIMUM_RESOLUTION *)

  Definition minT (a b : T) : T := if ltb O b a then b else a.
  Definition maxT' (a b : T) : T := if ltb O a b then b else a.
  Definition list_min (d : T) (l : list T) : T := match l with [] => d | x :: r => fold_left minT r x end.
  Definition list_max (d : T) (l : list T) : T := match l with [] => d | x :: r => fold_left maxT' r x end.

  (* linear_extrapolation(q, q_min, q_max) for q already sorted *)
  Definition lin_extrap (q : list T) (q_min q_max : T) (n_low n_high : nat) : list T :=
    match q with
    | [] => []
    | q0 :: _ =>
        let qn := last q q0 in
        let q_low := if ltb O (add O q_min minres2) q0 then removelast (linspace O q_min q0 (S n_low)) else [] in
        let q_high := if ltb O qn (sub O q_max minres2) then tl (linspace O qn q_max (S n_high)) else [] in
        q_low ++ q ++ q_high
    end.

  (* pinhole_extend_q(q, q_width, nsigma=(nlo, nhi)) *)
  Definition pinhole_extend (q w : list T) (nlo nhi : T) (n_low n_high : nat) : list T :=
    let q_min := list_min (zero O) (map (fun qw => sub O (fst qw) (mul O nlo (snd qw))) (combine q w)) in
    let q_max := list_max (zero O) (map (fun qw => add O (fst qw) (mul O nhi (snd qw))) (combine q w)) in
    lin_extrap q q_min q_max n_low n_high.

  (* Pinhole1D.__init__: drop |q_calc| < cutoff (= 0.02 min q), then take absolute values *)
  Definition positive_cut (cutoff : T) (l : list T) : list T :=
    map (absv O) (filter (fun x => leb O cutoff (absv O x)) l).
End Model.

Open Scope R_scope.

Lemma minT_le a b : minT ROps a b <= a /\ minT ROps a b <= b.
Proof. unfold minT; cbn [ltb ROps]. destruct (Rltb b a) eqn:E; [apply Rltb_true in E | apply Rltb_false in E]; lra. Qed.
Lemma maxT_ge a b : a <= maxT' ROps a b /\ b <= maxT' ROps a b.
Proof. unfold maxT'; cbn [ltb ROps]. destruct (Rltb a b) eqn:E; [apply Rltb_true in E | apply Rltb_false in E]; lra. Qed.

Lemma fold_min_le r : forall x y, (y = x \/ In y r) -> fold_left (minT ROps) r x <= y.
Proof.
  induction r as [|z r IH]; intros x y [H|H]; simpl.
  - subst; lra.
  - contradiction.
  - subst. eapply Rle_trans; [apply IH; left; reflexivity|]. apply minT_le.
  - destruct H as [H|H].
    + subst. eapply Rle_trans; [apply IH; left; reflexivity|]. apply minT_le.
    + apply IH. right. exact H.
Qed.
Lemma fold_max_ge r : forall x y, (y = x \/ In y r) -> y <= fold_left (maxT' ROps) r x.
Proof.
  induction r as [|z r IH]; intros x y [H|H]; simpl.
  - subst; lra.
  - contradiction.
  - subst. eapply Rle_trans; [|apply IH; left; reflexivity]. apply maxT_ge.
  - destruct H as [H|H].
    + subst. eapply Rle_trans; [|apply IH; left; reflexivity]. apply maxT_ge.
    + apply IH. right. exact H.
Qed.
Lemma list_min_le d l y : In y l -> list_min ROps d l <= y.
Proof. destruct l as [|x r]; [contradiction|]. intros [H|H]; simpl; apply fold_min_le; [left; auto | right; auto]. Qed.
Lemma list_max_ge d l y : In y l -> y <= list_max ROps d l.
Proof. destruct l as [|x r]; [contradiction|]. intros [H|H]; simpl; apply fold_max_ge; [left; auto | right; auto]. Qed.

(* numpy.linspace(a, b, n+1) starts at a and ends at b *)
Lemma linspace_hd a b n : (1 <= n)%nat -> hd 0 (linspace ROps a b (S n)) = a.
Proof.
  intros Hn. assert (H2 : (2 <= S n)%nat) by lia. assert (H0 : (0 < S n)%nat) by lia.
  pose proof (linspace_nth a b (S n) 0%nat H2 H0) as H.
  destruct (linspace ROps a b (S n)) as [|x r] eqn:E.
  - pose proof (linspace_length a b (S n)) as Hl. rewrite E in Hl. discriminate.
  - change (nth 0 (x :: r) 0) with x in H. simpl hd. rewrite H.
    destruct n as [|m]; [lia|]. cbn [Nat.sub Nat.eqb INR]. lra.
Qed.
Lemma last_is_nth (l : list R) d : l <> [] -> last l d = nth (length l - 1) l d.
Proof.
  induction l as [|a [|b t] IH]; intros Hne; try contradiction; [reflexivity|].
  change (last (a :: b :: t) d) with (last (b :: t) d). rewrite IH by discriminate.
  simpl length. replace (S (S (length t)) - 1)%nat with (S (length t)) by lia.
  replace (S (length t) - 1)%nat with (length t) by lia. reflexivity.
Qed.
Lemma linspace_last a b n : (1 <= n)%nat -> last (linspace ROps a b (S n)) 0 = b.
Proof.
  intros Hn. assert (H2 : (2 <= S n)%nat) by lia. assert (H0 : (n < S n)%nat) by lia.
  pose proof (linspace_nth a b (S n) n H2 H0) as H.
  pose proof (linspace_length a b (S n)) as Hl.
  rewrite last_is_nth by (intro E; rewrite E in Hl; discriminate).
  rewrite Hl. replace (S n - 1)%nat with n by lia. rewrite H. replace (S n - 1)%nat with n by lia. rewrite Nat.eqb_refl. reflexivity.
Qed.

Lemma last_app' (l1 l2 : list R) d : l2 <> [] -> last (l1 ++ l2) d = last l2 d.
Proof.
  intros Hne. induction l1 as [|a t IH]; [reflexivity|].
  simpl app. destruct (t ++ l2) eqn:E.
  - destruct t; simpl in E; [contradiction | discriminate].
  - rewrite <- IH. reflexivity.
Qed.

Section Cover.
  Variable minres2 : R.
  Hypothesis Hm : 0 <= minres2.

  (* the grid starts at q_min (or within 2 MINIMUM_RESOLUTION above it) ... *)
  Theorem lin_extrap_low (q : list R) q_min q_max n_low n_high : q <> [] -> (1 <= n_low)%nat ->
    hd 0 (lin_extrap ROps minres2 q q_min q_max n_low n_high) <= q_min + minres2.
  Proof.
    intros Hq Hn. destruct q as [|q0 r]; [contradiction|]. unfold lin_extrap. cbn [add sub ltb ROps].
    destruct (Rltb (q_min + minres2) q0) eqn:E.
    - pose proof (linspace_hd q_min q0 n_low Hn) as Hh. pose proof (linspace_length q_min q0 (S n_low)) as Hl.
      destruct (linspace ROps q_min q0 (S n_low)) as [|x [|y t]] eqn:El; simpl in Hl; try lia.
      simpl in Hh. subst x. simpl. lra.
    - apply Rltb_false in E. simpl. lra.
  Qed.

  (* ... ends at q_max (or within 2 MINIMUM_RESOLUTION below it) ... *)
  Theorem lin_extrap_high (q : list R) q_min q_max n_low n_high : q <> [] -> (1 <= n_high)%nat ->
    q_max - minres2 <= last (lin_extrap ROps minres2 q q_min q_max n_low n_high) 0.
  Proof.
    intros Hq Hn. destruct q as [|q0 r]; [contradiction|]. unfold lin_extrap. cbn [add sub ltb ROps].
    set (qn := last (q0 :: r) q0).
    destruct (Rltb qn (q_max - minres2)) eqn:E.
    - pose proof (linspace_last qn q_max n_high Hn) as Hla. pose proof (linspace_length qn q_max (S n_high)) as Hl.
      destruct (linspace ROps qn q_max (S n_high)) as [|x [|y t]] eqn:El; simpl in Hl; try lia.
      rewrite app_assoc. rewrite last_app' by discriminate.
      simpl tl. change (last (x :: y :: t) 0) with (last (y :: t) 0) in Hla. rewrite Hla. lra.
    - apply Rltb_false in E. rewrite app_nil_r.
      assert (Hl : forall l : list R, l <> [] -> forall X, last (X ++ l) 0 = last l 0).
      { intros l Hl X. apply last_app'. exact Hl. }
      rewrite Hl by discriminate.
      assert (Hd : forall (l : list R) d d', l <> [] -> last l d = last l d').
      { induction l as [|a [|b t] IH]; intros d d' Hne; try contradiction; auto. apply IH. discriminate. }
      rewrite (Hd (q0 :: r) 0 q0) by discriminate. fold qn. lra.
  Qed.

  (* ... and contains every data point *)
  Theorem lin_extrap_contains (q : list R) q_min q_max n_low n_high x :
    In x q -> In x (lin_extrap ROps minres2 q q_min q_max n_low n_high).
  Proof.
    intros Hx. destruct q as [|q0 r]; [contradiction|]. unfold lin_extrap.
    apply in_or_app. right. apply in_or_app. left. exact Hx.
  Qed.

  (* pinhole: the default grid spans the window [q_i - nlo w_i, q_i + nhi w_i] of EVERY data point *)
  Theorem pinhole_extend_covers (q w : list R) nlo nhi n_low n_high i :
    length q = length w -> (i < length q)%nat -> (1 <= n_low)%nat -> (1 <= n_high)%nat ->
    let g := pinhole_extend ROps minres2 q w nlo nhi n_low n_high in
    hd 0 g <= nth i q 0 - nlo * nth i w 0 + minres2 /\ nth i q 0 + nhi * nth i w 0 - minres2 <= last g 0.
  Proof.
    intros Hlen Hi Hnl Hnh g. unfold g, pinhole_extend.
    assert (Hq : q <> []) by (destruct q; simpl in Hi; [lia | discriminate]).
    assert (Hin : In (nth i q 0, nth i w 0) (combine q w)).
    { rewrite <- (combine_nth q w i 0 0 Hlen). apply nth_In. rewrite combine_length. lia. }
    split.
    - eapply Rle_trans; [apply lin_extrap_low; auto|].
      apply Rplus_le_compat_r.
      apply list_min_le. apply in_map_iff. exists (nth i q 0, nth i w 0). split; [reflexivity | exact Hin].
    - eapply Rle_trans; [|apply lin_extrap_high; auto].
      apply Rplus_le_compat_r.
      apply list_max_ge. apply in_map_iff. exists (nth i q 0, nth i w 0). split; [reflexivity | exact Hin].
  Qed.
End Cover.

(* after the cut and abs every requested point is strictly positive (cutoff = 0.02 min q > 0) *)
Theorem positive_cut_positive cutoff l x : 0 < cutoff -> In x (positive_cut ROps cutoff l) -> cutoff <= x /\ 0 < x.
Proof.
  intros Hc Hx. unfold positive_cut in Hx. apply in_map_iff in Hx. destruct Hx as [y [Hy Hin]].
  apply filter_In in Hin. destruct Hin as [_ Hle]. cbn [leb absv ROps] in *. apply Rleb_true in Hle. subst x. lra.
Qed.
(* the cut removes nothing at or beyond the cutoff: a data point's own q survives *)
Theorem positive_cut_keeps cutoff l x : cutoff <= Rabs x -> In x l -> In (Rabs x) (positive_cut ROps cutoff l).
Proof.
  intros Hc Hx. unfold positive_cut. apply in_map_iff. exists x. split; [reflexivity|].
  apply filter_In. split; [exact Hx|]. cbn [leb absv ROps]. apply Rleb_true. exact Hc.
Qed.
