(* C03/Model.v — 1-D resolution weight matrices (sasmodels/resolution.py).
   bin_edges, pinhole_resolution (from the erf values at the edges, which are a
   leaf), _q_perp_weights, the three slit branches, apply. *)
From Coq Require Import List Bool Arith.
Import ListNotations.
From SM Require Import Base.Num.

Section Model.
  Context {T : Type} (O : Ops T).
  Variable sqrtT : T -> T.
  Variable half two : T.
  Notation "x + y" := (add O x y).
  Notation "x * y" := (mul O x y).
  Notation "x - y" := (sub O x y).
  Notation "x / y" := (div O x y).

  Fixpoint sumT (l : list T) : T := match l with [] => zero O | x :: r => x + sumT r end.
  (* np.sum accumulates left to right *)
  Definition sumL (l : list T) : T := fold_left (add O) l (zero O).

  Fixpoint diffs (l : list T) : list T :=
    match l with
    | a :: ((b :: _) as r) => (b - a) :: diffs r
    | _ => []
    end.
  Fixpoint mids (l : list T) : list T :=
    match l with
    | a :: ((b :: _) as r) => (half * (b + a)) :: mids r
    | _ => []
    end.
  (* bin_edges: x0 - (x1-x0)/2, midpoints, x_last + (x_last - x_prev)/2 *)
  Definition bin_edges (x : list T) : list T :=
    match x, rev x with
    | x0 :: x1 :: _, xl :: xp :: _ => (x0 - half * (x1 - x0)) :: mids x ++ [xl + half * (xl - xp)]
    | _, _ => []
    end.

  (* ---- pinhole: one data point.  cdf = erf((edge - q)/(sqrt2 sigma)) at every edge ---- *)
  Definition pinhole_column (q_calc cdf : list T) (q sigma nlo nhi : T) : list T :=
    let w := diffs cdf in
    let qhigh := q + nhi * sigma in
    let qlow := q - nlo * sigma in
    let w := map (fun '(qc, x) => if ltb O qc qlow then zero O else if ltb O qhigh qc then zero O else x) (combine q_calc w) in
    let tot := sumL w in
    map (fun x => x / tot) w.

  (* ---- _q_perp_weights(q_edges, qi, w) ---- *)
  Definition absT (x : T) : T := absv O x.
  Definition perp_weights (edges : list T) (qi w : T) : list T :=
    let ulim := sqrtT (qi * qi + w * w) in
    (* the two mask assignments in the order the code makes them: the later one (beyond u_limit) wins *)
    let u := map (fun e => if ltb O ulim e then ulim * ulim - qi * qi
                           else if ltb O e (absT qi) then zero O
                           else e * e - qi * qi) edges in
    map (fun d => d / w) (diffs (map sqrtT u)).

  (* width-only branch as written: whole bins whose centre is in [qi-l, qi+l] *)
  Definition par_weights (q_calc edges : list T) (qi l : T) : list T :=
    map (fun '(qc, de) =>
           let inx := if leb O (qi - l) qc && leb O qc (qi + l) then one O else zero O in
           let absx := if ltb O qi l then (if ltb O qc (absT (qi - l)) then one O else zero O) else zero O in
           (inx + absx) * de / (two * l))
        (combine q_calc (diffs edges)).

  Definition ofnat (n : nat) : T := fold_left (fun a _ => a + one O) (seq 0 n) (zero O).
  (* mixed branch: average of perp_weights at qi + k l / n, k = -n..n *)
  Definition mixed_weights (edges : list T) (qi w l : T) (n : nat) : list T :=
    let shifts := map (fun k => sub O (ofnat k) (ofnat n)) (seq 0 (2 * n + 1)) in   (* -n .. n *)
    let rows := map (fun k => perp_weights edges (qi + k * l / ofnat n) w) shifts in
    let acc := fold_left (fun a r => map (fun '(x, y) => x + y) (combine a r)) rows (map (fun _ => zero O) (diffs edges)) in
    map (fun x => x / ofnat (2 * n + 1)) acc.

  (* perfect resolution: weight one on the FIRST entry of q_calc equal to the data q (merged data repeat q values) *)
  Fixpoint first_match (q_calc : list T) (qi : T) : list T :=
    match q_calc with
    | [] => []
    | qc :: r => if eqb O qc qi then one O :: map (fun _ => zero O) r else zero O :: first_match r qi
    end.

  Definition slit_column (q_calc : list T) (qi w l : T) (n : nat) : list T :=
    let edges := bin_edges q_calc in
    if eqb O w (zero O) && eqb O l (zero O) then first_match q_calc qi
    else if eqb O l (zero O) then perp_weights edges qi w
    else if eqb O w (zero O) then par_weights q_calc edges qi l
    else mixed_weights edges qi w l n.

  (* apply: dot(theory, column) *)
  Definition apply (theory column : list T) : T := sumL (map (fun '(t, w) => t * w) (combine theory column)).
End Model.
