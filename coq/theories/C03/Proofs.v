From Coq Require Import List Bool Arith Reals Lra Lia.
Import ListNotations.
From SM Require Import Base.Num C03.Model.
Open Scope R_scope.

Notation sumLR := (sumL ROps).
Notation sumTR := (sumT ROps).

Lemma sumL_acc l a : fold_left Rplus l a = a + sumTR l.
Proof. revert a; induction l as [|x l IH]; intros a; simpl; [ring|]. rewrite IH. cbn [add ROps]. ring. Qed.
Lemma sumL_sumT l : sumLR l = sumTR l.
Proof. unfold sumL. cbn [add zero ROps]. rewrite sumL_acc. ring. Qed.

(* ---- normalisation ---- *)
Lemma sumT_map_div l t : sumTR (map (fun x => x / t) l) = sumTR l / t.
Proof. induction l as [|x l IH]; simpl; cbn [add zero ROps]; [unfold Rdiv; ring|]. rewrite IH. unfold Rdiv. ring. Qed.

Theorem normalised_sum1 l : sumLR l <> 0 -> sumLR (map (fun x => x / sumLR l) l) = 1.
Proof. intros H. rewrite (sumL_sumT (map _ _)), sumT_map_div, <- sumL_sumT. field. exact H. Qed.

Theorem normalised_nonneg l : Forall (fun x => 0 <= x) l -> 0 < sumLR l ->
  Forall (fun x => 0 <= x) (map (fun x => x / sumLR l) l).
Proof.
  intros H Hp. apply Forall_forall. intros y Hy. apply in_map_iff in Hy. destruct Hy as [x [<- Hx]].
  rewrite Forall_forall in H. specialize (H x Hx). unfold Rdiv. apply Rmult_le_pos; auto.
  left. apply Rinv_0_lt_compat. exact Hp.
Qed.

(* ---- telescoping ---- *)
Lemma sumT_diffs_cons l : forall a, sumTR (diffs ROps (a :: l)) = last l a - a.
Proof.
  induction l as [|b l IH]; intros a; [change (0 = a - a); ring|].
  change (diffs ROps (a :: b :: l)) with ((b - a) :: diffs ROps (b :: l)).
  change (sumTR ((b - a) :: diffs ROps (b :: l))) with ((b - a) + sumTR (diffs ROps (b :: l))).
  rewrite IH. assert (Hl : last (b :: l) a = last l b) by (clear; revert b; induction l as [|c l IHl]; intros b; [reflexivity | simpl in *; destruct l; auto]).
  rewrite Hl. ring.
Qed.

Lemma last_map {A B} (f : A -> B) l d : last (map f l) (f d) = f (last l d).
Proof. induction l as [|x l IH]; simpl; auto. destruct l; simpl in *; auto. Qed.

Theorem diffs_telescope a l : sumLR (diffs ROps (a :: l)) = last l a - a.
Proof. rewrite sumL_sumT. apply sumT_diffs_cons. Qed.

Lemma diffs_nonneg l : (forall i, (S i < length l)%nat -> nth i l 0 <= nth (S i) l 0) ->
  Forall (fun x => 0 <= x) (diffs ROps l).
Proof.
  induction l as [|a l IH]; intros H; [constructor|].
  destruct l as [|b l]; [constructor|]. cbn [diffs]. constructor.
  - cbn [sub ROps]. specialize (H 0%nat). simpl in H. assert (a <= b) by (apply H; lia). lra.
  - apply IH. intros i Hi. apply (H (S i)). simpl in *. lia.
Qed.

(* ---- pinhole: masked cdf differences, normalised ---- *)
Theorem pinhole_column_sum1 q_calc cdf q sigma nlo nhi :
  let w := map (fun '(qc, x) => if ltb ROps qc (q - nlo * sigma) then 0 else if ltb ROps (q + nhi * sigma) qc then 0 else x)
               (combine q_calc (diffs ROps cdf)) in
  sumLR w <> 0 -> sumLR (pinhole_column ROps q_calc cdf q sigma nlo nhi) = 1.
Proof. intros w H. unfold pinhole_column. cbn [add sub mul zero ROps]. fold w. apply normalised_sum1. exact H. Qed.

Theorem pinhole_column_nonneg q_calc cdf q sigma nlo nhi :
  (forall i, (S i < length cdf)%nat -> nth i cdf 0 <= nth (S i) cdf 0) ->
  let w := map (fun '(qc, x) => if ltb ROps qc (q - nlo * sigma) then 0 else if ltb ROps (q + nhi * sigma) qc then 0 else x)
               (combine q_calc (diffs ROps cdf)) in
  0 < sumLR w -> Forall (fun x => 0 <= x) (pinhole_column ROps q_calc cdf q sigma nlo nhi).
Proof.
  intros Hm w Hp. unfold pinhole_column. cbn [add sub mul zero ROps]. fold w. apply normalised_nonneg; auto.
  unfold w. apply Forall_forall. intros y Hy. apply in_map_iff in Hy. destruct Hy as [[qc x] [<- Hin]].
  destruct (ltb ROps qc (q - nlo * sigma)); [lra|]. destruct (ltb ROps (q + nhi * sigma) qc); [lra|].
  apply in_combine_r in Hin. pose proof (diffs_nonneg cdf Hm) as Hd. rewrite Forall_forall in Hd. auto.
Qed.

(* ---- apply is linear; constants pass through when the weights sum to one ---- *)
Lemma apply_affine a b : forall theory col, length theory = length col ->
  apply ROps (map (fun t => a * t + b) theory) col = a * apply ROps theory col + b * sumLR col.
Proof.
  intros theory col Hl. unfold apply. rewrite !sumL_sumT.
  revert col Hl. induction theory as [|t th IH]; intros [|c col] Hl; simpl in *; try lia; cbn [zero add mul ROps]; [ring|].
  change (sumT ROps) with sumTR in *. rewrite (IH col) by lia. cbn [add mul ROps]. ring.
Qed.

Theorem constant_preserved k : forall col n, length col = n -> sumLR col = 1 ->
  apply ROps (repeat k n) col = k.
Proof.
  intros col n Hn Hs.
  assert (E : repeat k n = map (fun t => 0 * t + k) (repeat 0 n)).
  { clear. induction n; simpl; auto. f_equal; [ring|auto]. }
  rewrite E, apply_affine by (rewrite repeat_length; auto). rewrite Hs. ring.
Qed.

(* ---- slit, length-only branch: u-substituted bins telescope to one ---- *)
Definition uval (qi ulim e : R) : R :=
  if ltb ROps ulim e then ulim * ulim - qi * qi else if ltb ROps e (Rabs qi) then 0 else e * e - qi * qi.

Theorem perp_weights_sum1 e0 rest qi w :
  0 < w -> e0 <= Rabs qi -> sqrt (qi * qi + w * w) <= last rest e0 -> rest <> [] ->
  sumLR (perp_weights ROps sqrt (e0 :: rest) qi w) = 1.
Proof.
  intros Hw H0 Hl Hne. unfold perp_weights. cbn [add mul sub div zero absT absv ROps].
  set (ulim := sqrt (qi * qi + w * w)) in *.
  change (fun e : R => if ltb ROps ulim e then ulim * ulim - qi * qi else if ltb ROps e (Rabs qi) then 0 else e * e - qi * qi)
    with (uval qi ulim).
  rewrite sumL_sumT, sumT_map_div, map_map. cbn [map].
  rewrite sumT_diffs_cons. rewrite (last_map (fun e => sqrt (uval qi ulim e))).
  assert (Hpos : 0 <= qi * qi + w * w) by nra.
  assert (Hsq : ulim * ulim = qi * qi + w * w) by (unfold ulim; apply sqrt_sqrt; exact Hpos).
  assert (Habs : Rabs qi * Rabs qi = qi * qi) by (rewrite <- Rabs_mult; apply Rabs_pos_eq; nra).
  assert (Hge : Rabs qi <= ulim).
  { unfold ulim. rewrite <- (sqrt_square (Rabs qi)) by apply Rabs_pos. apply sqrt_le_1_alt. nra. }
  assert (Hfirst : sqrt (uval qi ulim e0) = 0).
  { unfold uval. cbn [ltb ROps]. destruct (Rltb ulim e0) eqn:E2; [apply Rltb_true in E2; lra|].
    destruct (Rltb e0 (Rabs qi)) eqn:E1; [apply sqrt_0|].
    apply Rltb_false in E1. assert (e0 = Rabs qi) by lra. subst e0.
    rewrite Habs. replace (qi * qi - qi * qi) with 0 by ring. apply sqrt_0. }
  assert (Hlast : sqrt (uval qi ulim (last rest e0)) = w).
  { set (el := last rest e0) in *. unfold uval. cbn [ltb ROps].
    destruct (Rltb ulim el) eqn:E2.
    - rewrite Hsq. replace (qi * qi + w * w - qi * qi) with (w * w) by ring. apply sqrt_square. lra.
    - apply Rltb_false in E2. assert (el = ulim) by lra.
      destruct (Rltb el (Rabs qi)) eqn:E1.
      + apply Rltb_true in E1. assert (Rabs qi = ulim) by lra. exfalso.
        assert (Rabs qi * Rabs qi = ulim * ulim) by (now f_equal). rewrite Habs, Hsq in *. nra.
      + rewrite H, Hsq.
        replace (qi * qi + w * w - qi * qi) with (w * w) by ring. apply sqrt_square. lra. }
  rewrite Hlast, Hfirst. field. lra.
Qed.

(* ---- slit, perfect resolution: weight one on the first entry of q_calc equal to the data q ---- *)
Lemma sumT_zeros {A} (r : list A) : sumT ROps (map (fun _ => zero ROps) r) = 0.
Proof. induction r as [|x r IH]; cbn [map sumT]; [reflexivity|]. rewrite IH. cbn [add zero ROps]. ring. Qed.

Lemma apply_zeros theory {A} (r : list A) :
  sumT ROps (map (fun '(t, w) => mul ROps t w) (combine theory (map (fun _ => zero ROps) r))) = 0.
Proof.
  revert r. induction theory as [|t th IH]; intros [|x r]; cbn [map combine sumT]; try reflexivity.
  rewrite IH. cbn [add mul zero ROps]. ring.
Qed.

Theorem first_match_sum1 qi : forall q_calc, In qi q_calc -> sumLR (first_match ROps q_calc qi) = 1.
Proof.
  intros q_calc. rewrite sumL_sumT. induction q_calc as [|qc r IH]; intros Hin; [destruct Hin|].
  cbn [first_match]. destruct (eqb ROps qc qi) eqn:E.
  - cbn [sumT]. rewrite sumT_zeros. cbn [add one ROps]. ring.
  - destruct Hin as [->|Hin]; [assert (Reqb qi qi = true) by (apply Reqb_true; reflexivity); cbn [eqb ROps] in E; congruence|].
    cbn [sumT]. rewrite (IH Hin). cbn [add zero ROps]. ring.
Qed.

Theorem first_match_nonneg qi : forall q_calc, Forall (fun x => 0 <= x) (first_match ROps q_calc qi).
Proof.
  induction q_calc as [|qc r IH]; [constructor|]. cbn [first_match]. destruct (eqb ROps qc qi).
  - constructor; [cbn; lra|]. apply Forall_forall. intros y Hy. apply in_map_iff in Hy. destruct Hy as [_ [<- _]]. cbn; lra.
  - constructor; [cbn; lra|exact IH].
Qed.

(* the unsmeared value, exactly, however often the q value occurs in q_calc *)
Theorem first_match_reproduces (f : R -> R) qi : forall q_calc, In qi q_calc ->
  apply ROps (map f q_calc) (first_match ROps q_calc qi) = f qi.
Proof.
  intros q_calc. unfold apply. rewrite sumL_sumT. induction q_calc as [|qc r IH]; intros Hin; [destruct Hin|].
  cbn [first_match map]. destruct (eqb ROps qc qi) eqn:E.
  - cbn [eqb ROps] in E. apply Reqb_true in E. subst qc. cbn [combine map sumT].
    rewrite (apply_zeros (map f r) r). cbn [add mul one ROps]. ring.
  - destruct Hin as [->|Hin]; [assert (Reqb qi qi = true) by (apply Reqb_true; reflexivity); cbn [eqb ROps] in E; congruence|].
    cbn [combine map sumT]. rewrite (IH Hin). cbn [add mul zero ROps]. ring.
Qed.
