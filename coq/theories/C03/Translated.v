(* C03/Translated.v — the element formulas of resolution.py as regenerated from its current text (Gen/C03_code.v:
   bin_edges, pinhole_resolution, _q_perp_weights and apply_resolution_matrix evaluated symbolically on arrays with
   named axes) are the model's.  Stated for every carrier: the proofs only use the shape of the expressions. *)
From Coq Require Import List Bool.
Import ListNotations.
From SM Require Import Base.Num C03.Model Gen.C03_code.

Section Tr.
  Context {T : Type} (O : Ops T).
  Variable sqrtT : T -> T.
  Variables half two sqrt2 : T.

  (* When the source could not be translated, Gen/C03_code.v says [translated = false] and holds placeholders: the
     premise is then false and [untranslated] closes the goal; every later sentence is written [all: ...] so that it
     is a no-op in that case (the obligations are vacuous and the run says so). *)
  Ltac untranslated Ht := try solve [vm_compute in Ht; discriminate Ht].

  (* consecutive pairs of a list *)
  Fixpoint pairs (l : list T) : list (T * T) :=
    match l with a :: ((b :: _) as r) => (a, b) :: pairs r | _ => [] end.
  Lemma diffs_pairs l : diffs O l = map (fun ab => sub O (snd ab) (fst ab)) (pairs l).
  Proof.
    induction l as [|a l IH]; [reflexivity|]. destruct l as [|b r]; [reflexivity|].
    change (diffs O (a :: b :: r)) with (sub O b a :: diffs O (b :: r)).
    change (pairs (a :: b :: r)) with ((a, b) :: pairs (b :: r)). rewrite IH. reflexivity.
  Qed.
  Lemma mids_pairs l : mids O half l = map (fun ab => mul O half (add O (snd ab) (fst ab))) (pairs l).
  Proof.
    induction l as [|a l IH]; [reflexivity|]. destruct l as [|b r]; [reflexivity|].
    change (mids O half (a :: b :: r)) with (mul O half (add O b a) :: mids O half (b :: r)).
    change (pairs (a :: b :: r)) with ((a, b) :: pairs (b :: r)). rewrite IH. reflexivity.
  Qed.

  (* bin_edges: first edge, the mid points of consecutive pairs, last edge *)
  Theorem code_bin_edges x0 x1 xl xp r r' : translated = true ->
    rev (x0 :: x1 :: r) = xl :: xp :: r' ->
    bin_edges O half (x0 :: x1 :: r) =
    code_edge_first O half x0 x1 :: map (fun ab => code_edge_mid O half (fst ab) (snd ab)) (pairs (x0 :: x1 :: r)) ++ [code_edge_last O half xp xl].
  Proof.
    intros Ht Hr. untranslated Ht.
    all: unfold bin_edges; rewrite Hr; rewrite mids_pairs; reflexivity.
  Qed.

  (* pinhole_resolution, one column: mask the cdf differences, divide by the column sum *)
  Lemma pin_elems q sigma nlo nhi : translated = true -> forall q_calc ps,
    map (fun '(qc, x) => if ltb O qc (sub O q (mul O nlo sigma)) then zero O else if ltb O (add O q (mul O nhi sigma)) qc then zero O else x)
        (combine q_calc (map (fun ab => sub O (snd ab) (fst ab)) ps)) =
    map (fun x => code_pin_elem O (fst x) q sigma nlo nhi (fst (snd x)) (snd (snd x))) (combine q_calc ps).
  Proof.
    intros Ht. untranslated Ht.
    all: induction q_calc as [|qc qs IH]; intros [|[c0 c1] ps]; try reflexivity.
    all: cbn [map combine fst snd]; rewrite IH; f_equal; unfold code_pin_elem.
    all: destruct (ltb O qc _); destruct (ltb O _ qc); reflexivity.
  Qed.

  Theorem code_pinhole_column q_calc cdf q sigma nlo nhi : translated = true ->
    pinhole_column O q_calc cdf q sigma nlo nhi =
    let w := map (fun x => code_pin_elem O (fst x) q sigma nlo nhi (fst (snd x)) (snd (snd x))) (combine q_calc (pairs cdf)) in
    map (fun x => div O x (sumL O w)) w.
  Proof.
    intros Ht. unfold pinhole_column. rewrite diffs_pairs. cbv zeta.
    rewrite (pin_elems q sigma nlo nhi Ht q_calc (pairs cdf)). reflexivity.
  Qed.

  Theorem code_cdf_argument edge q sigma : translated = true ->
    code_cdf_arg O sqrt2 edge q sigma = div O (sub O edge q) (mul O sqrt2 sigma).
  Proof. intros Ht. untranslated Ht. all: reflexivity. Qed.

  (* _q_perp_weights: the difference of the square roots of the clipped u values of consecutive edges, over w *)
  Theorem code_perp_weights edges qi w : translated = true ->
    perp_weights O sqrtT edges qi w = map (fun ab => code_perp_elem O sqrtT qi w (fst ab) (snd ab)) (pairs edges).
  Proof.
    intros Ht. untranslated Ht.
    all: unfold perp_weights; rewrite diffs_pairs, map_map.
    all: induction edges as [|a l IH]; [reflexivity|]; destruct l as [|b r]; [reflexivity|].
    all: change (pairs (a :: b :: r)) with ((a, b) :: pairs (b :: r)); cbn [map fst snd]; rewrite <- IH; reflexivity.
  Qed.

  (* apply_resolution_matrix, one data point: the dot product of the theory with the column *)
  Theorem code_apply_is_model theory column : translated = true ->
    code_apply O theory column = apply O theory column.
  Proof.
    intros Ht. untranslated Ht.
    all: unfold code_apply, apply; f_equal.
    all: generalize column; induction theory as [|t ts IH]; intros [|c cs]; try reflexivity.
    all: cbn [combine map fst snd]; now rewrite IH.
  Qed.
End Tr.
