(* C03/Property.v — the property theorems and nothing else. *)
From Coq Require Import List Reals.
Import ListNotations.
From SM Require Import Base.Num C03.Model C03.Proofs C03.Extend.
Open Scope R_scope.

(* pinhole: for every grid, point and width, the column of the weight matrix is
   non-negative (erf non-decreasing along the edges) and sums to one, as soon as
   some bin inside the (-2.5,+3) sigma window has positive mass *)
Theorem C03_pinhole_sum1 : forall q_calc cdf q sigma nlo nhi,
  let w := map (fun '(qc, x) => if ltb ROps qc (q - nlo * sigma) then 0 else if ltb ROps (q + nhi * sigma) qc then 0 else x)
               (combine q_calc (diffs ROps cdf)) in
  sumL ROps w <> 0 -> sumL ROps (pinhole_column ROps q_calc cdf q sigma nlo nhi) = 1.
Proof. exact pinhole_column_sum1. Qed.
Print Assumptions C03_pinhole_sum1.

Theorem C03_pinhole_nonneg : forall q_calc cdf q sigma nlo nhi,
  (forall i, (S i < length cdf)%nat -> nth i cdf 0 <= nth (S i) cdf 0) ->
  let w := map (fun '(qc, x) => if ltb ROps qc (q - nlo * sigma) then 0 else if ltb ROps (q + nhi * sigma) qc then 0 else x)
               (combine q_calc (diffs ROps cdf)) in
  0 < sumL ROps w -> Forall (fun x => 0 <= x) (pinhole_column ROps q_calc cdf q sigma nlo nhi).
Proof. exact pinhole_column_nonneg. Qed.
Print Assumptions C03_pinhole_nonneg.

(* slit, length only: the u-substituted bins telescope to exactly one whenever
   the calculation grid covers [q, sqrt(q^2 + L^2)] *)
Theorem C03_slit_length_sum1 : forall e0 rest qi w,
  0 < w -> e0 <= Rabs qi -> sqrt (qi * qi + w * w) <= last rest e0 -> rest <> [] ->
  sumL ROps (perp_weights ROps sqrt (e0 :: rest) qi w) = 1.
Proof. exact perp_weights_sum1. Qed.
Print Assumptions C03_slit_length_sum1.

(* smearing is linear: scale and background pass through, a flat intensity is unchanged *)
Theorem C03_affine : forall a b theory col, length theory = length col ->
  apply ROps (map (fun t => a * t + b) theory) col = a * apply ROps theory col + b * sumL ROps col.
Proof. exact apply_affine. Qed.
Print Assumptions C03_affine.

Theorem C03_constant : forall k col n, length col = n -> sumL ROps col = 1 -> apply ROps (repeat k n) col = k.
Proof. exact constant_preserved. Qed.
Print Assumptions C03_constant.

(* ---- the theory is requested at strictly positive |q| values that span every resolution window ----
   Model of the default pinhole calculation grid (pinhole_extend_q, linear_extrapolation, then the low-|q| cut
   and abs of Pinhole1D.__init__; C03/Extend.v), for every data set, widths and extension counts >= 1: before the
   cut the grid starts at or below q_i - 2.5 w_i (+ 2 MINIMUM_RESOLUTION) and ends at or above q_i + 3 w_i
   (- 2 MINIMUM_RESOLUTION) for EVERY data point i, it contains every data point, and after the cut every
   requested value is at least 0.02 min(q) > 0 while every point at or beyond the cutoff is kept. *)
Theorem C03_default_grid_covers : forall minres2, (0 <= minres2)%R ->
  forall (q w : list R) nlo nhi n_low n_high i,
  length q = length w -> (i < length q)%nat -> (1 <= n_low)%nat -> (1 <= n_high)%nat ->
  let g := pinhole_extend ROps minres2 q w nlo nhi n_low n_high in
  (hd 0 g <= nth i q 0 - nlo * nth i w 0 + minres2)%R /\ (nth i q 0 + nhi * nth i w 0 - minres2 <= last g 0)%R.
Proof. exact pinhole_extend_covers. Qed.
Print Assumptions C03_default_grid_covers.

Theorem C03_default_grid_contains_data : forall minres2 (q : list R) q_min q_max n_low n_high x,
  In x q -> In x (lin_extrap ROps minres2 q q_min q_max n_low n_high).
Proof. exact lin_extrap_contains. Qed.
Print Assumptions C03_default_grid_contains_data.

Theorem C03_requested_q_positive : forall cutoff l x, (0 < cutoff)%R ->
  (In x (positive_cut ROps cutoff l) -> (cutoff <= x)%R /\ (0 < x)%R) /\
  ((cutoff <= Rabs x)%R -> In x l -> In (Rabs x) (positive_cut ROps cutoff l)).
Proof. intros cutoff l x Hc. split; [apply positive_cut_positive; exact Hc | apply positive_cut_keeps]. Qed.
Print Assumptions C03_requested_q_positive.

(* slit smearing with perfect resolution (no width, no length): weight one on the FIRST entry of q_calc equal to the
   data q - non-negative, summing to one, and reproducing the unsmeared value exactly, however often the q value
   occurs in q_calc (merged data sets repeat q values) *)
Theorem C03_slit_perfect : forall (f : R -> R) qi q_calc, In qi q_calc ->
  sumL ROps (first_match ROps q_calc qi) = 1 /\
  Forall (fun x => 0 <= x) (first_match ROps q_calc qi) /\
  apply ROps (map f q_calc) (first_match ROps q_calc qi) = f qi.
Proof. intros f qi q_calc H. split; [apply first_match_sum1; exact H|split; [apply first_match_nonneg|apply first_match_reproduces; exact H]]. Qed.
Print Assumptions C03_slit_perfect.
Theorem C03_slit_perfect_is_first_match : forall sqrtT half two q_calc qi n,
  slit_column ROps sqrtT half two q_calc qi 0 0 n = first_match ROps q_calc qi.
Proof. intros. unfold slit_column. cbn [eqb zero ROps]. assert (E : Reqb 0 0 = true) by (apply Reqb_true; reflexivity). rewrite E. reflexivity. Qed.
Print Assumptions C03_slit_perfect_is_first_match.

(* the weights the theorems above speak about are those of the CODE: the element formulas regenerated from the
   current text of sasmodels/resolution.py (Gen/C03_code.v; bin_edges, pinhole_resolution, _q_perp_weights and
   apply_resolution_matrix evaluated on symbolic arrays) are the model's, on the reals and on binary64 alike *)
From SM Require Import Gen.C03_code C03.Translated.
Theorem C03_code_pinhole_column : forall (T : Type) (O : Ops T) q_calc cdf q sigma nlo nhi, translated = true ->
  pinhole_column O q_calc cdf q sigma nlo nhi =
  let w := map (fun x => code_pin_elem O (fst x) q sigma nlo nhi (fst (snd x)) (snd (snd x))) (combine q_calc (pairs cdf)) in
  map (fun x => div O x (sumL O w)) w.
Proof. exact @code_pinhole_column. Qed.
Print Assumptions C03_code_pinhole_column.
Theorem C03_code_bin_edges : forall (T : Type) (O : Ops T) half x0 x1 xl xp r r', translated = true ->
  rev (x0 :: x1 :: r) = xl :: xp :: r' ->
  bin_edges O half (x0 :: x1 :: r) =
  code_edge_first O half x0 x1 :: map (fun ab => code_edge_mid O half (fst ab) (snd ab)) (pairs (x0 :: x1 :: r)) ++ [code_edge_last O half xp xl].
Proof. exact @code_bin_edges. Qed.
Print Assumptions C03_code_bin_edges.
Theorem C03_code_perp_weights : forall (T : Type) (O : Ops T) sqrtT edges qi w, translated = true ->
  perp_weights O sqrtT edges qi w = map (fun ab => code_perp_elem O sqrtT qi w (fst ab) (snd ab)) (pairs edges).
Proof. exact @code_perp_weights. Qed.
Print Assumptions C03_code_perp_weights.
Theorem C03_code_apply : forall (T : Type) (O : Ops T) theory column, translated = true ->
  code_apply O theory column = apply O theory column.
Proof. exact @code_apply_is_model. Qed.
Print Assumptions C03_code_apply.

(* which data sets are smeared at all (DataMixin._interpret_data): a data set in which SOME selected point has a
   positive width gets pinhole smearing - its theory is then requested over every point's window - and an unsmeared data
   set has no positive width; the choice is read from the current direct_model.py on every run (Gen/C03_dispatch.v) *)
From SM Require Import C03.Dispatch Gen.C03_dispatch.
Theorem C03_positive_width_is_smeared : forall (dq : list R) a b w, In w dq -> 0 < w -> dispatch ROps (Some dq) a b = RPinhole.
Proof. exact positive_width_is_smeared. Qed.
Print Assumptions C03_positive_width_is_smeared.
Theorem C03_unsmeared_means_no_positive_width : forall (dq : list R) a b, dispatch ROps (Some dq) a b = RPerfect -> forall w, In w dq -> w <= 0.
Proof. exact unsmeared_means_no_positive_width. Qed.
Print Assumptions C03_unsmeared_means_no_positive_width.
Theorem C03_code_dispatch : dispatch_translated = true -> forall (T : Type) (O : Ops T) dx a b, code_dispatch O dx a b = dispatch O dx a b.
Proof. intros Ht. try solve [vm_compute in Ht; discriminate Ht]. all: reflexivity. Qed.
Print Assumptions C03_code_dispatch.

(* "scale and background pass through": WHERE the flat background enters is read from the current text of
   DataMixin._calc_theory (Gen/C03_theory.v: straight-line reading over the caller's background, the kernel evaluated
   with a given background parameter, and the resolution's apply).  The kernel is asked for background 0 and the
   caller's background is added to the smeared values - so, with the kernel's documented form scale*X + background
   (C01) and a resolution that is a matrix (one weight column per data point), the result is
   scale * (smeared X) + background for EVERY weight matrix: the background is not multiplied by the column sums,
   which differ from one for slit columns at the ends of the grid (C03_affine shows what would happen inside). *)
From SM Require Import Gen.C03_theory.
Theorem C03_code_theory : theory_translated = true -> forall sesans res kern bg,
  code_theory ROps sesans res kern bg = map (fun x => x + (if sesans then 0 else bg)) (res (kern 0)).
Proof.
  intros Ht sesans res kern bg. try solve [vm_compute in Ht; discriminate Ht].
  (* (by [ring] under the map, so that "background + result" for "result + background" keeps the proof) *)
  all: unfold code_theory; cbn [add zero ROps]; apply map_ext; intros x; destruct sesans; ring.
Qed.
Print Assumptions C03_code_theory.
Theorem C03_code_background_after : theory_translated = true -> forall cols X a bg,
  Forall (fun col => length X = length col) cols ->
  code_theory ROps false (fun v => map (apply ROps v) cols) (fun b => map (fun x => a * x + b) X) bg
  = map (fun col => a * apply ROps X col + bg) cols.
Proof.
  intros Ht cols X a bg Hl. rewrite (C03_code_theory Ht). rewrite map_map. apply map_ext_in. intros col Hin.
  rewrite Forall_forall in Hl. rewrite apply_affine by (apply Hl; exact Hin). ring.
Qed.
Print Assumptions C03_code_background_after.
(* sesans data: no background at all *)
Theorem C03_code_sesans_no_background : theory_translated = true -> forall cols X a bg,
  Forall (fun col => length X = length col) cols ->
  code_theory ROps true (fun v => map (apply ROps v) cols) (fun b => map (fun x => a * x + b) X) bg
  = map (fun col => a * apply ROps X col) cols.
Proof.
  intros Ht cols X a bg Hl. rewrite (C03_code_theory Ht). rewrite map_map. apply map_ext_in. intros col Hin.
  rewrite Forall_forall in Hl. rewrite apply_affine by (apply Hl; exact Hin). ring.
Qed.
Print Assumptions C03_code_sesans_no_background.
