(* C08/Model.v — mixtures (sasmodels/mixture.py).
   [part_values]: the index arithmetic of _MixtureParts (par_index / mag_index
   progression, spin block, shared weight vector);
   [combine]: the accumulation loop of MixtureKernel.Iq (after the C08 repair:
   a plain running sum / running product). *)
From Coq Require Import List Arith Bool.
Import ListNotations.
From SM Require Import Base.Num.

Section Model.
  Context {T : Type} (O : Ops T).

  (* one component as the caller supplies it *)
  Record Part := MkPart { p_scale : T; p_pars : list T; p_mag : list T }.

  Definition slice (v : list T) (a b : nat) : list T := firstn (b - a) (skipn a v).

  (* the combined value vector, as make_kernel_args lays it out from the
     combined parameter table:  scale, background, per part ([X_scale]; pars),
     the 4 spin-state values, per part its magnetic triples, then the weights *)
  Definition block (sum : bool) (p : Part) : list T :=
    (if sum then [p_scale p] else []) ++ p_pars p.
  Definition head (sum : bool) (scale bg : T) (parts : list Part) (spin : list T) : list T :=
    [scale; bg] ++ concat (map (block sum) parts) ++ spin ++ concat (map p_mag parts).
  Definition values (sum : bool) (scale bg : T) (parts : list Part) (spin weights : list T) : list T :=
    head sum scale bg parts spin ++ weights.

  (* ---- what _MixtureParts computes from lengths only ---- *)
  Definition blen (sum : bool) (npars : nat) : nat := npars + (if sum then 1 else 0).
  Fixpoint par_index (sum : bool) (np : list nat) (k : nat) : nat :=
    match k, np with
    | S k', n :: r => blen sum n + par_index sum r k'
    | _, _ => 2
    end.
  Fixpoint mag_offset (nm : list nat) (k : nat) : nat :=
    match k, nm with
    | S k', n :: r => n + mag_offset r k'
    | _, _ => 0
    end.
  Definition total (sum : bool) (np : list nat) : nat := fold_right (fun n a => blen sum n + a) 0 np.

  (* np: npars of each part; nm: length of each part's magnetic block (3*nmagnetic);
     nvalues: where the weights start (ParameterTable.nvalues); nw: num_weights *)
  Definition part_values (sum : bool) (np nm : list nat) (nvalues nw : nat)
             (v : list T) (k : nat) : list T :=
    let pi := par_index sum np k in
    let n := nth k np 0 in
    let diff := if sum then 1 else 0 in
    let spin_index := total sum np + 2 in
    let mi := spin_index + 4 + mag_offset nm k in
    let m := nth k nm 0 in
    [ (if sum then nth pi v (zero O) else one O); zero O ]
    ++ slice v (pi + diff) (pi + n + diff)
    ++ (if 0 <? m then slice v spin_index (spin_index + 4) ++ slice v mi (mi + m) else [])
    ++ slice v nvalues (nvalues + 2 * nw).

  (* ---- accumulation ---- *)
  Definition combine (sum : bool) (scale bg : T) (results : list T) : T :=
    let total := if sum then fold_left (add O) results (zero O)
                 else fold_left (mul O) results (one O) in
    add O (mul O scale total) bg.

  (* the accumulator as it was before the repair, kept for the refutation:
       if np.all(total) == 0.0: total = result  else: total *= result
     on a single q value: replace whenever the running value is zero *)
  Definition combine_prod_old (scale bg : T) (results : list T) : T :=
    add O (mul O scale (fold_left (fun t r => if eqb O t (zero O) then r else mul O t r) results (zero O))) bg.
End Model.
