(* C08/Exec.v — binary64 evaluation of the mixture combination for the case files *)
From Coq Require Import List Arith Bool PrimFloat.
Import ListNotations.
From SM Require Import Base.Num C08.Model.

Record Case := MkCase {
  c_sum : bool; c_scale : float; c_bg : float;
  c_pscales : list float;          (* X_scale_k (1 for products) *)
  c_parts : list (list float);     (* I_k over q: part k alone, scale 1, background 0 *)
  c_expect : list float            (* the mixture's own output *)
}.

Definition column (c : Case) (j : nat) : list float :=
  map (fun '(s, r) => PrimFloat.mul s (nth j r nan)) (List.combine (c_pscales c) (c_parts c)).

Definition check_case (rel : float) (c : Case) : list nat :=
  let nq := length (c_expect c) in
  let model j := Model.combine FOps (c_sum c) (c_scale c) (c_bg c) (column c j) in
  let scale j := Model.combine FOps (c_sum c) (PrimFloat.abs (c_scale c)) (PrimFloat.abs (c_bg c))
                         (map PrimFloat.abs (column c j)) in
  failing (map (fun j => closeb rel 0x1p-1000 (scale j) (model j) (nth j (c_expect c) nan)) (seq 0 nq)).

Definition check_cases (rel : float) (l : list Case) : list (list nat) := map (check_case rel) l.
